#!/bin/sh
# Offline set-up: nothing is built; verify that the tools and every specification module load.
set -e
cd "$(dirname "$0")"
command -v java >/dev/null
/venv/bin/python -c "import sys; sys.path.insert(0, '/repo/src'); import pygaps, numpy, pandas, scipy" >/dev/null
mkdir -p evidence replays
# every module named in spec/REGISTERED (those the registered checks use) must parse
for m in $(cat spec/REGISTERED); do
  out=$(cd spec && java -cp /opt/veriftools/tla/tla2tools.jar:/opt/veriftools/tla/CommunityModules-deps.jar tla2sany.SANY "$m.tla" 2>&1) || { echo "$out"; echo "SANY failed on $m"; exit 1; }
done
tools/selftest_libs.py 3000
python3 -c "import json; json.load(open('known_findings.json')); json.load(open('MANIFEST.json'))"
echo "setup ok"
