#!/bin/sh
# tools/accept.sh CNN [tier]  - acceptance run of one check on the unchanged tree: seeds 0..3, evidence schema validation
cd "$(dirname "$0")/.."
id=$1; tier=${2:-quick}; rc_all=0
for seed in 0 1 2 3; do
  start=$(date +%s)
  VERIF_SEED=$seed ./check "$id" --tier "$tier" > /tmp/accept.$id.$seed.log 2>&1; rc=$?
  end=$(date +%s)
  echo "seed=$seed exit=$rc wall=$((end-start))s  $(grep -c '^KNOWN-FINDING' /tmp/accept.$id.$seed.log) known-finding line(s)  $(tail -1 /tmp/accept.$id.$seed.log | cut -c1-160)"
  [ $rc -ne 0 ] && { rc_all=1; grep -A1 '^VIOLATION\|MACHINERY' /tmp/accept.$id.$seed.log | head -12 | cut -c1-400; }
  python3-vt -c "import json,jsonschema; jsonschema.validate(json.load(open('evidence/$id.json')), json.load(open('/root/.vp/EVIDENCE.schema.json')))" || { echo "EVIDENCE INVALID"; rc_all=1; }
done
exit $rc_all
