#!/venv/bin/python
"""Self-test of spec/DecFloat.tla and spec/Rat.tla: TLC-evaluated operations against Python."""
import os, random, sys
from fractions import Fraction
sys.path.insert(0, os.path.join(os.path.dirname(os.path.abspath(__file__)), ".."))
from harness import tlc
from harness.encode import dec_enc, dec_dec, rat_enc, rat_dec
rng = random.Random(7)
N = int(sys.argv[1]) if len(sys.argv) > 1 else 4000
recs, exp = [], []
def rf():
    return rng.choice([-1, 1]) * rng.uniform(1, 10) * 10 ** rng.randint(-12, 12)
for i in range(N):
    a, b = rf(), rf()
    if rng.random() < 0.3:
        b = a * (1 + rng.uniform(-1, 1) * 10 ** rng.randint(-9, -1))
    if rng.random() < 0.05:
        a = 0.0
    for op, f in (("dadd", lambda: a + b), ("dsub", lambda: a - b), ("dmul", lambda: a * b), ("ddiv", lambda: a / b), ("dleq", None), ("dclose6", None)):
        recs.append({"op": op, "a": dec_enc(a), "b": dec_enc(b)})
        exp.append((op, a, b, f() if f else None))
for i in range(N // 4):
    a = Fraction(rng.randint(-200, 200), rng.randint(1, 200)); b = Fraction(rng.randint(-200, 200) or 1, rng.randint(1, 200))
    for op, f in (("radd", lambda: a + b), ("rmul", lambda: a * b), ("rdiv", lambda: a / b), ("rleq", lambda: Fraction(int(a <= b)))):
        recs.append({"op": op, "a": rat_enc(a), "b": rat_enc(b)})
        exp.append((op, a, b, f()))
ans = tlc.oracle("LibSelfTest", recs)
bad = 0
worst = 0.0
for (op, a, b, e), r in zip(exp, ans):
    if op.startswith("r"):
        got = Fraction(r[0], r[1]) if op != "rleq" else Fraction(r[0])
        if got != e:
            bad += 1; print("RAT MISMATCH", op, a, b, got, e)
        continue
    ea, eb = dec_dec(dec_enc(a)), dec_dec(dec_enc(b))
    if op == "dleq":
        if abs(ea - eb) > 1e-6 * max(abs(ea), abs(eb)) and bool(r[0]) != (ea <= eb):
            bad += 1; print("LEQ MISMATCH", a, b, r)
        continue
    if op == "dclose6":
        rel = abs(ea - eb) / max(abs(ea), abs(eb), 1e-300)
        if (rel < 0.9e-6 and not r[0]) or (rel > 1.1e-6 and r[0]):
            bad += 1; print("CLOSE MISMATCH", a, b, rel, r)
        continue
    true = {"dadd": ea + eb, "dsub": ea - eb, "dmul": ea * eb, "ddiv": (ea / eb) if eb else 0}[op]
    got = dec_dec(r)
    scale = max(abs(ea), abs(eb)) if op in ("dadd", "dsub") else abs(true)
    err = abs(got - true) / scale if scale else abs(got)
    worst = max(worst, err)
    if err > 5e-7:
        bad += 1; print("DEC MISMATCH", op, a, b, got, true, err)
print(f"lib self-test: {len(recs)} TLC-evaluated operations, worst relative error {worst:.2e}, mismatches {bad}")
sys.exit(1 if bad else 0)
