#!/usr/bin/env python3
"""tools/regress_seeds.py <ids...>  - every kept seed of the given properties must still be caught (exit 1) by at least one of the
checks its meta.json names as catching it (quick tier). Prints one line per seed; exit 1 if a seed is no longer caught."""
import glob, json, os, re, subprocess, sys
root = os.path.join(os.path.dirname(os.path.abspath(__file__)), "..")
bad = 0
for pid in sys.argv[1:]:
    for d in sorted(glob.glob(os.path.join(root, "seeded", pid + "-*"))):
        meta = json.load(open(os.path.join(d, "meta.json")))
        text = meta.get("checks_run", "")
        # checks recorded with "exit=1" / "exit 1" next to their id; default: the property's own check
        ids = re.findall(r"\b([CX]\d\d)\b[^;.]*?exit[ =]1", text) or [pid]
        ids = list(dict.fromkeys(ids))
        caught = False
        for cid in ids:
            out = subprocess.run([os.path.join(root, "tools", "try_seed.sh"), os.path.join(d, "patch.diff"), "quick", cid], capture_output=True, text=True).stdout
            if f"== {cid} exit=1" in out:
                caught = True
                break
        print(("ok   " if caught else "LOST ") + os.path.basename(d) + " via " + ",".join(ids), flush=True)
        bad += not caught
sys.exit(1 if bad else 0)
