#!/bin/sh
# tools/eval_seeds.sh CNN [extra check ids]  - confirm /tmp/mut/CNN.out/{1,2,3} and run the check(s) against each
id=$1; shift
for n in 1 2 3; do
  d=/tmp/mut/$id.out/$n; [ -f $d/patch.diff ] || continue
  echo "##### $id seed $n: $(python3 -c "import json;print(json.load(open('$d/meta.json'))['summary'][:140])")"
  tools/confirm_seed.sh $d 2>&1 | grep -E "stable baseline|^PASS|^FAIL|APPLY" | tr '\n' ' '; echo
  tools/try_seed.sh $d/patch.diff quick $id "$@" | grep -E "exit=|observed|wrong|clause" | head -4 | cut -c1-260
done
