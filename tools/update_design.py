#!/usr/bin/env python3
"""Regenerate the generated parts of DESIGN.md section 10 (between <!-- gen:NAME --> markers)."""
import json, os, re, subprocess
here = os.path.dirname(os.path.abspath(__file__)); root = os.path.join(here, "..")
p = os.path.join(root, "DESIGN.md"); s = open(p).read()
def put(name, text):
    global s
    a, b = f"<!-- gen:{name} -->", f"<!-- /gen:{name} -->"
    if a not in s:
        raise SystemExit("marker missing: " + name)
    s = s[:s.index(a) + len(a)] + "\n" + text.strip() + "\n" + s[s.index(b):]
seed = subprocess.run(["python3", os.path.join(here, "seed_table.py")], capture_output=True, text=True).stdout
put("seeds", seed)
man = json.load(open(os.path.join(root, "MANIFEST.json")))
rows = ["| id | level | evidence of the last committed quick run (states / transitions / traces or evaluations / distinct) | technique |", "|---|---|---|---|"]
for c in man["checks"]:
    ev = {}
    try:
        ev = json.load(open(os.path.join(root, "evidence", c["property_id"] + ".json")))["coverage"]
    except Exception:
        pass
    nums = f"{ev.get('states','-')} / {ev.get('transitions','-')} / {ev.get('traces_validated_against_impl', ev.get('evaluations','-'))} / {ev.get('distinct_nontrivial','-')}"
    rows.append(f"| {c['property_id']} | {c['level_claimed']['category']} | {nums} | {c['technique'][:260]} |")
put("checks", "\n".join(rows))
kf = json.load(open(os.path.join(root, "known_findings.json")))
put("counts", f"{len(kf['fixed'])} repairs (`fix:` commits) and {len(kf['findings'])} known findings are recorded in `known_findings.json`; "
    f"{len(man['checks'])} properties are claimed, {len(man.get('not_applicable', []))} are listed as not applicable.")
frows = ["| id | property | what fails | matched on |", "|---|---|---|---|"]
for f in kf["findings"]:
    frows.append(f"| `{f['id']}` | {f['property']} | {f['what'][:400]} | `{json.dumps(f['match'])[:200]}` |")
put("findings", "\n".join(frows))
open(p, "w").write(s)
print("DESIGN.md regenerated")
