#!/usr/bin/env python3
"""Print the detection matrix of /verif/seeded as markdown (for DESIGN.md section 10.5)."""
import json, os, glob
root = os.path.join(os.path.dirname(os.path.abspath(__file__)), "..", "seeded")
rows = []
for d in sorted(glob.glob(os.path.join(root, "*"))):
    m = json.load(open(os.path.join(d, "meta.json")))
    name = os.path.basename(d)
    first_missed = "first missed" in m.get("checks_run", "")
    rows.append((name, m.get("summary", "").replace("|", "/")[:160], m.get("needs", "").replace("|", "/")[:140], m.get("checks_run", "").replace("|", "/"), first_missed))
print(f"{len(rows)} seeded changes kept; {sum(r[4] for r in rows)} of them were missed at first and are caught after the strengthening named in the last column.\n")
print("| seed | change | needs | outcome |")
print("|---|---|---|---|")
for r in rows:
    print(f"| `{r[0]}` | {r[1]} | {r[2]} | {r[3]} |")
