#!/usr/bin/env python3
"""Regenerate MANIFEST.json from tools/manifest_src.py (one place to edit)."""
import json, os, sys
here = os.path.dirname(os.path.abspath(__file__))
sys.path.insert(0, here)
import manifest_src as m
checks = []
for pid, c in sorted(m.CHECKS.items()):
    checks.append({
        "property_id": pid,
        "quick_cmd": f"./check {pid} --tier quick",
        "thorough_cmd": f"./check {pid} --tier thorough",
        "evidence_file": f"/verif/evidence/{pid}.json",
        "replay_cmd_template": f"./check {pid} --replay {{path}}",
        "engine": "tlc",
        "level_claimed": {"category": c["level"], "text": c["text"], "design_ref": c.get("design_ref", f"DESIGN.md section 4, {pid}")},
        "level_note": c["note"],
        "technique": c["technique"],
    })
ids = [json.loads(l)["id"] for l in open(os.path.join(here, "..", "properties.jsonl"))]
na = [{"property_id": i, "reason": m.NOT_APPLICABLE.get(i, "check not built yet in this round (work in progress; see DESIGN.md section 9)")} for i in ids if i not in m.CHECKS]
man = {
    "version": 1,
    "setup_cmd": m.SETUP,
    "hooks": m.HOOKS,
    "engines": m.ENGINES,
    "checks": checks,
    "notes": m.NOTES,
    "not_applicable": na,
}
json.dump(man, open(os.path.join(here, "..", "MANIFEST.json"), "w"), indent=1)
print(f"{len(checks)} checks, {len(na)} not applicable")
