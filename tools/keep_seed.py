#!/usr/bin/env python3
"""tools/keep_seed.py <src dir with patch.diff demo.py meta.json> <seed name> <caught_by text>
Copies a confirmed seeded change into /verif/seeded/<name>/ and records what the lead ran."""
import json, os, shutil, sys
src, name, caught = sys.argv[1], sys.argv[2], sys.argv[3]
dst = os.path.join(os.path.dirname(os.path.abspath(__file__)), "..", "seeded", name)
os.makedirs(dst, exist_ok=True)
for f in ("patch.diff", "demo.py"):
    shutil.copy(os.path.join(src, f), os.path.join(dst, f))
meta = json.load(open(os.path.join(src, "meta.json")))
meta["confirmed_by_lead"] = ("tools/confirm_seed.sh: patch applies to /repo HEAD in a scratch worktree; pinned suite 514/514 still passing; "
                             "demo.py PASS on the unchanged tree, FAIL on the patched tree")
meta["checks_run"] = caught
json.dump(meta, open(os.path.join(dst, "meta.json"), "w"), indent=1)
print("kept", name)
