#!/bin/sh
# tools/confirm_seed.sh <dir with patch.diff demo.py>  - confirm a seeded change: applies, passes the pinned suite, demo PASS on clean / FAIL on patched
d=$(readlink -f "$1")
wt=$(mktemp -d /tmp/confwt.XXXXXX); rmdir "$wt"
git -C /repo worktree add -q "$wt" HEAD || exit 2
cp /repo/src/pygaps/_version.py "$wt/src/pygaps/"
git -C "$wt" apply "$d/patch.diff" || { echo "PATCH DOES NOT APPLY"; git -C /repo worktree remove --force "$wt"; exit 2; }
echo "-- baseline on patched tree:"; python3 "$(dirname "$0")/baseline.py" "$wt" | tail -1
echo "-- demo on clean tree:"; (cd /tmp && PYTHONPATH=/repo/src timeout 600 /venv/bin/python "$d/demo.py" 2>&1 | tail -2; echo "exit=$?")
echo "-- demo on patched tree:"; (cd /tmp && PYTHONPATH="$wt/src" timeout 600 /venv/bin/python "$d/demo.py" 2>&1 | tail -2; echo "exit=$?")
git -C /repo worktree remove --force "$wt"
