#!/usr/bin/env python3
"""Run the repository's pinned test suite (guard off) and compare with /root/.vp/BASELINE.json.
usage: tools/baseline.py [repo_dir]   -> exit 0 iff every stable-pass test still passes."""
import ast, json, os, subprocess, sys, tempfile
import xml.etree.ElementTree as ET
repo = sys.argv[1] if len(sys.argv) > 1 else "/repo"
base = json.load(open("/root/.vp/BASELINE.json"))
stable = base["stable_pass"]
if isinstance(stable, str):
    stable = ast.literal_eval(stable)
fd, xml = tempfile.mkstemp(suffix=".xml"); os.close(fd)
env = dict(os.environ); env.pop("PYGAPS_VERIF", None)
if repo != "/repo":
    env["PYTHONPATH"] = os.path.join(repo, "src")
cmd = f"cd {repo} && /venv/bin/python -m pytest -ra -q -p no:cacheprovider --timeout=900 --continue-on-collection-errors -n 8 --dist loadfile --junitxml={xml}"
p = subprocess.run(cmd, shell=True, env=env, capture_output=True, text=True)
passed = set()
for tc in ET.parse(xml).getroot().iter("testcase"):
    if not any(c.tag in ("failure", "error", "skipped") for c in tc):
        passed.add(f"{tc.get('classname')}::{tc.get('name')}")
os.unlink(xml)
missing = [t for t in stable if t not in passed]
print(p.stdout.strip().splitlines()[-1] if p.stdout.strip() else p.stderr[-500:])
print(f"stable baseline tests: {len(stable)}, still passing: {len(stable) - len(missing)}, newly passing: {len(passed - set(stable))}")
for t in missing[:30]:
    print("  REGRESSED", t)
sys.exit(1 if missing else 0)
