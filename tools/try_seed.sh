#!/bin/sh
# tools/try_seed.sh <patch.diff> <tier> <property id>...   - run checks against a scratch worktree of /repo with the patch applied
# (evidence/replays of these runs go to a scratch directory, never into /verif/evidence)
set -u
patch=$(readlink -f "$1"); tier=$2; shift 2
wt=$(mktemp -d /tmp/seedwt.XXXXXX); rmdir "$wt"
git -C /repo worktree add -q "$wt" HEAD || exit 2
cp /repo/src/pygaps/_version.py "$wt/src/pygaps/"
if ! git -C "$wt" apply "$patch"; then echo "PATCH DOES NOT APPLY"; git -C /repo worktree remove --force "$wt"; exit 2; fi
out=$(mktemp -d /tmp/seedout.XXXXXX)
cd "$(dirname "$0")/.."
for id in "$@"; do
  VERIF_REPO="$wt" VERIF_EVIDENCE_DIR="$out" VERIF_REPLAY_DIR="$out" ./check "$id" --tier "$tier" > "$out/$id.log" 2>&1
  rc=$?
  echo "== $id exit=$rc  $(grep -c '^VIOLATION' "$out/$id.log") violation line(s)"
  grep -A1 '^VIOLATION' "$out/$id.log" | grep -v '^--' | grep -v '^VIOLATION' | head -3 | cut -c1-300
  tail -1 "$out/$id.log" | cut -c1-200
done
git -C /repo worktree remove --force "$wt"
rm -rf "$out"
