#!/bin/sh
# tools/run_selftests.sh CNN [tier] - every selftest/CNN/*.diff and seeded/*/patch.diff for CNN must be caught (exit 1)
cd "$(dirname "$0")/.."
id=$1; tier=${2:-quick}
for d in selftest/$id/*.diff seeded/$id-*/patch.diff; do
  [ -f "$d" ] || continue
  echo "### $d"
  tools/try_seed.sh "$d" "$tier" "$id" | head -6
done
