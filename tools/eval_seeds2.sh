#!/bin/sh
# tools/eval_seeds2.sh <outdir prefix e.g. C03b> <check ids...>
p=$1; shift
for n in 1 2 3; do
  d=/tmp/mut/$p.out/$n; [ -f $d/patch.diff ] || continue
  echo "##### $p seed $n: $(python3 -c "import json;print(json.load(open('$d/meta.json'))['summary'][:140])")"
  tools/confirm_seed.sh $d 2>&1 | grep -E "stable baseline|^PASS|^FAIL|APPLY" | tr '\n' ' '; echo
  tools/try_seed.sh $d/patch.diff quick "$@" | grep -E "exit=" 
done
