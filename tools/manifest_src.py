SETUP = "./setup.sh"
HOOKS = {
    "guard": "PYGAPS_VERIF",
    "enable": "no in-source hooks exist: every observation point is reached from outside (public attributes, module attributes interposed by the harness); the guard name is reserved",
    "baseline_off_cmd": "cd /repo && /venv/bin/python -m pytest -ra -q -p no:cacheprovider --timeout=900 --continue-on-collection-errors",
    "source_commits": [],
    "add_only": True,
}
ENGINES = [
    {"name": "tlc", "path": "/usr/local/bin/tlc", "serves_properties": [], "kind_free_text": "TLC 1.8 explicit-state model checker (exhaustive runs of spec/*MC.tla, -simulate behaviours, and JSON batch step-oracles spec/*Oracle.tla)"},
]
NOTES = ("Model-based verification with explicit TLA+ specifications under /verif/spec, checked with TLC and bound to the code by "
         "conformance drivers under /verif/harness (step oracle / trace validation / TLC-enumerated scenarios). See DESIGN.md. "
         "Set VERIF_REPO=<dir> to run the checks against another checkout (default /repo).")
NOT_APPLICABLE = {}
CHECKS = {
    "C01": {
        "level": "model_checking",
        "technique": "TLA+ symbolic unit algebra (spec/Units.tla) model-checked exhaustively by TLC (UnitsMC: 14 312 states, all paths) + TLC step oracle (UnitsOracle) validating every ordered pair / degenerate argument pattern executed on the real c_pressure/c_loading/c_material/c_temperature",
        "text": "TLC proves on the finite representation graph that the implementation-shaped conversion tables equal the SI/physical definitions on every path (identity, inverse, composition); every edge of that graph, and every missing/unknown-argument pattern, is then executed on the real functions with scalar/0-d/1-d/Series values and validated against the outcomes the specification allows (monomials evaluated to 1e-9), and the unit tables are audited against SI constants.",
        "note": "Trusted: the Canon definitions in spec/Units.tla, reference_constants.json (SI/CODATA, STP 22413.969 cm3/mol), the adsorbate/material property methods as the meaning of psat/M/densities (their consistency is C20). Data independence is sampled over 4 container kinds and 6 magnitudes, not proved.",
    },
    "C02": {
        "level": "model_checking",
        "technique": "TLA+ state machine of permanent conversions (spec/IsoConvert.tla: prescriptive Judge + implementation-shaped ImplStep) model-checked exhaustively by TLC over all histories (IsoConvertMC), bound to the code by a TLC step oracle over exhaustive single steps on real PointIsotherms and by replay of TLC -simulate behaviours",
        "text": "TLC explores every conversion history of the label/monomial abstraction (all label states of the factorised space, 327 operations each incl. omitted/unknown arguments) and checks Valid, Consistent (data = original converted directly), RoundTrip and that each implementation step is prescriptively allowed; every (label state, operation) step is then executed on a real PointIsotherm and judged by the TLC oracle from the actual pre-state (labels, outcome, refusal rights, data monomials evaluated to 1e-9, auxiliary columns/metadata untouched, constructor re-validation); TLC-generated and seeded 12-step histories are replayed and returned to the start representation.",
        "note": "Trusted: Canon definitions of spec/Units.tla; the constructor's acceptance test as transcribed in IsoValid (also run literally); data independence sampled over 3 data sets; quick tier visits a seeded 4.5% slice of the 169 290 loading x material single steps (thorough: all).",
    },
    "C03": {
        "level": "model_checking",
        "technique": "TLA+ accessor-pipeline model (spec/IsoAccess.tla: prescriptive 'convert a copy then read' via IsoConvert, descriptive ImplAccess per accessor) model-checked by TLC over accessor x stored representation x argument pattern (IsoAccessMC), TLC step oracle on real accessor calls of both isotherm classes, TLC-computed scenario tables (spec/IsoData.tla) for branch guessing, selection and exact rational interpolation",
        "text": "TLC shows at design level that each accessor's conversion pipeline equals permanent conversion of a copy on the whole stored x requested product except in one recorded family; every sampled real call (10 accessors, covering stored representations, omitted/valid/wrong-kind/unknown arguments) is judged against the allowed input/output monomials and, for point isotherms, against the literally converted copy; branch guessing is replayed for every pressure sequence up to length 4-5 under 14 construction routes/labellings, selection for every branch x limit pair, interpolation against exact rationals.",
        "note": "Trusted: Canon definitions; native (argument-less) reads of a fresh isotherm as the meaning of 'read natively'; boundary-equal limit points unconstrained; either leading-maximum reading accepted. One known finding (fraction loading + material argument), matched only when the observed numbers equal the pipeline model's prediction.",
    },
    "C04": {
        "level": "model_checking",
        "technique": "TLA+ cache state machine (spec/IsoCache.tla) model-checked exhaustively by TLC (all histories over the query alphabet and conversions: HistoryIndependent, NeverStale); behaviours generated by TLC -simulate and all ordered query pairs replayed on real PointIsotherms with each step compared to a fresh equal object and to the specification's FreshOutcome; breadth of analyses/exports validated as observation traces (spec/PureTrace.tla)",
        "text": "TLC explores every history of loading_at / pressure_at / spreading_pressure_at (branch x interpolation kind x fill x query-point class) and conversions on the implementation-shaped cache model and checks that the outcome class always equals the fresh-object outcome and that no cached interpolator outlives its data; the same histories (TLC-simulated behaviours, ordered pairs, pairs with a conversion in between) are executed on the real object: outcome class and value must equal those of a freshly built equal isotherm and the specification's table, and the observable state (id, labels, data, metadata, adsorbate/material properties) must not move.",
        "note": "Trusted: projection of the observable state (harness/iso_common.snapshot + iso_id); fresh object = constructor(to_dict(), data copy). Histories longer than the TLC-simulated depth 10 are covered by the model only (the cache state space is finite and explored completely).",
    },
    "C05": {
        "level": "model_checking",
        "technique": "TLA+ content model with fixed-point numbers (spec/Identity.tla) explored by TLC over edit / reroute / read histories (IdentityMC); TLC enumerates the scenario table (base contents x minimal mutations x construction routes) and judges id-equality <=> content-equality on all pairs of objects materialised on the real classes (IdentityOracle), incl. other interpreter processes with another PYTHONHASHSEED and reads in between",
        "text": "Every enumerated content is built on the real classes from the spec's own record by every applicable route (lists, tuples, arrays, DataFrames with default/shifted/string/reversed index, int or float literals, branch as ints/bools/column, from_isotherm, JSON parse, dict order, adsorbate spelling, another process), its iso_id is recorded before and after read-only calls, and TLC decides for every pair whether equality of identifiers coincides with equality of content, naming the differing field or route pair.",
        "note": "Trusted: decimal rendering of spec numbers (no number on a rounding tie, checked by InvWellFormed); md5 collisions ignored; row-order-only differences not judged (the property does not say whether point order is content); codec fidelity of the JSON route belongs to C06.",
    },
    "C06": {
        "level": "exploration",
        "technique": "TLA+ codec specification (spec/Codec.tla: value/key classes, per-format domains, Judge) with a design-level exhaustive TLC run of the abstract document store (CodecMC, 127 241 states); TLC enumerates the scenario table (full products of the interacting dimensions + a TLC-verified strength-2 orthogonal array over 14 dimensions); each row is materialised on the real JSON exporter/importer and TLC (CodecOracle Judge) decides every recorded round trip clause by clause",
        "text": "Every enumerated row: build, to_json (string and file), from_json, exact clauses (identifier, metadata keys/values/types, unit labels, material properties, every data cell and branch mark, model name/parameters/ranges/rmse/predictions, document fixpoint, file document = string document).",
        "note": "Trusted: the projection in harness/codec_common (reads the isotherm's attributes, not to_dict), three representatives per value class (data independence probed, not proved), CommunityModules Json. Coverage is the enumerated table, not all inputs.",
    },
    "C07": {
        "level": "exploration",
        "technique": "same TLA+ codec specification as C06 (spec/Codec.tla, CodecMC, CodecOracle) with the per-format value domains of CSV (three separators), Excel and AIF written from the property's quantifier; TLC-enumerated scenario rows materialised on the real exporters/importers; TLC judges preserved / refused-with-pyGAPS-error / changed per row; an Impl transcription of cast_string predicts which out-of-domain classes are silently retyped",
        "text": "By-value clauses per row (8 decimals, branch assignment and order, labels, material with properties, model name/parameters/ranges; the identifier is obliged when content is equal); outside the domain the verdict must be preserved-or-refused-with-a-pyGAPS-error, never changed. 11 known findings (format design: text sniffing, prefixes, AIF loops, xlwt containers) are matched by structured signature.",
        "note": "Trusted: projection, representatives per class, domain reading (None, NaN/inf, padded text, '' in Excel, non-ASCII AIF keys are judged 'preserved or refused'; Excel/CSV returning float for int metadata is accepted as the same value).",
    },
    "C10": {
        "level": "exploration",
        "technique": "TLA+ specification of the 16 model equations over exact rationals (spec/Models.tla) checked by TLC on the parameter x pressure grid (ModelsMC, 1 460 states: defining relation, zero, bounds, strict monotonicity, Henry factorisation); the TLC-derived table is replayed on loading()/pressure() with scalar/0-d/1-d arguments; a TLC batch oracle (ModelsOracle, DecFloat) judges observations for general parameter vectors clause by clause; ModelIsotherm.loading_at/pressure_at compared with unit monomials from UnitsOracle",
        "text": "Every row of an exact table of the model equations, and ~400 general parameter vectors x 5-17 arguments x 3 argument forms, are executed on the real models and decided by the specification (1e-9 closed forms, 1e-6 root-based, 1e-2 Virial); the ModelIsotherm wrapper is checked on 4 models x 2 native unit systems x pressure/loading/material representations.",
        "note": "Trusted: the transcription of each formula in Models.tla; DecFloat carries 2e-7 per operation (in-spec tolerances 1e-6; 1e-9 only on the exact table); validity range of pressure-explicit models = prefix on which the library's closed-form pressure(n) is increasing; unit factors rest on C01. Four known findings (degenerate quadratic inverses, Virial/VST/TSLangmuir numerical inverses reporting success with wrong roots).",
    },
    "C11": {
        "level": "exploration",
        "technique": "symbolic integrals rat + sum c*ln(arg) in spec/Spreading.tla (11 models and the point-isotherm interpolant), proved equal to the integral of L/p by TLC through the exact derivative identity and zero limit (SpreadingMC, 4 041 states), evaluated against spreading_pressure()/spreading_pressure_at(); TLC-evaluated Simpson sums over observed loadings on geometric grids (SpreadingOracle, DecFloat) decide additivity/integral identity, monotonicity, zero limit, derivative; point isotherms segment by segment with logarithms of the inputs passed as observations",
        "text": "Model spreading pressures are compared with the specification's closed forms and with in-spec quadrature of the library's own loading; point-isotherm spreading pressures with the per-segment closed form below, inside and at the edge of the range and in foreign pressure units/modes.",
        "note": "Trusted: hand-differentiated drat/darg fields (a wrong one fails the MC run); in-spec tolerances Simpson 2e-5 (+1.5e-6 absolute for the four quad-based models), derivative 5e-3, zero limit 2e-2 at p_top*2^-40; DR/DA only through Simpson sums. Known finding: TemkinApprox constant offset.",
    },
    "C12": {
        "level": "model_checking",
        "technique": "TLA+ model of best-of-list and branch selection checked exhaustively by TLC (spec/FitSelectMC, 617 568 states); TLC step oracle (FitSelectOracle) judging replays on the real guess()/from_pointisotherm/model_iso with the model classes' fit replaced by a scripting stub at run time; TLC trace validation (FitErrOracle, DecFloat) of fit observations on a TLC-enumerated grid (FitGrid)",
        "text": "TLC proves that the implementation-shaped selection (errors.index(min(errors)), row filters) stays inside what the property allows for every outcome pattern of <=4 candidates x every branch layout of <=5 points x branch x route, and every pattern/layout is replayed on the real code; the numeric clauses (rmse identity 1e-4, reproduction 1e-5, parameters inside bounds, generated points on the model 1e-6 with equal labels/metadata, refit and unit-change curves 1e-5) are evaluated by TLC on observations.",
        "note": "Trusted: DecFloat (2e-7); residuals recomputed with the library's own loading/pressure; unit factors from spec/Units (C01); NaN rmse accepted under either reading; incomplete param_bounds/param_guess dictionaries (KeyError) noted, not judged; BET/DR/DA excluded from pressure-unit changes. Known finding: JensenSeaton in Pa.",
    },
    "C13": {
        "level": "exploration",
        "technique": "rational closed forms (Henry and equal-capacity Langmuir mixtures) in spec/Iast.tla checked by TLC against the IAST equations on the whole grid (IastMC, up to 22 465 states) and replayed into iast_point / iast_point_fraction / reverse_iast / iast_binary_svp / iast_binary_vle; TLC trace validation (IastTrace/IastOracle, DecFloat) of observations for 8 IAST-capable models and point isotherms",
        "text": "2-4 component mixtures in every order, forward and reverse, compared at 1e-9 with the rationals TLC computes; seeded mixtures judged on fractions, equal spreading pressure, ideal mixing, permutation invariance and forward/reverse inversion at 1e-5 in the spec; helpers compared bit-for-bit with the point calculation.",
        "note": "Trusted: the input isotherms' spreading_pressure_at/loading_at as observations (C10/C11); BET excluded (pole); calls that raise are not judged (property conditional on 'returns'); a run with fewer than 20 judged points is treated as vacuous (exit 2). Known finding: TemkinApprox zero root in reverse_iast.",
    },
    "C14": {
        "level": "model_checking",
        "technique": "TLA+ window/limit selection logic (spec/Selection.tla: searchsorted windows, >=3-point rule, Rouquerol window, Langmuir default window; Spec = allowed windows, Impl = transcription) model-checked by TLC (SelectionMC) and replayed row by row into the *_raw functions and isotherm entry points; exact recovery tables in rationals (spec/Linearised.tla, LinearisedMC/Oracle) for BET, Langmuir, t-plot, alpha-s, DR/DA",
        "text": "For all increasing grids of <=7 points over tenths and all limit pairs the window returned by the real code must be one the specification allows (boundary-equal points unconstrained, either reading of the Rouquerol end accepted), refusal iff fewer than three points; analyses applied to data generated exactly from their governing equation must return the generating quantities computed by TLC in exact arithmetic (1e-6; DA exponent search 1e-3).",
        "note": "Trusted: thickness curve / reference isotherm / DR-DA model classes of the library as inputs of the generated data; Rat arithmetic on small grids.",
    },
    "C16": {
        "level": "exploration",
        "technique": "rational recurrences of the three classical mesopore methods in spec/Meso.tla computed by TLC (MesoOracle) with table-lookup thickness/Kelvin callables on all grids of <=6 points and replayed into psd_mesoporous and the three raw functions; DecFloat relational clauses for the built-in Kelvin models (geometry ratios, r*ln p constant, widths increasing, conservation, cumulative end point, single-step single peak)",
        "text": "Pore widths 2(r_K + t), zero-thickness pore volumes = successive changes of adsorbed liquid volume, distribution x width increments = volumes and the cumulative end point are compared with exact rationals; built-in Kelvin/thickness models are judged through relational clauses on observations.",
        "note": "Trusted: Rat arithmetic; caller-supplied callables as the model of thickness/Kelvin functions; ln p passed as an input observation.",
    },
    "C20": {
        "level": "model_checking",
        "technique": "TLA+ registry and fallback specifications model-checked by TLC (spec/RegistryMC: shipped prefix + any history of store=True user adsorbates and lookups, 16 937 states; BackendMC: property-method fallback machine with its hidden CoolProp state); TLC evaluates the REAL data (ADSORBATE_LIST, adsorbates.json, independent sqlite read of default.db) and judges recorded traces of Adsorbate.find / isotherm.adsorbate / property calls (RegistryOracle, BackendOracle, DecFloat consistency clauses)",
        "text": "Per source every case-folded string has exactly one owner, names are among aliases, sources agree; every lookup for all 817 strings x 4 case variants through find and the three isotherm classes is validated against FindSpec; store histories are executed on the real registry and validated step by step; 14 property methods x backend usable/unknown/missing x user property all/none/partial x calculate x temperature class x 8 units are judged for outcome class and value; 81 backend-linked adsorbates x 7-31 temperatures against the consistency clauses.",
        "note": "Trusted: Python str.lower for case folding; CoolProp PropsSI as the independent decider of whether the backend can deliver and as value reference; SI pressure-unit constants in the spec; temperatures below the triple point are outside the quantifier.",
    },
    "C17": {
        "level": "exploration",
        "technique": "published slit-pore HK equation with Kirkwood-Mueller constants (CODATA literals, nothing read from the code) and the relational clauses in spec/HK.tla; HKMC model-checked (3 780 states: FormsAgree, Increasing, Physical); HKOracle (DecFloat) evaluates ln p for chosen widths in the spec and judges recorded runs of psd_horvath_kawazoe, psd_horvath_kawazoe_ry and psd_microporous",
        "text": "TLC evaluates the published slit equation for chosen widths between the geometric minimum and 3 nm; the library must map the resulting pressures back to those widths (1e-3) for HK and HK-CY; every model x geometry x adsorbent x adsorbate x temperature scenario is judged on: the width solves or brackets a crossing of the library's own potential, W = g*L - d_h, widths non-decreasing in the equation's right-hand side, cumulative volume = n*M/rho_L, distribution = dV/dW.",
        "note": "Trusted: the potential closures are observed by wrapping psd_micro._solve_hk/_solve_hk_cy (call-through; exit 2 if renamed); literature fidelity of the cylinder, sphere and Rege-Yang potentials is not decided (DESIGN section 8); Cheng-Yang coverage taken as n/(1.01 max n), the library's convention. Two known findings (Rege-Yang local minimum / non-monotone widths).",
    },
    "C18": {
        "level": "exploration",
        "technique": "spec/Kernel.tla enumerates the scenarios (unit, pair and dense weight vectors x grids x limits x spline orders by rotation) and states the clauses; KernelMC model-checked (8 256 states: WellFormed, Covers); KernelOracle (DecFloat) judges psd_dft runs on isotherms built as exact combinations of kernel-file columns (file read as input data), incl. a 5-column user kernel",
        "text": "distribution >= -1e-9; cumulative volume non-decreasing and equal to the running integral; order 0: kernel-weighted sum equals kernel_loading (1e-5); RSS to the input <= 0.2; kernel_loading independent of spline order; reported limits equal the points inside the requested limits and changing points outside them changes nothing; pressures outside the kernel range raise CalculationError.",
        "note": "Trusted: 'optimiser tolerance' read as an absolute RSS bound (observed headroom ~33x); 0 <= p < smallest kernel pressure not judged; between-rows grids use the library's own interpolators for the columns. Known finding: SLSQP stops early on very large loadings.",
    },
    "C19": {
        "level": "exploration",
        "technique": "spec/Enthalpy.tla enumerates the scenarios and states the clauses; EnthalpyMC model-checked (1 872 states: PermOk, Partition, Tols); EnthalpyOracle (DecFloat) judges recorded results of isosteric_enthalpy, enthalpy_sorption_whittaker and initial_enthalpy_point",
        "text": "Isosteric: dH in {5,10,20,40,60} kJ/mol x all 26 temperature subsets x ascending/descending/rotated order x Langmuir/Toth/DS-Langmuir x model isotherm or 300-point isotherm x 3 unit configurations: result = dH at every loading (1e-6 / 1e-2), slope = -dH/R. Whittaker: TLC computes p_k, classifies each loading against p_triple, min(p_sat,p_c), p_c and requires lambda + h_vap + RT (1e-6); inside loadings reported, loadings above p_c omitted. Initial enthalpy point: first enthalpy row of the chosen branch over 12 branch layouts x 3 patterns x 2 branches.",
        "note": "Trusted: K(T), ln and real powers are harness input (R = 8.314462618); h_vap, p_triple, p_sat, p_c are adsorbate-API observations; omission is checked as inclusion ('omits only'); relative-pressure mode and volume_liquid basis are not 'common units' and are not exercised.",
    },
    "C08": {
        "level": "model_checking",
        "technique": "TLA+ dictionary model of the SQLite store (spec/Store.tla: prescriptive Spec*, implementation-shaped Impl* with session registries, REAL affinity, bookkeeping columns) model-checked by TLC (StoreMC: all reachable states of one file, two files depth-bounded; invariants DictionaryModel, Integrity, StepLaws, RetrieveThenDelete, Independence, SameContentSameOutcome); Impl-vs-Spec divergence classes with shortest witness histories; TLC step oracle (StoreOracle) validating every public call of witness, scripted and TLC -simulate histories replayed on real db_create files",
        "text": "TLC proves on the finite abstraction that any history of allowed steps keeps the dictionary model, referential integrity, refusal-changes-nothing, retrieve-then-delete and file independence; every executed public call (outcome, projection of both files read through an independent sqlite3 connection, *_from_db result) is validated against Store!SpecStep from its recorded pre-state.",
        "note": "Trusted: the projection code (harness/store_common) with concrete fixtures standing for content tokens; isotherm content compared with the material reduced to its name; None and list metadata treated as not storable; histories are sampled (138 quick / ~2 000 thorough), the model is exhaustive. Three known findings (REAL-affinity coercion of metadata and its consequences for delete-through-retrieved; id depending on the session's material object).",
    },
    "C09": {
        "level": "model_checking",
        "technique": "TLA+ statement-level transaction machine (spec/StoreTx.tla: connection discipline, rollback-journal semantics, faults, crashes incl. inside commit) checked by TLC on the real call shapes taken from statement logs (StoreTxMC: AtomicAlways, OutcomeMatches, Repeatable, RegistryAgrees, NoCommitAfterFault); TLC trace validation (StoreTxTrace) of all statement logs recorded through a sqlite3 proxy installed from outside; exhaustive fault and crash enumeration on the real code judged by StoreTxOracle",
        "text": "Every public write operation x prior content class x every statement position x {IntegrityError, InterfaceError, OperationalError, Python exception} and process death (os._exit in a forked child) before/after statements and around commit: afterwards the file, read through an independent connection, must equal the pre-state or the complete post-state, be referentially intact, and the same operation repeated without fault must succeed (or be refused exactly as from the pre-state).",
        "note": "Trusted: interposition on the module attribute pygaps.parsing.sqlite.sqlite3 (exit 2 if it stops taking effect); a fault = statement k not executed and the sqlite3 exception raised; a crash inside the commit itself is explored in the model only; SQLite's own journal atomicity is assumed.",
    },
    "C15": {
        "level": "model_checking",
        "technique": "TLA+ access-plan model (spec/AccessPlan.tla: per-analysis list of accessor calls with their literal unit arguments) composed with the IsoAccess conversion pipelines and model-checked exhaustively by TLC over all permanent conversions of sample and reference (AccessPlanMC: StaysValid, ClassExact, Invariance); bound to the code by a TLC oracle (AccessPlanOracle: classes and symbolic expected factors), TLC trace validation of recorded runs (InvarianceTrace, DecFloat) and a pointwise check that every array reaching the numeric cores equals the stored data times the model's monomial",
        "text": "TLC proves on the label graph that each entry point's access plan delivers representation-independent inputs except in the classes of an exact closed-form table; every entry point (27 incl. option variants) is then run on real isotherms permanently converted to a TLC-supplied covering set of representations (thorough: all units and products), JSON round-tripped and loading-scaled; every result key is judged by the specification: equal, changed by exactly the unit monomial, scaled by the loading factor, windows identical, refused.",
        "note": "Trusted: Canon definitions in spec/Units.tla; ResultDims and TolExp tables (default 1e-6; HK widths 1e-4, distribution 1e-2; virial 1e-3; initial_enthalpy_comp 1e-2; psd_dft kernel_loading 1e-1); Atoms from adsorbate/material property methods; float payload independence sampled over fixtures; psd_dft results are judged only on the arrays reaching the kernel fit. Five known findings (alpha_s reference abscissae, isosteric volume basis, three fit scale-covariance entries).",
    },
}
