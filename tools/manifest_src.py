SETUP = "./setup.sh"
HOOKS = {
    "guard": "PYGAPS_VERIF",
    "enable": "no in-source hooks exist: every observation point is reached from outside (public attributes, module attributes interposed by the harness); the guard name is reserved",
    "baseline_off_cmd": "cd /repo && /venv/bin/python -m pytest -ra -q -p no:cacheprovider --timeout=900 --continue-on-collection-errors",
    "source_commits": [],
    "add_only": True,
}
ENGINES = [
    {"name": "tlc", "path": "/usr/local/bin/tlc", "serves_properties": [], "kind_free_text": "TLC 1.8 explicit-state model checker (exhaustive runs of spec/*MC.tla, -simulate behaviours, and JSON batch step-oracles spec/*Oracle.tla)"},
]
NOTES = ("Model-based verification with explicit TLA+ specifications under /verif/spec, checked with TLC and bound to the code by "
         "conformance drivers under /verif/harness (step oracle / trace validation / TLC-enumerated scenarios). See DESIGN.md. "
         "Set VERIF_REPO=<dir> to run the checks against another checkout (default /repo).")
NOT_APPLICABLE = {}
CHECKS = {
    "C01": {
        "level": "model_checking",
        "technique": "TLA+ symbolic unit algebra (spec/Units.tla) model-checked exhaustively by TLC (UnitsMC: 14 312 states, all paths) + TLC step oracle (UnitsOracle) validating every ordered pair / degenerate argument pattern executed on the real c_pressure/c_loading/c_material/c_temperature",
        "text": "TLC proves on the finite representation graph that the implementation-shaped conversion tables equal the SI/physical definitions on every path (identity, inverse, composition); every edge of that graph, and every missing/unknown-argument pattern, is then executed on the real functions with scalar/0-d/1-d/Series values and validated against the outcomes the specification allows (monomials evaluated to 1e-9), and the unit tables are audited against SI constants.",
        "note": "Trusted: the Canon definitions in spec/Units.tla, reference_constants.json (SI/CODATA, STP 22413.969 cm3/mol), the adsorbate/material property methods as the meaning of psat/M/densities (their consistency is C20). Data independence is sampled over 4 container kinds and 6 magnitudes, not proved.",
    },
    "C02": {
        "level": "model_checking",
        "technique": "TLA+ state machine of permanent conversions (spec/IsoConvert.tla: prescriptive Judge + implementation-shaped ImplStep) model-checked exhaustively by TLC over all histories (IsoConvertMC), bound to the code by a TLC step oracle over exhaustive single steps on real PointIsotherms and by replay of TLC -simulate behaviours",
        "text": "TLC explores every conversion history of the label/monomial abstraction (all label states of the factorised space, 327 operations each incl. omitted/unknown arguments) and checks Valid, Consistent (data = original converted directly), RoundTrip and that each implementation step is prescriptively allowed; every (label state, operation) step is then executed on a real PointIsotherm and judged by the TLC oracle from the actual pre-state (labels, outcome, refusal rights, data monomials evaluated to 1e-9, auxiliary columns/metadata untouched, constructor re-validation); TLC-generated and seeded 12-step histories are replayed and returned to the start representation.",
        "note": "Trusted: Canon definitions of spec/Units.tla; the constructor's acceptance test as transcribed in IsoValid (also run literally); data independence sampled over 3 data sets; quick tier visits a seeded 4.5% slice of the 169 290 loading x material single steps (thorough: all).",
    },
    "C03": {
        "level": "model_checking",
        "technique": "TLA+ accessor-pipeline model (spec/IsoAccess.tla: prescriptive 'convert a copy then read' via IsoConvert, descriptive ImplAccess per accessor) model-checked by TLC over accessor x stored representation x argument pattern (IsoAccessMC), TLC step oracle on real accessor calls of both isotherm classes, TLC-computed scenario tables (spec/IsoData.tla) for branch guessing, selection and exact rational interpolation",
        "text": "TLC shows at design level that each accessor's conversion pipeline equals permanent conversion of a copy on the whole stored x requested product except in one recorded family; every sampled real call (10 accessors, covering stored representations, omitted/valid/wrong-kind/unknown arguments) is judged against the allowed input/output monomials and, for point isotherms, against the literally converted copy; branch guessing is replayed for every pressure sequence up to length 4-5 under 14 construction routes/labellings, selection for every branch x limit pair, interpolation against exact rationals.",
        "note": "Trusted: Canon definitions; native (argument-less) reads of a fresh isotherm as the meaning of 'read natively'; boundary-equal limit points unconstrained; either leading-maximum reading accepted. One known finding (fraction loading + material argument), matched only when the observed numbers equal the pipeline model's prediction.",
    },
    "C04": {
        "level": "model_checking",
        "technique": "TLA+ cache state machine (spec/IsoCache.tla) model-checked exhaustively by TLC (all histories over the query alphabet and conversions: HistoryIndependent, NeverStale); behaviours generated by TLC -simulate and all ordered query pairs replayed on real PointIsotherms with each step compared to a fresh equal object and to the specification's FreshOutcome; breadth of analyses/exports validated as observation traces (spec/PureTrace.tla)",
        "text": "TLC explores every history of loading_at / pressure_at / spreading_pressure_at (branch x interpolation kind x fill x query-point class) and conversions on the implementation-shaped cache model and checks that the outcome class always equals the fresh-object outcome and that no cached interpolator outlives its data; the same histories (TLC-simulated behaviours, ordered pairs, pairs with a conversion in between) are executed on the real object: outcome class and value must equal those of a freshly built equal isotherm and the specification's table, and the observable state (id, labels, data, metadata, adsorbate/material properties) must not move.",
        "note": "Trusted: projection of the observable state (harness/iso_common.snapshot + iso_id); fresh object = constructor(to_dict(), data copy). Histories longer than the TLC-simulated depth 10 are covered by the model only (the cache state space is finite and explored completely).",
    },
}
