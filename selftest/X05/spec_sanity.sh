#!/bin/sh
# selftest/X05/spec_sanity.sh - the invariants of MatRegMC are live: each edit of a scratch copy of spec/MatReg.tla must make TLC report a violation
set -u
here=$(cd "$(dirname "$0")/../.." && pwd)
d=$(mktemp -d /tmp/x05-specsanity.XXXXXX)
cp "$here"/spec/MatReg.tla "$here"/spec/MatRegMC.tla "$here"/spec/MatRegMC.cfg "$d"/
run() {
  m=$(mktemp -d "$d"/meta.XXXX)
  (cd "$d" && timeout 300 java -XX:+UseParallelGC -Xmx2g -cp /opt/veriftools/tla/tla2tools.jar:/opt/veriftools/tla/CommunityModules-deps.jar tlc2.TLC \
      -workers 4 -metadir "$m" -noGenerateSpecTE -config MatRegMC.cfg MatRegMC.tla 2>&1) | grep -E "is violated|No error has been found|Parse|rror:" | head -1
}
rc=0
try() {  # name, python edit
  cp "$here"/spec/MatReg.tla "$d"/MatReg.tla
  python3 - "$d/MatReg.tla" "$2" "$3" <<'PY'
import sys
p, old, new = sys.argv[1:4]
s = open(p).read()
assert s.count(old) >= 1, old
open(p, "w").write(s.replace(old, new, 1))
PY
  out=$(run)
  echo "$1: $out"
  case "$out" in *"is violated"*) ;; *) rc=1 ;; esac
}
echo "unchanged: $(run)"
try "drop deviation class DictUpdatesRegistered" '-> "DictUpdatesRegistered"' '-> "none"'
try "setter resolves an object by its name" 'CASE o.form = "obj" -> [s |-> s, h |-> o.h]' 'CASE o.form = "obj" -> [s |-> s, h |-> IF RegPos(s, s.heap[o.h].name) # {} THEN First(s, s.heap[o.h].name) ELSE o.h]'
try "store without membership test" 'IF o.store /\ RegPos(s, o.name) = {} THEN [s1' 'IF o.store THEN [s1'
try "to_dict always a bare name" 'Render(m) == IF IsEmpty(m.props) /\ m.x = 0 THEN "string" ELSE "dict"' 'Render(m) == "string"'
try "conversion reads the registered namesake" 'LET b1 == s.iso[o.i].basis   p == MatOf(s, o.i).props IN
   IF HasAll(p, Needed(b1, o.basis))
   THEN [s |->' 'LET b1 == s.iso[o.i].basis   p == IF RegPos(s, MatOf(s, o.i).name) # {} THEN s.heap[First(s, MatOf(s, o.i).name)].props ELSE MatOf(s, o.i).props IN
   IF HasAll(p, Needed(b1, o.basis))
   THEN [s |->'
rm -rf "$d"
exit $rc
