#!/bin/sh
# selftest/X06/spec_sanity.sh - every edit of a scratch copy of spec/Ctor.tla below must make TLC (CtorMC) report an error.
set -u
here=$(cd "$(dirname "$0")/../.." && pwd)
tmp=$(mktemp -d /tmp/x06sanity.XXXXXX)
run() { # name, sed expression
  rm -rf "$tmp/spec"; mkdir -p "$tmp/spec"; cp "$here"/spec/*.tla "$here"/spec/*.cfg "$tmp/spec/"
  sed -i "$2" "$tmp/spec/Ctor.tla"
  if cmp -s "$tmp/spec/Ctor.tla" "$here/spec/Ctor.tla"; then echo "$1: EDIT DID NOT APPLY"; return; fi
  out=$(cd "$tmp/spec" && timeout 600 java -XX:+UseParallelGC -Xmx4g -cp /opt/veriftools/tla/tla2tools.jar:/opt/veriftools/tla/CommunityModules-deps.jar tlc2.TLC \
        -workers 4 -metadir "$tmp/meta" -noGenerateSpecTE -config CtorMC.cfg CtorMC.tla 2>&1)
  rm -rf "$tmp/meta"
  if echo "$out" | grep -q "is violated\|Assumption .* is false\|Error:"; then echo "$1: reported ($(echo "$out" | grep -m1 'is violated\|is false' | cut -c1-90))"; else echo "$1: NOT REPORTED"; fi
}
# 1. the transcription takes the shorthand only when it is truthy, without naming the deviation
run unnamed_deviation 's/IF only_t0 THEN {"DShorthandFalsy"} ELSE {}/{}/'
# 2. a deviation is named where the code follows the prescription
run spurious_deviation 's/ELSE IF i.branch = "list_ok" THEN done("given", {})/ELSE IF i.branch = "list_ok" THEN done("given", {"DBranchNone"})/'
# 3. the prescription demands silence about defaults that do not matter (pressure unit in relative mode): the code warns about them
run spec_warned 's/applicable \\subseteq w \/\\ w \\subseteq Omitted(i)/w = applicable/'
# 4. the clause table drifts from IsoValid (loading unit no longer required)
run clause_table 's/\\cup (IF s.lb \\in LBases \/\\ ~Frac(s.lb) \/\\ s.lu \\notin LUnits(s.lb) THEN {"lu"} ELSE {})//'
# 5. the transcription checks the units before the bases (refusal would name another requirement - still a failing one - but a KeyError class moves)
run impl_order 's/IF s.lb \\in MBases THEN Refused("mu")/IF TRUE THEN Refused("mu")/'
rm -rf "$tmp"
