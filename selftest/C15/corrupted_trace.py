#!/venv/bin/python
"""Self-test of the binding of spec/InvarianceTrace.tla (run from /verif: selftest/C15/corrupted_trace.py).
Takes one accepted record of a quick run (area_BET on a copy stored per another amount of material) and checks
that the specification rejects it once a recorded number, the evaluated monomial, an array element or a window index
is tampered with - and still accepts it untouched.  exit 0 = every corruption was rejected with the expected clause."""
import copy
import json
import os
import subprocess
import sys
import tempfile

HERE = os.path.dirname(os.path.dirname(os.path.dirname(os.path.abspath(__file__))))
sys.path.insert(0, HERE)
from harness import tlc  # noqa: E402

fd, dump = tempfile.mkstemp(suffix=".json")
os.close(fd)
env = dict(os.environ, VERIF_DEBUG_DUMP=dump, VERIF_EVIDENCE_DIR=tempfile.gettempdir(), VERIF_REPLAY_DIR=tempfile.mkdtemp())
subprocess.run([os.path.join(HERE, "check"), "C15", "--tier", "quick"], env=env, capture_output=True)
recs = json.load(open(dump))
os.unlink(dump)
q = next(r for r in recs if r["an"] == "area_BET" and r["variant"] == "rep" and r["outcome"] == "ok" and r["sS"]["mu"] != r["sS0"]["mu"])


def key(r, k):
    return next(o for o in r["obs"] if o["key"] == k)


cases = [("untouched", copy.deepcopy(q), None)]
b = copy.deepcopy(q); key(b, "area")["val"][0][0] += 200; cases.append(("one result off by 2e-5", b, "own_unit_result_not_changed_by_exactly_the_unit_factor"))
c = copy.deepcopy(q); key(c, "area")["vec"] = []; cases.append(("another monomial evaluated", c, "MACHINERY:factor_monomial_is_not_the_one_the_specification_names"))
d = copy.deepcopy(q); key(d, "core.loading")["val"].pop(); cases.append(("array element dropped", d, "shape_changed"))
e = copy.deepcopy(q); key(e, "limit.lo")["val"][0] = [20000000, -7]; cases.append(("window index changed", e, "selected_points_changed"))
f = copy.deepcopy(q); f["outcome"] = "raised"; f["obs"] = []; cases.append(("run failed", f, "refused_after_change_of_representation"))
bad = 0
for (name, _, want), r in zip(cases, tlc.oracle("InvarianceTrace", [c[1] for c in cases])):
    got = [x["c"] for x in r["bad"]]
    ok = (want is None and r["ok"]) or (want is not None and want in got)
    bad += not ok
    print(("ok   " if ok else "FAIL ") + name + ": " + (", ".join(got) or "accepted"))
sys.exit(1 if bad else 0)
