#!/bin/sh
# selftest/X04/spec_sanity.sh - the TLC properties of spec/DeriveMC are not vacuous: five small edits of spec/Derive.tla (in a scratch copy)
# must each be reported by TLC.  Prints one line per edit; exit 0 iff all five are caught.
set -u
JAR=/opt/veriftools/tla/tla2tools.jar:/opt/veriftools/tla/CommunityModules-deps.jar
here=$(cd "$(dirname "$0")/../.." && pwd)
d=$(mktemp -d /tmp/x04sanity.XXXXXX)
cp "$here"/spec/Derive.tla "$here"/spec/DeriveMC.tla "$here"/spec/DeriveMC_spec.cfg "$here"/spec/DeriveMC_impl.cfg "$d"/
cd "$d" || exit 2
cp Derive.tla Derive.orig
bad=0
run() { # name cfg expected-property
  out=$(timeout 600 java -XX:+UseParallelGC -Xmx4g -cp $JAR tlc2.TLC -workers 6 -metadir "$d/meta" -noGenerateSpecTE -config "$2" DeriveMC.tla 2>&1 | grep -m1 "is violated")
  rm -rf "$d/meta"
  if cmp -s Derive.tla Derive.orig; then echo "EDIT DID NOT APPLY: $1"; bad=1
  elif echo "$out" | grep -q "$3"; then echo "caught   $1: $out"; else echo "MISSED   $1: ${out:-no error}"; bad=1; fi
  cp Derive.orig Derive.tla
}
sed -i 's/   \\cup {d \\in {DPlotFit} : step.k = "MFP" \/\\ step.marg # "single"}//' Derive.tla
run "plot_fit class removed from the named list" DeriveMC_impl.cfg DeviationsExact
sed -i 's/!.meta = meta, !.pref = step.fr.pref\]/!.meta = meta, !.pref = t.pref]/' Derive.tla
run "prescription shares the metadata dictionary with the template" DeriveMC_spec.cfg NoAlias
sed -i 's/k = "temperature_unit" -> Scalar(o.tu)/k = "temperature_unit" -> Scalar("K")/' Derive.tla
run "transcription exports the temperature unit as K" DeriveMC_impl.cfg DeviationsExact
sed -i 's/ \/\\ DOwnUnits \\notin fx THEN step.refown/ THEN step.refown/' Derive.tla
run "repair switch of the own-units deviation ignored" DeriveMC_impl.cfg NamedListComplete
sed -i 's/!.dref = step.fr.dref\]$/!.dref = IF step.k = "RT" THEN t.dref ELSE step.fr.dref]/' Derive.tla
run "prescription lets the round trip share the data frame" DeriveMC_spec.cfg NoAlias
rm -rf "$d"
exit $bad
