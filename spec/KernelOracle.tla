---------------------------- MODULE KernelOracle ----------------------------
(***************************************************************************)
(* Batch oracle for C18 (harness/drivers/c18.py).  Query kinds:            *)
(*   scen    -> the scenario list for a kernel with nw widths / nr rows    *)
(*              (rotation r = seed), with the grid rows and limit positions*)
(*   hist    -> the kernel-file histories (orders in which two equally named *)
(*              user kernels are used)                                     *)
(*   judge   -> the property's clauses on a recorded group of runs         *)
(*   refusal -> expected / observed outcome for out-of-range pressures     *)
(***************************************************************************)
EXTENDS Kernel, Json, IOUtils

Q == JsonDeserialize(IOEnv.X_IN)

Scen(q) == LET S == Scenarios(q.nw, q.nr, q.r)
           IN [k \in 1..Len(S) |->
                 LET s == S[k]  rows == GridRows(s.grid, q.nr)
                 IN [id |-> s.id, kind |-> s.w.kind, cls |-> s.w.cls, cols |-> s.w.cols, scale |-> s.w.scale, rows |-> rows,
                     limits |-> s.limits, pos |-> LimitPos(Len(rows)), order |-> s.order,
                     rows_alt |-> IF AltOk(rows) THEN AltRows(rows) ELSE <<>>]]

Step(q) ==
  CASE q.k = "scen" -> [scenarios |-> Scen(q)]
    [] q.k = "hist" -> [histories |-> SetToSeq(Histories), grid_histories |-> GridHistories, kernel_units |-> KernelUnits,
                      row_orders |-> [i \in 1..Len(RowOrders) |-> [order |-> RowOrders[i], perm |-> RowPerm(RowOrders[i], q.nr)]], file_histories |-> [i \in 1..Len(FileHistories) |-> [j \in 1..Len(FileHistories[i]) |->
                                                   [state |-> FileHistories[i][j], judged |-> FileStepJudged(FileHistories[i][j])]]]]
    [] q.k = "judge" -> Judge(q)
    [] q.k = "refusal" -> Refusal(q)

ASSUME JsonSerialize(IOEnv.X_OUT, [i \in 1..Len(Q) |-> Step(Q[i])])
VARIABLE x
Init == x = 0
Next == x' = x
=============================================================================
