------------------------------ MODULE CodecMC ------------------------------
(***************************************************************************)
(* The codecs as a transition system over an abstract document store.      *)
(*                                                                         *)
(* One metadata entry (key class, abstract value) of an isotherm is        *)
(* exported to a target (string / file) in any format and imported back,   *)
(* any number of times, through any sequence of formats.                   *)
(*                                                                         *)
(* mode = "spec": the prescriptive codec - inside the format's domain the  *)
(*   document carries the entry, outside it either carries it or the call  *)
(*   is refused.  Invariants: the object never differs from the original,  *)
(*   every stored document re-imports to the original, a re-export         *)
(*   reproduces the document (fixpoint), a refusal needs a format that     *)
(*   cannot carry the entry.                                               *)
(* mode = "impl": the transcription of the parsers (Codec!Impl).           *)
(*   Invariants: after importing from format f the entry is a fixpoint of  *)
(*   f's round trip (export(import(export(x))) = export(x)); as long as no *)
(*   step was a listed divergence the object equals the original by value, *)
(*   whatever the chain of formats.  ASSUMEs pin the complete list of      *)
(*   places where Impl leaves Spec (the known findings) and the strength   *)
(*   of the orthogonal array used to slice the scenario table.             *)
(***************************************************************************)
EXTENDS Codec

VARIABLES mode, orig, cur, st, store, lastfmt, diverged
vars == <<mode, orig, cur, st, store, lastfmt, diverged>>

Targets == {"string", "file"}
NoDoc == [fmt |-> "none", kc |-> "", v |-> NoneV]
Doc(f) == [fmt |-> f, kc |-> cur[1], v |-> cur[2]]

Init == /\ mode \in {"spec", "impl"}
        /\ orig \in KeyClasses \X AllValues
        /\ cur = orig /\ st = "live" /\ lastfmt = "none" /\ diverged = FALSE
        /\ store = [t \in Targets |-> NoDoc]

Export(f, t) ==
  /\ st = "live" /\ (f = "xl" => t = "file")
  /\ IF mode = "spec" /\ Domain(f, cur[1], cur[2]) # "in"
     THEN \/ store' = [store EXCEPT ![t] = Doc(f)] /\ st' = st
          \/ st' = "refused" /\ store' = store              \* refused with a pyGAPS error
     ELSE store' = [store EXCEPT ![t] = Doc(f)] /\ st' = st
  /\ UNCHANGED <<mode, orig, cur, lastfmt, diverged>>

Import(t) ==
  /\ st = "live" /\ store[t].fmt # "none"
  /\ LET d == store[t] IN
     IF mode = "spec"
     THEN cur' = <<d.kc, d.v>> /\ st' = st /\ lastfmt' = d.fmt /\ diverged' = diverged
     ELSE LET r == Impl(d.fmt, d.kc, d.v, Ctx(t, "comma")) IN
          /\ diverged' = (diverged \/ ImplDiverges(d.fmt, d.kc, d.v, Ctx(t, "comma")))
          /\ lastfmt' = d.fmt
          /\ CASE r.res = "ok" /\ r.kc \in KeyClasses -> cur' = <<r.kc, r.v>> /\ st' = "live"
               [] r.res = "ok" -> cur' = cur /\ st' = "moved"        \* left the metadata: material / lost / renamed
               [] r.res = "refused" -> cur' = cur /\ st' = "refused"
               [] OTHER -> cur' = cur /\ st' = "unknown"
  /\ UNCHANGED <<mode, orig, store>>

Next == \/ \E f \in Formats, t \in Targets : Export(f, t)
        \/ \E t \in Targets : Import(t)
Spec == Init /\ [][Next]_vars

---------------------------------------------------------------------------
\* the prescriptive codec
SpecPreserves ==
  mode = "spec" => /\ (st = "live" => cur = orig)
                   /\ \A t \in Targets : store[t].fmt # "none" => <<store[t].kc, store[t].v>> = orig
SpecFixpoint ==
  mode = "spec" => \A t1, t2 \in Targets : store[t1].fmt = store[t2].fmt => store[t1] = store[t2]
SpecRefusal ==
  (mode = "spec" /\ st = "refused") => \E f \in Formats : Domain(f, cur[1], cur[2]) # "in"

\* the transcription
SameByValue(a, b) == a = b \/ (a[1] = b[1] /\ KindOf(a[2].py) = "num" /\ KindOf(b[2].py) = "num" /\ ~a[2].big /\ ~b[2].big
                                /\ a[2].num \notin {"nan", "inf"})
\* the re-imported entry exports to the same document again: always for JSON, and for the other formats as long
\* as no step was a listed divergence (AIF, for one, is not idempotent on text that spells a list)
ImplStable ==
  (mode = "impl" /\ st = "live" /\ lastfmt # "none" /\ (lastfmt = "json" \/ ~diverged)) =>
     \A t \in Targets : LET r == Impl(lastfmt, cur[1], cur[2], Ctx(t, "comma")) IN r.res = "ok" /\ <<r.kc, r.v>> = cur
ImplChain ==
  (mode = "impl" /\ st = "live" /\ ~diverged) => SameByValue(orig, cur)
ImplNeverLosesSilently ==
  (mode = "impl" /\ st \in {"moved", "refused", "unknown"} /\ ~diverged) =>
     \E f \in Formats : Domain(f, cur[1], cur[2]) # "in" \/ Impl(f, cur[1], cur[2], Ctx("string", "comma")).res = "unknown"

---------------------------------------------------------------------------
\* where the transcription leaves the specification: pinned, so that a change of either side is noticed
DivergentVC(fmt) == {vc \in DOMAIN VCTable : \E v \in VCTable[vc], t \in Targets : ImplDiverges(fmt, "key_plain", v, Ctx(t, "comma"))}
DivergentKC(fmt) == {kc \in KeyClasses : \A v \in VCTable["text_plain"] \cup VCTable["float"] : \E t \in Targets : ImplDiverges(fmt, kc, v, Ctx(t, "comma"))}
ASSUME DivergentVC("json") = {} /\ DivergentKC("json") = {}
ASSUME DivergentVC("csv") = {"text_int", "text_float", "text_bool", "text_none", "text_empty", "text_list", "text_newline", "text_padded",
                             "int_large", "dict"}
ASSUME DivergentKC("csv") = {"key_prefix"}
ASSUME DivergentVC("aif") = {"text_int", "text_float", "text_bool", "text_none", "text_empty", "text_list", "text_quote",
                             "int_large", "list_num", "list_str", "list_nested", "dict"}
ASSUME DivergentKC("aif") = {"key_prefix", "key_space"}
ASSUME DivergentVC("xl") = {"text_empty", "int_large", "list_num", "list_str", "list_nested", "list_empty", "dict"}
ASSUME DivergentKC("xl") = {"key_prefix"}
NDiv(f) == Cardinality({t \in KeyClasses \X AllValues : ImplDiverges(f, t[1], t[2], Ctx("string", "comma")) \/ ImplDiverges(f, t[1], t[2], Ctx("file", "comma"))})
ASSUME PrintT(<<"DESIGN-DIVERGENCE", "json", NDiv("json"), "csv", NDiv("csv"), "xl", NDiv("xl"), "aif", NDiv("aif"),
                "of", Cardinality(KeyClasses \X AllValues)>>)
\* the scenario slice really covers every pair of dimension values
ASSUME OAStrength2 /\ DimSizesFit
=============================================================================
