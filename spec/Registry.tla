------------------------------ MODULE Registry ------------------------------
(***************************************************************************)
(* The adsorbate registry (pygaps.ADSORBATE_LIST) and name resolution.     *)
(*                                                                         *)
(* A registry is a SEQUENCE of entries                                     *)
(*     [name |-> string, lname |-> case-folded name, alias |-> sequence of *)
(*      case-folded strings, backend |-> string ("" = none)]               *)
(* in list order.  Strings are opaque to TLC; case folding is abstracted:  *)
(* a query string is identified with its folded form (the harness renders  *)
(* every folded alias in the four case variants and folds back).           *)
(*                                                                         *)
(*   prescriptive: UniqueOwner, NameIsAlias, Designates, FindSpec, Agree,  *)
(*                 StoreSpec, ShippedStable                                *)
(*   descriptive : FindImpl (Adsorbate.find: first entry in list order     *)
(*                 whose alias list contains the folded string), StoreImpl *)
(*                 (Adsorbate(..., store=True): appended unless an entry   *)
(*                 with the same case-sensitive name exists)               *)
(***************************************************************************)
EXTENDS Integers, Sequences, FiniteSets, TLC, TLCExt

None == 0      \* "not found" (Adsorbate.find raises ParameterError)

SeqSet(s) == {s[i] : i \in DOMAIN s}
\* the strings an entry answers to: the aliases it lists, and its own name
\* (Adsorbate.__init__ appends the folded name when the list does not contain it)
Eff(e) == SeqSet(e.alias) \cup {e.lname}
Strings(reg) == UNION {Eff(reg[i]) : i \in DOMAIN reg}
Owners(reg, s) == {i \in DOMAIN reg : s \in Eff(reg[i])}
Named(reg, s) == {i \in DOMAIN reg : reg[i].lname = s}

MinOf(S) == CHOOSE x \in S : \A y \in S : x <= y

---------------------------------------------------------------------------
\* PRESCRIPTIVE

\* "every name or alias designates exactly one adsorbate"
Collisions(reg) == {s \in Strings(reg) : Cardinality(Owners(reg, s)) > 1}
UniqueOwner(reg) == Collisions(reg) = {}
\* "can be found by its name": the listed aliases contain the folded name
NameNotListed(reg) == {i \in DOMAIN reg : reg[i].lname \notin SeqSet(reg[i].alias)}
\* no two entries share a name (any case)
DupNames(reg) == {s \in {reg[i].lname : i \in DOMAIN reg} : Cardinality(Named(reg, s)) > 1}

\* the entries a string designates: the adsorbate NAMED so if there is one, otherwise
\* the adsorbate(s) listing it as an alias
Designates(reg, s) == IF Named(reg, s) # {} THEN Named(reg, s) ELSE Owners(reg, s)
\* allowed results of find(s): the designated entry; None iff nothing answers to s
FindSpec(reg, s) == IF Owners(reg, s) = {} THEN {None} ELSE Designates(reg, s)

\* two sources describe the same registry: same names in the same order, same
\* effective alias sets, same backend link, same remaining properties
EntryDiff(a, b) ==
   IF a.name # b.name THEN "name"
   ELSE IF Eff(a) # Eff(b) THEN "alias"
   ELSE IF a.backend # b.backend THEN "backend_name"
   ELSE IF SeqSet(a.props) # SeqSet(b.props) THEN "properties"
   ELSE "same"
Disagree(ra, rb) ==
   IF Len(ra) # Len(rb) THEN {<<0, "length">>}
   ELSE {<<i, EntryDiff(ra[i], rb[i])>> : i \in {j \in DOMAIN ra : EntryDiff(ra[j], rb[j]) # "same"}}

---------------------------------------------------------------------------
\* DESCRIPTIVE (src/pygaps/core/adsorbate.py:107-216)

\* find: next(ads for ads in ADSORBATE_LIST if ads == name); __eq__(str) = folded membership
FindImpl(reg, s) == IF Owners(reg, s) = {} THEN None ELSE MinOf(Owners(reg, s))

\* Adsorbate(name, alias=..., store=True): "if self not in ADSORBATE_LIST: append";
\* `in` uses Adsorbate.__eq__(Adsorbate) = case-SENSITIVE name equality
StoreImpl(reg, e) == IF \E i \in DOMAIN reg : reg[i].name = e.name THEN reg ELSE Append(reg, e)

\* what the property needs of a store: the shipped part is untouched and keeps priority;
\* the new entry is either refused (registry unchanged) or placed AFTER every existing entry
StoreSpec(reg, e) == {reg, Append(reg, e)}

\* Database operations that also touch the session registry (parsing/sqlite.py: adsorbate_to_db,
\* adsorbate_delete_db).  On NAME sequences (the registry order is what first-match depends on):
\*   a REFUSED operation (it raised) leaves the registry exactly as it was;
\*   a successful delete removes the entries of that name and nothing else;
\*   a successful upload places the adsorbate after every other entry (an overwrite first drops
\*   the entries it replaces).
Without(names, n) == SelectSeq(names, LAMBDA x : x # n)
InSeq(names, n) == \E i \in DOMAIN names : names[i] = n
\* what a step may do to the registry (as the sequence of registered names; first-match lookups of the
\* OTHER adsorbates depend on their relative order only):
\*   refused, or a pure read of the database (from_db): nothing changes;
\*   delete: only entries of that adsorbate may go, every other entry stays where it was;
\*   upload (plain or overwrite): the adsorbate is registered, every other entry stays where it was.
DbStepSpec(op, n, outcome, pre, post) ==
   IF outcome = "refused" \/ op = "from_db" THEN post = pre
   ELSE CASE op = "delete" -> Without(post, n) = Without(pre, n)     \* (whether a SECOND registration of n, made by an upload
                                                                     \*  to another file, also goes is left open)
          [] op \in {"to_db", "to_db_overwrite"} -> Without(post, n) = Without(pre, n) /\ InSeq(post, n)
\* what a step may do to ONE lookup (results as adsorbate names, NotFound when the lookup is refused):
\*   nothing, except that a delete un-registers the strings of the deleted adsorbate, an upload may make
\*   strings of the uploaded adsorbate resolvable that were not before, and an overwrite may move strings
\*   from/to the replaced adsorbate of that name.  An upload NEVER takes a name or alias away.
NotFound == "<not found>"
LookupStepSpec(op, n, outcome, affected, before, after) ==
   \/ after = before
   \/ /\ outcome = "ok"
      /\ CASE op = "delete" -> before = n /\ after = NotFound
           [] op = "to_db" -> before = NotFound /\ affected /\ after = n
           [] op = "to_db_overwrite" -> (before = NotFound /\ affected /\ after = n) \/ (before = n /\ ~affected /\ after = NotFound)
           [] OTHER -> FALSE
\* adsorbate_delete_db as implemented: the registry is touched only after the DELETE statements went through
DbDeleteImpl(reg, n, refused) == IF refused THEN reg ELSE SelectSeq(reg, LAMBDA e : e.name # n)

\* resolution of the first n (shipped) entries' strings is unaffected by anything stored later
ShippedStable(reg, n) ==
   LET shipped == SubSeq(reg, 1, n) IN
   \A s \in Strings(shipped) : FindImpl(reg, s) = FindImpl(shipped, s)
=============================================================================
