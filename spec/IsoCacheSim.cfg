SPECIFICATION Spec
INVARIANT HistoryIndependent
CHECK_DEADLOCK FALSE
