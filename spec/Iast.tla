-------------------------------- MODULE Iast --------------------------------
(***************************************************************************)
(* C13: ideal adsorbed solution theory on mixtures whose answer is         *)
(* rational.                                                               *)
(*                                                                         *)
(* Pure-component isotherms (exact rationals, spec/Rat.tla):               *)
(*    Henry      n0_i(p) = K_i p                  pi_i(p) = K_i p          *)
(*    Langmuir   n0_i(p) = M K_i p / (1 + K_i p)  pi_i(p) = M ln(1+K_i p)  *)
(*               (the same capacity M for every component)                 *)
(* IAST for partial pressures p_i: find x_i >= 0 with sum x_i = 1 and      *)
(*    pi_i(p_i / x_i) equal for all i;   1 / n_t = sum x_i / n0_i(p_i/x_i);*)
(*    n_i = x_i n_t.                                                       *)
(* Closed forms (what the implementation must return):                     *)
(*    Henry      n_i = K_i p_i                                             *)
(*    Langmuir   n_i = M K_i p_i / (1 + sum_j K_j p_j)                     *)
(* The module does not take the closed forms on trust: IastMC checks, for  *)
(* every grid point, that they satisfy the IAST equations above (for the   *)
(* Langmuir family equality of M ln(1 + K_i p0_i) is equality of K_i p0_i, *)
(* ln being injective), that they commute with every permutation of the    *)
(* components, and that the reverse closed form inverts the forward one.   *)
(***************************************************************************)
EXTENDS Rat, Sequences, FiniteSets, TLCExt

One == RInt(1)
RZero == RInt(0)
RECURSIVE RSumFrom(_, _)
RSumFrom(s, i) == IF i > Len(s) THEN RZero ELSE RAdd(s[i], RSumFrom(s, i + 1))
RSum(s) == RSumFrom(s, 1)
Idx(s) == 1..Len(s)
KP(K, p) == [i \in Idx(K) |-> RMul(K[i], p[i])]

\* ---- pure components -------------------------------------------------------
\* fam = "henry" | "langmuir";  M is ignored for henry
Pure(fam, M, k, p) == IF fam = "henry" THEN RMul(k, p)
                      ELSE RDiv(RMul(M, RMul(k, p)), RAdd(One, RMul(k, p)))
\* a strictly monotone rational image of the spreading pressure (pi itself for henry,
\* exp(pi / M) - 1 for langmuir): equal images <=> equal spreading pressures
SpreadKey(fam, k, p) == RMul(k, p)

\* ---- forward closed form ---------------------------------------------------
Load(fam, M, K, p) ==
   LET kp == KP(K, p) IN
   IF fam = "henry" THEN kp
   ELSE LET d == RAdd(One, RSum(kp)) IN [i \in Idx(K) |-> RDiv(RMul(M, kp[i]), d)]
Total(l) == RSum(l)
Frac(l) == LET t == Total(l) IN [i \in Idx(l) |-> RDiv(l[i], t)]
Fict(p, x) == [i \in Idx(p) |-> RDiv(p[i], x[i])]              \* p_i / x_i

\* ---- reverse closed form: given adsorbed fractions x and total pressure P ---
\* equal spreading pressure: K_i y_i P / x_i = c for all i, sum y = 1  =>  c = P / sum(x_j / K_j)
RevC(K, x, P) == RDiv(P, RSum([i \in Idx(K) |-> RDiv(x[i], K[i])]))
RevY(K, x, P) == LET c == RevC(K, x, P) IN [i \in Idx(K) |-> RDiv(RMul(c, x[i]), RMul(K[i], P))]
RevTotal(fam, M, K, x, P) == LET c == RevC(K, x, P) IN IF fam = "henry" THEN c ELSE RDiv(RMul(M, c), RAdd(One, c))
RevLoad(fam, M, K, x, P) == LET t == RevTotal(fam, M, K, x, P) IN [i \in Idx(K) |-> RMul(x[i], t)]

\* ---- the IAST equations, as predicates on a candidate answer l ----------------
FractionsOK(l) == LET x == Frac(l) IN
   /\ \A i \in Idx(l) : RLeq(RZero, x[i]) /\ RLeq(x[i], One)
   /\ RSum(x) = One
EqualSpreading(fam, K, p, l) == LET p0 == Fict(p, Frac(l)) IN
   \A i, j \in Idx(K) : SpreadKey(fam, K[i], p0[i]) = SpreadKey(fam, K[j], p0[j])
IdealMixing(fam, M, K, p, l) == LET x == Frac(l)  p0 == Fict(p, x) IN
   RInv(Total(l)) = RSum([i \in Idx(K) |-> RDiv(x[i], Pure(fam, M, K[i], p0[i]))])

\* ---- permutations -------------------------------------------------------------
PermsOf(n) == {f \in [1..n -> 1..n] : \A i, j \in 1..n : i # j => f[i] # f[j]}
PermTab == TLCEval([n \in 1..4 |-> PermsOf(n)])          \* computed once
Perms(n) == PermTab[n]
Permute(s, f) == [i \in Idx(s) |-> s[f[i]]]
PermInvariant(fam, M, K, p) ==
   LET base == Load(fam, M, K, p) IN
   \A f \in Perms(Len(K)) : Load(fam, M, Permute(K, f), Permute(p, f)) = Permute(base, f)

\* ---- the grids TLC enumerates ---------------------------------------------------
KVals == {R(1, 2), RInt(1), RInt(3)}
PVals == {RInt(1), RInt(2), RInt(5)}
MVals == {RInt(2), R(5, 2)}
Fams == {"henry", "langmuir"}
FamM == {<<"henry", One>>} \cup {<<"langmuir", m>> : m \in MVals}
\* adsorbed-phase fractions for the reverse problem: binary fractions, so that the
\* implementation's float sum is exactly 1 (reverse_iast refuses anything else)
XVals == {R(1, 8), R(1, 4), R(3, 8), R(1, 2), R(3, 4)}
XGrid(n) == {x \in [1..n -> XVals] : RSum(x) = One}

\* ---- forward / reverse invert each other ----------------------------------------
Inverts(fam, M, K, p) ==
   LET l == Load(fam, M, K, p)   x == Frac(l)   P == RSum(p)
       y == RevY(K, x, P)
   IN /\ \A i \in Idx(K) : RMul(y[i], P) = p[i]
      /\ RevLoad(fam, M, K, x, P) = l
=============================================================================
