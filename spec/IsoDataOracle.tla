---------------------------- MODULE IsoDataOracle ----------------------------
(* Scenario tables for C03, enumerated and computed by TLC:
   "split": every pressure sequence of length <= maxlen over 1..maxval with its allowed branch marks;
   "select": for a sequence + marks, the must/may positions for every branch and limit pair;
   "interp": exact interpolation values at the rational query points of a strictly increasing grid. *)
EXTENDS IsoData, Json, IOUtils

Q == JsonDeserialize(IOEnv.X_IN)
Lims(maxval) == {NoLim} \cup 0..(maxval + 1)
SetToSortedSeq(S) == LET RECURSIVE F(_, _)
                         F(T, acc) == IF T = {} THEN acc ELSE LET m == CHOOSE x \in T : \A y \in T : x <= y IN F(T \ {m}, Append(acc, m))
                     IN F(S, <<>>)
Step(q) ==
  CASE q.k = "split" ->
        [rows |-> {[p |-> p, allowed |-> MarksAllowed(p)] : p \in SeqsUpTo(1..q.maxval, q.maxlen)}]
    [] q.k = "select" ->
        [rows |-> {[branch |-> b, lo |-> lo, hi |-> hi,
                    must |-> SetToSortedSeq(MustSelect(q.vals, q.marks, b, lo, hi)),
                    may |-> SetToSortedSeq(MaySelect(q.vals, q.marks, b, lo, hi))] :
                      b \in {"all", "ads", "des"}, lo \in Lims(q.maxval), hi \in Lims(q.maxval)}]
    [] q.k = "interp" ->
        [rows |-> {[q |-> x, r |-> Interp(q.xs, q.ys, x)] : x \in {<<n, d>> \in (0..(2 * (q.xs[Len(q.xs)] + 1))) \X {1, 2, 4} :
                                                                     d = 1 \/ n % 2 = 1}}]
ASSUME JsonSerialize(IOEnv.X_OUT, [i \in 1..Len(Q) |-> Step(Q[i])])
VARIABLE x
Init == x = 0
Next == x' = x
=============================================================================
