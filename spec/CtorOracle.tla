------------------------------ MODULE CtorOracle ------------------------------
(* JSON batch oracle of X06: records [inv, obs] -> Ctor!Verdict plus what both descriptions say. *)
EXTENDS Ctor, Json, IOUtils
Q == JsonDeserialize(IOEnv.X_IN)
ToSet(s) == {s[k] : k \in DOMAIN s}
Norm(o) == [o EXCEPT !.warned = ToSet(o.warned), !.meta = ToSet(o.meta)]
Step(q) == LET v == Verdict(q.inv, Norm(q.obs))
               r == Impl(q.inv) IN
   [verdict |-> v.verdict, failing |-> v.failing, devs |-> v.devs, drift |-> v.drift,
    impl |-> [out |-> r.out, exc |-> r.exc, clause |-> r.clause, marks |-> r.marks, model |-> r.model, meta |-> r.meta, labels |-> r.labels, warned |-> r.warned],
    must |-> Must(q.inv), may |-> May(q.inv)]
ASSUME JsonSerialize(IOEnv.X_OUT, [k \in 1..Len(Q) |-> Step(Q[k])])
VARIABLE x
Init == x = 0
Next == x' = x
=============================================================================
