------------------------------ MODULE KernelMC ------------------------------
(***************************************************************************)
(* TLC walks the scenario space of spec/Kernel for the shipped kernel      *)
(* (77 widths, 177 rows) and the 5-column user kernel (5 widths, 14 rows)  *)
(* under every rotation 0..63 and checks that it is what the property      *)
(* quantifies over: non-negative, non-zero weight vectors over valid       *)
(* columns; grids inside the kernel rows with at least 4 points between    *)
(* the limit positions; and (Covers) every grid x limits x order           *)
(* combination occurs for the shipped kernel under every rotation.         *)
(***************************************************************************)
EXTENDS Kernel

VARIABLES kern, r, k
vars == <<kern, r, k>>
Dim(kn) == IF kn = "shipped" THEN <<77, 177>> ELSE <<5, 14>>

Init == kern \in {"shipped", "user5"} /\ r \in 0..63 /\ k = 1
Next == k < NScen(Dim(kern)[1]) /\ k' = k + 1 /\ UNCHANGED <<kern, r>>
Spec == Init /\ [][Next]_vars

S == Scenario(k, Dim(kern)[1], Dim(kern)[2], r)
WellFormed ==
   LET rows == GridRows(S.grid, Dim(kern)[2])  pos == LimitPos(Len(rows))
   IN /\ Len(S.w.cols) >= 1
      /\ \A c \in 1..Len(S.w.cols) : S.w.cols[c][1] \in 1..Dim(kern)[1] /\ S.w.cols[c][2] >= 1
      /\ \A c, d \in 1..Len(S.w.cols) : c < d => S.w.cols[c][1] < S.w.cols[d][1] \/ S.w.kind = "pair"
      /\ (S.w.kind = "pair" => S.w.cols[1][1] # S.w.cols[2][1])
      /\ DLt(DZero, S.w.scale)
      /\ \A i \in 1..Len(rows) : rows[i] \in 1..Dim(kern)[2]
      /\ \A i \in 1..(Len(rows) - 1) : rows[i] < rows[i + 1]
      /\ pos.a >= 1 /\ pos.b < Len(rows) /\ pos.b - pos.a >= 3
      /\ S.order \in 0..3 /\ S.limits \in {"none", "lower", "upper", "both"}
Combos(kn, rot) == {<<Scenario(i, Dim(kn)[1], Dim(kn)[2], rot).grid, Scenario(i, Dim(kn)[1], Dim(kn)[2], rot).limits,
                      Scenario(i, Dim(kn)[1], Dim(kn)[2], rot).order>> : i \in 1..NScen(Dim(kn)[1])}
Covers == (kern = "shipped" /\ k = 1) => Cardinality(Combos(kern, r)) = 64
=============================================================================
