------------------------------ MODULE KernelMC ------------------------------
(***************************************************************************)
(* TLC walks the scenario space of spec/Kernel for the shipped kernel      *)
(* (77 widths, 177 rows) and the 5-column user kernels (5 widths, 14 rows) *)
(* under every rotation 0..63 and checks that it is what the property      *)
(* quantifies over: non-negative, non-zero weight vectors over valid       *)
(* columns; grids inside the kernel rows with at least 4 points between    *)
(* the limit positions; and (Covers) every grid x limits x order           *)
(* combination occurs for the shipped kernel under every rotation.         *)
(***************************************************************************)
EXTENDS Kernel

VARIABLES kern, r, k
vars == <<kern, r, k>>
Dim(kn) == IF kn = "shipped" THEN <<77, 177>> ELSE <<5, 14>>

Init == kern \in {"shipped", "user5", "user5b"} /\ r \in 0..63 /\ k = 1
Next == k < NScen(Dim(kern)[1]) /\ k' = k + 1 /\ UNCHANGED <<kern, r>>
Spec == Init /\ [][Next]_vars

WTab == TLCEval([kn \in {"shipped", "user5", "user5b"} |-> Weights(Dim(kn)[1])])
S == Scenario(k, WTab[kern], Dim(kern)[2], r)
WellFormed ==
   LET sc == TLCEval(S)
       cols == sc.w.cols
       nc == Len(cols)
       rows == TLCEval(GridRows(sc.grid, Dim(kern)[2]))  pos == LimitPos(Len(rows))
   IN /\ nc >= 1
      /\ \A c \in 1..nc : cols[c][1] \in 1..Dim(kern)[1] /\ cols[c][2] >= 1
      /\ \A c \in 1..(nc - 1) : cols[c][1] # cols[c + 1][1] /\ (sc.w.kind # "pair" => cols[c][1] < cols[c + 1][1])
      /\ DLt(DZero, sc.w.scale)
      /\ \A i \in 1..Len(rows) : rows[i] \in 1..Dim(kern)[2]
      /\ \A i \in 1..(Len(rows) - 1) : rows[i] < rows[i + 1]
      /\ pos.a >= 1 /\ pos.b < Len(rows) /\ pos.b - pos.a >= 3
      /\ sc.order \in 0..3 /\ sc.limits \in {"none", "lower", "upper", "both"}
Combos(kn, rot) == {LET sc == Scenario(i, WTab[kn], Dim(kn)[2], rot) IN <<sc.grid, sc.limits, sc.order>> : i \in 1..NScen(Dim(kn)[1])}
\* the row orders are permutations of the table rows; the alternative grid keeps length and end points
RowOrdersOk == \A ro \in {"ascending", "descending", "shuffled"} : {RowPerm(ro, Dim(kern)[2])[i] : i \in 1..Dim(kern)[2]} = 1..Dim(kern)[2]
AltGridOk == LET rows == TLCEval(GridRows(S.grid, Dim(kern)[2])) IN
             AltOk(rows) => LET a == AltRows(rows) IN /\ Len(a) = Len(rows) /\ a[1] = rows[1] /\ a[Len(a)] = rows[Len(rows)] /\ a # rows
                                                   /\ \A i \in 1..(Len(a) - 1) : a[i] < a[i + 1]
Covers == (kern = "shipped" /\ k = 1) => Cardinality(Combos(kern, r)) = 64
=============================================================================
