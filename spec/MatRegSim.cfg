SPECIFICATION Spec
CONSTANTS
  Names = {"a", "A", "b"}
  Keys = {"density", "molar_mass", "note"}
  NV = 2
  MaxHeap = 6
  Isos = {1, 2}
  Bases = {"mass", "volume", "molar"}
  PropMaps <- SimPropMaps
  PropChoices <- SimPropChoices
INVARIANT RefsResolve
CHECK_DEADLOCK FALSE
