--------------------------- MODULE EnthalpyOracle ---------------------------
(* Batch oracle for C19 (harness/drivers/c19.py): scenario lists and judgements of spec/Enthalpy. *)
EXTENDS Enthalpy, Json, IOUtils

Q == JsonDeserialize(IOEnv.X_IN)
FlatIso == LET f == IsoScenarios IN SetToSeq({f[x] : x \in DOMAIN f})
FlatBranch == LET f == BranchScenarios IN SetToSeq({f[x] : x \in DOMAIN f})
FlatPoint == LET f == PointScenarios IN SetToSeq({f[x] : x \in DOMAIN f})
Step(q) ==
  CASE q.k = "scen" -> [iso |-> FlatIso, point |-> FlatPoint, branch |-> FlatBranch, whit_storage |-> WhitStorage, whit_model_units |-> WhitModelUnits]
    [] q.k = "iso" -> IsoJudge(q)
    [] q.k = "whit" -> WhitJudge(q)
    [] q.k = "point" -> PointJudge(q)

ASSUME JsonSerialize(IOEnv.X_OUT, [i \in 1..Len(Q) |-> Step(Q[i])])
VARIABLE x
Init == x = 0
Next == x' = x
=============================================================================
