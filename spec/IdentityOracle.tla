--------------------------- MODULE IdentityOracle ---------------------------
(***************************************************************************)
(* C05 binding.  Two queries (IOEnv.X_IN):                                 *)
(*  [k |-> "scenarios"]  the scenario table TLC enumerates from            *)
(*        spec/Identity.tla: every base content x minimal mutation x       *)
(*        construction route, each with its full content record (the       *)
(*        harness builds the real object FROM that record).                *)
(*  [k |-> "judge", obs |-> << [s, id, ok, after, others] >>]              *)
(*        s: the scenario; id: identifier observed on the real object;     *)
(*        ok: FALSE when no identifier could be obtained; after: the       *)
(*        identifier after a sequence of read-only calls; others:          *)
(*        identifiers of the same scenario built in other interpreter      *)
(*        processes (other PYTHONHASHSEED).                                *)
(*        TLC evaluates, for ALL pairs of objects of one base,             *)
(*              obs[i].id = obs[j].id  <=>  ContentEq(i, j)                *)
(*        and for the unmutated default-route objects of all bases, plus   *)
(*        Read / process stability, and returns the offending pairs        *)
(*        grouped into classes (what differs, and whether the descriptive  *)
(*        model ImplHidden of the current hashgen predicts it).            *)
(***************************************************************************)
EXTENDS Identity, Json, IOUtils, SequencesExt

Q == JsonDeserialize(IOEnv.X_IN)

Table == LET seq == TLCEval(SetToSeq(Scenarios)) IN
         TLCEval([i \in 1..Len(seq) |->
            LET s == seq[i] IN
            [base |-> s.base, mut |-> s.mut, route |-> s.route, content |-> ContentOf(s),
             effective |-> Effective(Bases[s.base], s.mut), default |-> (s.mut = None /\ s.route = R0(Bases[s.base]))]])

Factors == {"cont", "lit", "br", "via", "perm", "alias", "dflt", "sub", "npm"}
RouteDiff(r1, r2) == {f \in Factors : r1[f] # r2[f]}
HiddenDiff(h1, h2) == {f \in {"num", "index", "branch"} : h1[f] # h2[f]}

Judge(obs, variant) ==
   LET n == Len(obs)
       C == TLCEval([i \in 1..n |-> Canon(ContentOf(obs[i].s))])
       H == TLCEval([i \in 1..n |-> ImplHiddenOf(variant, ContentOf(obs[i].s), obs[i].s.route)])
       \* the same points in another stored order: the property text does not say whether the order
       \* of the points is content, so such pairs are not judged either way
       CB == TLCEval([i \in 1..n |-> CanonUnordered(ContentOf(obs[i].s))])
       orderOnly(p) == C[p[1]] # C[p[2]] /\ CB[p[1]] = CB[p[2]]
       has == {i \in 1..n : obs[i].ok}
       idx(b) == {i \in has : obs[i].s.base = b}
       defaults == {i \in has : obs[i].s.mut = None /\ obs[i].s.route = R0(Bases[obs[i].s.base])}
       pairsOf(S) == {p \in S \X S : p[1] < p[2]}
       wrong(p) == ~orderOnly(p) /\ ((obs[p[1]].id = obs[p[2]].id) # (C[p[1]] = C[p[2]]))
       bad == UNION {{p \in pairsOf(idx(b)) : wrong(p)} : b \in BaseNames}
              \cup {p \in pairsOf(defaults) : obs[p[1]].s.base # obs[p[2]].s.base /\ wrong(p)}
       npairs == LET RECURSIVE sum(_) sum(S) == IF S = {} THEN 0 ELSE LET b == CHOOSE x \in S : TRUE IN
                                                   (Cardinality(idx(b)) * (Cardinality(idx(b)) - 1)) \div 2 + sum(S \ {b})
                 IN sum(BaseNames) + (Cardinality(defaults) * (Cardinality(defaults) - 1)) \div 2
       classOf(p) ==
          LET i == p[1]  j == p[2]
              same == C[i] = C[j]
              implEq == same /\ H[i] = H[j]
              predicted == implEq = (obs[i].id = obs[j].id)
          IN [kind |-> IF same THEN "same content, different identifier" ELSE "different content, same identifier",
              cls |-> Bases[obs[i].s.base].cls,
              impl_predicts |-> predicted,
              what |-> IF same THEN (IF predicted THEN SetToSeq(HiddenDiff(H[i], H[j])) ELSE SetToSeq(RouteDiff(obs[i].s.route, obs[j].s.route)))
                       ELSE <<Diff(ContentOf(obs[i].s), ContentOf(obs[j].s))>>]
       classes == {classOf(p) : p \in bad}
       example(c) == LET p == CHOOSE q \in bad : classOf(q) = c IN
                     [a |-> obs[p[1]].s, b |-> obs[p[2]].s, id_a |-> obs[p[1]].id, id_b |-> obs[p[2]].id]
       noid == {i \in 1..n : ~obs[i].ok}
       readbad == {i \in has : obs[i].after # obs[i].id}
       procbad == {i \in has : \E k \in DOMAIN obs[i].others : obs[i].others[k] # obs[i].id}
       \* an isotherm rebuilt from what the object hands out (to_dict / model.to_dict / data) is the same content
       clonebad == {i \in has : \E k \in DOMAIN obs[i].clones : obs[i].clones[k] # obs[i].id}
       \* the descriptive model says an identifier exists iff ImplHasId
       driftNoId == {i \in 1..n : obs[i].ok # ImplHasIdOf(variant, ContentOf(obs[i].s), obs[i].s.route)}
   IN [objects |-> n, pairs |-> npairs, bad_pairs |-> Cardinality(bad),
       classes |-> SetToSeq({[class |-> c, count |-> Cardinality({p \in bad : classOf(p) = c}), example |-> example(c)] : c \in classes}),
       no_identifier |-> SetToSeq({[s |-> obs[i].s, error |-> obs[i].id, hidden |-> H[i]] : i \in noid}),
       changed_by_reads |-> SetToSeq({[s |-> obs[i].s, reads |-> obs[i].reads] : i \in readbad}),
       changed_by_process |-> SetToSeq({[s |-> obs[i].s] : i \in procbad}),
       clone_differs |-> SetToSeq({[s |-> obs[i].s, reads |-> obs[i].reads, id |-> obs[i].id, clones |-> obs[i].clones] : i \in clonebad}),
       reads_checked |-> Cardinality(has), process_checked |-> Cardinality({i \in has : Len(obs[i].others) > 0}),
       content_classes |-> Cardinality({C[i] : i \in 1..n}),
       drift_no_identifier |-> Cardinality(driftNoId)]

\* isotherms FITTED to the same numbers handed over in different forms: the content is the
\* projected model (name, branch, parameters, ranges, rmse as shortest-repr strings)
FitJudge(obs) ==
   LET n == Len(obs)
       has == {i \in 1..n : obs[i].ok}
       bad == {p \in has \X has : p[1] < p[2] /\ ((obs[p[1]].id = obs[p[2]].id) # (obs[p[1]].model = obs[p[2]].model))}
   IN [no_identifier |-> SetToSeq({[form |-> obs[i].form, error |-> obs[i].id] : i \in (1..n) \ has}),
       bad |-> SetToSeq({[a |-> obs[p[1]].form, b |-> obs[p[2]].form,
                          kind |-> IF obs[p[1]].model = obs[p[2]].model THEN "same content, different identifier"
                                   ELSE "different content, same identifier"] : p \in bad}),
       pairs |-> (Cardinality(has) * (Cardinality(has) - 1)) \div 2]

\* EDIT AFTER READ on one live object (the Mutate / Read actions of IdentityMC on the real code):
\*   build base content by route q.s.route, read the identifier (through iso_id, == or repr),
\*   change the content IN PLACE (mutation q.s.mut of the spec, through one of the ways a user
\*   has: cell / column assignment on data_raw, properties[...], setattr, model.params[...], ...),
\*   read the identifier again, optionally undo the edit in place and read once more.
\* The identifier is a function of the CURRENT content: after the edit it is the identifier of a
\* freshly built isotherm with the edited content, it differs from the old one iff the spec says
\* the content changed (Effective, through Canon), == agrees, and undoing restores it.
EditClauses(q) ==
   LET eff == Effective(Bases[q.s.base], q.s.mut) IN
   {c \in {"identifier before the edit = identifier of a fresh isotherm with the base content",
           "identifier after an in-place edit = identifier of a fresh isotherm with the edited content",
           "identifier changes iff the content changes",
           "== with a fresh isotherm of the edited content",
           "== with a fresh isotherm of the old content iff the content did not change",
           "undoing the edit in place restores the identifier"} :
      ~ CASE c = "identifier before the edit = identifier of a fresh isotherm with the base content" -> q.before = q.fresh_base
          [] c = "identifier after an in-place edit = identifier of a fresh isotherm with the edited content" -> q.after = q.fresh
          [] c = "identifier changes iff the content changes" -> (q.after # q.before) = eff
          [] c = "== with a fresh isotherm of the edited content" -> q.eq_fresh
          [] c = "== with a fresh isotherm of the old content iff the content did not change" -> q.eq_old = ~eff
          [] c = "undoing the edit in place restores the identifier" -> q.undo = "" \/ q.undo = q.before}
EditJudge(q) == LET f == EditClauses(q) IN
                [ok |-> f = {}, failed |-> SetToSeq(f), effective |-> Effective(Bases[q.s.base], q.s.mut),
                 valid |-> q.s.mut \in MutsOf(Bases[q.s.base])]

Step(q) ==
  CASE q.k = "scenarios" -> [table |-> Table, defaults |-> Labels0]
    [] q.k = "edit" -> EditJudge(q)
    [] q.k = "judge" -> Judge(q.obs, q.impl)
    [] q.k = "fit" -> FitJudge(q.obs)

ASSUME JsonSerialize(IOEnv.X_OUT, [i \in 1..Len(Q) |-> Step(Q[i])])
VARIABLE x
Init == x = 0
Next == x' = x
=============================================================================
