SPECIFICATION SpecSys
CONSTANT MaxDepth = 3
CONSTANT InitSel = "few"
INVARIANT NoAlias
INVARIANT Consistent
PROPERTY DescriptionInherited
PROPERTY TemplateUntouched
PROPERTY Independent
PROPERTY SpecSelfConsistent
CHECK_DEADLOCK FALSE
