SPECIFICATION ImplSys
CONSTANT MaxDepth = 3
CONSTANT InitSel = "all"
INVARIANT ImplNoAliasButValues
INVARIANT ConsistentButForOwnUnits
PROPERTY DeviationsExact
PROPERTY NamedListComplete
PROPERTY IndependentButForSharedValues
PROPERTY TemplateUntouchedButForNamesake
CHECK_DEADLOCK FALSE
