----------------------------- MODULE MatRegMC -----------------------------
(***************************************************************************)
(* X05: the material registry / binding machine of MatReg on small         *)
(* constants.  TLC explores EVERY history of the ten public operations     *)
(* (bounded number of Material objects) and checks in every reachable      *)
(* state, for every operation enabled there, the transcription Impl        *)
(* against the documented clauses:                                         *)
(* (invariant AllOperations = conjunction of the ...At clauses)            *)
(*   OnlyKnownDivergence   Impl breaks a clause exactly in the named       *)
(*                         deviation classes, and then only the clauses    *)
(*                         that class is known to cost                     *)
(*   RoundTripEqual        to_dict + constructor refers to an equal        *)
(*                         material, outside the named classes             *)
(*   NoActionAtADistance   no operation changes an object it does not      *)
(*                         address, outside the named classes              *)
(*   RefsResolve, RegistryNamesUnique (as long as nobody appended a        *)
(*   namesake to the list by hand), FindFirstMatch, TypeOK                 *)
(* `last` is an observation variable for replaying behaviours; it is       *)
(* dropped from the fingerprint (VIEW) in the exhaustive runs.             *)
(***************************************************************************)
EXTENDS MatReg

MCPropMaps == {p \in [Keys -> 0..NV] : "note" \in Keys => p["note"] <= 1}
\* what a user passes in the quick run: nothing, a density, another density with a note (every map stays reachable by editing)
MCPropChoices == {NoProps, [NoProps EXCEPT !["density"] = 1], [NoProps EXCEPT !["density"] = 2, !["note"] = 1]}
\* the thorough run: three objects, both reserved keys (the second with one value), all three bases, one isotherm
MCPropMapsT == {p \in [Keys -> 0..NV] : "molar_mass" \in Keys => p["molar_mass"] <= 1}
\* behaviours for replay (MatRegSim.cfg, tlc -simulate): all three keys, three names (two differ in letter case only),
\* all bases; a handful of dictionaries a user passes, every map reachable by editing
SimPropMaps == [Keys -> 0..NV]
SimPropChoices == {NoProps, [NoProps EXCEPT !["density"] = 1], [NoProps EXCEPT !["density"] = 2, !["molar_mass"] = 1],
                   [NoProps EXCEPT !["density"] = 1, !["molar_mass"] = 2, !["note"] = 1], [NoProps EXCEPT !["note"] = 2]}
View == <<heap, reg, iso>>

TypeOK == /\ \A h \in DOMAIN heap : heap[h].name \in Names \cup {NoName} /\ heap[h].props \in PropMaps /\ heap[h].x = 0
          /\ Len(heap) <= MaxHeap
          /\ \A i \in Isos : iso[i].basis \in Bases
RefsResolve == /\ \A i \in Isos : iso[i].mat \in 0..Len(heap)
               /\ \A j \in DOMAIN reg : reg[j] \in 1..Len(heap)
               /\ \A j, k \in DOMAIN reg : reg[j] = reg[k] => j = k
\* ---- the per-operation clauses (o ranges over the operations enabled in the current state; r = Impl(S, o))
\* store=True alone never registers a name twice: the first duplicate needs a hand-made MATERIAL_LIST.append of a namesake
OnlyAppendBreaksUniqueAt(o, r) == UniqueNames(S) /\ ~UniqueNames(r.s) => o.op = "ListAppend"
\* Impl against the documentation: a clause is broken exactly in the named deviation classes, and then only the
\* clauses that class is known to cost
OnlyKnownDivergenceAt(o, r) ==
   LET bad == Violated(S, o, r.s, r.out)   d == DevClass(S, o) IN
   /\ (bad = {}) <=> (d = "none")
   /\ bad \subseteq DevClauses(d)
   /\ d \in DevNames \cup {"none"}
RoundTripEqualAt(o, r) ==
   o.op = "RoundTrip" /\ DevClass(S, o) = "none" =>
      r.out.res = "ok" /\ r.out.name = MatOf(S, o.i).name /\ r.out.props = MatOf(S, o.i).props /\ r.s = S
NoActionAtADistanceAt(o, r) ==
   DevClass(S, o) \notin {"DictUpdatesRegistered", "RoundTripRebindsToRegisteredNamesake"} =>
      Changed(S, r.s) \subseteq (IF o.op = "EditProps" THEN {o.h} ELSE {})
\* a conversion reads the properties of the object the isotherm is bound to - whatever a namesake in the registry says
ConversionUsesBoundObjectAt(o, r) ==
   o.op \in {"ConvertMaterial", "ReadLoading"} /\ r.out.res = "ok" =>
      RatEq(<<r.out.num, r.out.den>>, Factor(iso[o.i].basis, o.basis, heap[iso[o.i].mat].props))
\* an isotherm bound to an object shows every edit of that object (a NAME binds the registered object itself)
SharedObjectSeesEditsAt(o, r) ==
   o.op = "EditProps" /\ o.form = "dict" => \A i \in Isos : iso[i].mat = o.h => MatOf(r.s, i).props[o.key] = o.v

AllOperations ==
   \A o \in EnabledOps : LET r == Impl(S, o) IN
      /\ OnlyAppendBreaksUniqueAt(o, r)
      /\ OnlyKnownDivergenceAt(o, r)
      /\ RoundTripEqualAt(o, r)
      /\ NoActionAtADistanceAt(o, r)
      /\ ConversionUsesBoundObjectAt(o, r)
      /\ SharedObjectSeesEditsAt(o, r)

\* lookups by name: the first entry of that name in list order, refused iff there is none
FindFirstMatch ==
   \A n \in Names : LET r == FindImpl(S, [Op0 EXCEPT !.form = "name", !.name = n]) IN
      IF RegPos(S, n) = {} THEN r.res = "ParameterError"
      ELSE r.res = "ok" /\ heap[r.h].name = n /\ IsReg(S, r.h) /\ \A j \in RegPos(S, n) : MinOf(RegPos(S, n)) <= j
\* the replay variable agrees with the machine (sanity of `last`)
LastIsAStep == last.op.op = "" \/ last.out.res \in {"ok", "value", "None", "ParameterError", "TypeError"}

\* reachability witnesses: every named deviation class is actually reachable (none is vacuous)
Reached(d) == \E o \in EnabledOps : DevClass(S, o) = d
=============================================================================
