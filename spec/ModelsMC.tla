------------------------------ MODULE ModelsMC ------------------------------
(***************************************************************************)
(* TLC walks the exact grid of spec/Models.tla: one behaviour per (model,   *)
(* parameter vector), one step per neighbouring pair of grid pressures.    *)
(* Invariants: every row satisfies the defining relation, zero, bounds and *)
(* Henry factorisation; action property: strictly increasing loading.      *)
(***************************************************************************)
EXTENDS Models
VARIABLES m, a, k
vars == <<m, a, k>>
Init == /\ m \in AllModels
        /\ a \in ParamsR(m)
        /\ k = 1
Next == /\ k < Len(PGridR(m, a))
        /\ k' = k + 1
        /\ UNCHANGED <<m, a>>
Spec == Init /\ [][Next]_vars

P(i) == PGridR(m, a)[i]
Rows == RowOK(m, a, P(k))
Zeros == ZeroOK(m, a)
\* the table is a function: distinct grid pressures, ascending, first one is zero
GridShape == P(1) = R0 /\ \A i \in 1..(Len(PGridR(m, a)) - 1) : RLt(P(i), P(i + 1))
Monotone == [][StepMono(m, a, P(k), P(k'))]_vars
\* the general grid is well formed: arguments ascending and positive, Henry slope positive
GeneralGridShape ==
   k = 1 => \A b \in ParamsG(m) : LET xs == ArgsG(m, b) IN
        /\ RPos(xs[1])
        /\ \A i \in 1..(Len(xs) - 1) : RLt(xs[i], xs[i + 1])
        /\ (HasHenry(m) => RPos(HenryR(m, b)))
        /\ (HasCap(m) => RPos(CapR(m, b)))
=============================================================================
