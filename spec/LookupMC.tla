------------------------------- MODULE LookupMC -------------------------------
(***************************************************************************)
(* Model checking of Lookup: every abstract invocation of every public     *)
(* operation (one named action each) is applied once; the operations which *)
(* touch the two module-level caches are then applied again and again on   *)
(* whatever cache state has been reached.                                  *)
(***************************************************************************)
EXTENDS Lookup
VARIABLES inv, tc, kc, res, phase
vars == <<inv, tc, kc, res, phase>>
Pending == [cls |-> "pending", why |-> NA, target |-> <<>>]

\* the model checker first fixes the operation and its first argument (initial states), then the other arguments
Init == \E op \in Ops : \E a0 \in ArgDom(op).a : inv = Inv(op, a0, NA, NA, NA, NA, NA, NA) /\ tc = {} /\ kc = {} /\ res = Pending /\ phase = "pick"
Pick == /\ phase = "pick" /\ inv' \in InvsOf(inv.op, {inv.a}) /\ phase' = "call" /\ UNCHANGED <<tc, kc, res>>

Step == /\ phase = "call"
        /\ res' = Impl(inv, tc, kc)
        /\ tc' = TcAfter(inv, tc) /\ kc' = KcAfter(inv, kc, Impl(inv, tc, kc))
        /\ phase' = "done" /\ UNCHANGED inv
\* one action per public operation
GetThicknessModel == inv.op = "get_thickness_model" /\ Step
ThicknessEval     == inv.op = "thickness_eval" /\ Step
GetKelvinModel    == inv.op = "get_kelvin_model" /\ Step
GetMeniscus       == inv.op = "get_meniscus_geometry" /\ Step
KelvinRadius      == inv.op = "kelvin_radius" /\ Step
GetHkModel        == inv.op = "get_hk_model" /\ Step
PsdMesoporous     == inv.op = "psd_mesoporous" /\ Step
PsdMicroporous    == inv.op = "psd_microporous" /\ Step
HkLowLevel        == inv.op = "hk_lowlevel" /\ Step
PsdDft            == inv.op = "psd_dft" /\ Step
AreaBET           == inv.op = "area_BET" /\ Step
AreaLangmuir      == inv.op = "area_langmuir" /\ Step
DrPlot            == inv.op = "dr_plot" /\ Step
DaPlot            == inv.op = "da_plot" /\ Step
TPlot             == inv.op = "t_plot" /\ Step
AlphaS            == inv.op = "alpha_s" /\ Step
\* a further call of an operation that depends on / changes the caches (only after such an operation, to keep the graph small)
NextCall == /\ phase = "done" /\ inv.op \in StatefulOps
            /\ inv' \in Stateful /\ res' = Pending /\ phase' = "call" /\ UNCHANGED <<tc, kc>>

Next == Pick \/ GetThicknessModel \/ ThicknessEval \/ GetKelvinModel \/ GetMeniscus \/ KelvinRadius \/ GetHkModel \/ PsdMesoporous
        \/ PsdMicroporous \/ HkLowLevel \/ PsdDft \/ AreaBET \/ AreaLangmuir \/ DrPlot \/ DaPlot \/ TPlot \/ AlphaS \/ NextCall
SpecMC == Init /\ [][Next]_vars

TypeOK == /\ (phase # "pick" => IsInvocation(inv)) /\ tc \subseteq StdKeys /\ kc \subseteq {KernelFile("internal"), KernelFile("path_ok")}
          /\ phase \in {"pick", "call", "done"} /\ res.cls \in {"pending", "ok", "ParameterError", "CalculationError", "other"}

\* ---- implementation against documentation: every divergence is one of the named classes, with the named shape
Diverges == phase = "done" /\ res \notin Spec(inv, tc \ (IF inv.op = "thickness_eval" /\ inv.a \in Tabulated /\ res.target[3] # "cached" THEN {StdKey[inv.a]} ELSE {}),
                                                   kc \ (IF inv.op = "psd_dft" /\ res.cls = "ok" /\ res.target[3] = "loaded" THEN {KernelFile(inv.a)} ELSE {}))
OnlyNamedDeviations == Diverges => DevOf(inv, res) # "none"
\* ... and a named class never hides a conforming outcome behind a wrong shape: where no class applies the code conforms
NoClassNoDivergence == (phase = "done" /\ DevClasses(inv) = {}) => ~Diverges

\* ---- sanity of the prescriptive part itself
Live == phase # "pick"
SpecTotal == Live => (Spec(inv, tc, kc) # {}) /\ \A r \in Spec(inv, tc, kc) : r.cls \in {"ok", "ParameterError", "CalculationError"}
\* a success and a refusal are never both allowed, except for the three documented-as-silent cases
SilentCases == (inv.op \in {"t_plot", "alpha_s"} /\ inv.g \in EmptyRange \cup {"lo_only", "hi_only"}) \/ (inv.op = "da_plot" /\ inv.a = "0")
Decisive == (Live /\ (\E r \in Spec(inv, tc, kc) : r.cls = "ok") /\ (\E r \in Spec(inv, tc, kc) : r.cls # "ok")) => SilentCases
\* only pyGAPS errors blaming an argument that really is objectionable; CalculationError only for the limits
CalcErrorOnlyForLimits == Live => \A r \in Spec(inv, tc, kc) : (r.cls = "CalculationError" => r.why = "limits")
\* the meniscus table: KJS applicable exactly for ads + cylinder; desorption never sees a cylindrical meniscus; slits never curve twice
MeniscusTableSane == /\ \A br \in {"ads", "des"}, g \in Pores4 : MeniscusDoc[br][g] \in Men3
                     /\ \A br \in {"ads", "des"}, g \in Pores4 : (MeniscusDoc[br][g] = "cylindrical") <=> (br = "ads" /\ g = "cylinder")
                     /\ \A br \in {"ads", "des"} : MeniscusDoc[br]["slit"] = "hemicylindrical"
ASSUME MeniscusTableSane
\* a mesopore PSD that is allowed to succeed reaches the kernel its psd_model names, with the meniscus of the table
MesoDispatchSane == (Live /\ inv.op = "psd_mesoporous") =>
   \A r \in Spec(inv, tc, kc) : r.cls = "ok" =>
      /\ r.target[1] = MesoFn[inv.a] /\ r.target[2] = inv.b
      /\ (inv.c = "none" => r.target[6] = MeniscusDoc[inv.d][inv.b]) /\ (inv.c # "none" => r.target[6] = inv.c)
      /\ (inv.f = "Kelvin-KJS" => r.target[6] = "cylindrical")

\* ---- the caches (action properties)
CacheMonotone == [][tc \subseteq tc' /\ kc \subseteq kc']_vars
CacheOnlyByItsOperation == [][(tc' # tc => inv.op = "thickness_eval" /\ inv.a \in Tabulated) /\ (kc' # kc => inv.op = "psd_dft" /\ res'.cls = "ok")]_vars
\* a file is read exactly when its content is not in the cache yet
LoadIffNotCached == [][(phase = "call" /\ inv.op = "thickness_eval" /\ inv.a \in Tabulated) =>
                        ((res'.target[3] = "cached") <=> (StdKey[inv.a] \in tc))]_vars

\* every named deviation class is alive (witnessed), so the list carries no dead entries
Witness == [c \in DevNames |->
   CASE c = "IsothermThicknessModelUnsupported" -> Inv("t_plot", "isotherm", "ads", NA, NA, NA, NA, "none")
     [] c = "KelvinRadiusUnknownMeniscusUnboundLocal" -> Inv("kelvin_radius", "Kelvin", "unknown", NA, NA, NA, NA, NA)
     [] c = "HalfopenCylinderAdvertisedButUnsupported" -> Inv("psd_mesoporous", "pygaps-DH", "halfopen-cylinder", "none", "des", "Halsey", "Kelvin", "none")
     [] c = "MalformedLimitsLeakPythonError" -> Inv("area_BET", "ads", NA, NA, NA, NA, NA, "scalar")
     [] c = "OneSidedTLimitsLeakTypeError" -> Inv("t_plot", "Halsey", "ads", NA, NA, NA, NA, "hi_only")
     [] c = "BranchNoneNotRefused" -> Inv("area_langmuir", "none", NA, NA, NA, NA, NA, "none")
     [] c = "UnknownKernelLeaksFileNotFound" -> Inv("psd_dft", "path_missing", "ads", NA, NA, NA, NA, "none")
     [] c = "DAExponentZeroDivision" -> Inv("da_plot", "0", "ads", NA, NA, NA, NA, "none")
     [] c = "HKLowLevelUnknownGeometrySilent" -> Inv("hk_lowlevel", "psd_horvath_kawazoe", "unknown", "nocy", NA, NA, NA, NA)]
ASSUME \A c \in DevNames : /\ IsInvocation(Witness[c])
                           /\ Impl(Witness[c], {}, {}) \notin Spec(Witness[c], {}, {})
                           /\ DevOf(Witness[c], Impl(Witness[c], {}, {})) = c
                           /\ Verdict(Witness[c], {}, {}, Impl(Witness[c], {}, {})) = "known-deviation"
=============================================================================
