-------------------------------- MODULE Lookup --------------------------------
(***************************************************************************)
(* Growth beyond the listed properties (X07): the model lookups and the    *)
(* argument validation / dispatch layer of pygaps.characterisation as      *)
(* decision tables.                                                        *)
(*                                                                         *)
(*   models_thickness.get_thickness_model, the tabulated standard          *)
(*   isotherms (load_std_isotherm, cache _LOADED), models_kelvin           *)
(*   (get_kelvin_model, get_meniscus_geometry, kelvin_radius[_kjs]),       *)
(*   models_hk.get_hk_model, psd_mesoporous, psd_microporous (+ the two    *)
(*   low-level HK functions), psd_dft (kernel name vs path, cache          *)
(*   _LOADED), area_BET, area_langmuir, dr_plot, da_plot, t_plot, alpha_s. *)
(*                                                                         *)
(* The numerical content of these methods is specified elsewhere           *)
(* (Selection, Meso, HK, Kernel, Linearised).  Here an invocation is       *)
(* abstracted to the CLASS of every argument (a valid name, an unknown     *)
(* name, None, a callable, a dict with/without the required keys, the form *)
(* of the limits pair, ...) and the outcome to                             *)
(*     [cls, why, target]                                                  *)
(* cls    = "ok" | "ParameterError" | "CalculationError" | "other"         *)
(* why    = the argument the error blames (for "other": the Python         *)
(*          exception type)                                                *)
(* target = for "ok": the identity of everything that was dispatched to    *)
(*          (kernel function, thickness function, Kelvin function and the  *)
(*          meniscus bound into it, parameter set, data file, window class)*)
(*                                                                         *)
(* Abstract state: tc = the standard isotherms held in                     *)
(* models_thickness._LOADED, kc = the kernels held in psd_kernel._LOADED.  *)
(* One named action per public operation (module LookupMC).                *)
(*                                                                         *)
(*   Spec(i, tc, kc)  prescriptive: the SET of outcomes the docstrings,    *)
(*                    the manual and the error messages of the library     *)
(*                    allow (where they are silent every defensible        *)
(*                    reading is in the set)                               *)
(*   Impl(i, tc, kc)  descriptive: statement-by-statement transcription    *)
(*   DevClasses(i), Shape(c, r): the NAMED classes where the code leaves   *)
(*                    the documentation; everything else must conform.     *)
(***************************************************************************)
EXTENDS Naturals, Sequences, FiniteSets, TLC

NA == "-"
Ok(t)    == [cls |-> "ok", why |-> NA, target |-> t]
PE(w)    == [cls |-> "ParameterError", why |-> w, target |-> <<>>]
CE(w)    == [cls |-> "CalculationError", why |-> w, target |-> <<>>]
Other(x) == [cls |-> "other", why |-> x, target |-> <<>>]
Go       == [cls |-> "go", why |-> NA, target |-> <<>>]        \* "no objection, carry on"

Inv(op, a, b, c, d, e, f, g) == [op |-> op, a |-> a, b |-> b, c |-> c, d |-> d, e |-> e, f |-> f, g |-> g]

---------------------------------------------------------------------------
(* THE DOCUMENTED TABLES *)

\* models_thickness._THICKNESS_MODELS (docs: thickness_models reference page, psd.ipynb, tplot.ipynb)
ThkNames == {"Halsey", "Harkins/Jura", "SiO2 Jaroniec/Kruk/Olivier", "carbon black Kruk/Jaroniec/Gadkaree", "zero thickness"}
ThkFn == [n \in ThkNames |->
   CASE n = "Halsey" -> "thickness_halsey" [] n = "Harkins/Jura" -> "thickness_harkins_jura"
     [] n = "SiO2 Jaroniec/Kruk/Olivier" -> "SiO2_JKO" [] n = "carbon black Kruk/Jaroniec/Gadkaree" -> "CB_KJG"
     [] n = "zero thickness" -> "thickness_zero"]
\* the tabulated ones: key in pygaps.data.STANDARD_ISOTHERMS and the file under data/stdiso that holds the
\* isotherm of the reference cited in the docstring (Jaroniec/Kruk/Olivier: LiChrospher Si-1000 silica;
\* Kruk/Jaroniec/Gadkaree: Cabot BP280 carbon black)
Tabulated == {"SiO2 Jaroniec/Kruk/Olivier", "carbon black Kruk/Jaroniec/Gadkaree"}
StdKey == [n \in Tabulated |-> IF n = "SiO2 Jaroniec/Kruk/Olivier" THEN "SiO2_JKO" ELSE "CB_KJG"]
StdFile == [n \in Tabulated |-> IF n = "SiO2 Jaroniec/Kruk/Olivier" THEN "LiChrospher Si-1000 silica.csv" ELSE "Cabot BP280 carbon black.csv"]
StdKeys == {"SiO2_JKO", "CB_KJG"}

\* models_kelvin
KelNames == {"Kelvin", "Kelvin-KJS"}
KelFn == [n \in KelNames |-> IF n = "Kelvin" THEN "kelvin_radius" ELSE "kelvin_radius_kjs"]
Pores4 == {"slit", "cylinder", "halfopen-cylinder", "sphere"}
Pores5 == Pores4 \cup {"unknown"}
Men3 == {"cylindrical", "hemispherical", "hemicylindrical"}
\* meniscus of the condensing (ads) / evaporating (des) phase: Cohan - an open-ended cylinder fills from a
\* cylindrical film and empties through a hemispherical meniscus; a slit always has a hemicylindrical one;
\* a closed end or a sphere always gives a hemispherical one ("cylindrical (adsorption branch + cylindrical
\* pore geometry)" in kelvin_radius_kjs, the table in get_meniscus_geometry)
MeniscusDoc == [br \in {"ads", "des"} |-> [g \in Pores4 |->
   CASE g = "slit" -> "hemicylindrical"
     [] g = "cylinder" -> (IF br = "ads" THEN "cylindrical" ELSE "hemispherical")
     [] g = "halfopen-cylinder" -> "hemispherical"
     [] g = "sphere" -> "hemispherical"]]
\* geometry factor of the Kelvin equation: r_K = -2 gamma V_m / (f R T ln p)
KelvinFactor == [m \in Men3 |-> CASE m = "cylindrical" -> "2" [] m = "hemispherical" -> "1" [] m = "hemicylindrical" -> "1/2"]

\* models_hk._ADSORBENT_MODELS with the published parameter sets (HK 1983, Saito-Foley 1991), Python repr of
\* molecular_diameter [nm], polarizability [nm3], magnetic_susceptibility [nm3], surface_density [molecules/m2]
HkNames == {"Carbon(HK)", "AlSiOxideIon", "AlPhOxideIon"}
HkTable == [n \in HkNames |->
   CASE n = "Carbon(HK)" -> <<"PROPERTIES_CARBON", "0.34", "0.00102", "1.35e-07", "3.845e+19">>
     [] n = "AlSiOxideIon" -> <<"PROPERTIES_AlSi_OXIDE_ION", "0.276", "0.0025", "1.3e-08", "1.315e+19">>
     [] n = "AlPhOxideIon" -> <<"PROPERTIES_AlPh_OXIDE_ION", "0.26", "0.0025", "1.3e-08", "1e+19">>]
HkKeys == <<"molecular_diameter", "polarizability", "magnetic_susceptibility", "surface_density">>   \* HK_KEYS, in order
HkDicts == {"dict_full", "dict_extra", "dict_no_molecular_diameter", "dict_no_polarizability", "dict_no_magnetic_susceptibility",
            "dict_no_surface_density", "dict_empty"}
MissingOf(d) == CASE d \in {"dict_full", "dict_extra"} -> {}
                  [] d = "dict_empty" -> {HkKeys[k] : k \in 1..4}
                  [] d = "dict_no_molecular_diameter" -> {"molecular_diameter"} [] d = "dict_no_polarizability" -> {"polarizability"}
                  [] d = "dict_no_magnetic_susceptibility" -> {"magnetic_susceptibility"} [] d = "dict_no_surface_density" -> {"surface_density"}
FirstMissing(d) == HkKeys[CHOOSE k \in 1..4 : HkKeys[k] \in MissingOf(d) /\ \A j \in 1..(k - 1) : HkKeys[j] \notin MissingOf(d)]
HkArgs == HkNames \cup HkDicts \cup {"unknown", "none", "list"}

\* psd models
MesoModels == {"pygaps-DH", "BJH", "DH"}
MesoFn == [m \in MesoModels |-> CASE m = "pygaps-DH" -> "psd_pygapsdh" [] m = "BJH" -> "psd_bjh" [] m = "DH" -> "psd_dollimore_heal"]
MicroModels == {"HK", "HK-CY", "RY", "RY-CY"}
MicroFn == [m \in MicroModels |-> IF m \in {"HK", "HK-CY"} THEN "psd_horvath_kawazoe" ELSE "psd_horvath_kawazoe_ry"]
MicroCy == [m \in MicroModels |-> IF m \in {"HK-CY", "RY-CY"} THEN "cy" ELSE "nocy"]
Solver(cy) == IF cy = "cy" THEN "_solve_hk_cy" ELSE "_solve_hk"
MicroPores == {"slit", "cylinder", "sphere"}

\* branches: 'ads' | 'des' | an unknown string | None | (des_missing: 'des' on an isotherm without desorption data)
Branches == {"ads", "des", "unknown", "none"}

\* forms of a limits argument (pressure limits of the PSD / BET / Langmuir / DR / DA functions)
LimForms == {"none", "pair", "lo_only", "hi_only", "reversed", "equal", "narrow", "scalar", "single"}
Malformed == {"scalar", "single"}            \* not a pair at all: 0.3, (0.1,)
EmptyRange == {"reversed", "equal"}          \* lower >= upper: nothing can be inside
Few == {"narrow"}                            \* a proper range holding fewer than three points
\* thickness / alpha limits of t_plot and alpha_s
TLimForms == {"none", "pair", "lo_only", "hi_only", "reversed", "equal", "scalar", "single"}

\* which part of the data a limits form selects (for "none": the documented default of the function)
DefaultWin == [op \in {"psd_mesoporous", "psd_microporous", "psd_dft", "area_BET", "area_langmuir", "dr_plot", "da_plot"} |->
   CASE op = "psd_mesoporous" -> "lo"          \* "defaults to (0.1, 0.99)": cuts the fixture below 0.1 only
     [] op = "psd_microporous" -> "hi"         \* "defaults to [0, 0.2]"
     [] op = "psd_dft" -> "all"                \* "defaults to entire isotherm"
     [] op = "area_BET" -> "auto"              \* Rouquerol rules     (numerical content: Selection.tla)
     [] op = "area_langmuir" -> "auto"         \* 5 %-90 %            (numerical content: Selection.tla)
     [] op = "dr_plot" -> "all"                \* "otherwise the entire range will be used"
     [] op = "da_plot" -> "all"]
Win(op, l) == CASE l = "none" -> DefaultWin[op] [] l = "pair" -> "lohi" [] l = "lo_only" -> "lo" [] l = "hi_only" -> "hi" [] OTHER -> "nowindow"
\* with branch=None the library works on both branches concatenated; no window is specified for that
WinB(op, l, br) == IF br = "none" THEN "unjudged" ELSE Win(op, l)
TSel(l) == CASE l = "none" -> "auto" [] l \in EmptyRange -> "empty" [] OTHER -> "sel"

\* errors a limits form is allowed to cause
SpecLim(l) == CASE l \in Malformed -> {PE("limits")}
                [] l \in EmptyRange -> {PE("limits"), CE("limits")}
                [] l \in Few -> {CE("limits")}
                [] OTHER -> {}
\* what the selection code does with it (p_limits[0], p_limits[1], searchsorted, "maximum - minimum < 2")
ImplLim(l) == CASE l = "scalar" -> Other("TypeError") [] l = "single" -> Other("IndexError")
                [] l \in EmptyRange \cup Few -> CE("limits") [] OTHER -> Go

---------------------------------------------------------------------------
(* INVOCATIONS *)
ThkArgs == ThkNames \cup {"unknown", "callable", "isotherm"}
KelArgs == KelNames \cup {"unknown", "callable"}
BranchesX == Branches \cup {"des_missing"}
NoneOnlyDefault(br, l) == br = "none" => l = "none"

Ops == {"get_thickness_model", "thickness_eval", "get_kelvin_model", "get_meniscus_geometry", "kelvin_radius", "get_hk_model", "psd_mesoporous",
        "psd_microporous", "hk_lowlevel", "psd_dft", "area_BET", "area_langmuir", "dr_plot", "da_plot", "t_plot", "alpha_s"}
AreaOps == {"area_BET", "area_langmuir", "dr_plot"}
MicroMats == {"Carbon(HK)", "AlSiOxideIon", "unknown", "dict_full", "dict_no_polarizability", "none"}
MicroAds == {"none", "dict_full", "dict_missing"}
Kernels == {"none", "internal", "path_ok", "path_missing"}
TPlotThk == {"none", "Halsey", "Harkins/Jura", "unknown", "callable", "isotherm"}
Refs == {"none", "notiso", "same_adsorbate", "other_adsorbate"}
RefAreas == {"none", "BET", "bet", "Langmuir", "unknown", "number", "bool", "list"}
RedPs == {"0.4", "0", "1", "1.5", "neg"}
Exps == {"none", "0", "2", "1.5", "neg", "5"}
N == {NA}
Dom(a, b, c, d, e, f, g) == [a |-> a, b |-> b, c |-> c, d |-> d, e |-> e, f |-> f, g |-> g]
\* the argument classes of every operation (slot by slot; "-" = slot not used)
ArgDom(op) ==
   CASE op = "get_thickness_model" -> Dom(ThkArgs, N, N, N, N, N, N)
     [] op = "thickness_eval" -> Dom(ThkNames, N, N, N, N, N, N)
     [] op = "get_kelvin_model" -> Dom(KelArgs, N, N, N, N, N, N)
     [] op = "get_meniscus_geometry" -> Dom(Branches, Pores5, N, N, N, N, N)                       \* branch, pore_geometry
     [] op = "kelvin_radius" -> Dom(KelNames, Men3 \cup {"unknown"}, N, N, N, N, N)                 \* model, meniscus_geometry
     [] op = "get_hk_model" -> Dom(HkArgs, N, N, N, N, N, N)
     \* psd_model, pore_geometry, meniscus_geometry, branch, thickness_model, kelvin_model, p_limits
     [] op = "psd_mesoporous" -> Dom(MesoModels \cup {"unknown", "none"}, Pores5, Men3 \cup {"none", "unknown"}, Branches,
                                     {"Halsey", "unknown", "callable", "isotherm"}, KelArgs, LimForms)
     \* psd_model, pore_geometry, branch, material_model, adsorbate_model, -, p_limits
     [] op = "psd_microporous" -> Dom(MicroModels \cup {"unknown", "none"}, Pores5, Branches, MicroMats, MicroAds, N, LimForms)
     [] op = "hk_lowlevel" -> Dom({"psd_horvath_kawazoe", "psd_horvath_kawazoe_ry"}, Pores5, {"cy", "nocy"}, N, N, N, N)
     [] op = "psd_dft" -> Dom(Kernels, Branches, N, N, N, N, LimForms)                              \* kernel, branch, p_limits
     [] op \in AreaOps -> Dom(BranchesX, N, N, N, N, N, LimForms)                                   \* branch, p_limits
     [] op = "da_plot" -> Dom(Exps, Branches, N, N, N, N, LimForms)                                 \* exp, branch, p_limits
     [] op = "t_plot" -> Dom(TPlotThk, Branches, N, N, N, N, TLimForms)                             \* thickness_model, branch, t_limits
     \* reference_isotherm, reference_area, reducing_pressure, branch, branch_ref, -, t_limits
     [] op = "alpha_s" -> Dom(Refs, RefAreas, RedPs, Branches, {"ads", "des", "unknown"}, N, {"none", "pair", "reversed", "lo_only"})
\* branch=None reaches numpy.searchsorted with unsorted data: only the default limits are modelled there
Modelled(i) == CASE i.op \in {"psd_dft", "da_plot"} -> NoneOnlyDefault(i.b, i.g) [] i.op \in AreaOps -> NoneOnlyDefault(i.a, i.g) [] OTHER -> TRUE
\* the invocations of op whose first argument is in As
InvsOf(op, As) == LET D == ArgDom(op) IN {i \in [op : {op}, a : As \cap D.a, b : D.b, c : D.c, d : D.d, e : D.e, f : D.f, g : D.g] : Modelled(i)}
I(op) == InvsOf(op, ArgDom(op).a)
IsInvocation(i) == i.op \in Ops /\ i \in I(i.op)
StatefulOps == {"thickness_eval", "psd_dft"}
Stateful == I("thickness_eval") \cup I("psd_dft")

---------------------------------------------------------------------------
(* PRESCRIPTIVE: what the documentation allows *)
IfNone(S, r) == IF S = {} THEN {r} ELSE S          \* no objection allowed -> exactly this result

ThkTarget(e) == IF e \in ThkNames THEN <<ThkFn[e], "callable">> ELSE <<"same", "callable">>
\* "pass the Isotherm object or the callable function": whatever comes back must be callable
SpecThkTargets(e) == IF e = "isotherm" THEN {<<"same", "callable">>, <<"wrapped", "callable">>} ELSE {ThkTarget(e)}
KelTarget(f) == IF f \in KelNames THEN KelFn[f] ELSE "same"
\* the branches of the functions which read the data through isotherm.loading(branch=...)
BadBranch(br) == br \notin {"ads", "des"}

Spec_get_thickness(i) ==
   IF i.a = "unknown" THEN {PE("thickness")} ELSE {Ok(t) : t \in SpecThkTargets(i.a)}

\* "Load a standard isotherm, convert the loading to thickness, then fit an interpolator and then store it in memory"
ThkEvalResult(n, tc) ==
   IF n \in Tabulated THEN Ok(<<ThkFn[n], StdKey[n], IF StdKey[n] \in tc THEN "cached" ELSE StdFile[n]>>)
   ELSE Ok(<<ThkFn[n], NA, NA>>)
ThkCacheAfter(n, tc) == IF n \in Tabulated THEN tc \cup {StdKey[n]} ELSE tc

Spec_get_kelvin(i) == IF i.a = "unknown" THEN {PE("kelvin")} ELSE {Ok(<<KelTarget(i.a), "bound">>)}

Spec_meniscus(i) ==
   LET bad == (IF i.a \in {"ads", "des"} THEN {} ELSE {PE("branch")}) \cup (IF i.b \in Pores4 THEN {} ELSE {PE("pore_geometry")})
   IN IF bad # {} THEN bad ELSE {Ok(<<MeniscusDoc[i.a][i.b]>>)}

Spec_kelvin_radius(i) ==
   IF i.a = "Kelvin" THEN (IF i.b \in Men3 THEN {Ok(<<KelvinFactor[i.b]>>)} ELSE {PE("meniscus")})
   ELSE (IF i.b = "cylindrical" THEN {Ok(<<"kjs">>)} ELSE {PE("kjs")})

Spec_get_hk(i) ==
   CASE i.a \in HkNames -> {Ok(HkTable[i.a])}
     [] i.a \in HkDicts -> IF MissingOf(i.a) = {} THEN {Ok(<<"same">>)} ELSE {PE(k) : k \in MissingOf(i.a)}
     [] OTHER -> {PE("material_model")}

\* the Kelvin-KJS correction "is not applicable for meniscus geometries other than cylindrical"
KjsBad(kel, men, br, pore) ==
   kel = "Kelvin-KJS" /\ (IF men # "none" THEN men # "cylindrical" ELSE ~(br = "ads" /\ pore = "cylinder"))
EffMen(men, br, pore) == IF men # "none" THEN men ELSE MeniscusDoc[br][pore]

Spec_meso(i) ==
   LET bad == (IF i.a \in MesoModels THEN {} ELSE {PE("psd_model")})
              \cup (IF i.b \in Pores4 THEN {} ELSE {PE("pore_geometry")})
              \cup (IF i.c \in Men3 \cup {"none"} THEN {} ELSE {PE("meniscus")})
              \cup (IF i.d \in {"ads", "des"} THEN {} ELSE {PE("branch")})
              \cup (IF i.e = "unknown" THEN {PE("thickness")} ELSE {})
              \cup (IF i.f = "unknown" THEN {PE("kelvin")} ELSE {})
              \cup (IF KjsBad(i.f, i.c, i.d, i.b) THEN {PE("kjs")} ELSE {})
              \* "The BJH / DH method is provided for compatibility and only applicable to cylindrical pores"
              \cup (IF i.a \in {"BJH", "DH"} /\ i.b # "cylinder" THEN {PE("method_geometry")} ELSE {})
              \cup SpecLim(i.g)
   IN IF bad # {} THEN bad
      ELSE {Ok(<<MesoFn[i.a], i.b, t[1], t[2], KelTarget(i.f), EffMen(i.c, i.d, i.b), Win("psd_mesoporous", i.g)>>) : t \in SpecThkTargets(i.e)}

MatTarget(d) == IF d \in HkNames THEN HkTable[d][1] ELSE "same"
Spec_micro(i) ==
   LET bad == (IF i.a \in MicroModels THEN {} ELSE {PE("psd_model")})
              \cup (IF i.b \in MicroPores THEN {} ELSE {PE("pore_geometry")})
              \cup (IF i.c \in {"ads", "des"} THEN {} ELSE {PE("branch")})
              \cup (IF i.d \in HkNames THEN {} ELSE IF i.d \in HkDicts /\ MissingOf(i.d) = {} THEN {}
                    ELSE IF i.d \in HkDicts THEN {PE(k) : k \in MissingOf(i.d)} \cup {PE("material_model")} ELSE {PE("material_model")})
              \cup (IF i.e = "dict_missing" THEN {PE("adsorbate_model")} ELSE {})
              \cup SpecLim(i.g)
   IN IF bad # {} THEN bad
      ELSE {Ok(<<MicroFn[i.a], MicroCy[i.a], i.b, MatTarget(i.d), IF i.e = "none" THEN "derived" ELSE "same",
                 Solver(MicroCy[i.a]), Win("psd_microporous", i.g)>>)}

Spec_hklow(i) == IF i.b \in MicroPores THEN {Ok(<<Solver(i.c)>>)} ELSE {PE("pore_geometry")}

KernelFile(a) == IF a = "internal" THEN "DFT-N2-77K-carbon-slit.csv" ELSE "user_kernel.csv"
DftOk(i, kc) == Ok(<<"psd_dft_kernel_fit", KernelFile(i.a), IF KernelFile(i.a) \in kc THEN "cached" ELSE "loaded", WinB("psd_dft", i.g, i.b)>>)
Spec_dft(i, kc) ==
   IfNone((IF i.a \in {"none", "path_missing"} THEN {PE("kernel")} ELSE {})
          \cup (IF BadBranch(i.b) THEN {PE("branch")} ELSE {})
          \cup SpecLim(i.g),
          DftOk(i, kc))
DftCacheAfter(i, kc, r) == IF r.cls = "ok" THEN kc \cup {KernelFile(i.a)} ELSE kc

AreaKind(op) == CASE op = "area_BET" -> "bet" [] op = "area_langmuir" -> "langmuir" [] op = "dr_plot" -> "exp_given"
Spec_area(i) ==
   IfNone((IF i.a = "des_missing" THEN {PE("branch"), PE("empty"), CE("limits")} ELSE IF BadBranch(i.a) THEN {PE("branch")} ELSE {})
          \cup SpecLim(i.g),
          Ok(<<AreaKind(i.op), WinB(i.op, i.g, i.a)>>))

Spec_tplot(i) ==
   LET bad == (IF i.a \in {"none", "unknown"} THEN {PE("thickness")} ELSE {})
              \cup (IF BadBranch(i.b) THEN {PE("branch")} ELSE {})
              \cup (IF i.g \in Malformed THEN {PE("limits")} ELSE {})
       oks == {Ok(<<t[1], t[2], TSel(i.g)>>) : t \in SpecThkTargets(i.a)}
   IN IF bad # {} THEN bad
      \* an empty thickness range: an empty result list, or a refusal
      ELSE IF i.g \in EmptyRange THEN oks \cup {PE("limits"), CE("limits")}
      \* a one-sided range (None = open, the idiom of every p_limits in the package): honour it, or refuse it cleanly
      ELSE IF i.g \in {"lo_only", "hi_only"} THEN oks \cup {PE("limits")}
      ELSE oks

AreaSource(b) == CASE b \in {"none", "BET", "bet"} -> "area_BET" [] b = "Langmuir" -> "area_langmuir" [] b = "number" -> "given" [] OTHER -> NA
Spec_alpha(i) ==
   LET bad == (IF i.a \in {"none", "notiso"} THEN {PE("reference")} ELSE {})
              \cup (IF i.a = "other_adsorbate" THEN {PE("adsorbate")} ELSE {})
              \cup (IF i.c # "0.4" THEN {PE("reducing_pressure")} ELSE {})
              \cup (IF AreaSource(i.b) = NA THEN {PE("reference_area")} ELSE {})
              \cup (IF BadBranch(i.d) \/ BadBranch(i.e) THEN {PE("branch")} ELSE {})
       ok == Ok(<<AreaSource(i.b), TSel(i.g)>>)
   IN IF bad # {} THEN bad
      ELSE IF i.g \in EmptyRange THEN {ok, PE("limits"), CE("limits")}
      ELSE IF i.g \in {"lo_only", "hi_only"} THEN {ok, PE("limits")}
      ELSE {ok}

ExpKind(a) == IF a = "none" THEN "fitted" ELSE "given"
Spec_da(i) ==
   LET bad == (IF i.a = "neg" THEN {PE("exp")} ELSE {})
              \cup (IF BadBranch(i.b) THEN {PE("branch")} ELSE {})
              \cup SpecLim(i.g)
       \* exp = 0: "not specified" (fit it) and "not a usable exponent" (refuse it) are both defensible
       zero == IF i.a = "0" THEN {PE("exp")} ELSE {}
   IN IF bad # {} THEN bad \cup zero
      ELSE IF i.a = "0" THEN {Ok(<<"fitted", WinB("da_plot", i.g, i.b)>>)} \cup zero
      ELSE {Ok(<<ExpKind(i.a), WinB("da_plot", i.g, i.b)>>)}

Spec(i, tc, kc) ==
   CASE i.op = "get_thickness_model" -> Spec_get_thickness(i)
     [] i.op = "thickness_eval" -> {ThkEvalResult(i.a, tc)}
     [] i.op = "get_kelvin_model" -> Spec_get_kelvin(i)
     [] i.op = "get_meniscus_geometry" -> Spec_meniscus(i)
     [] i.op = "kelvin_radius" -> Spec_kelvin_radius(i)
     [] i.op = "get_hk_model" -> Spec_get_hk(i)
     [] i.op = "psd_mesoporous" -> Spec_meso(i)
     [] i.op = "psd_microporous" -> Spec_micro(i)
     [] i.op = "hk_lowlevel" -> Spec_hklow(i)
     [] i.op = "psd_dft" -> Spec_dft(i, kc)
     [] i.op \in AreaOps -> Spec_area(i)
     [] i.op = "t_plot" -> Spec_tplot(i)
     [] i.op = "alpha_s" -> Spec_alpha(i)
     [] i.op = "da_plot" -> Spec_da(i)

---------------------------------------------------------------------------
(* DESCRIPTIVE: the code, statement by statement *)

\* get_thickness_model: isinstance(model, str) -> dictionary lookup or ParameterError; anything else is returned as is
ImplThkLookup(e) == IF e = "unknown" THEN PE("thickness")
                    ELSE IF e \in ThkNames THEN Ok(<<ThkFn[e], "callable">>)
                    ELSE IF e = "isotherm" THEN Ok(<<"same", "notcallable">>)     \* the Isotherm object itself
                    ELSE Ok(<<"same", "callable">>)
Impl_get_thickness(i) == ImplThkLookup(i.a)

\* get_kelvin_model: partial(_KELVIN_MODELS[model] | model, **model_args)
Impl_get_kelvin(i) == IF i.a = "unknown" THEN PE("kelvin") ELSE Ok(<<KelTarget(i.a), "bound">>)

\* get_meniscus_geometry: if branch == 'ads': (if/elif on pore_geometry ... else raise) elif branch == 'des': (...) else raise
Impl_meniscus(i) ==
   IF i.a = "ads" THEN
        (IF i.b = "slit" THEN Ok(<<"hemicylindrical">>) ELSE IF i.b = "cylinder" THEN Ok(<<"cylindrical">>)
         ELSE IF i.b = "halfopen-cylinder" THEN Ok(<<"hemispherical">>) ELSE IF i.b = "sphere" THEN Ok(<<"hemispherical">>)
         ELSE PE("pore_geometry"))
   ELSE IF i.a = "des" THEN
        (IF i.b = "slit" THEN Ok(<<"hemicylindrical">>) ELSE IF i.b = "cylinder" THEN Ok(<<"hemispherical">>)
         ELSE IF i.b = "halfopen-cylinder" THEN Ok(<<"hemispherical">>) ELSE IF i.b = "sphere" THEN Ok(<<"hemispherical">>)
         ELSE PE("pore_geometry"))
   ELSE PE("branch")

\* kelvin_radius: if/elif/elif without else (geometry_factor stays unbound); kelvin_radius_kjs: != 'cylindrical' -> raise
Impl_kelvin_radius(i) ==
   IF i.a = "Kelvin" THEN
        (IF i.b = "cylindrical" THEN Ok(<<"2">>) ELSE IF i.b = "hemispherical" THEN Ok(<<"1">>)
         ELSE IF i.b = "hemicylindrical" THEN Ok(<<"1/2">>) ELSE Other("UnboundLocalError"))
   ELSE (IF i.b # "cylindrical" THEN PE("kjs") ELSE Ok(<<"kjs">>))

\* get_hk_model: str -> lookup; dict -> every HK_KEYS key present (first missing one is blamed); else raise
ImplHk(a) ==
   IF a \in HkNames \cup {"unknown"} THEN (IF a \notin HkNames THEN PE("material_model") ELSE Ok(HkTable[a]))
   ELSE IF a \in HkDicts THEN (IF MissingOf(a) # {} THEN PE(FirstMissing(a)) ELSE Ok(<<"same">>))
   ELSE PE("material_model")
Impl_get_hk(i) == ImplHk(i.a)

\* psd_mesoporous
Impl_meso(i) ==
   IF i.a = "none" THEN PE("psd_model")
   ELSE IF i.a \notin MesoModels THEN PE("psd_model")
   ELSE IF i.b \notin Pores4 THEN PE("pore_geometry")
   ELSE IF i.c # "none" /\ i.c \notin Men3 THEN PE("meniscus")
   ELSE IF i.d \notin {"ads", "des"} THEN PE("branch")
   ELSE IF ImplLim(i.g) # Go THEN ImplLim(i.g)
   ELSE LET t == ImplThkLookup(i.e) IN
        IF t.cls # "ok" THEN t
        ELSE LET men == IF i.c = "none" THEN Impl_meniscus(Inv(NA, i.d, i.b, NA, NA, NA, NA, NA)).target[1] ELSE i.c IN
             IF i.f = "unknown" THEN PE("kelvin")
             \* the dispatched kernel: geometry check, thickness_model(p), condensation_model(p)
             ELSE IF i.a = "pygaps-DH" /\ i.b \notin {"slit", "cylinder", "sphere"} THEN PE("method_geometry")
             ELSE IF i.a \in {"BJH", "DH"} /\ i.b # "cylinder" THEN PE("method_geometry")
             ELSE IF t.target[2] = "notcallable" THEN Other("TypeError")
             ELSE IF i.f = "Kelvin-KJS" /\ men # "cylindrical" THEN PE("kjs")
             ELSE Ok(<<MesoFn[i.a], i.b, t.target[1], t.target[2], KelTarget(i.f), men, Win("psd_mesoporous", i.g)>>)

\* psd_microporous (+ the checks at the top of psd_horvath_kawazoe[_ry])
Impl_micro(i) ==
   IF i.a = "none" THEN PE("psd_model")
   ELSE IF i.a \notin MicroModels THEN PE("psd_model")
   ELSE IF i.b \notin MicroPores THEN PE("pore_geometry")
   ELSE IF i.c \notin {"ads", "des"} THEN PE("branch")
   ELSE LET m == ImplHk(i.d) IN
        IF m.cls # "ok" THEN m
        ELSE IF ImplLim(i.g) # Go THEN ImplLim(i.g)
        ELSE IF i.e = "dict_missing" THEN PE("adsorbate_model")
        ELSE Ok(<<MicroFn[i.a], MicroCy[i.a], i.b, IF i.d \in HkNames THEN m.target[1] ELSE "same", IF i.e = "none" THEN "derived" ELSE "same",
                  Solver(MicroCy[i.a]), Win("psd_microporous", i.g)>>)

\* psd_horvath_kawazoe / _ry called directly: if slit / elif cylinder / elif sphere, no else
Impl_hklow(i) == IF i.b = "slit" \/ i.b = "cylinder" \/ i.b = "sphere" THEN Ok(<<Solver(i.c)>>) ELSE Ok(<<"nosolver">>)

\* data access through isotherm.loading(branch=...): 'unknown' -> "Bad branch specification"; None -> both branches
ImplBranchB(br) == IF br = "unknown" THEN PE("branch") ELSE Go

\* psd_dft: kernel None; KERNELS.get(kernel, kernel); data; limits; psd_dft_kernel_fit -> _load_kernel -> open(path)
Impl_dft(i, kc) ==
   IF i.a = "none" THEN PE("kernel")
   ELSE IF ImplBranchB(i.b) # Go THEN ImplBranchB(i.b)
   ELSE IF ImplLim(i.g) # Go THEN ImplLim(i.g)
   ELSE IF i.a = "path_missing" THEN Other("FileNotFoundError")
   ELSE DftOk(i, kc)

\* area_BET / area_langmuir / dr_plot (= da_plot(exp=2)): data, then the *_raw function
Impl_area(i) ==
   IF ImplBranchB(i.a) # Go THEN ImplBranchB(i.a)
   ELSE IF i.a = "des_missing" THEN PE("empty")            \* an empty array reaches "Empty input values!"
   \* both branches concatenated: the automatic Langmuir limits are 5 %-90 % of the LAST pressure, which is the low end of desorption
   ELSE IF i.a = "none" /\ i.op = "area_langmuir" THEN CE("limits")
   ELSE IF ImplLim(i.g) # Go THEN ImplLim(i.g)
   ELSE Ok(<<AreaKind(i.op), WinB(i.op, i.g, i.a)>>)

\* t_plot: None check; data; get_thickness_model; t_plot_raw: thickness_model(pressure); t_limits[0], t_limits[1] compared elementwise
ImplTLim(l) == CASE l = "scalar" -> Other("TypeError") [] l = "single" -> Other("IndexError")
                 [] l \in {"lo_only", "hi_only"} -> Other("TypeError") [] OTHER -> Go
Impl_tplot(i) ==
   IF i.a = "none" THEN PE("thickness")
   ELSE IF ImplBranchB(i.b) # Go THEN ImplBranchB(i.b)
   ELSE LET t == ImplThkLookup(i.a) IN
        IF t.cls # "ok" THEN t
        ELSE IF t.target[2] = "notcallable" THEN Other("TypeError")
        ELSE IF ImplTLim(i.g) # Go THEN ImplTLim(i.g)
        ELSE Ok(<<t.target[1], t.target[2], TSel(i.g)>>)

\* alpha_s
Impl_alpha(i) ==
   IF i.a \in {"none", "notiso"} THEN PE("reference")
   ELSE IF i.a = "other_adsorbate" THEN PE("adsorbate")
   ELSE IF i.c # "0.4" THEN PE("reducing_pressure")
   ELSE IF i.b \in {"unknown", "bool", "list"} THEN PE("reference_area")
   ELSE IF ImplBranchB(i.d) # Go THEN ImplBranchB(i.d)
   ELSE IF i.e = "unknown" THEN PE("branch")
   ELSE IF ImplTLim(i.g) # Go THEN ImplTLim(i.g)
   ELSE Ok(<<AreaSource(i.b), TSel(i.g)>>)

\* da_plot: "if not exp: find_exp = True elif exp < 0: raise"; da_plot_raw fits only when exp is None
Impl_da(i) ==
   IF i.a = "neg" THEN PE("exp")
   ELSE IF ImplBranchB(i.b) # Go THEN ImplBranchB(i.b)
   ELSE IF ImplLim(i.g) # Go THEN ImplLim(i.g)
   ELSE IF i.a = "0" THEN Other("ZeroDivisionError")
   ELSE Ok(<<ExpKind(i.a), WinB("da_plot", i.g, i.b)>>)

Impl(i, tc, kc) ==
   CASE i.op = "get_thickness_model" -> Impl_get_thickness(i)
     [] i.op = "thickness_eval" -> ThkEvalResult(i.a, tc)
     [] i.op = "get_kelvin_model" -> Impl_get_kelvin(i)
     [] i.op = "get_meniscus_geometry" -> Impl_meniscus(i)
     [] i.op = "kelvin_radius" -> Impl_kelvin_radius(i)
     [] i.op = "get_hk_model" -> Impl_get_hk(i)
     [] i.op = "psd_mesoporous" -> Impl_meso(i)
     [] i.op = "psd_microporous" -> Impl_micro(i)
     [] i.op = "hk_lowlevel" -> Impl_hklow(i)
     [] i.op = "psd_dft" -> Impl_dft(i, kc)
     [] i.op \in AreaOps -> Impl_area(i)
     [] i.op = "t_plot" -> Impl_tplot(i)
     [] i.op = "alpha_s" -> Impl_alpha(i)
     [] i.op = "da_plot" -> Impl_da(i)

\* the caches after the operation (both readings agree: only evaluating a tabulated thickness model and a
\* successful kernel fit add to them; nothing is ever removed)
TcAfter(i, tc) == IF i.op = "thickness_eval" THEN ThkCacheAfter(i.a, tc) ELSE tc
KcAfter(i, kc, r) == IF i.op = "psd_dft" THEN DftCacheAfter(i, kc, r) ELSE kc

---------------------------------------------------------------------------
(* THE NAMED DEVIATIONS of the unchanged tree: where each can occur, and what it looks like *)
DevNames == {"IsothermThicknessModelUnsupported", "KelvinRadiusUnknownMeniscusUnboundLocal", "HalfopenCylinderAdvertisedButUnsupported",
             "MalformedLimitsLeakPythonError", "OneSidedTLimitsLeakTypeError", "BranchNoneNotRefused", "UnknownKernelLeaksFileNotFound",
             "DAExponentZeroDivision", "HKLowLevelUnknownGeometrySilent"}
BranchArgOf(i) == CASE i.op = "psd_dft" -> {i.b} [] i.op \in AreaOps -> {i.a} [] i.op = "t_plot" -> {i.b} [] i.op = "alpha_s" -> {i.d, i.e}
                    [] i.op = "da_plot" -> {i.b} [] OTHER -> {}
DevClasses(i) ==
   (IF (i.op = "get_thickness_model" /\ i.a = "isotherm") \/ (i.op = "psd_mesoporous" /\ i.e = "isotherm") \/ (i.op = "t_plot" /\ i.a = "isotherm")
    THEN {"IsothermThicknessModelUnsupported"} ELSE {})
   \cup (IF i.op = "kelvin_radius" /\ i.a = "Kelvin" /\ i.b = "unknown" THEN {"KelvinRadiusUnknownMeniscusUnboundLocal"} ELSE {})
   \cup (IF i.op = "psd_mesoporous" /\ i.a = "pygaps-DH" /\ i.b = "halfopen-cylinder" THEN {"HalfopenCylinderAdvertisedButUnsupported"} ELSE {})
   \cup (IF i.g \in Malformed THEN {"MalformedLimitsLeakPythonError"} ELSE {})
   \cup (IF i.op \in {"t_plot", "alpha_s"} /\ i.g \in {"lo_only", "hi_only"} THEN {"OneSidedTLimitsLeakTypeError"} ELSE {})
   \cup (IF "none" \in BranchArgOf(i) THEN {"BranchNoneNotRefused"} ELSE {})
   \cup (IF i.op = "psd_dft" /\ i.a = "path_missing" THEN {"UnknownKernelLeaksFileNotFound"} ELSE {})
   \cup (IF i.op = "da_plot" /\ i.a = "0" THEN {"DAExponentZeroDivision"} ELSE {})
   \cup (IF i.op = "hk_lowlevel" /\ i.b \notin MicroPores THEN {"HKLowLevelUnknownGeometrySilent"} ELSE {})
Shape(c, r) ==
   CASE c = "IsothermThicknessModelUnsupported" -> (r.cls = "ok" /\ Len(r.target) >= 2 /\ r.target[2] = "notcallable") \/ r = Other("TypeError")
     [] c = "KelvinRadiusUnknownMeniscusUnboundLocal" -> r = Other("UnboundLocalError")
     [] c = "HalfopenCylinderAdvertisedButUnsupported" -> r = PE("method_geometry")
     [] c = "MalformedLimitsLeakPythonError" -> r \in {Other("TypeError"), Other("IndexError")}
     [] c = "OneSidedTLimitsLeakTypeError" -> r = Other("TypeError")
     [] c = "BranchNoneNotRefused" -> r.cls = "ok" \/ r = CE("limits")
     [] c = "UnknownKernelLeaksFileNotFound" -> r = Other("FileNotFoundError")
     [] c = "DAExponentZeroDivision" -> r = Other("ZeroDivisionError")
     [] c = "HKLowLevelUnknownGeometrySilent" -> r = Ok(<<"nosolver">>)
\* the deviation class (or "none") under which an outcome r of invocation i is a known deviation
DevOf(i, r) == IF \E c \in DevClasses(i) : Shape(c, r) THEN CHOOSE c \in DevClasses(i) : Shape(c, r) ELSE "none"

\* the verdict on an observed outcome (used by the oracle and by the model checker on Impl itself)
Verdict(i, tc, kc, r) ==
   IF r \in Spec(i, tc, kc) THEN "conforms"
   ELSE IF r = Impl(i, tc, kc) /\ DevOf(i, r) # "none" THEN "known-deviation"
   ELSE "violation"
=============================================================================
