--------------------------------- MODULE HK ---------------------------------
(***************************************************************************)
(* C17 - Horvath-Kawazoe type micropore analyses.                          *)
(*                                                                         *)
(* 1. The published slit-pore HK equation (Horvath & Kawazoe 1983) with    *)
(*    the Kirkwood-Mueller dispersion constants, written over DecFloat.    *)
(*    Physical constants are CODATA 2018 decimal literals; nothing is read *)
(*    from the code.  TLC evaluates it for chosen widths; the harness only *)
(*    exponentiates and feeds the pressures to the library.                *)
(* 2. The Cheng-Yang term  1 + ln(1-theta)/theta.                          *)
(* 3. The relational clauses of the property over recorded observations    *)
(*    (Judge): equation solved, widths monotone, cumulative volume is the  *)
(*    liquid volume of the adsorbed amount, distribution is dV/dW.         *)
(* 4. The scenario space the driver materialises (Scenarios).              *)
(***************************************************************************)
EXTENDS DecFloat, Integers, Sequences, FiniteSets, TLC, TLCExt, SequencesExt

DL(m, e) == DMk(DSgn(m), DAbsI(m), e)            \* decimal literal m * 10^e  (|m| < 2^31)
DInt(i) == DL(i, 0)
RECURSIVE DPow(_, _)
DPow(x, n) == IF n = 1 THEN x ELSE DMul(x, DPow(x, n - 1))
DHalf(a) == DMul(a, DL(5, -1))
DMin(a, b) == IF DLeq(a, b) THEN a ELSE b
SeqMax(s) == FoldLeft(DMax, s[1], s)

\* ---- constants: CODATA 2018 (NA, R, c exact by the 2019 SI), 8 significant digits
NAvog  == DL(602214076, 15)       \* 6.02214076e23  1/mol
Rgas   == DL(831446262, -8)       \* 8.31446262     J/(mol K)
MElec  == DL(910938370, -39)      \* 9.10938370e-31 kg
CLight == DL(299792458, 0)        \* 299792458      m/s
SigmaOverD == DL(858374219, -9)   \* (2/5)^(1/6): distance of zero interaction energy / d0 (HK 1983 use 0.858)
Nm3 == DL(1, -27)                 \* nm^3 in m^3
Nm  == DL(1, -9)                  \* nm in m

MeC2 == DMul(MElec, DMul(CLight, CLight))
\* Kirkwood-Mueller dispersion constants, J m^6; polarizability a.alpha and susceptibility a.chi in nm^3
KMgg(a) == DMul(DMul(DL(15, -1), MeC2), DMul(DMul(a.alpha, Nm3), DMul(a.chi, Nm3)))
KMgh(a, h) == DDiv(DMul(DMul(DInt(6), MeC2), DMul(DMul(a.alpha, Nm3), DMul(h.alpha, Nm3))),
                   DAdd(DDiv(a.alpha, a.chi), DDiv(h.alpha, h.chi)))
\* note: alpha/chi is a pure number, so nm^3 values can be divided directly

D0(a, h) == DHalf(DAdd(a.d, h.d))                 \* nm, distance nucleus - nucleus at contact
\* N_A (N_a A_a + N_A A_A) / (R T sigma^4): dimensionless prefactor of the slit equation
SlitCoeff(a, h, T) ==
   LET sig == DMul(DMul(SigmaOverD, D0(a, h)), Nm)       \* m
   IN DDiv(DMul(DDiv(NAvog, DMul(Rgas, T)), DAdd(DMul(a.ns, KMgg(a)), DMul(h.ns, KMgh(a, h)))), DPow(sig, 4))

\* ln(p/p0) for a slit of nucleus-to-nucleus distance L (nm), exactly as published:
\*   K/(L-2d0) * [ s^4/(3(L-d0)^3) - s^10/(9(L-d0)^9) - s^4/(3 d0^3) + s^10/(9 d0^9) ]
SlitLnP(L, a, h, T) ==
   LET d0 == D0(a, h)
       s == DMul(SigmaOverD, d0)
       s4 == DDiv(DPow(s, 4), DInt(3))
       s10 == DDiv(DPow(s, 10), DInt(9))
       x == DSub(L, d0)
       br == DAdd(DSub(DDiv(s4, DPow(x, 3)), DDiv(s10, DPow(x, 9))), DSub(DDiv(s10, DPow(d0, 9)), DDiv(s4, DPow(d0, 3))))
   IN DMul(SlitCoeff(a, h, T), DDiv(br, DSub(L, DMul(DInt(2), d0))))

\* The same rational function with the removable singularity at L = 2 d0 divided out
\* (1/x^k - 1/d^k = (d-x) * Sum_{i<k} d^i x^(k-1-i) / (x d)^k and d - x = -(L - 2 d0)):
\* used as a TLC-checked lemma on the arithmetic (HKMC!FormsAgree).
RECURSIVE GeoSum(_, _, _, _)
GeoSum(d, x, k, i) == IF i = k THEN DZero ELSE DAdd(DMul(IF i = 0 THEN DInt(1) ELSE DPow(d, i), IF k - 1 - i = 0 THEN DInt(1) ELSE DPow(x, k - 1 - i)), GeoSum(d, x, k, i + 1))
SlitLnPFactored(L, a, h, T) ==
   LET d0 == D0(a, h)
       s == DMul(SigmaOverD, d0)
       x == DSub(L, d0)
       t3 == DDiv(DMul(DDiv(DPow(s, 4), DInt(3)), GeoSum(d0, x, 3, 0)), DPow(DMul(x, d0), 3))
       t9 == DDiv(DMul(DDiv(DPow(s, 10), DInt(9)), GeoSum(d0, x, 9, 0)), DPow(DMul(x, d0), 9))
   IN DMul(SlitCoeff(a, h, T), DSub(t9, t3))

\* ---- Rege & Yang (2000): discrete layers of adsorbate molecules -------------------------------------------
\* integer part of a non-negative DecFloat (layer counts)
DFloorPos(a) == IF a[1] <= 0 THEN 0 ELSE IF a[2] >= 0 THEN a[1] * P10(a[2]) ELSE IF -a[2] > 9 THEN 0 ELSE a[1] \div P10(-a[2])
NOverRT(T) == DDiv(NAvog, DMul(Rgas, T))
Pi == DL(314159265, -8)
\* 10-4 potential of one plane of density n and dispersion constant A at distance z, zero-energy distance sg:
\*   n A / (2 sg^4) [ (sg/z)^10 - (sg/z)^4 ]      (sg, z in nm; sg^4 of the prefactor in m^4)
Plane104(nA, sg, z) == LET r == DDiv(sg, z) IN DMul(DDiv(nA, DMul(DInt(2), DPow(DMul(sg, Nm), 4))), DSub(DPow(r, 10), DPow(r, 4)))
\* slit of nucleus-to-nucleus distance L; M = (L - d_h)/d_g layers (a real number).  M < 2: one molecule between the two
\* walls; M >= 2: two wall layers (wall + adsorbate neighbour) and M - 2 inner layers (two adsorbate neighbours)
RYSlitLayers(L, a, h) == DDiv(DSub(L, h.d), a.d)
RYSlitLnP(L, a, h, T, twoWalls) ==
   LET d0 == D0(a, h)
       sg == DMul(SigmaOverD, d0)
       sgg == DMul(SigmaOverD, a.d)
       nAh == DMul(h.ns, KMgh(a, h))
       nAg == DMul(a.ns, KMgg(a))
       Ehg == Plane104(nAh, sg, d0)
       Egg == Plane104(nAg, sgg, a.d)
       M == RYSlitLayers(L, a, h)
   IN IF twoWalls THEN DMul(NOverRT(T), DAdd(Ehg, Plane104(nAh, sg, DSub(L, d0))))
      ELSE DMul(NOverRT(T), DDiv(DAdd(DMul(DInt(2), DAdd(Ehg, Egg)), DMul(DSub(M, DInt(2)), DMul(DInt(2), Egg))), M))
\* sphere of radius L: M = int[((2L - d_h)/d_g - 1)/2] + 1 concentric layers; layer 1 interacts with the n_0 wall atoms,
\* layer i >= 2 with the n_(i-1) molecules of the layer OUTSIDE it; average weighted with the layer's own population n_i
RYSphereLayers(L, a, h) == DFloorPos(DHalf(DSub(DDiv(DSub(DMul(DInt(2), L), h.d), a.d), DInt(1)))) + 1
RYSphereBracket(aa, b) ==
   LET om == DSub(DInt(1), b)  op == DAdd(DInt(1), b)
   IN DSub(DMul(DDiv(DPow(aa, 12), DMul(DInt(10), b)), DSub(DDiv(DInt(1), DPow(om, 10)), DDiv(DInt(1), DPow(op, 10)))),
           DMul(DDiv(DPow(aa, 6), DMul(DInt(4), b)), DSub(DDiv(DInt(1), DPow(om, 4)), DDiv(DInt(1), DPow(op, 4)))))
RYSphereLnP(L, a, h, T) ==
   LET d0 == D0(a, h)
       M == RYSphereLayers(L, a, h)
       X(i) == DSub(DSub(L, d0), DMul(DInt(i - 1), a.d))                 \* radius of the shell of layer i (nm)
       Area(r) == DMul(DMul(DInt(4), Pi), DPow(DMul(r, Nm), 2))           \* m^2
       n0 == DMul(Area(L), h.ns)
       nn(i) == DMul(Area(X(i)), a.ns)
       p12 == DDiv(KMgh(a, h), DMul(DInt(4), DPow(DMul(d0, Nm), 6)))
       p22 == DDiv(KMgg(a), DMul(DInt(4), DPow(DMul(a.d, Nm), 6)))
       eps(i) == IF i = 1 THEN DMul(DMul(DInt(2), DMul(n0, p12)), RYSphereBracket(DDiv(d0, L), DDiv(DSub(L, d0), L)))
                 ELSE DMul(DMul(DInt(2), DMul(nn(i - 1), p22)), RYSphereBracket(DDiv(a.d, X(i - 1)), DDiv(X(i), X(i - 1))))
       live == {i \in 1..M : X(i)[1] > 0}                                 \* a shell of zero radius holds nobody
       num == FoldLeft(DAdd, DZero, [i \in 1..M |-> IF i \in live THEN DMul(nn(i), eps(i)) ELSE DZero])
       den == FoldLeft(DAdd, DZero, [i \in 1..M |-> IF i \in live THEN nn(i) ELSE DZero])
   IN DMul(NOverRT(T), DDiv(num, den))

\* Which published equation the specification holds for a model family x geometry ("none": literature fidelity of
\* that potential is not decided, only self-consistency is checked)
Published(family, geo) == IF family = "HK" /\ geo = "slit" THEN "hk-slit"
                          ELSE IF family = "RY" /\ geo = "slit" THEN "ry-slit"
                          ELSE IF family = "RY" /\ geo = "sphere" THEN "ry-sphere" ELSE "none"
\* ---- Rege & Yang cylinder: population-weighted average over concentric rings of molecule centres -----------------------
\* Pore of radius L (nucleus to nucleus), ring k = 1, 2, ... has diameter w_k = 2 (L - d0 - (k-1) d_g); the rings that
\* exist are those with w_k >= 0.  A ring at least one molecule wide holds pi / asin(d_g / w_k) molecules, a narrower one
\* is a single file on the axis and counts ONE molecule.  Phi/RT = N/(RT) * sum_k n_k phi_k / sum_k n_k.
\* The per-ring potentials phi_k (an infinite hypergeometric series) and the arcsines are handed in by the harness (the
\* first from the library's own series routine, q.phi; the second from libm, q.asin); what the specification decides is which
\* rings exist, which population rule applies to each, and the weighting.  q.K candidate rings are handed in; the
\* harness must hand in at least one ring beyond the last existing one (complete).
RYCylJudge(q) ==
   LET K == Len(q.phi)
       Wd(k) == DMul(DInt(2), DSub(DSub(q.L, q.d0), DMul(DInt(k - 1), q.dg)))
       tiny == DMul(DTol(4), q.dg)
       edge == \E k \in 1..K : DLeq(DAbs(Wd(k)), tiny) \/ DLeq(DAbs(DSub(Wd(k), q.dg)), tiny)
       Exists(k) == DLeq(DZero, Wd(k))
       rings == {k \in 1..K : Exists(k)}
       complete == K >= 1 /\ ~Exists(K) /\ \A k \in 1..K : (Exists(k) => \A j \in 1..k : Exists(j))
       Pop(k) == IF DLeq(q.dg, Wd(k)) THEN DDiv(Pi, q.asin[k]) ELSE DInt(1)
       single == {k \in rings : ~DLeq(q.dg, Wd(k))}
       num == DSum([k \in 1..K |-> IF k \in rings THEN DMul(Pop(k), q.phi[k]) ELSE DZero])
       den == DSum([k \in 1..K |-> IF k \in rings THEN Pop(k) ELSE DZero])
       nrt == DDiv(NAvog, DMul(Rgas, q.T))
       scale == DMul(nrt, SeqMax([k \in 1..K |-> DAbs(q.phi[k])]))
       phi == IF rings = {} THEN DZero ELSE DMul(nrt, DDiv(num, den))
   IN [edge |-> edge, complete |-> complete, nrings |-> Cardinality(rings), nsingle |-> Cardinality(single),
       ok |-> edge \/ ~complete \/ rings = {} \/ DCloseAbs(q.f, phi, DTol(4), DMul(DTol(4), scale)),
       expected |-> phi]

\* values of Phi/RT the published equation allows at length L (two where L is within 1e-4 of the slit's layer switch)
PublishedPhi(kind, L, a, h, T) ==
   CASE kind = "hk-slit" -> {SlitLnP(L, a, h, T)}
     [] kind = "ry-sphere" -> {RYSphereLnP(L, a, h, T)}
     [] kind = "ry-slit" -> LET M == RYSlitLayers(L, a, h)
                            IN IF DCloseAbs(M, DInt(2), DTol(4), DZero) THEN {RYSlitLnP(L, a, h, T, TRUE), RYSlitLnP(L, a, h, T, FALSE)}
                               ELSE {RYSlitLnP(L, a, h, T, DLt(M, DInt(2)))}

\* effective pore width reported by the methods: W = g L - d_h  (g = 1 slit, 2 cylinder/sphere: L is a radius there)
GeoFactor(geo) == IF geo = "slit" THEN 1 ELSE 2
WidthOf(geo, L, h) == DSub(DMul(DInt(GeoFactor(geo)), L), h.d)
LOf(geo, W, h) == DDiv(DAdd(W, h.d), DInt(GeoFactor(geo)))

\* Cheng-Yang: RT ln p + RT (1 + ln(1-theta)/theta) = Phi ; ln1m = ln(1 - theta) is supplied (no logarithm in TLA+)
CYTerm(theta, ln1m) == DAdd(DInt(1), DDiv(ln1m, theta))
\* coverage used by the implementation: saturation taken 1 % above the largest loading (theta < 1 everywhere)
Coverage(n, nmax) == DDiv(n, DMul(DL(101, -2), nmax))

\* adsorbed amount (mmol/g) as liquid volume (cm3/g): n * M / rho_L / 1000   (monomial M / rho_L of spec/Units)
LiquidVolume(n, a) == DDiv(DDiv(DMul(n, a.M), a.rho), DInt(1000))

---------------------------------------------------------------------------
\* Scenario space (TLC enumerates; the driver materialises a tier/seed dependent slice, thorough = everything)
Models == <<"HK", "HK-CY", "RY", "RY-CY">>
Geos == <<"slit", "cylinder", "sphere">>
Temps == <<DInt(70), DL(774, -1), DL(873, -1), DInt(195), DInt(273), DInt(300)>>
\* adsorbents: the three built-in sets are used BY NAME; the numbers below are this specification's own reference copy
\* (Carbon: Horvath & Kawazoe 1983; oxide ion of aluminosilicates / aluminophosphates: Saito & Foley 1991, Cheng & Yang
\* 1994: same polarizability and susceptibility, diameters 0.276 / 0.260 nm, surface densities 1.315e19 / 1.000e19 m^-2);
\* the published slit equation is evaluated with THESE numbers, and the library's tables are audited against them.
\* Two user dictionaries in addition.
Adsorbents == [
   CarbonHK |-> [name |-> "Carbon(HK)", builtin |-> TRUE, known |-> TRUE,
                 d |-> DL(34, -2), alpha |-> DL(102, -5), chi |-> DL(135, -9), ns |-> DL(3845, 16)],
   AlSi |-> [name |-> "AlSiOxideIon", builtin |-> TRUE, known |-> TRUE,
             d |-> DL(276, -3), alpha |-> DL(25, -4), chi |-> DL(13, -9), ns |-> DL(1315, 16)],
   AlPh |-> [name |-> "AlPhOxideIon", builtin |-> TRUE, known |-> TRUE,
             d |-> DL(260, -3), alpha |-> DL(25, -4), chi |-> DL(13, -9), ns |-> DL(1000, 16)],
   userA |-> [name |-> "userA", builtin |-> FALSE, known |-> TRUE,
              d |-> DL(30, -2), alpha |-> DL(15, -4), chi |-> DL(10, -8), ns |-> DL(30, 18)],
   userB |-> [name |-> "userB", builtin |-> FALSE, known |-> TRUE,
              d |-> DL(28, -2), alpha |-> DL(20, -4), chi |-> DL(20, -9), ns |-> DL(15, 18)] ]
AdsorbentIds == <<"CarbonHK", "AlSi", "AlPh", "userA", "userB">>
\* adsorbates (always dictionaries): N2 of Horvath & Kawazoe, Ar of Saito & Foley, a CO2-like set
Adsorbates == [
   N2 |-> [d |-> DL(30, -2), alpha |-> DL(146, -5), chi |-> DL(20, -9), ns |-> DL(67, 17), rho |-> DL(808, -3), M |-> DL(280134, -4)],
   Ar |-> [d |-> DL(336, -3), alpha |-> DL(163, -5), chi |-> DL(325, -10), ns |-> DL(852, 16), rho |-> DL(140, -2), M |-> DL(39948, -3)],
   CO2 |-> [d |-> DL(323, -3), alpha |-> DL(27, -4), chi |-> DL(35, -9), ns |-> DL(545, 16), rho |-> DL(1023, -3), M |-> DL(4401, -2)] ]
AdsorbateIds == <<"N2", "Ar", "CO2">>
LoadFams == <<"lin", "sat", "step", "near_sat">>
\* order in which the chosen lengths are presented (the pressure of point j belongs to length number Perm(j)):
\*   "id" increasing; "swap" neighbours exchanged in the upper half (with a steeply saturating loading the Cheng-Yang
\*   term can keep the PRESSURES increasing although the solutions are not); "rev" decreasing.
\* Every width must solve the equation for ITS pressure whatever the order.
\*   "over" increasing, but the middle point asks for a pore far beyond the range (1.3 x the largest size the methods
\*   determine, 10 nm for slits, 5 nm radius otherwise): the analysis may stop there, but whatever it reports - before or
\*   after - must still belong to the pressure / loading it is reported with.
\*   "dup"  increasing, but one point repeats the pressure of the point before it (a duplicate measurement with a
\*   larger loading): two points solved to the same width, the derivative there is undefined - the three result arrays
\*   must still have one entry per interval and stay aligned.
Perms == <<"id", "swap", "id", "rev", "over", "dup">>
DupIdx(perm, N) == IF perm = "dup" THEN (N \div 2) + 1 ELSE 0
CutoffL(geo) == DDiv(DInt(10), DInt(GeoFactor(geo)))
OverL(geo) == DMul(DL(13, -1), CutoffL(geo))
OverIdx(perm, N) == IF perm = "over" THEN N \div 2 ELSE 0
PermIdx(perm, N, j) ==
   CASE perm = "id" -> j
     [] perm = "over" -> j
     [] perm = "dup" -> j
     [] perm = "rev" -> N + 1 - j
     [] perm = "swap" -> LET hf == N \div 2 IN
                         IF j <= hf THEN j ELSE IF (j - hf) % 2 = 1 THEN (IF j + 1 <= N THEN j + 1 ELSE j) ELSE j - 1
PermSeq(perm, N) == [j \in 1..N |-> PermIdx(perm, N, j)]
NPts == <<10, 20, 40>>

\* increasing loadings (mmol/g), j = 1..N
Loading(fam, N, j) ==
   CASE fam = "lin" -> DAdd(DL(5, -1), DDiv(DInt(95 * j), DInt(10 * N)))
     [] fam = "sat" -> DDiv(DInt(40 * j), DInt(4 * j + N))
     [] fam = "step" -> DAdd(DDiv(DInt(j), DInt(N)), IF 2 * j > N THEN DInt(5) ELSE DZero)
     [] fam = "near_sat" -> DDiv(DInt(10 * j * (2 * N - j)), DInt(N * N))      \* 10 u (2 - u), u = j/N: coverage 0.74 .. 0.99 in the upper half
Loadings(fam, N) == [j \in 1..N |-> Loading(fam, N, j)]

\* chosen slit widths: N points strictly between the geometric minimum L = 2 d0 and the L of a 3 nm pore
WMax == DInt(3)
SlitL(a, h, N, j) == LET lo == DMul(DInt(2), D0(a, h))  hi == DAdd(WMax, h.d)
                     IN DAdd(lo, DDiv(DMul(DSub(hi, lo), DInt(j)), DInt(N + 1)))

Scenarios ==
   LET nM == Len(Models)  nG == Len(Geos)  nH == Len(AdsorbentIds)  nA == Len(AdsorbateIds)  nT == Len(Temps)
       total == nM * nG * nH * nA * nT
       Mk(i) == LET m == i % nM  g == (i \div nM) % nG  h == (i \div (nM * nG)) % nH
                    a == (i \div (nM * nG * nH)) % nA  t == (i \div (nM * nG * nH * nA)) % nT
                IN [id |-> i, model |-> Models[m + 1], geo |-> Geos[g + 1], h |-> AdsorbentIds[h + 1], a |-> AdsorbateIds[a + 1],
                    T |-> Temps[t + 1], fam |-> LoadFams[((m + g + h + a + t) % 4) + 1], npts |-> NPts[((g + h + 2 * a + t) % 3) + 1],
                    perm |-> Perms[((m + 3 * g + h + 2 * a + t) % 6) + 1]]
   IN [i \in 1..total |-> Mk(i - 1)]

\* Histories through psd_microporous(adsorbate_model=None): the adsorbate parameters (incl. the liquid density at the
\* isotherm's temperature) are looked up per call; the result of a call is a function of ITS isotherm only.
\* Configurations: the same adsorbate at two temperatures, two other adsorbates at one of them; every order of length 3.
\* Representations in which the isotherm handed to psd_microporous is stored (the method reads relative pressure;
\* absolute ones need a saturation pressure, i.e. T below the adsorbate's critical temperature - else the relative
\* representation with the same temperature unit is used)
ApiStorage == <<
   [name |-> "relative-K", pressure_mode |-> "relative", pressure_unit |-> "none", temperature_unit |-> "K"],
   [name |-> "relative%-K", pressure_mode |-> "relative%", pressure_unit |-> "none", temperature_unit |-> "K"],
   [name |-> "bar-K", pressure_mode |-> "absolute", pressure_unit |-> "bar", temperature_unit |-> "K"],
   [name |-> "relative%-C", pressure_mode |-> "relative%", pressure_unit |-> "none", temperature_unit |-> "°C"],
   [name |-> "kPa-C", pressure_mode |-> "absolute", pressure_unit |-> "kPa", temperature_unit |-> "°C"],
   [name |-> "torr-K", pressure_mode |-> "absolute", pressure_unit |-> "torr", temperature_unit |-> "K"],
   [name |-> "relative-C", pressure_mode |-> "relative", pressure_unit |-> "none", temperature_unit |-> "°C"] >>
\* ("stored": a user-defined adsorbate without thermodynamic backend; its liquid density and molar mass are the stored
\* properties the user gave - input data)
HistConfigs == <<[ads |-> "N2", T |-> DL(7735, -2)], [ads |-> "N2", T |-> DL(873, -1)], [ads |-> "Ar", T |-> DL(873, -1)],
                 [ads |-> "stored", T |-> DL(873, -1)]>>
Histories == [1..3 -> 1..Len(HistConfigs)]

---------------------------------------------------------------------------
\* Judging one recorded run.  q fields (all numbers DecFloat):
\*   family ("HK" | "RY"), T, geo, cy, a (adsorbate), h (adsorbent), lnp (ln of the pressures fed), n (loadings fed), ln1m (ln(1-theta_j), cy only)
\*   L  (the k <= N lengths returned by the library's solver, in solver units: slab distance / radius)
\*   f0, fm, fp, gm, gp (the library's own dimensionless potential Phi/RT observed at L, L(1 -/+ 1e-3), L(1 -/+ 1e-4))
\*   w, dist, cum (the three arrays returned); a non-finite entry is encoded <<0, 9999>>
\*   chosen (slit HK round trip only: the widths the pressures were computed for; else <<>>)
NonFinite(x) == x[2] = 9999
Eps3 == DTol(3)
AbsLe(a, b, t) == DLeq(DAbs(DSub(a, b)), t)
RelW(a, b, tol) == DClose(a, b, tol)

JTheta(q) == LET nmax == SeqMax(q.n) IN [j \in 1..Len(q.n) |-> Coverage(q.n[j], nmax)]
JCorr(q) == IF q.cy THEN LET th == JTheta(q) IN [j \in 1..Len(q.n) |-> CYTerm(th[j], q.ln1m[j])]
            ELSE [j \in 1..Len(q.n) |-> DZero]
\* right-hand side of the method's equation in units of RT: Phi(L)/RT must equal this
JTarget(q) == LET c == JCorr(q) IN [j \in 1..Len(q.n) |-> DAdd(q.lnp[j], c[j])]

\* outcome class of point j w.r.t. "the reported width solves the potential equation":
\*   root     |Phi(L)/RT - target| <= 1e-3  (relative 1e-3 in p)
\*   bracket  the target lies between the potential just below and just above L (L within eps of a crossing,
\*            covers jump discontinuities of the layer-counting potentials)
\*   localext L is a local extremum of the library's potential that does not reach the target (a minimiser of
\*            the squared residual which is not a solution)
\*   other    none of these
\* the potential is observed at two distances from L: eps = 1e-3 (fm, fp) and 1e-4 (gm, gp); the layer-counting
\* potentials have jumps closer than 1e-3 L to some of their local minima
EqClass(q, tg, j) ==
   LET f0 == q.f0[j]  t == tg[j]
       Br(a, b) == DLeq(DMin(a, b), t) /\ DLeq(t, DMax(a, b))
       Ext(a, b) == (DLt(t, f0) /\ DLeq(f0, a) /\ DLeq(f0, b)) \/ (DLt(f0, t) /\ DLeq(a, f0) /\ DLeq(b, f0))
   IN IF AbsLe(f0, t, Eps3) THEN "root"
      ELSE IF Br(q.fm[j], q.fp[j]) \/ Br(q.gm[j], q.gp[j]) THEN "bracket"
      ELSE IF Ext(q.fm[j], q.fp[j]) \/ Ext(q.gm[j], q.gp[j]) THEN "localext"
      ELSE "other"

JW(q) == [j \in 1..Len(q.L) |-> WidthOf(q.geo, q.L[j], q.h)]
JV(q) == [j \in 1..Len(q.n) |-> LiquidVolume(q.n[j], q.a)]

\* which width each reported entry stands for: midpoint of consecutive solutions (what the library documents),
\* or the lower / upper one; any one convention, used consistently, is accepted
WidthConv(q, W) ==
   LET k == Len(q.L)
       Ok(c) == \A j \in 1..(k - 1) :
                  LET ref == CASE c = "mid" -> DHalf(DAdd(W[j], W[j + 1])) [] c = "lower" -> W[j] [] c = "upper" -> W[j + 1]
                  IN RelW(q.w[j], ref, DTol(5))
   IN {c \in {"mid", "lower", "upper"} : Ok(c)}

Judge(q) ==
   LET k == Len(q.L)
       N == Len(q.n)
       W == JW(q)
       V == JV(q)
       tg == JTarget(q)
       shapeOk == k <= N /\ Len(q.w) = Len(q.dist) /\ Len(q.w) = Len(q.cum) /\ (k >= 1 => Len(q.w) = k - 1)
       cls == [j \in 1..k |-> EqClass(q, tg, j)]
       badEq == {j \in 1..k : cls[j] \notin {"root", "bracket"}}
       conv == IF shapeOk /\ k >= 2 THEN WidthConv(q, W) ELSE {"mid"}
       \* cumulative pore volume = adsorbed amount as liquid volume, at the upper (or lower) solution of the interval
       cumUp == shapeOk /\ \A j \in 1..(k - 1) : RelW(q.cum[j], V[j + 1], DTol(5))
       cumLo == shapeOk /\ \A j \in 1..(k - 1) : RelW(q.cum[j], V[j], DTol(5))
       \* distribution * dW = dV between consecutive solutions (skipped where dW is below 1e-4 W: derivative undefined)
       badDist == IF ~shapeOk THEN {} ELSE
                  {j \in 1..(k - 1) :
                     LET dW == DSub(W[j + 1], W[j]) IN
                     /\ ~DLeq(DAbs(dW), DMul(DTol(4), DAbs(W[j])))
                     /\ (NonFinite(q.dist[j]) \/ ~RelW(DMul(q.dist[j], dW), DSub(V[j + 1], V[j]), DTol(3)))}
       \* monotone: a larger right-hand side never gives a smaller width (beyond solver resolution 1e-3)
       badMono == {j \in 1..(k - 1) : DLeq(tg[j], tg[j + 1]) /\ DLt(W[j + 1], DMul(W[j], DSub(DInt(1), Eps3)))}
       badMonoRep == IF ~shapeOk THEN {} ELSE
                     {j \in 1..(k - 2) : DLeq(tg[j], tg[j + 1]) /\ DLeq(tg[j + 1], tg[j + 2]) /\ ~NonFinite(q.w[j]) /\ ~NonFinite(q.w[j + 1])
                                         /\ DLt(q.w[j + 1], DMul(q.w[j], DSub(DInt(1), Eps3)))}
       \* slit round trip: the solved widths are the chosen ones
       badRT == IF Len(q.chosen) = 0 THEN {} ELSE {j \in 1..k : ~NonFinite(q.chosen[j]) /\ ~RelW(W[j], q.chosen[j], Eps3)}
       \* the library's potential at the reported length IS the published one (where the specification holds it)
       pub == Published(q.family, q.geo)
       badPub == IF pub = "none" THEN {} ELSE
                 {j \in 1..k : ~\E v \in PublishedPhi(pub, q.L[j], q.a, q.h, q.T) : DClose(q.f0[j], v, DTol(4))}
       \* fewer widths than pressures is accepted only when the analysis stopped at a pore beyond the 3 nm range
       short == Len(q.chosen) > 0 /\ k < N /\ ~(k >= 1 /\ DLt(WMax, W[k]))
   IN [shape |-> shapeOk,
       eqcls |-> cls,
       eq |-> badEq,
       conv |-> conv,
       cum |-> cumUp \/ cumLo,
       dist |-> badDist,
       mono |-> badMono \cup badMonoRep,
       rt |-> badRT,
       published |-> pub,
       pub |-> badPub,
       short |-> short]
=============================================================================
