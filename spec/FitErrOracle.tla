---------------------------- MODULE FitErrOracle ----------------------------
(***************************************************************************)
(* Trace validation for the numeric part of C12: every recorded            *)
(* observation is judged by the clauses of spec/FitErr.tla; the answer     *)
(* names the first failing clause ("" = accepted).                         *)
(***************************************************************************)
EXTENDS FitErr, FitGrid, Json, IOUtils

Q == JsonDeserialize(IOEnv.X_IN)

Step(q) ==
  IF q.k = "table" THEN [ok |-> TRUE, clause |-> "", table |-> Table]
  ELSE LET c == CASE q.k = "fit" -> Fit(q)
                  [] q.k = "points" -> Points(q)
                  [] q.k = "curve" -> Curve(q)
                  [] q.k = "order" -> OrderIndependent(q)
                  [] q.k = "fresh" -> SameAsFresh(q)
       IN [ok |-> c = "", clause |-> c]

ASSUME JsonSerialize(IOEnv.X_OUT, [i \in 1..Len(Q) |-> Step(Q[i])])
VARIABLE x
Init == x = 0
Next == x' = x
=============================================================================
