SPECIFICATION Spec
CONSTANTS
  Objs = {"a", "b"}
  Data = {"d1", "d2", "d3"}
  Keys = {"k1", "k2", "k3"}
  Res = {"r1", "r2", "r3"}
  Temps = {"t1", "t2"}
  Defects <- MCDefects
INVARIANT TypeOK
INVARIANT Functional
INVARIANT HiddenInvisible
INVARIANT NeverStale
PROPERTY ObservablyPure
CHECK_DEADLOCK FALSE
