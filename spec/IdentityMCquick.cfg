SPECIFICATION Spec
CONSTANT MaxEdits = 1
CONSTANT MCBases = {"meta1", "p4d", "p8x", "mLangmuir", "mHenry"}
INVARIANT InvWellFormed
INVARIANT InvEffective
INVARIANT InvImplSensitive
INVARIANT InvReadStable
INVARIANT InvPathIndependent
INVARIANT InvUndo
CHECK_DEADLOCK FALSE
