SPECIFICATION Spec
CONSTANT MaxEdits = 1
INVARIANT InvWellFormed
INVARIANT InvEffective
INVARIANT InvImplSensitive
INVARIANT InvReadStable
INVARIANT InvPathIndependent
INVARIANT InvUndo
CHECK_DEADLOCK FALSE
