------------------------------ MODULE UnitsMC ------------------------------
(***************************************************************************)
(* The unit system run as a transition system: start in any               *)
(* representation, convert anywhere, any number of times.  `acc` is the    *)
(* monomial accumulated by the IMPLEMENTATION tables; the invariant says   *)
(* it always equals what the DEFINITIONS (Canon) imply for start -> cur.   *)
(* Reachability gives identity, there-and-back, every triangle and every   *)
(* longer path at once.                                                    *)
(***************************************************************************)
EXTENDS Units

VARIABLES kind, start, cur, mat, acc
vars == <<kind, start, cur, mat, acc>>

Init == /\ acc = Zero
        /\ \/ kind = "P" /\ start \in PReps /\ mat = <<"mass","g">>
           \/ kind = "M" /\ start \in MReps /\ mat = <<"mass","g">>
           \/ kind = "L" /\ start \in LReps /\ mat \in MReps
        /\ cur = start

ConvP(t) == /\ kind = "P" /\ acc' = Phys(Plus(acc, ImplPVec(cur, t))) /\ cur' = t /\ UNCHANGED <<kind, start, mat>>
ConvM(t) == /\ kind = "M" /\ acc' = Phys(Plus(acc, ImplMVec(cur, t))) /\ cur' = t /\ UNCHANGED <<kind, start, mat>>
ConvL(t) == /\ kind = "L" /\ acc' = Phys(Plus(acc, ImplLVec(cur, t, mat))) /\ cur' = t /\ UNCHANGED <<kind, start, mat>>

Next == \/ \E t \in PReps : ConvP(t)
        \/ \E t \in MReps : ConvM(t)
        \/ \E t \in LReps : ConvL(t)

Spec == Init /\ [][Next]_vars

Expected == CASE kind = "P" -> SpecFactorP(start, cur)
              [] kind = "M" -> SpecFactorM(start, cur)
              [] kind = "L" -> SpecFactorL(start, cur, mat)

\* the substantive invariant: implementation tables == definitions, on every path
PathIndependent == Phys(acc) = Expected
\* laws of the definitions themselves (well-formedness of Canon)
CanonLaws == /\ (cur = start => Expected = Zero)
             /\ kind = "P" => Plus(SpecFactorP(start, cur), SpecFactorP(cur, start)) = Zero
             /\ kind = "M" => Plus(SpecFactorM(start, cur), SpecFactorM(cur, start)) = Zero
             /\ kind = "L" => Plus(SpecFactorL(start, cur, mat), SpecFactorL(cur, start, mat)) = Zero
\* implementation outcome (with refusal logic) conforms to the prescriptive set for valid arguments
ValidConforms ==
   CASE kind = "P" -> \A t \in PReps : Conforms(ImplPressure(cur, t), SpecPressure(cur, t))
     [] kind = "M" -> \A t \in MReps : Conforms(ImplMaterial(cur, t), SpecMaterial(cur, t))
     [] kind = "L" -> \A t \in LReps : Conforms(ImplLoading(cur, t, mat), SpecLoading(cur, t, mat))

---------------------------------------------------------------------------
\* Refusal table at design level: every degenerate argument pattern, Impl against Spec.
DegU(units) == units \cup {N, E, B}
PArgs == {<<m,u>> : m \in Modes \cup {N, E, B}, u \in DegU(PresU)}
RepU == {"mmol","cm3(STP)","g","kg","cm3","L"}   \* two representative units per kind
LArgs == {<<b,u>> : b \in LBases \cup {N, E, B}, u \in DegU(RepU)}
MArgs == {<<b,u>> : b \in MBases \cup {N, E, B}, u \in DegU(RepU)}
SomeM == {<<"mass","g">>, <<"volume","cm3">>, <<"molar","mol">>, <<N,N>>, <<B,"g">>, <<"mass",N>>, <<"mass","cm3">>}
DivP == {q \in PArgs \X PArgs : ~Conforms(ImplPressure(q[1], q[2]), SpecPressure(q[1], q[2]))}
DivM == {q \in MArgs \X MArgs : ~Conforms(ImplMaterial(q[1], q[2]), SpecMaterial(q[1], q[2]))}
DivL == {q \in LArgs \X LArgs \X SomeM : ~Conforms(ImplLoading(q[1], q[2], q[3]), SpecLoading(q[1], q[2], q[3]))}
ClsL == {<<IF Frac(q[1][1]) THEN "frac" ELSE IF q[1][1] \in LBases THEN "phys" ELSE "bad",
           IF Frac(q[2][1]) THEN "frac" ELSE IF q[2][1] \in LBases THEN "phys" ELSE "bad",
           ImplLoading(q[1], q[2], q[3])[1]>> : q \in DivL}
ASSUME PrintT(<<"DESIGN-DIVERGENCE", "pressure", Cardinality(DivP), "material", Cardinality(DivM),
                "loading", Cardinality(DivL), ClsL>>)
ASSUME PrintT(<<"ARGSPACE", Cardinality(PArgs \X PArgs), Cardinality(MArgs \X MArgs), Cardinality(LArgs \X LArgs \X SomeM)>>)
=============================================================================
