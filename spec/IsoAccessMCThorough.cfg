SPECIFICATION Spec
CONSTANT StoredLM <- StoredThorough
INVARIANT OnlyKnownDivergences
CHECK_DEADLOCK FALSE
