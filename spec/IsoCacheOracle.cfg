INIT OInit
NEXT ONext
