---------------------------- MODULE SelectionMC ----------------------------
(***************************************************************************)
(* The selection code run as a transition system.  A behaviour is one call *)
(* of a *_raw function: start -> (Rouquerol scan, step by step) -> lower   *)
(* index -> upper index -> three-point check -> done.  TLC explores every  *)
(* call over all grids, limit pairs and Rouquerol shapes of the bounded    *)
(* scenario space and checks that what the implementation-shaped machine   *)
(* ends with is an outcome the prescriptive specification allows.          *)
(***************************************************************************)
EXTENDS Selection

CONSTANTS MaxK,      \* pressures 0.1 .. MaxK/10
          MaxL,      \* limits 0 .. MaxL/20
          MaxN       \* Rouquerol grids of 3 .. MaxN points

VARIABLES row, pc, k, mn, mx, out
vars == <<row, pc, k, mn, mx, out>>

GridsC == Grids(MaxK)
RoqGridsC == RoqGrids(MaxN)
Row(m, g, lo, hi, r) == [m |-> m, g |-> g, lo |-> lo, hi |-> hi, r |-> r]
None3 == <<"none", 0, 0>>
\* the scenario space: manual limits, omitted limits (method defaults), Rouquerol shapes
InitRow ==
   \/ \E m \in {"bet", "lang", "da", "psd"}, g \in GridsC, lo \in LoVals(MaxL), hi \in HiVals(MaxL) : row = Row(m, g, lo, hi, <<>>)
   \/ \E m \in {"lang", "da", "psd"}, g \in GridsC : row = Row(m, g, AUTO, AUTO, <<>>)
   \/ \E g \in RoqGridsC : \E r \in RoqPatterns(Len(g)) : row = Row("bet", g, AUTO, AUTO, r)
Init == /\ InitRow /\ pc = "start" /\ k = 1
        /\ mn = 0 /\ mx = Len(row.g) - 1            \* minimum = 0; maximum = len(pressure) - 1
        /\ out = None3

IsRoq == row.m = "bet" /\ row.lo = AUTO
Thr == ImplThr(row.m, row.g, row.lo, row.hi)

Start == /\ pc = "start" /\ pc' = (IF IsRoq THEN "scan" ELSE "lo") /\ UNCHANGED <<row, k, mn, mx, out>>
\* for index, value in enumerate(roq[:-1]): if value > roq[index + 1]: maximum = index + 1; break
Scan == /\ pc = "scan"
        /\ IF k > Len(row.r) - 1 THEN pc' = "roqlo" /\ UNCHANGED <<k, mx>>
           ELSE IF row.r[k] > row.r[k + 1] THEN mx' = k /\ pc' = "roqlo" /\ UNCHANGED k
           ELSE k' = k + 1 /\ UNCHANGED <<pc, mx>>
        /\ UNCHANGED <<row, mn, out>>
RoqLo == /\ pc = "roqlo" /\ mn' \in ImplRoqMins(row.g, mx) /\ pc' = "check" /\ UNCHANGED <<row, k, mx, out>>
Lo == /\ pc = "lo" /\ mn' = ImplMin(row.g, Thr[1]) /\ pc' = "hi" /\ UNCHANGED <<row, k, mx, out>>
Hi == /\ pc = "hi" /\ mx' = ImplMax(row.g, Thr[2]) /\ pc' = "check" /\ UNCHANGED <<row, k, mn, out>>
Check == /\ pc = "check" /\ out' = ImplCheck(mn, mx) /\ pc' = "done" /\ UNCHANGED <<row, k, mn, mx>>

Next == Start \/ Scan \/ RoqLo \/ Lo \/ Hi \/ Check
Spec == Init /\ [][Next]_vars

Allowed == SpecOf(row.m, row.g, row.lo, row.hi, row.r)

\* the verdict-shaped invariant: every finished call ends in an allowed outcome
Conforms == pc = "done" => out \in Allowed
\* the step machine and the closed form used by the step oracle are the same function
ClosedForm == pc = "done" => out \in ImplOutcomes(row.m, row.g, row.lo, row.hi, row.r)
\* indices stay inside the array (no out-of-bounds slice is ever taken)
Bounds == /\ mn \in 0..Len(row.g) /\ mx \in -1..(Len(row.g) - 1)
          /\ (pc = "done" /\ out[1] = "win" => 0 <= out[2] /\ out[3] - out[2] >= 2 /\ out[3] <= Len(row.g) - 1)
\* sanity of the prescriptive side: it always allows something, and a refusal is allowed
\* exactly when some admissible window has fewer than three points
SpecSane == /\ Allowed # {}
            /\ (row.m # "psd" /\ row.lo # AUTO /\ Refuse \notin Allowed
                  => Cardinality({i \in 1..Len(row.g) : (row.lo = NONE \/ row.lo < row.g[i]) /\ (row.hi = NONE \/ row.g[i] < row.hi)}) >= 3)
\* the fitted region of a successful call contains every point strictly inside the limits
\* and no point strictly outside (statement of the property, independent of Spec* above)
Inside(i) == (row.lo = NONE \/ row.lo < row.g[i]) /\ (row.hi = NONE \/ row.g[i] < row.hi)
Outside(i) == (row.lo # NONE /\ row.g[i] < row.lo) \/ (row.hi # NONE /\ row.hi < row.g[i])
Exactly == (pc = "done" /\ row.lo # AUTO /\ out[1] = "win") =>
              \A i \in 1..Len(row.g) : /\ (Inside(i) => out[2] <= i - 1 /\ i - 1 <= out[3])
                                       /\ (Outside(i) => ~(out[2] <= i - 1 /\ i - 1 <= out[3]))

=============================================================================
