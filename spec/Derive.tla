------------------------------- MODULE Derive -------------------------------
(***************************************************************************)
(* X04 (growth beyond the listed properties): derivation constructors.     *)
(*                                                                         *)
(*   PointIsotherm.from_isotherm        (PFI)   template: base/point/model *)
(*   PointIsotherm.from_modelisotherm   (PFM)   template: model            *)
(*   ModelIsotherm.from_pointisotherm   (MFP)   template: point            *)
(*   type(t)(own data, ++t.to_dict()) (RT)    to_dict/constructor trip   *)
(*                                                                         *)
(* The docstrings promise "a parent isotherm as the template for all the   *)
(* parameters".  Prescriptive part (Clauses): the new object carries the   *)
(* template's description at that moment (labels, temperature value AND    *)
(* unit, adsorbate, material identity and properties, every metadata       *)
(* key/value) plus exactly the route's own additions; the template and     *)
(* every other object are untouched; nothing mutable is shared except what *)
(* is shared by design (a REGISTERED Material object).  Descriptive part   *)
(* (ImplPost): transcription of to_dict -> keyword dictionary -> route     *)
(* assembly -> constructors, including Python's duplicate-keyword refusal  *)
(* and the consumption of named constructor arguments.  The places where   *)
(* the transcription leaves the prescription are NAMED (DevSet) with the   *)
(* clauses each one may break (DevClauses); DeriveMC checks that the two   *)
(* differ exactly there, DeriveOracle judges real observations.            *)
(*                                                                         *)
(* Abstract state S = [obj : Slots -> object, cells : ids -> Material]:    *)
(* tokens (strings or records, fixed per instantiation) stand for labels,  *)
(* numbers and identities (Python object identity = "ref"); the heap       *)
(* semantics of Python decides what an edit of one object shows on the     *)
(* others (EditPost): independence is exactly "no shared ref".             *)
(***************************************************************************)
EXTENDS Naturals, Sequences, FiniteSets, TLC

CONSTANTS NilPl, NilSrc          \* "no data" / "no fit source" in the token universe of the instantiation

Nil == "none"
Slots == 1..3
NilLab == [p |-> Nil, l |-> Nil, m |-> Nil]
EmptyFn == [x \in {} |-> Nil]
Restrict(f, D) == [k \in D |-> f[k]]
Override(f, g) == [k \in DOMAIN f \cup DOMAIN g |-> IF k \in DOMAIN g THEN g[k] ELSE f[k]]     \* g wins (dict.update)
Val(v, r) == [v |-> v, r |-> r]          \* metadata / keyword value: content token, identity (0: immutable scalar)
Scalar(v) == Val(v, 0)

AbsentCell == [name |-> Nil, reg |-> FALSE, props |-> EmptyFn]
AbsentObj == [cls |-> "absent", lab |-> NilLab, tu |-> Nil, tv |-> Nil, ads |-> Nil, mat |-> 0, meta |-> EmptyFn, pref |-> 0,
              pl |-> NilPl, bm |-> Nil, ex |-> Nil, keys |-> Nil, dref |-> 0,
              mname |-> Nil, mbr |-> Nil, mcalc |-> Nil, msrc |-> NilSrc, mpar |-> Nil]

\* one shape for every step (unused fields keep these values)
NoStep == [k |-> Nil, t |-> 0, n |-> 0, s |-> 0, o |-> 0,
           dm |-> Nil, pts |-> Nil, br |-> Nil, marg |-> Nil, kind |-> Nil, key |-> Nil, val |-> Nil, vr |-> 0,
           gpl |-> NilPl, gbmcol |-> Nil, gbmguess |-> Nil, gex |-> Nil, gkeys |-> Nil,
           ref |-> NilPl, refown |-> NilPl, refsrc |-> NilSrc, names |-> {}, obsname |-> Nil, obspar |-> Nil, obscalc |-> Nil,
           lab2 |-> NilLab, tu2 |-> Nil, tv2 |-> Nil, pl2 |-> NilPl,
           name |-> Nil, props |-> EmptyFn, cell |-> 0, na |-> FALSE,
           fr |-> [pref |-> 0, dref |-> 0, cell |-> 0, v |-> EmptyFn]]

Present(S) == {x \in Slots : S.obj[x].cls # "absent"}
LiveCells(S) == {c \in DOMAIN S.cells : S.cells[c] # AbsentCell}
MetaContent(o) == [k \in DOMAIN o.meta |-> o.meta[k].v]
MutKeys(o) == {k \in DOMAIN o.meta : o.meta[k].r # 0}
UsedPrefs(S) == {S.obj[x].pref : x \in Present(S)}
UsedDrefs(S) == {S.obj[x].dref : x \in Present(S)} \ {0}
UsedVrefs(S) == UNION {{S.obj[x].meta[k].r : k \in DOMAIN S.obj[x].meta} : x \in Present(S)} \ {0}
HasBranch(o, br) == o.bm = br \/ o.bm \notin {"ads", "des"}
Derives(step) == step.k \in {"PFI", "PFM", "MFP", "RT"}
TargetCls(S, step) == CASE step.k \in {"PFI", "PFM"} -> "point" [] step.k = "MFP" -> "model" [] OTHER -> S.obj[step.t].cls

(***************************************************************************)
(* PRESCRIPTIVE                                                            *)
(***************************************************************************)
\* the calls the documentation lets the library refuse
SpecRefuses(S, step) ==
   \/ step.na          \* no reference: the template's accessors cannot produce the requested points / the model cannot be fitted to the branch data at all
   \/ step.k = "PFM" /\ step.pts = "both"
   \/ step.k = "MFP" /\ (step.br \notin {"ads", "des"} \/ ~HasBranch(S.obj[step.t], step.br))

\* the route's own additions to the metadata
Additions(S, step) == IF step.k = "PFM" THEN [k \in {"model_from"} |-> S.obj[step.t].mname] ELSE EmptyFn
SpecMeta(S, step) == Override(MetaContent(S.obj[step.t]), Additions(S, step))

\* branch marks of a derived point isotherm (the route's rule)
SpecMarks(S, step) ==
   LET t == S.obj[step.t] IN
   CASE step.k = "PFI" -> IF step.gbmcol # Nil THEN step.gbmcol            \* the caller's frame carries its own marks
                          ELSE IF t.cls = "model" THEN t.mbr              \* a model stands for one branch: its points are that branch
                          ELSE step.gbmguess                              \* otherwise guessed from the given numbers
     [] step.k = "PFM" -> t.mbr
     [] OTHER -> t.bm

\* names of the clauses a step S -step-> S2 with outcome `out' breaks
OthersUntouched(S, step, S2) ==
   /\ \A x \in Slots : (~Derives(step) \/ x # step.n) => S2.obj[x] = S.obj[x]
   /\ \A c \in LiveCells(S) : S2.cells[c] = S.cells[c]

DeriveClauses(S, step, out, S2) ==
   LET t == S.obj[step.t]
       n == S2.obj[step.n]
       tc == S.cells[t.mat]
       inherited == MetaContent(t)
       want == SpecMeta(S, step)
       got == MetaContent(n)
       pointlike == TargetCls(S, step) = "point"
       modellike == TargetCls(S, step) = "model"
   IN
   IF out # "ok" THEN
        {c \in {"C.refused_unexpectedly"} : ~SpecRefuses(S, step)}
        \cup {c \in {"C.refusal_is_not_a_pygaps_error"} : SpecRefuses(S, step) /\ out \notin {"raised:ParameterError", "raised:CalculationError"}}
        \cup {c \in {"C.untouched"} : S2 # S}
   ELSE
        {c \in {"C.should_have_refused"} : SpecRefuses(S, step)}
        \cup {c \in {"C.class"} : n.cls # TargetCls(S, step)}
        \cup {c \in {"C.labels"} : n.lab # t.lab}
        \cup {c \in {"C.temperature"} : n.tu # t.tu \/ n.tv # t.tv}
        \cup {c \in {"C.adsorbate"} : n.ads # t.ads}
        \* material: the registered object is shared by design; an unregistered one must be rebuilt, equal but separate
        \cup {c \in {"C.material.identity"} : n.mat = 0 \/ (IF tc.reg THEN n.mat # t.mat ELSE n.mat \in LiveCells(S)) \/ (n.mat # 0 /\ S2.cells[n.mat].name # tc.name)}
        \cup {c \in {"C.material.properties"} : n.mat # 0 /\ S2.cells[n.mat].props # tc.props}
        \* metadata: every key/value of the template, plus exactly the route's additions
        \cup {c \in {"C.meta.inherited"} : \E k \in DOMAIN inherited \ DOMAIN Additions(S, step) : k \notin DOMAIN got \/ (k \in DOMAIN got /\ got[k] # inherited[k])}
        \cup {c \in {"C.meta.additions"} : (\E k \in DOMAIN Additions(S, step) : k \notin DOMAIN got \/ (k \in DOMAIN got /\ got[k] # want[k])) \/ DOMAIN got \ DOMAIN want # {}}
        \cup {c \in {"C.meta.dict_not_shared"} : n.pref = 0 \/ n.pref \in UsedPrefs(S)}
        \cup {c \in {"C.meta.values_not_shared"} : \E k \in MutKeys(n) : n.meta[k].r \in UsedVrefs(S)}
        \* data of a derived point isotherm
        \cup {c \in {"C.data.values"} : pointlike /\ n.pl # (CASE step.k = "PFI" -> step.gpl [] step.k = "PFM" -> step.ref [] OTHER -> t.pl)}
        \cup {c \in {"C.data.marks"} : pointlike /\ n.bm # SpecMarks(S, step)}
        \cup {c \in {"C.data.columns"} : pointlike /\ (IF step.k = "RT" THEN n.ex # t.ex \/ n.keys # t.keys ELSE n.ex # step.gex \/ n.keys # step.gkeys)}
        \cup {c \in {"C.data.frame_not_shared"} : pointlike /\ (n.dref = 0 \/ n.dref \in UsedDrefs(S))}
        \cup {c \in {"C.data.none"} : ~pointlike /\ (n.pl # NilPl \/ n.dref # 0)}
        \* model of a derived model isotherm
        \cup {c \in {"C.model.branch"} : modellike /\ n.mbr # (IF step.k = "MFP" THEN step.br ELSE t.mbr)}
        \cup {c \in {"C.model.name"} : modellike /\ (IF step.k = "MFP" THEN n.mname \notin step.names ELSE n.mname # t.mname \/ n.mpar # t.mpar \/ n.mcalc # t.mcalc)}
        \cup {c \in {"C.model.fitted_to_current_branch_data"} : modellike /\ n.msrc # (IF step.k = "MFP" THEN step.refsrc ELSE t.msrc)}
        \cup {c \in {"C.model.none"} : ~modellike /\ (n.mname # Nil \/ n.msrc # NilSrc)}
        \cup {c \in {"C.slot"} : S.obj[step.n].cls # "absent"}
        \cup {c \in {"C.untouched"} : ~OthersUntouched(S, step, S2)}

(***************************************************************************)
(* HEAP SEMANTICS of the edits (Python, not pyGAPS): the post state of     *)
(* SetMeta / DelMeta / MutMeta / Convert / EditMat / Register / Drop.      *)
(***************************************************************************)
EditPost(S, step) ==
   LET o == S.obj[step.o] IN
   CASE step.k = "SetMeta" ->
          [S EXCEPT !.obj = [x \in Slots |-> IF S.obj[x].cls # "absent" /\ S.obj[x].pref = o.pref
                                             THEN [S.obj[x] EXCEPT !.meta = Override(@, [k \in {step.key} |-> Val(step.val, step.vr)])] ELSE S.obj[x]]]
     [] step.k = "DelMeta" ->
          [S EXCEPT !.obj = [x \in Slots |-> IF S.obj[x].cls # "absent" /\ S.obj[x].pref = o.pref
                                             THEN [S.obj[x] EXCEPT !.meta = Restrict(@, DOMAIN @ \ {step.key})] ELSE S.obj[x]]]
     [] step.k = "MutMeta" ->       \* in-place change of a mutable value: everybody holding that very object sees it
          LET r == o.meta[step.key].r IN
          [S EXCEPT !.obj = [x \in Slots |-> [S.obj[x] EXCEPT !.meta = [k \in DOMAIN @ |-> IF @[k].r = r THEN Val(step.val, r) ELSE @[k]]]]]
     [] step.k = "Convert" ->       \* labels and temperature are attributes of o; the numbers live in the frame
          [S EXCEPT !.obj = [x \in Slots |-> IF x = step.o THEN [o EXCEPT !.lab = step.lab2, !.tu = step.tu2, !.tv = step.tv2, !.pl = step.pl2]
                                             ELSE IF o.dref # 0 /\ S.obj[x].dref = o.dref THEN [S.obj[x] EXCEPT !.pl = step.pl2] ELSE S.obj[x]]]
     [] step.k = "EditMat" ->
          [S EXCEPT !.cells[o.mat].props = Override(@, [k \in {step.key} |-> step.val])]
     [] step.k = "Register" ->
          [S EXCEPT !.cells[step.cell] = [name |-> step.name, reg |-> TRUE, props |-> step.props]]
     [] step.k = "Drop" ->          \* the caller forgets an object (its Material stays alive while somebody may hold it)
          [S EXCEPT !.obj[step.o] = AbsentObj]
     [] OTHER -> S

EditClauses(S, step, out, S2) ==
   LET want == EditPost(S, step) IN
   IF out # "ok" THEN {"E.refused_unexpectedly"} \cup {c \in {"E.untouched"} : S2 # S}
   ELSE {c \in {"E.effect_on_the_object"} : step.k \notin {"EditMat", "Register"} /\ S2.obj[step.o] # want.obj[step.o]}
        \cup {c \in {"I.other_objects_changed"} : \E x \in Slots : (step.k \in {"EditMat", "Register"} \/ x # step.o) /\ S2.obj[x] # want.obj[x]}
        \cup {c \in {"I.materials_changed"} : S2.cells # want.cells}

Clauses(S, step, out, S2) == IF Derives(step) THEN DeriveClauses(S, step, out, S2) ELSE EditClauses(S, step, out, S2)

\* the prescription in constructive form (used by DeriveMC to explore the prescribed system)
SpecPost(S, step) ==
   LET t == S.obj[step.t]
       tc == S.cells[t.mat]
       cls == TargetCls(S, step)
       cell == IF tc.reg THEN t.mat ELSE step.fr.cell
       meta == [k \in DOMAIN SpecMeta(S, step) |-> IF k \in DOMAIN Additions(S, step) THEN Scalar(SpecMeta(S, step)[k])
                                                   ELSE IF t.meta[k].r # 0 THEN Val(t.meta[k].v, step.fr.v[k]) ELSE t.meta[k]]
       base == [AbsentObj EXCEPT !.cls = cls, !.lab = t.lab, !.tu = t.tu, !.tv = t.tv, !.ads = t.ads, !.mat = cell, !.meta = meta, !.pref = step.fr.pref]
       new == IF cls = "point" THEN [base EXCEPT !.pl = (CASE step.k = "PFI" -> step.gpl [] step.k = "PFM" -> step.ref [] OTHER -> t.pl),
                                                 !.bm = SpecMarks(S, step),
                                                 !.ex = IF step.k = "RT" THEN t.ex ELSE step.gex, !.keys = IF step.k = "RT" THEN t.keys ELSE step.gkeys,
                                                 !.dref = step.fr.dref]
              ELSE IF cls = "model" THEN (IF step.k = "MFP" THEN [base EXCEPT !.mname = step.obsname, !.mpar = step.obspar, !.mcalc = step.obscalc, !.mbr = step.br, !.msrc = step.refsrc]
                                          ELSE [base EXCEPT !.mname = t.mname, !.mpar = t.mpar, !.mcalc = t.mcalc, !.mbr = t.mbr, !.msrc = t.msrc])
              ELSE base
   IN IF SpecRefuses(S, step) THEN [out |-> "raised:ParameterError", S |-> S]
      ELSE [out |-> "ok", S |-> [obj |-> [S.obj EXCEPT ![step.n] = new],
                                 cells |-> IF tc.reg THEN S.cells ELSE [S.cells EXCEPT ![step.fr.cell] = [name |-> tc.name, reg |-> FALSE, props |-> tc.props]]]]

(***************************************************************************)
(* DESCRIPTIVE: what the code does.  Every place where the code leaves the *)
(* prescription is a NAMED deviation with a switch: ImplPostF(S, step, fx) *)
(* is the transcription with the deviations in fx repaired the obvious     *)
(* way; ImplPost = ImplPostF with nothing repaired = the code as it is.    *)
(***************************************************************************)
DUnsupported == "points_isotherm_not_supported_for_this_model_kind"
DDupKw == "template_metadata_key_is_a_keyword_of_the_route"
DSwallowed == "template_metadata_key_taken_as_constructor_argument"
DPlotFit == "guess_leaves_plot_fit_in_metadata"
DShared == "mutable_metadata_value_shared_with_template"
DOwnUnits == "points_of_passed_isotherm_read_in_its_own_units"
DNamesake == "unregistered_material_bound_to_registered_namesake"
Deviations == {DUnsupported, DDupKw, DSwallowed, DPlotFit, DShared, DOwnUnits, DNamesake}

UK == "<units>"                 \* the six unit/basis/mode labels travel together
MP == "<material.props>"        \* material.to_dict(): {'name': ..., ++properties}

\* BaseIsotherm.to_dict: vars(self) (attributes; ModelIsotherm also has 'branch'), then .update(properties): metadata wins
\* (the dictionary is new, its values are the template's own objects)
ToDict(S, x) ==
   LET o == S.obj[x]
       c == S.cells[o.mat]
       attrs == [k \in {UK, "temperature_unit", "adsorbate", "material", "temperature"} \cup (IF o.cls = "model" THEN {"branch"} ELSE {})
                       \cup (IF c.props # EmptyFn THEN {MP} ELSE {}) |->
                  CASE k = UK -> Scalar(o.lab) [] k = "temperature_unit" -> Scalar(o.tu) [] k = "adsorbate" -> Scalar(o.ads)
                    [] k = "material" -> Scalar(c.name) [] k = MP -> Scalar(c.props) [] k = "temperature" -> Scalar(o.tv) [] OTHER -> Scalar(o.mbr)]
   IN Override(attrs, o.meta)

\* a branch name that arrives as a metadata value is the same word (the harness quotes metadata values)
Unq(tok) == CASE tok = "'ads'" -> "ads" [] tok = "'des'" -> "des" [] tok = "'guess'" -> "guess" [] OTHER -> tok
BaseNamed == {"material", "adsorbate", "temperature", UK, "temperature_unit", MP}
PointNamed == {"pressure", "loading", "isotherm_data", "pressure_key", "loading_key", "branch"}
ModelNamed == PointNamed \cup {"model", "param_guess", "param_bounds", "optimization_params", "verbose"}

\* BaseIsotherm.__init__: material setter (looks the name up in the registry; the dict form updates what it finds), the rest becomes the metadata
CtorBase(S, kw, fr, lookup) ==
   LET name == kw["material"].v
       dictform == MP \in DOMAIN kw
       props == IF dictform THEN kw[MP].v ELSE EmptyFn
       found == IF lookup THEN {c \in DOMAIN S.cells : S.cells[c].reg /\ S.cells[c].name = name} ELSE {}
       cell == IF found # {} THEN CHOOSE c \in found : TRUE ELSE fr.cell
       cells2 == IF found # {} THEN (IF dictform THEN [S.cells EXCEPT ![cell].props = Override(@, props)] ELSE S.cells)
                 ELSE [S.cells EXCEPT ![cell] = [name |-> name, reg |-> FALSE, props |-> props]]
   IN [cells |-> cells2,
       o |-> [AbsentObj EXCEPT !.cls = "base", !.lab = kw[UK].v, !.tu = kw["temperature_unit"].v, !.tv = kw["temperature"].v, !.ads = kw["adsorbate"].v,
                               !.mat = cell, !.meta = Restrict(kw, DOMAIN kw \ BaseNamed), !.pref = fr.pref]]
AfterBase(S, b) == [S EXCEPT !.cells = [c \in DOMAIN @ |-> IF c \in LiveCells(S) THEN b.cells[c] ELSE @[c]]]     \* a refusal after the base constructor ran

\* PointIsotherm.__init__; d = what the caller hands over as data
CtorPoint(S, kw, fr, lookup, d) ==
   LET b == CtorBase(S, Restrict(kw, DOMAIN kw \ PointNamed), fr, lookup)
       brarg == IF "branch" \in DOMAIN kw THEN Unq(kw["branch"].v) ELSE "guess"
       owncol == d.bmcol # Nil
   IN IF ~owncol /\ brarg \notin {"guess", "ads", "des"} THEN [out |-> "raised:ParameterError", S |-> AfterBase(S, b)]
      ELSE [out |-> "ok", cells |-> b.cells,
            o |-> [b.o EXCEPT !.cls = "point", !.pl = d.pl, !.bm = IF owncol THEN d.bmcol ELSE IF brarg = "guess" THEN d.bmguess ELSE brarg,
                              !.ex = d.ex, !.keys = d.keys, !.dref = fr.dref]]

\* ModelIsotherm.__init__ fitting `fit' = [name, par, calc, src, fails] to the rows of the requested branch
CtorModel(S, kw, fr, lookup, has, fit) ==
   LET b == CtorBase(S, Restrict(kw, DOMAIN kw \ ModelNamed), fr, lookup)
       brarg == IF "branch" \in DOMAIN kw THEN Unq(kw["branch"].v) ELSE "ads"
   IN IF brarg \notin {"ads", "des"} \/ ~has[brarg] THEN [out |-> "raised:ParameterError", S |-> AfterBase(S, b)]
      ELSE IF fit.fails THEN [out |-> "raised:CalculationError", S |-> AfterBase(S, b)]        \* the optimiser gives up on these numbers
      ELSE [out |-> "ok", cells |-> b.cells,
            o |-> [b.o EXCEPT !.cls = "model", !.mname = fit.name, !.mpar = fit.par, !.mcalc = fit.calc, !.mbr = brarg, !.msrc = fit.src]]

TypeErr(S) == [out |-> "raised:TypeError", S |-> S]          \* f(a=1, ++{'a': 2}): refused by Python before the callee runs

\* keywords the route passes itself next to ++to_dict() (a template metadata key of that name is a duplicate keyword)
RouteExplicit(S, step) ==
   CASE step.k = "PFM" -> {"pressure", "loading", "model_from"}
     [] step.k = "MFP" -> IF step.marg = "single" THEN {"branch", "model", "param_guess", "param_bounds", "optimization_params", "verbose"}
                          ELSE {"branch", "models", "optimization_params", "verbose", "model", "param_guess", "param_bounds", "plot_fit"}
     [] step.k = "RT" -> IF S.obj[step.t].cls = "point" THEN {"isotherm_data", "pressure_key", "loading_key"} ELSE IF S.obj[step.t].cls = "model" THEN {"model"} ELSE {}
     [] OTHER -> {}
\* keywords the target constructor takes as named arguments without the route setting them / which the route overwrites in the dictionary
RouteSwallows(S, step) ==
   CASE step.k = "PFI" -> PointNamed
     [] step.k = "MFP" -> {"isotherm_data", "pressure_key", "loading_key", "pressure", "loading"}
     [] step.k = "PFM" -> {"isotherm_data", "pressure_key", "loading_key", "branch"}
     [] step.k = "RT" -> IF S.obj[step.t].cls = "point" THEN {"pressure", "loading", "branch"} ELSE IF S.obj[step.t].cls = "model" THEN ModelNamed \ {"model", "branch"} ELSE {}
     [] OTHER -> {}
\* template metadata keys that cannot travel through the keyword dictionary of this route
Unroutable(S, step) == (RouteSwallows(S, step) \cup (RouteExplicit(S, step) \ DOMAIN Additions(S, step))) \cap DOMAIN S.obj[step.t].meta
PtsUnsupported(S, step) == step.k = "PFM" /\ ((S.obj[step.t].mcalc = "loading" /\ step.pts = "liso") \/ (S.obj[step.t].mcalc = "pressure" /\ step.pts = "piso"))

ImplPostF(S, step, fx) ==
   LET t == S.obj[step.t]
       given == Scalar("given")
       \* repaired DSwallowed: such keys do not go through the keyword dictionary; they are put into the new metadata afterwards
       aside == IF DSwallowed \in fx THEN Unroutable(S, step) ELSE {}
       d0 == LET d == ToDict(S, step.t) IN Restrict(d, DOMAIN d \ aside)
       \* repaired DNamesake: the material of an unregistered template is rebuilt, never looked up
       lookup == ~(DNamesake \in fx /\ ~S.cells[t.mat].reg)
       \* repaired DShared: inherited mutable values are copies
       Finish(r) == IF r.out # "ok" THEN r
                    ELSE LET m1 == Override(r.o.meta, Restrict(t.meta, aside))
                             m2 == IF DShared \in fx THEN [k \in DOMAIN m1 |-> IF k \in DOMAIN t.meta /\ m1[k].r # 0 /\ m1[k].r = t.meta[k].r /\ k \in DOMAIN step.fr.v
                                                                               THEN Val(m1[k].v, step.fr.v[k]) ELSE m1[k]]
                                   ELSE m1
                         IN [out |-> "ok", S |-> [obj |-> [S.obj EXCEPT ![step.n] = [r.o EXCEPT !.meta = m2]], cells |-> r.cells]]
       \* repaired DDupKw: the route's own keyword replaces the inherited one
       dup(explicit) == DDupKw \notin fx /\ explicit \cap DOMAIN d0 # {}
   IN
   CASE step.k = "PFI" ->
          \* iso_params = to_dict(); the five data arguments are assigned into it (overriding); cls(++iso_params)
          LET kw == Override(d0, [k \in {"pressure", "loading", "isotherm_data", "pressure_key", "loading_key"} |-> given]) IN
          Finish(CtorPoint(S, kw, step.fr, lookup, [pl |-> step.gpl, bmcol |-> step.gbmcol, bmguess |-> step.gbmguess, ex |-> step.gex, keys |-> step.gkeys]))
     [] step.k = "PFM" ->
          IF step.pts = "both" THEN [out |-> "raised:ParameterError", S |-> S]
          \* a PointIsotherm as the list of points is only looked at for the quantity the model takes as input
          ELSE IF DUnsupported \notin fx /\ PtsUnsupported(S, step) THEN TypeErr(S)
          \* the points are computed with the model isotherm's own accessors before anything is built
          ELSE IF step.na THEN [out |-> "raised:CalculationError", S |-> S]
          \* PointIsotherm(pressure=..., loading=..., model_from=..., ++to_dict())
          ELSE IF dup({"pressure", "loading", "model_from"}) THEN TypeErr(S)
          ELSE LET kw == Override(d0, [k \in {"pressure", "loading", "model_from"} |-> IF k = "model_from" THEN Scalar(t.mname) ELSE given]) IN
               \* the points of a passed isotherm are read in ITS stored representation (no conversion to the model's)
               Finish(CtorPoint(S, kw, step.fr, lookup, [pl |-> IF step.pts \in {"piso", "liso"} /\ DOwnUnits \notin fx THEN step.refown ELSE step.ref, bmcol |-> Nil, bmguess |-> step.gbmguess,
                                                         ex |-> step.gex, keys |-> step.gkeys]))
     [] step.k = "MFP" ->
          \* isotherm.data(branch=branch): None means all rows; anything else but ads/des is refused there
          LET kw0 == Override(d0, [k \in {"isotherm_data", "pressure_key", "loading_key"} |-> given])
              has == [b \in {"ads", "des"} |-> HasBranch(t, b) /\ step.br \in {b, Nil}]       \* rows of branch b in the frame handed on
              extra == IF step.marg = "single" \/ DPlotFit \in fx THEN EmptyFn ELSE [k \in {"plot_fit"} |-> Scalar("False")]   \* guess(): plot_fit=False travels with the metadata
              kw1 == IF DDupKw \in fx THEN Restrict(kw0, DOMAIN kw0 \ RouteExplicit(S, step)) ELSE kw0
          IN IF step.br \notin {"ads", "des", Nil} THEN [out |-> "raised:ParameterError", S |-> S]
             ELSE IF dup(RouteExplicit(S, step)) THEN TypeErr(S)
             ELSE Finish(CtorModel(S, Override(Override(kw1, extra), [k \in {"branch"} |-> Scalar(step.br)]), step.fr, lookup, has,
                                   [name |-> step.obsname, par |-> step.obspar, calc |-> step.obscalc, src |-> step.refsrc, fails |-> step.na]))
     [] step.k = "RT" ->
          IF t.cls = "base" THEN LET b == CtorBase(S, d0, step.fr, lookup) IN Finish([out |-> "ok", cells |-> b.cells, o |-> b.o])
          ELSE IF t.cls = "point" THEN
               IF dup({"isotherm_data", "pressure_key", "loading_key"}) THEN TypeErr(S)
               ELSE Finish(CtorPoint(S, Override(d0, [k \in {"isotherm_data", "pressure_key", "loading_key"} |-> given]), step.fr, lookup,
                                     [pl |-> t.pl, bmcol |-> t.bm, bmguess |-> t.bm, ex |-> t.ex, keys |-> t.keys]))
          ELSE IF dup({"model"}) THEN TypeErr(S)
               ELSE Finish(CtorModel(S, Override(d0, [k \in {"model"} |-> given]), step.fr, lookup, [b \in {"ads", "des"} |-> TRUE],
                                     [name |-> t.mname, par |-> t.mpar, calc |-> t.mcalc, src |-> t.msrc, fails |-> FALSE]))
     [] OTHER -> [out |-> "ok", S |-> EditPost(S, step)]
ImplPost(S, step) == ImplPostF(S, step, {})

(***************************************************************************)
(* Where each named deviation applies (a predicate on state and step,      *)
(* independent of ImplPostF) and which clauses it may break.               *)
(***************************************************************************)
SpecOk(S, step) == Derives(step) /\ ~SpecRefuses(S, step)
DevSet(S, step) ==
   IF ~Derives(step) THEN {} ELSE
   LET t == S.obj[step.t]
       tc == S.cells[t.mat]
       keys == DOMAIN t.meta
   IN
   {d \in {DUnsupported} : PtsUnsupported(S, step)}
   \cup {d \in {DDupKw} : RouteExplicit(S, step) \cap keys # {}}
   \cup {d \in {DSwallowed} : Unroutable(S, step) # {}}
   \cup {d \in {DPlotFit} : step.k = "MFP" /\ step.marg # "single"}
   \cup {d \in {DShared} : MutKeys(t) \ DOMAIN Additions(S, step) # {}}
   \cup {d \in {DOwnUnits} : step.k = "PFM" /\ step.pts \in {"piso", "liso"} /\ step.refown # step.ref}
   \cup {d \in {DNamesake} : ~tc.reg /\ \E c \in LiveCells(S) : S.cells[c].reg /\ S.cells[c].name = tc.name}

DevClauses(d) ==
   CASE d = DUnsupported -> {"C.refused_unexpectedly", "C.refusal_is_not_a_pygaps_error"}
     [] d = DDupKw -> {"C.refused_unexpectedly", "C.refusal_is_not_a_pygaps_error"}
     [] d = DSwallowed -> {"C.meta.inherited", "C.data.marks", "C.refused_unexpectedly"}
     [] d = DPlotFit -> {"C.meta.additions"}
     [] d = DShared -> {"C.meta.values_not_shared"}
     [] d = DOwnUnits -> {"C.data.values"}
     [] d = DNamesake -> {"C.material.identity", "C.material.properties", "C.untouched"}
     [] OTHER -> {}
Explained(devs) == UNION {DevClauses(d) : d \in devs}

\* the verdict on one observed step: ok / exactly the code with some of the applying deviations (observation) / anything else
Judge(S, step, out, S2) ==
   LET failing == Clauses(S, step, out, S2)
       devs == DevSet(S, step)
       matches == {fx \in SUBSET devs : LET r == ImplPostF(S, step, fx) IN r.out = out /\ r.S = S2}
       asimpl == {} \in matches
   IN IF failing = {} THEN [verdict |-> "ok", failing |-> {}, devs |-> {}, applying |-> devs, asimpl |-> asimpl, astranscribed |-> matches # {}]
      ELSE IF matches # {} /\ failing \subseteq Explained(devs)
           THEN [verdict |-> "observation", failing |-> failing, devs |-> {d \in devs : DevClauses(d) \cap failing # {} /\ \E fx \in matches : d \notin fx},
                 applying |-> devs, asimpl |-> asimpl, astranscribed |-> TRUE]
      ELSE [verdict |-> "violation", failing |-> IF failing \ Explained(devs) # {} THEN failing \ Explained(devs) ELSE failing, devs |-> {}, applying |-> devs,
            asimpl |-> FALSE, astranscribed |-> matches # {}]
=============================================================================
