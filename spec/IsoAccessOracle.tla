--------------------------- MODULE IsoAccessOracle ---------------------------
(* Step oracle for the accessors (C03; reused by C10/C15): for a recorded call
   (accessor, stored labels, unit arguments, available constants) the allowed
   input/output conversion monomials, whether the call must succeed, and the
   implementation pipeline's prediction with its divergence class. *)
EXTENDS IsoAccess, Json, IOUtils

Q == JsonDeserialize(IOEnv.X_IN)
EncA(r) == IF r = AErr \/ r = AMixed THEN [kind |-> r[1], vin |-> Sparse(Zero), vout |-> Sparse(Zero)]
           ELSE [kind |-> "val", vin |-> Sparse(Phys(r[2])), vout |-> Sparse(Phys(r[3]))]
Step(q) ==
  LET av == {q.av[i] : i \in 1..Len(q.av)} IN
  IF ~IsoValid(q.s) THEN [judged |-> FALSE, vin |-> {}, vout |-> {}, must |-> FALSE, impl |-> EncA(AErr), cls |-> "na"]
  ELSE [judged |-> TRUE,
        vin |-> {Sparse(v) : v \in SpecIn(q.acc, q.s, q.g)},
        vout |-> {Sparse(v) : v \in SpecOut(q.acc, q.s, q.g)},
        must |-> SpecMustSucceed(q.acc, q.s, q.g, av),
        impl |-> EncA(ImplAccess(q.acc, q.s, q.g)),
        cls |-> DivergenceClass(q.acc, q.s, q.g)]
ASSUME JsonSerialize(IOEnv.X_OUT, [i \in 1..Len(Q) |-> Step(Q[i])])
VARIABLE x
Init == x = 0
Next == x' = x
=============================================================================
