----------------------------- MODULE SpreadingMC -----------------------------
(***************************************************************************)
(* TLC walks (i) the exact model grid of Models.tla for every model with   *)
(* an elementary spreading-pressure integral and (ii) every enumerated     *)
(* point-isotherm data set x query pressure, and checks the invariants of  *)
(* Spreading.tla (derivative clause, zero limit, additivity, continuity).  *)
(***************************************************************************)
EXTENDS Spreading
VARIABLES kind, u, v, k
vars == <<kind, u, v, k>>
\* kind = "model": u = model name, v = parameter record, k = index into the positive pressure grid
\* kind = "point": u = pressures, v = loadings, k = index into Queries(u)
Init == \/ /\ kind = "model"
           /\ u \in AllModels
           /\ v \in {a \in ParamsR(u) : HasPiSym(u, a)}
           /\ k = 1
        \/ /\ kind = "point"
           /\ \E n \in Lens : u \in IncSeqs(PVals, n) /\ v \in NonDecSeqs(NVals, n)
           /\ k = 1
Limit == IF kind = "model" THEN Len(PGridPos(u, v)) ELSE Len(Queries(u))
Next == /\ k < Limit
        /\ k' = k + 1
        /\ UNCHANGED <<kind, u, v>>
Spec == Init /\ [][Next]_vars

ModelRows == kind = "model" => LET p == PGridPos(u, v)[k] IN SymRowOK(u, v, p) /\ LangmuirCross(u, v, p)
ModelZero == kind = "model" => SymZeroOK(u, v)
PointRows == kind = "point" => PtOK(u, v, Queries(u)[k])
PointScale == kind = "point" => PtScaleInvariant(u, v, Queries(u)[k])
\* queries are ascending, start below the data and end exactly at the last point
QueryShape == kind = "point" =>
   LET qs == Queries(u) IN /\ RLt(qs[1], u[1]) /\ qs[Len(qs)] = u[Len(u)]
                           /\ \A i \in 1..(Len(qs) - 1) : RLt(qs[i], qs[i + 1])
=============================================================================
