------------------------------- MODULE IastMC -------------------------------
(***************************************************************************)
(* Every grid point (family, capacity, Henry/Langmuir constants and        *)
(* partial pressures of 2-4 components, in every order) is a state; the    *)
(* invariants are the IAST equations, permutation invariance and           *)
(* forward/reverse inversion of the closed forms of spec/Iast.tla.         *)
(***************************************************************************)
EXTENDS Iast
CONSTANT MaxN


VARIABLES pc, fam, M, K, p
vars == <<pc, fam, M, K, p>>
\* one start state; each grid point is a successor, so that TLC's workers share the grid
Init == pc = "start" /\ fam = "henry" /\ M = One /\ K = <<One, One>> /\ p = <<One, One>>
PickK == /\ pc = "start" /\ pc' = "constants"
         /\ fam' \in Fams
         /\ IF fam' = "henry" THEN M' = One ELSE M' \in MVals
         /\ \E n \in 2..MaxN : K' \in [1..n -> KVals] /\ p' = [i \in 1..n |-> One]
PickP == /\ pc = "constants" /\ pc' = "point"
         /\ p' \in [1..Len(K) -> PVals]
         /\ UNCHANGED <<fam, M, K>>
Next == PickK \/ PickP
Spec == Init /\ [][Next]_vars

L == Load(fam, M, K, p)
InvFractions == FractionsOK(L)
InvEqualSpreading == EqualSpreading(fam, K, p, L)
InvIdealMixing == IdealMixing(fam, M, K, p, L)
InvPermutation == PermInvariant(fam, M, K, p)
InvInverse == Inverts(fam, M, K, p)
\* sanity of the predicates themselves: a perturbed answer is rejected
InvRejectsWrong == LET bad == [L EXCEPT ![1] = RAdd(L[1], One)] IN
                   ~(EqualSpreading(fam, K, p, bad) /\ IdealMixing(fam, M, K, p, bad))
=============================================================================
