SPECIFICATION Spec
INVARIANT Recovers
INVARIANT Linear
INVARIANT TableAgrees
INVARIANT PointsAgree
INVARIANT Monolayer
INVARIANT RoqMonotone
CHECK_DEADLOCK FALSE
