SPECIFICATION Spec
INVARIANT Recovers
INVARIANT Linear
INVARIANT TableAgrees
INVARIANT PointsAgree
INVARIANT Monolayer
CHECK_DEADLOCK FALSE
