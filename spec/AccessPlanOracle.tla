-------------------------- MODULE AccessPlanOracle --------------------------
(***************************************************************************)
(* Batch oracle for C15 (the driver asks, TLC evaluates spec/AccessPlan):  *)
(*  k = "cover"  : per analysis the classes of stored representations that *)
(*                 send the plan's conversions down the same branch        *)
(*  k = "run"    : for one replayed scenario (analysis, label states of    *)
(*                 the sample and of the reference / further isotherm,     *)
(*                 which of them was changed from which start state) the   *)
(*                 class of the scenario (PlanClass / ClassTable) and, per *)
(*                 result key, the expected factor as a monomial, the      *)
(*                 scaling exponent, the kind and the tolerance            *)
(***************************************************************************)
EXTENDS AccessPlan, Json, IOUtils

Q == JsonDeserialize(IOEnv.X_IN)
SeqToSet(s) == {s[i] : i \in 1..Len(s)}
\* monomial as a set of <<atom, exponent>> pairs (homogeneous, JSON friendly, empty when trivial)
Pairs(v) == {<<a, v[a]>> : a \in Support(v)}

KeyInfo(q, key) ==
   LET d == ResultDims(q.an, key) IN
   [key |-> key, kind |-> d.kind, vec |-> Pairs(RepFactor2(q.an, key, q.sS0, q.sR0, q.sS, q.sR)),
    sexp |-> ScaleExp(q.an, key, q.role), tol |-> TolExp(q.an, key)]

Step(q) ==
   CASE q.k = "cover" ->
          [L |-> {[key |-> k, reps |-> {r \in NonFracL : PathKeyL(q.an, r) = k}] : k \in {PathKeyL(q.an, r) : r \in NonFracL}},
           M |-> {[key |-> k, reps |-> {r \in MReps : PathKeyM(q.an, r) = k}] : k \in {PathKeyM(q.an, r) : r \in MReps}},
           P |-> PReps, T |-> TempU, two |-> q.an \in TwoIso]
     [] q.k = "run" ->
          LET ok == IsoValid(q.sS) /\ IsoValid(q.sR) /\ ~Frac(q.sS.lb) /\ ~Frac(q.sR.lb) IN
          [judged |-> ok,
           cls |-> IF ok THEN PlanClass(q.an, q.sS, q.sR) ELSE "na",
           table |-> IF ok THEN ClassTable(q.an, q.sS, q.sR) ELSE "na",
           cls0 |-> PlanClass(q.an, q.sS0, q.sR0),
           keys |-> [i \in 1..Len(q.keys) |-> KeyInfo(q, q.keys[i])],
           \* what the access-plan model says reaches the core from the SAMPLE's stored columns: factor core / stored
           deliv |-> IF ~ok THEN {} ELSE
                     LET p == Plan(q.an, q.sS, q.sR)  ev == Evals(q.an, q.sS, q.sR) IN
                     {[slot |-> p[i].slot, col |-> IF OutL(p[i].acc) THEN "loading" ELSE "pressure",
                       vec |-> Pairs(Phys(Minus(ev[i].out, IF OutL(p[i].acc) THEN ColL(q.sS) ELSE ColP(q.sS))))] :
                        i \in {j \in 1..Len(p) : p[j].role = "S" /\ ~InP(p[j].acc) /\ ~InL(p[j].acc) /\ ev[j].ok}}]

ASSUME JsonSerialize(IOEnv.X_OUT, [i \in 1..Len(Q) |-> Step(Q[i])])
VARIABLE x
Init == x = 0
Next == x' = x
=============================================================================
