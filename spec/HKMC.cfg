SPECIFICATION Spec
INVARIANT FormsAgree
INVARIANT Increasing
INVARIANT Physical
INVARIANT PermOk
INVARIANT RYAttractive
CHECK_DEADLOCK FALSE
