SPECIFICATION Spec
INVARIANT FormsAgree
INVARIANT Increasing
INVARIANT Physical
CHECK_DEADLOCK FALSE
