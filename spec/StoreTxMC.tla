----------------------------- MODULE StoreTxMC -----------------------------
(***************************************************************************)
(* Exhaustive exploration of StoreTx's machine for the call shapes the     *)
(* driver extracted from the statement logs of the real public write       *)
(* operations (IOEnv.SHAPES_IN): every statement position x every fault    *)
(* kind x a crash at every instant including inside the commit.            *)
(*   StoreTxMC_required.cfg    Mode = "required": the clauses of C09 are   *)
(*                             invariants and must hold.                   *)
(*   StoreTxMC_implemented.cfg Mode = "implemented": the verdict of every  *)
(*                             finished behaviour is tallied; the first    *)
(*                             behaviour of every (shape family, verdict)  *)
(*                             is printed (PREDICT lines).                 *)
(***************************************************************************)
EXTENDS StoreTx, Json, IOUtils, TLCExt

RawShapes == JsonDeserialize(IOEnv.SHAPES_IN)
ToSet(s) == {s[i] : i \in DOMAIN s}
MCShapes == {[name |-> r.name, K |-> r.K, writes |-> ToSet(r.writes), swallow |-> ToSet(r.swallow),
              regAt |-> ToSet(r.regAt), regInit |-> r.regInit, regSet |-> r.regSet, itemWhen |-> r.itemWhen,
              auto |-> r.auto] : r \in ToSet(RawShapes)}

\* "implemented" mode: list, do not forbid
Tally ==
  IF ~Done THEN TRUE
  ELSE LET key == <<sh.name, Verdict>> IN
       /\ TLCSet(9, TLCGet(9) + 1)
       /\ IF Verdict = "fine" THEN TRUE ELSE TLCSet(10, TLCGet(10) + 1)
       /\ IF key \in TLCGet(11) THEN TRUE
          ELSE TLCSet(11, TLCGet(11) \cup {key}) /\ PrintT(<<"PREDICT", sh.name, Verdict, log[1], log[2]>>)
TallyInit == TLCSet(9, 0) /\ TLCSet(10, 0) /\ TLCSet(11, {})
ImplInit == MInit /\ TallyInit
ImplSpec == ImplInit /\ [][MNext]_vars
Stats == PrintT(<<"FINISHED-BEHAVIOURS", TLCGet(9), "NOT-FINE", TLCGet(10)>>)
=============================================================================
