SPECIFICATION Spec
INVARIANT SpecPreserves
INVARIANT SpecFixpoint
INVARIANT SpecRefusal
INVARIANT ImplStable
INVARIANT ImplChain
INVARIANT ImplNeverLosesSilently
CHECK_DEADLOCK FALSE
