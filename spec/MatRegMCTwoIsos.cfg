SPECIFICATION Spec
CONSTANTS
  Names = {"a", "b"}
  Keys = {"density", "note"}
  NV = 2
  MaxHeap = 2
  Isos = {1, 2}
  Bases = {"mass", "volume"}
  PropMaps <- MCPropMaps
  PropChoices <- MCPropMaps
VIEW View
INVARIANT TypeOK
INVARIANT RefsResolve
INVARIANT AllOperations
INVARIANT FindFirstMatch
CHECK_DEADLOCK FALSE
