------------------------------ MODULE IastTrace ------------------------------
(***************************************************************************)
(* C13, relational part: the IAST equations as formulas over OBSERVATIONS  *)
(* (decimal floats, spec/DecFloat.tla).  For a returned vector of          *)
(* component loadings the harness records, per component i, the partial    *)
(* pressure p_i it passed, the fictitious pressure p0_i at which it        *)
(* queried the INPUT isotherms, and what those isotherms answered:         *)
(* spreading_pressure_at(p0_i) and loading_at(p0_i).  The adsorbed mole    *)
(* fractions are derived here from the returned loadings.                  *)
(***************************************************************************)
EXTENDS DecFloat, FiniteSets

TolEq == DTol(5)        \* IAST equations: observed residuals <= 1e-12
TolFrac == DTol(6)      \* bookkeeping identities (sum x = 1, p0 x = p)
DOne == <<10000000, -7>>
Ix(s) == 1..Len(s)
XOf(load) == LET t == DSum(load) IN [i \in Ix(load) |-> DDiv(load[i], t)]

Lengths(q) == Len(q.load) = Len(q.p) /\ Len(q.p0) = Len(q.p) /\ Len(q.pi) = Len(q.p) /\ Len(q.n0) = Len(q.p) /\ Len(q.p) >= 2
Positive(q) == \A i \in Ix(q.load) : DLeq(DZero, q.load[i]) /\ DLt(DZero, q.p[i])
Fractions(q) == LET x == XOf(q.load) IN
   /\ \A i \in Ix(x) : DLeq(DZero, x[i]) /\ DLeq(x[i], DOne)
   /\ DClose(DSum(x), DOne, TolFrac)
\* the observations were taken at p_i / x_i
Fictitious(q) == LET x == XOf(q.load) IN \A i \in Ix(x) : DClose(DMul(q.p0[i], x[i]), q.p[i], TolFrac)
EqualSpreading(q) == \A i, j \in Ix(q.pi) : DClose(q.pi[i], q.pi[j], TolEq)
IdealMixing(q) == LET x == XOf(q.load) IN
   DClose(DDiv(DOne, DSum(q.load)), DSum([i \in Ix(x) |-> DDiv(x[i], q.n0[i])]), TolEq)

\* The equal-spreading-pressure clause is about the TRUE spreading pressure, the integral of n/p of the
\* component's own loading.  piq[i] is an independent quadrature of the input isotherm's loading_at
\* from 0 to p0_i (recorded where hasq[i]: model isotherms); the library's spreading_pressure_at,
\* which the IAST solver equalised, must be that integral.
QuadBad(q) == {i \in Ix(q.pi) : q.hasq[i] /\ ~DClose(q.pi[i], q.piq[i], TolEq)}
TrueSpreading(q) == Len(q.piq) = Len(q.pi) /\ Len(q.hasq) = Len(q.pi) /\ QuadBad(q) = {}

Point(q) ==
   IF ~Lengths(q) THEN "shape"
   ELSE IF ~Positive(q) THEN "negative_loading"
   ELSE IF ~Fractions(q) THEN "fractions"
   ELSE IF ~Fictitious(q) THEN "observation_not_at_fictitious_pressure"
   ELSE IF ~EqualSpreading(q) THEN "spreading_pressures_differ"
   ELSE IF ~IdealMixing(q) THEN "ideal_mixing_rule"
   ELSE IF ~TrueSpreading(q) THEN "spreading_pressure_is_not_the_integral_of_loading"
   ELSE ""

\* reverse problem: requested adsorbed fractions x, total pressure P; returned gas fractions y and loadings
Reverse(q) ==
   LET x == XOf(q.load) IN
   IF ~(Len(q.y) = Len(q.x) /\ Len(q.load) = Len(q.x)) THEN "shape"
   ELSE IF ~(\A i \in Ix(q.y) : DLeq(DZero, q.y[i]) /\ DLeq(q.y[i], DOne)) THEN "gas_fraction_outside_unit_interval"
   ELSE IF ~DClose(DSum(q.y), DOne, TolFrac) THEN "gas_fractions_do_not_sum_to_one"
   ELSE IF ~(\A i \in Ix(x) : DClose(x[i], q.x[i], TolFrac)) THEN "loadings_not_in_requested_proportion"
   ELSE IF ~(\A i \in Ix(q.y) : q.p[i] = DMul(q.y[i], q.P) \/ DClose(q.p[i], DMul(q.y[i], q.P), TolFrac)) THEN "partial_pressures"
   ELSE Point(q)

\* b is a re-ordered by sigma: b[i] = a[sigma[i]]
Permuted(q) ==
   IF Len(q.a) # Len(q.b) THEN "shape"
   ELSE IF \A i \in Ix(q.b) : DClose(q.b[i], q.a[q.sigma[i]], TolEq) THEN "" ELSE "not_permutation_invariant"
CloseSeq(q) ==
   IF Len(q.a) # Len(q.b) THEN "shape"
   ELSE IF \A i \in Ix(q.b) : DClose(q.a[i], q.b[i], TolEq) THEN "" ELSE "values_differ"
\* helpers must return exactly what the point calculation gives
Same(q) == IF q.a = q.b THEN "" ELSE "helper_differs_from_point_calculation"
=============================================================================
