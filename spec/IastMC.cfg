SPECIFICATION Spec
INVARIANT InvFractions
INVARIANT InvEqualSpreading
INVARIANT InvIdealMixing
INVARIANT InvPermutation
INVARIANT InvInverse
INVARIANT InvRejectsWrong
CHECK_DEADLOCK FALSE
CONSTANT MaxN = 4
