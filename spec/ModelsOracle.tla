---------------------------- MODULE ModelsOracle ----------------------------
(***************************************************************************)
(* Batch oracle for C10 (harness/drivers/c10.py).                          *)
(*  k = "table": the exact table TLC computed from the model equations     *)
(*  k = "grid" : the parameter/argument grid of the relational contract    *)
(*  k = "obs"  : one observation record of the real code; the answer lists *)
(*               the clauses of the property it violates                   *)
(***************************************************************************)
EXTENDS Models, Json, IOUtils

X == JsonDeserialize(IOEnv.X_IN)

Table == [m \in AllModels |->
            {[par |-> a,
              rows |-> LET g == PGridR(m, a) IN [i \in 1..Len(g) |-> [p |-> g[i], n |-> L(m, a, g[i])]],
              inv |-> IF InvJudged(m, a) THEN "y" ELSE "n",
              mono |-> IF MonoDomain(m, a) THEN "y" ELSE "n",
              deg |-> IF DegenerateQuadratic(m, a) THEN "y" ELSE "n"] : a \in ParamsR(m)}]
Meta == [m \in AllModels |-> [calc |-> Calc(m), cls |-> InvClass(m),
                              henry |-> IF HasHenry(m) THEN "y" ELSE "n", cap |-> IF HasCap(m) THEN "y" ELSE "n"]]
Grid == [m \in AllModels |-> {[par |-> a, args |-> ArgsG(m, a), fine |-> Fine(ArgsG(m, a)),
                               H |-> IF HasHenry(m) THEN HenryR(m, a) ELSE R0,
                               cap |-> IF HasCap(m) THEN CapR(m, a) ELSE R0,
                               deg |-> IF DegenerateQuadratic(m, a) THEN "y" ELSE "n"] : a \in ParamsG(m)}]

Step(q) ==
  CASE q.k = "table" -> [table |-> Table, meta |-> Meta]
    [] q.k = "grid" -> [grid |-> Grid, meta |-> Meta]
    [] q.k = "histplan" -> [plans |-> [m \in AllModels |-> {[a |-> ab[1], b |-> ab[2], args |-> ArgsG(m, ab[1]), steps |-> HistPlan(ab[1], ab[2])] : ab \in HistPairs(m)}]]
    [] q.k = "hist" -> HistStep(q)
    [] q.k = "elemplan" -> [patterns |-> ElemPatterns, args |-> [m \in AllModels |-> {[par |-> a, xs |-> ElemArgs(m, a)] : a \in ParamsG(m)}]]
    [] q.k = "elem" -> ElemStep(q)
    [] q.k = "obs" -> IF Calc(q.model) = "loading" THEN ObsLoadingExplicit(q.model, q.par, q.pts, q.zero, q.hen, q.e10)
                      ELSE ObsPressureExplicit(q.model, q.par, q.pts, q.zero, q.hen, q.e10)
    [] q.k = "magplan" -> [exps |-> MagnitudeExps, power |-> [m \in {mm \in AllModels : Rescalable(mm)} |-> PressurePower(m)]]
    [] q.k = "intplan" -> [m \in AllModels |-> {[par |-> a, pressures |-> IntPressures(m, a), loadings |-> IntLoadings(m, a)] : a \in ParamsG(m)}]

ASSUME JsonSerialize(IOEnv.X_OUT, [i \in 1..Len(X) |-> Step(X[i])])
VARIABLE x
Init == x = 0
Next == x' = x
=============================================================================
