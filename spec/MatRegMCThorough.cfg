SPECIFICATION Spec
CONSTANTS
  Names = {"a", "b"}
  Keys = {"density", "molar_mass"}
  NV = 1
  MaxHeap = 3
  Isos = {1}
  Bases = {"mass", "volume", "molar"}
  PropMaps <- MCPropMapsT
  PropChoices <- MCPropMapsT
VIEW View
INVARIANT TypeOK
INVARIANT RefsResolve
INVARIANT AllOperations
INVARIANT FindFirstMatch
CHECK_DEADLOCK FALSE
