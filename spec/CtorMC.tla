-------------------------------- MODULE CtorMC --------------------------------
(***************************************************************************)
(* Exhaustive comparison of the descriptive transcription with the         *)
(* prescription over the whole abstract product of Ctor.tla.  One action   *)
(* per public operation; the state after a call is the abstract projection *)
(* of what came back.                                                      *)
(***************************************************************************)
EXTENDS Ctor
VARIABLES phase, inv, res
vars == <<phase, inv, res>>
Idle == Nominal("base")
Init == phase = "idle" /\ inv = Idle /\ res = Impl(Idle)
Step(i) == inv' = i /\ res' = Impl(i) /\ phase' = "done"
CallBaseIsotherm == phase = "idle" /\ \E i \in FamReq("base") : Step(i)
CallBaseIsothermUnits == phase = "idle" /\ \E i \in FamUnits : Step(i)
CallBaseIsothermMeta == phase = "idle" /\ \E i \in FamBaseMeta : Step(i)
CallPointIsothermRequired == phase = "idle" /\ \E i \in FamReq("point") : Step(i)
CallPointIsotherm == phase = "idle" /\ \E i \in FamPoint : Step(i)
CallModelIsothermRequired == phase = "idle" /\ \E i \in FamReq("model") : Step(i)
CallModelIsotherm == phase = "idle" /\ \E i \in FamModel : Step(i)
CallModelIso == phase = "idle" /\ \E i \in FamMiso : Step(i)
Next == \/ CallBaseIsotherm \/ CallBaseIsothermUnits \/ CallBaseIsothermMeta \/ CallPointIsothermRequired \/ CallPointIsotherm
        \/ CallModelIsothermRequired \/ CallModelIsotherm \/ CallModelIso
SpecMC == Init /\ [][Next]_vars

Done == phase = "done"
\* the transcription leaves the prescription exactly where a named deviation disjunct was taken
DeviationsExact == Done => ((SpecJudge(inv, Proj(res)) # {}) <=> (res.dev # {}))
DeviationsNamed == Done => res.dev \subseteq DevNames
\* the driver's question, asked about the transcription itself, never answers "violation"
VerdictOfImpl == Done => Verdict(inv, Proj(res)).verdict \in {"ok", "observation"} /\ ~Verdict(inv, Proj(res)).drift
\* the clause table of Ctor and the reused acceptance test of IsoConvert agree
UnitClausesMatchIsoValid == Done /\ inv.cls # "miso" => ((UnitFailing(Eff(inv)) = {}) <=> IsoValid(Eff(inv)))
AcceptedLabelsValid == Done /\ res.out = "ok" => IsoValid(res.labels)
\* a prescription that allows nothing would make every behaviour a violation
SpecSatisfiable == Done /\ Must(inv) = {} =>
   /\ AllowedMarks(inv) # {} /\ AllowedSrc(inv) # {} /\ AllowedModel(inv) # {} /\ AllowedBLabel(inv) # {} /\ AllowedFit(inv) # {} /\ AllowedMeta(inv) # {}
   /\ (inv.cls # "miso" => AllowedMval(inv) # {} /\ AllowedAval(inv) # {} /\ AllowedTval(inv) # {})
MembershipPredicate == Done => IsInv(inv)
\* the 'volume' deprecation branch of BaseIsotherm.__init__ tests the class default: never taken
DeprecationBranchDead == Done => res.depwarn # "yes"
\* refusals without a named deviation name a requirement that really fails
RefusalsNameFailing == Done /\ res.out = "raised" /\ res.dev = {} => res.exc = "ParameterError" /\ res.clause \in Must(inv) \cup May(inv)

\* every named deviation class is alive, with a minimal witness (the reproductions quoted in the driver's notes)
Witness ==
   [DShorthandFalsy |-> [Nominal("base") EXCEPT !.t = "sh0"],
    DNoneTestEq |-> [Nominal("base") EXCEPT !.a = "obj"],
    DTempValueError |-> [Nominal("base") EXCEPT !.t = "badstr"],
    DModeNotString |-> [Nominal("base") EXCEPT !.pm = N],
    DMaterialUnitMessage |-> [Nominal("base") EXCEPT !.lb = "volume_gas", !.lu = "cm3", !.mu = B],
    DDataNotSized |-> [Nominal("point") EXCEPT !.data = "scalar"],
    DDataNotFrame |-> [Nominal("point") EXCEPT !.data = "notframe"],
    DEmptyGuess |-> [Nominal("point") EXCEPT !.data = "empty"],
    DBranchNone |-> [Nominal("point") EXCEPT !.branch = N],
    DEmptyBranchList |-> [Nominal("point") EXCEPT !.data = "empty", !.branch = "list_bad"],
    DEmptyData |-> [Nominal("model") EXCEPT !.data = "empty"],
    DModelBranchUnchecked |-> [Nominal("model") EXCEPT !.branch = "other"],
    DModelKeyError |-> [Nominal("model") EXCEPT !.data = "df_badkey"],
    DModelList |-> [Nominal("model") EXCEPT !.model = "list"],
    DModelInstanceData |-> [Nominal("model") EXCEPT !.model = "instance"],
    DMisoBranchNone |-> Inv("miso", "kw", "kw", "kw", UGiven, "iso_both", N, "name", "user"),
    DPlotFit |-> Inv("miso", "kw", "kw", "kw", UGiven, "iso_both", "ads", "list", "user")]
ASSUME DOMAIN Witness = DevNames
ASSUME \A d \in DevNames : IsInv(Witness[d]) /\ Impl(Witness[d]).dev = {d} /\ Verdict(Witness[d], Proj(Impl(Witness[d]))).verdict = "observation"
\* the nominal invocations are accepted as given, by both descriptions
ASSUME \A c \in {"base", "point", "model"} : Impl(Nominal(c)).out = "ok" /\ Impl(Nominal(c)).dev = {} /\ SpecJudge(Nominal(c), Proj(Impl(Nominal(c)))) = {}
=============================================================================
