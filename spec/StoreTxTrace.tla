---------------------------- MODULE StoreTxTrace ----------------------------
(***************************************************************************)
(* Trace validation (pattern B) of the statement logs recorded from the    *)
(* real code through the sqlite3 proxy (fault-free, faulted and crashed    *)
(* runs of every public write operation) against the connection            *)
(* discipline of StoreTx.  One TLC run validates all traces: the initial   *)
(* states are the traces, a step consumes one logged event if              *)
(* StoreTx!DReject allows it, otherwise the trace moves to an absorbing    *)
(* rejected state; the last step judges the end of the call                *)
(* (StoreTx!DFinal).  Every trace ends in exactly one VERDICT line.        *)
(* trace = [id, K, outcome, ev : sequence of events]                       *)
(***************************************************************************)
EXTENDS Naturals, Sequences, FiniteSets, TLC, Json, IOUtils

Tr == JsonDeserialize(IOEnv.X_IN)

D == INSTANCE StoreTx WITH Shapes <- {}, Mode <- "required", Journal <- "disk", spill <- 0,
       sh <- 0, pc <- 0, conn <- 0, work <- 0, durable <- 0, reg <- 0, phase <- 0, status <- 0, log <- 0

VARIABLES t, i, s, verdict
tvars == <<t, i, s, verdict>>

TInit == /\ t \in 1..Len(Tr) /\ i = 1 /\ s = D!DInit /\ verdict = "reading"

Consume == /\ verdict = "reading" /\ i <= Len(Tr[t].ev)
           /\ LET e == Tr[t].ev[i]  why == D!DReject(s, e, Tr[t].K) IN
              IF why = ""
              THEN /\ s' = D!DStep(s, e) /\ i' = i + 1 /\ verdict' = verdict
              ELSE /\ verdict' = why /\ i' = i /\ s' = s
                   /\ PrintT(<<"VERDICT", Tr[t].id, "rejected", i, why>>)
           /\ t' = t

Judge == /\ verdict = "reading" /\ i = Len(Tr[t].ev) + 1
         /\ LET why == D!DFinal(s, Tr[t].outcome) IN
            /\ verdict' = IF why = "" THEN "accepted" ELSE why
            /\ PrintT(<<"VERDICT", Tr[t].id, IF why = "" THEN "accepted" ELSE "rejected", i, why>>)
         /\ i' = i + 1 /\ UNCHANGED <<t, s>>

TNext == Consume \/ Judge
TSpec == TInit /\ [][TNext]_tvars
=============================================================================
