SPECIFICATION Spec
CONSTANT Parts <- PartsAll
CONSTANT StartsLM <- StartsThorough
INVARIANT StepsAllowed
CHECK_DEADLOCK FALSE
