--------------------------- MODULE SpreadingOracle ---------------------------
(***************************************************************************)
(* Batch oracle for C11 (harness/drivers/c11.py).                          *)
(*  "sym"   : the symbolic integrals rat + SUM c ln(arg) on the exact grid *)
(*  "grid"  : parameter vectors / top pressures of the geometric contract  *)
(*  "ptscen": every point-isotherm data set x query with its symbolic form *)
(*  "geo"   : judge one geometric-grid observation record (GeoStep)        *)
(*  "pt"    : judge one point-isotherm observation (PtStep)                *)
(***************************************************************************)
EXTENDS Spreading, Json, IOUtils

X == JsonDeserialize(IOEnv.X_IN)
Logs2(s) == [i \in 1..Len(s.logs) |-> [c |-> s.logs[i].c, arg |-> s.logs[i].arg]]
SymTable == [m \in SpreadingModels |->
   {[par |-> a, offset |-> ImplPiOffset(m, a),
     rows |-> LET g == PGridPos(m, a) IN
              [i \in 1..Len(g) |-> LET s == PiSym(m, a, g[i]) IN [p |-> g[i], rat |-> s.rat, logs |-> Logs2(s)]]]
    : a \in {b \in ParamsR(m) : HasPiSym(m, b)}}]
GeoGrid == [m \in SpreadingModels |->
   {[par |-> a, tops |-> GeoTops(m, a), offset |-> ImplPiOffset(m, a)] : a \in ParamsG(m)}]
GeoMeta == [pt_exps |-> PointMagnitudeExps, lnr |-> LnR, per_octave |-> GeoPerOctave, octaves |-> GeoOctaves, window |-> GeoWindow,
            quad |-> {m \in SpreadingModels : QuadBased(m)}, zexp |-> 40]
PtScen == UNION {{[P |-> P, N |-> N,
                   qs |-> LET qq == Queries(P) IN [i \in 1..Len(qq) |->
                             LET s == PiPoint(P, N, qq[i]) IN [q |-> qq[i], rat |-> s.rat, logs |-> s.logs, n |-> Interp(P, N, qq[i])]]]
                  : P \in IncSeqs(PVals, n), N \in NonDecSeqs(NVals, n)} : n \in Lens}

Step(q) ==
  CASE q.k = "sym" -> [sym |-> SymTable]
    [] q.k = "grid" -> [grid |-> GeoGrid, meta |-> GeoMeta]
    [] q.k = "ptscen" -> [scen |-> PtScen]
    [] q.k = "histplan" -> [plans |-> [m \in SpreadingModels |-> {[a |-> ab[1], b |-> ab[2], args |-> ArgsG(m, ab[1]), steps |-> HistPlan(ab[1], ab[2])] : ab \in HistPairs(m)}]]
    [] q.k = "hist" -> HistStep(q)
    [] q.k = "elemplan" -> [patterns |-> ElemPatterns,
                            args |-> [m \in {mm \in SpreadingModels : ~QuadBased(mm)} |-> {[par |-> a, xs |-> ElemArgs(m, a)] : a \in ParamsG(m)}]]
    [] q.k = "elem" -> ElemStep(q)
    [] q.k = "intplan" -> [m \in SpreadingModels |-> {[par |-> a, pressures |-> IntPressures(m, a)] : a \in ParamsG(m)}]
    [] q.k = "geo" -> GeoStep(q)
    [] q.k = "pt" -> PtStep(q)

ASSUME JsonSerialize(IOEnv.X_OUT, [i \in 1..Len(X) |-> Step(X[i])])
VARIABLE x
Init == x = 0
Next == x' = x
=============================================================================
