SPECIFICATION SpecMC
INVARIANT TypeOK
INVARIANT OnlyNamedDeviations
INVARIANT NoClassNoDivergence
INVARIANT SpecTotal
INVARIANT Decisive
INVARIANT CalcErrorOnlyForLimits
INVARIANT MesoDispatchSane
PROPERTY CacheMonotone
PROPERTY CacheOnlyByItsOperation
PROPERTY LoadIffNotCached
CHECK_DEADLOCK FALSE
