--------------------------------- MODULE Nist ---------------------------------
(***************************************************************************)
(* Growth beyond the listed properties: import of NIST ISODB JSON          *)
(* documents (src/pygaps/parsing/json.py, _from_json_nist) as a decision   *)
(* table over the unit strings of the document.                            *)
(*                                                                         *)
(* Spec: a document whose unit strings name a representation pyGAPS        *)
(* supports is imported with exactly those labels; anything else is        *)
(* refused with a parsing error - never another exception, never an        *)
(* isotherm with labels the constructor would reject.                      *)
(* Impl: transcription of _from_json_nist followed by the constructor's    *)
(* acceptance test (IsoConvert!IsoValid).                                  *)
(***************************************************************************)
EXTENDS IsoConvert

U1s == {"mmol", "mol", "cm3(STP)", "g", "mg", "cm3", "mL", "ml", "molecules", "wt%"}   \* numerator of adsorptionUnits
U2s == {"g", "kg", "cm3", "mL", "mol", "mmol", "unitcell", "none"}                     \* denominator ("none": no slash)
PUs == {"bar", "Pa", "kPa", "torr", "psi", "mbar"}
NAds == {1, 2}
Docs == [u1 : U1s, u2 : U2s, pu : PUs, n : NAds]

LoadingBasisOf(u) == IF u \in MolarU THEN "molar" ELSE IF u \in MassU THEN "mass" ELSE IF u \in VolU THEN "volume" ELSE B
MaterialBasisOf(u) == IF u \in MassU THEN "mass" ELSE IF u \in VolU THEN "volume" ELSE IF u \in MolarU THEN "molar" ELSE B

\* result: <<"iso", labels>> | <<"ParsingError">> | <<"other", what>>
Labels(lb, lu, mb, mu, pu) == [pm |-> "absolute", pu |-> pu, lb |-> lb, lu |-> lu, mb |-> mb, mu |-> mu, tu |-> "K"]

\* ---- prescriptive
Spec(d) ==
   IF d.n > 1 THEN {<<"ParsingError">>}
   ELSE LET pair == IF d.u2 = "none" THEN (IF d.u1 = "wt%" THEN <<"g", "g">> ELSE <<B, B>>) ELSE <<d.u1, d.u2>> IN
        IF pair[1] = B THEN {<<"ParsingError">>}
        ELSE IF d.pu \notin PresU THEN {<<"ParsingError">>}
        ELSE IF LoadingBasisOf(pair[1]) = B \/ MaterialBasisOf(pair[2]) = B THEN {<<"ParsingError">>}
        ELSE IF pair[1] \in VolU
             \* a volume of adsorbate is a gas volume or a liquid volume: either is a supported reading, or refuse
             THEN {<<"iso", Labels(b, pair[1], MaterialBasisOf(pair[2]), pair[2], d.pu)>> : b \in {"volume_gas", "volume_liquid"}} \cup {<<"ParsingError">>}
        ELSE {<<"iso", Labels(LoadingBasisOf(pair[1]), pair[1], MaterialBasisOf(pair[2]), pair[2], d.pu)>>}

\* ---- descriptive
Impl(d) ==
   IF d.n > 1 THEN <<"ParsingError">>
   ELSE LET comp == IF d.u2 = "none" THEN (IF d.u1 = "wt%" THEN <<"g", "g">> ELSE <<B, B>>) ELSE <<d.u1, d.u2>> IN
        IF comp[1] = B THEN <<"ParsingError">>
        ELSE IF LoadingBasisOf(comp[1]) = B THEN <<"ParsingError">>
        ELSE IF MaterialBasisOf(comp[2]) = B THEN <<"ParsingError">>
        ELSE IF d.pu \notin PresU THEN <<"ParsingError">>
        ELSE LET s == Labels(LoadingBasisOf(comp[1]), comp[1], MaterialBasisOf(comp[2]), comp[2], d.pu) IN
             IF IsoValid(s) THEN <<"iso", s>> ELSE <<"other", "ParameterError from the constructor">>
=============================================================================
