---------------------------- MODULE CodecOracle ----------------------------
(***************************************************************************)
(* Batch oracle for C06 / C07.                                             *)
(*   k = "rows"   : the scenario rows of (fmt, tier, seed), enumerated by  *)
(*                  the specification (Codec!Rows)                         *)
(*   k = "judge"  : judgement of one recorded export/import round trip of  *)
(*                  the real code (Codec!Judge) + class membership of the  *)
(*                  representative the harness used                        *)
(*   k = "design" : the design-level list of places where the transcribed  *)
(*                  implementation leaves the specification                *)
(***************************************************************************)
EXTENDS Codec, Json, IOUtils

Q == JsonDeserialize(IOEnv.X_IN)

Divergences(fmt) ==
  {<<kc, vc, ImplLabel(fmt, kc, v, Ctx("string", "comma")), Domain(fmt, kc, v)>> :
     <<kc, vc, v>> \in {t \in KeyClasses \X (DOMAIN VCTable) \X AllValues : t[3] \in VCTable[t[2]] /\ ImplDiverges(fmt, t[1], t[3], Ctx("string", "comma"))}}

Step(q) ==
  CASE q.k = "rows" -> [rows |-> Rows(q.fmt, q.tier, q.seed)]
    [] q.k = "judge" ->
         LET j == Judge(q) IN
         [verdict |-> j.verdict, ok |-> j.ok, failing |-> j.failing, dom |-> j.dom, vdom |-> j.vdom, kdom |-> j.kdom, ldom |-> j.ldom, allowed |-> j.allowed,
          focus |-> j.focus, impl |-> j.impl, id_equal |-> j.id_equal, id_obliged |-> j.id_obliged,
          agrees |-> j.agrees, by_value |-> j.by_value, by_key |-> j.by_key,
          member |-> (q.vc = "absent" \/ q.feat \in VCTable[q.vc])]
    [] q.k = "design" -> [divergences |-> Divergences(q.fmt)]

ASSUME JsonSerialize(IOEnv.X_OUT, [i \in 1..Len(Q) |-> Step(Q[i])])
VARIABLE x
Init == x = 0
Next == x' = x
=============================================================================
