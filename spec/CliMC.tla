--------------------------------- MODULE CliMC ---------------------------------
EXTENDS Cli
VARIABLES inv, done
Init == inv \in Invocations /\ done = FALSE
Next == done = FALSE /\ done' = TRUE /\ UNCHANGED inv
SpecMC == Init /\ [][Next]_<<inv, done>>
ImplMeetsSpec == Impl(inv) = Spec(inv)
\* sanity of the specification itself
AtMostOneAction == Cardinality({k \in DOMAIN Spec(inv) : Spec(inv)[k] \in {"area_BET", "area_langmuir", "initial_henry_slope", "model_iso", "convert", "plot"}}) <= 1
ReadBeforeAnythingElse == (Len(Spec(inv)) > 1) => Spec(inv)[1] \in {"from_json", "from_csv", "from_xl", "from_aif"}
WriteOnlyWhatWasProduced == (\E k \in DOMAIN Spec(inv) : Spec(inv)[k] \in {"to_json", "to_csv", "to_xl", "to_aif"})
                             => (inv.ch = "none" /\ (inv.md # "none" \/ inv.cv) /\ inv.out # "none")
=============================================================================
