----------------------------- MODULE Linearised -----------------------------
(***************************************************************************)
(* Exact recovery by the linearised characterisation methods (C14).        *)
(*                                                                         *)
(* Each method fits a straight line to a transform of the isotherm; on     *)
(* data generated from the method's own governing equation the transform   *)
(* is exactly linear, so the expected outputs are the generating           *)
(* quantities themselves - no second implementation of any numerical       *)
(* routine is needed.  This module states, in exact rational arithmetic:   *)
(*   - the governing equations (data generators),                          *)
(*   - the transforms and the parameter formulas of each method,           *)
(*   - the expected outputs as functions of the generating parameters.     *)
(* LinearisedMC checks with TLC that these three fit together (transform   *)
(* of the governing equation is the line the parameter formulas invert).   *)
(* Values that do not fit 32-bit rationals as a single fraction are        *)
(* handed to the harness as a list of rational FACTORS (value = product).  *)
(***************************************************************************)
EXTENDS Rat, DecFloat, Sequences, FiniteSets

One == RInt(1)
IsSquare(c) == \E s \in 1..50 : s * s = c
ISqrt(c) == CHOOSE s \in 1..50 : s * s = c          \* p_monolayer = 1 / (sqrt(C) + 1) is rational for perfect squares only

\* ---- governing equations (reduced loading x = n / n_m, exact)
BetX(C, p)  == RDiv(RMul(RInt(C), p), RMul(RSub(One, p), RAdd(RSub(One, p), RMul(RInt(C), p))))
LangX(K, p) == RDiv(RMul(K, p), RAdd(One, RMul(K, p)))
\* the same as factor lists n = n_m * ... (for wide parameter ranges)
\* (integer numerators / denominators of p = a/b directly: C a reaches 4e5 on dense grids, beyond the Rat operand guard)
BetPoint(nm, C, p)  == <<nm, R(C * p[1], p[2]), R(p[2], p[2] - p[1]), R(p[2], p[2] - p[1] + C * p[1])>>
LangPoint(nm, K, p) == <<nm, RMul(K, p), RInv(RAdd(One, RMul(K, p)))>>
LinPoint(s, i, t)   == RAdd(RMul(s, t), i)            \* t-plot / alpha-s: n = s * t + i

\* ---- Rouquerol transform of exact BET data: n (1 - p) = n_m C p / (1 - p + C p) = n_m / (1 + (1 - p) / (C p)).
\* It increases from p1 = a1/b1 to p2 = a2/b2 iff (1 - p1) / p1 > (1 - p2) / p2 (n_m, C > 0 cancel), i.e. iff
\* (b1 - a1) a2 > (b2 - a2) a1: an exact integer test that stays small on dense grids and for C of 2000, where
\* consecutive values differ by a few 1e-6 relative (LinearisedMC!RoqMonotone ties it to the rational definition).
RoqStrictUp(p1, p2) == (p1[2] - p1[1]) * p2[1] > (p2[2] - p2[1]) * p1[1]
LMin(S) == CHOOSE x \in S : \A y \in S : x <= y
RoqEnds(ps) == LET D == {j \in 1..(Len(ps) - 1) : ~RoqStrictUp(ps[j], ps[j + 1])}
               IN IF D = {} THEN {Len(ps)} ELSE {LMin(D), LMin(D) + 1}                 \* 1-based; either reading of "stops increasing"
TenthLess(ps, e) == Cardinality({j \in 1..Len(ps) : 10 * ps[j][1] * ps[e][2] < ps[e][1] * ps[j][2]})
TenthLeq(ps, e)  == Cardinality({j \in 1..Len(ps) : 10 * ps[j][1] * ps[e][2] <= ps[e][1] * ps[j][2]})
\* the automatic BET windows <<first, last>> (0-based) the property allows on the grid ps
RoqWindows(ps) == UNION {{<<s, e - 1>> : s \in {TenthLess(ps, e), TenthLeq(ps, e)}} : e \in RoqEnds(ps)}

\* ---- transforms (the ordinate each method regresses against its abscissa)
BetT(p, n)  == RDiv(p, RMul(n, RSub(One, p)))         \* p / (n (1 - p))   vs p
LangT(p, n) == RDiv(p, n)                             \* p / n             vs p

\* ---- straight line through two points, parameter formulas of the methods
Slope(x1, y1, x2, y2) == RDiv(RSub(y2, y1), RSub(x2, x1))
Icept(x1, y1, x2, y2) == RSub(y1, RMul(Slope(x1, y1, x2, y2), x1))
BetNm(s, i) == RInv(RAdd(s, i))                       \* n_m = 1 / (s + i)
BetC(s, i)  == RAdd(RDiv(s, i), One)                  \* C = s / i + 1
LangNm(s, i) == RInv(s)                               \* n_m = 1 / s
LangK(s, i)  == RInv(RMul(i, RInv(s)))                \* K = 1 / (i n_m)

\* ---- expected outputs for generating parameters (factor lists)
NA18 == <<60221408, -2>>                              \* N_A * 1e-18 = 602214.076 (DecFloat; exact value used by the harness)
BetExpect(nm, C, sigma) ==
   [slope |-> <<R(C - 1, C), RInv(nm)>>, intercept |-> <<R(1, C), RInv(nm)>>,
    c_const |-> <<RInt(C)>>, n_monolayer |-> <<nm>>,
    p_monolayer |-> IF IsSquare(C) THEN <<R(1, ISqrt(C) + 1)>> ELSE <<>>,        \* <<>>: not supplied (irrational)
    area_over_NA18 |-> <<nm, sigma>>, corr_coef |-> <<One>>]
LangExpect(nm, K, sigma) ==
   [slope |-> <<RInv(nm)>>, intercept |-> <<RInv(K), RInv(nm)>>,
    langmuir_const |-> <<K>>, n_monolayer |-> <<nm>>, area_over_NA18 |-> <<nm, sigma>>, corr_coef |-> <<One>>]
\* t-plot: loading in mmol, thickness in nm, M in g/mol, rho in g/cm3: area [m2] = s M / rho, volume [cm3] = i M / rho / 1000
TpExpect(s, i, M, rho) ==
   [slope |-> <<s>>, intercept |-> <<i>>, area |-> <<s, M, RInv(rho)>>, adsorbed_volume |-> <<i, M, RInv(rho), R(1, 1000)>>]
\* alpha-s: area = A_ref / n_ref(0.4) * s
AsExpect(s, i, aref, apt, M, rho) ==
   [slope |-> <<s>>, intercept |-> <<i>>, area |-> <<aref, RInv(apt), s>>, adsorbed_volume |-> <<i, M, RInv(rho), R(1, 1000)>>]
\* alpha-s of an exact BET isotherm (n_m, C, sigma) against itself, reducing pressure pr, loadings in mmol:
\* slope = its own loading at pr, intercept 0, and the area is the reference (BET) area
SelfExpect(nm, C, sigma, pr) ==
   [slope |-> <<RInt(1000)>> \o BetPoint(nm, C, pr), intercept |-> <<RInt(0)>>, adsorbed_volume |-> <<RInt(0)>>,
    area_over_NA18 |-> <<nm, sigma>>]
\* alpha-s of n = s * alpha + i against an exact BET reference whose area the library derives itself:
\* area = A_BET / n_ref(pr) * s = sigma N_A s / (1000 x(pr)), independent of n_m
AsIsoExpect(s, i, C, sigma, pr, M, rho) ==
   [slope |-> <<s>>, intercept |-> <<i>>, area_over_NA18 |-> <<sigma, s, R(1, 1000), RInv(BetX(C, pr))>>,
    adsorbed_volume |-> <<i, M, RInv(rho), R(1, 1000)>>]
\* the same against an exact Langmuir reference (n_m, K) whose LANGMUIR area the library derives:
\* area = n_m sigma N_A / (1000 n_m x_L(pr)) * s, with x_L the reduced Langmuir loading of the REFERENCE
AsIsoLangExpect(s, i, K, sigma, pr, M, rho) ==
   [slope |-> <<s>>, intercept |-> <<i>>, area_over_NA18 |-> <<sigma, s, R(1, 1000), RInv(LangX(K, pr))>>,
    adsorbed_volume |-> <<i, M, RInv(rho), R(1, 1000)>>]
\* DR / DA: total micropore volume vt [cm3], characteristic energy eps [J/mol], exponent m
\* capacity of the generating model n_t = vt rho / M; reported potential in kJ/mol
DaExpect(vt, eps, m, M, rho) ==
   [pore_volume |-> <<vt>>, adsorption_potential |-> <<eps, R(1, 1000)>>, exponent |-> <<m>>, n_total |-> <<vt, rho, RInv(M)>>]

\* ---- decimal evaluation of factor lists, closeness of an observation
DOfRat(r) == DDiv(DFromInt(r[1]), DFromInt(r[2]))
RECURSIVE DProd(_, _, _)
DProd(f, i, acc) == IF i > Len(f) THEN acc ELSE DProd(f, i + 1, DMul(acc, DOfRat(f[i])))
DOfFactors(f) == DProd(f, 1, DFromInt(1))
CloseTo(obs, f, k) == DClose(obs, DOfFactors(f), DTol(k))
=============================================================================
