INIT Init
NEXT Next
