---------------------------- MODULE FitSelectMC ----------------------------
(***************************************************************************)
(* guess() run as a transition system: the environment chooses how many    *)
(* candidates there are, the branch layout of the stored points, the       *)
(* requested branch, the entry route and - one attempt at a time - the     *)
(* outcome of every fit.  The implementation-shaped actions (ImplBranch,   *)
(* ImplSelect) are checked against the prescriptive definitions in every   *)
(* reachable state, i.e. for every outcome pattern of <= MaxCand           *)
(* candidates x every layout of <= MaxPts points x branch x route.         *)
(***************************************************************************)
EXTENDS FitSelect

MaxCand == 4
MaxPts == 5
Outcomes == {FAIL, NAN, 1, 2, 3}
Layouts == UNION {[1..k -> {0, 1}] : k \in 1..MaxPts}
Patterns == UNION {[1..k -> Outcomes] : k \in 1..MaxCand}
REFUSED == -2
NONE == -3

VARIABLES n, layout, req, route, pat, handed, pc, result
vars == <<n, layout, req, route, pat, handed, pc, result>>

Init == /\ n \in 1..MaxCand /\ layout \in Layouts /\ req \in {"ads", "des"} /\ route \in Routes
        /\ pat = <<>> /\ handed = <<>> /\ pc = "try" /\ result = NONE

\* one candidate: the constructor selects the branch, then fits (outcome o chosen by the environment)
Try(o) == /\ pc = "try" /\ Len(pat) < n
          /\ LET pts == ImplBranch(layout, req, route) IN
             IF pts = <<>>
             THEN /\ pc' = "done" /\ result' = REFUSED /\ UNCHANGED <<pat, handed>>     \* ParameterError leaves guess()
             ELSE /\ pat' = Append(pat, o) /\ handed' = Append(handed, pts) /\ UNCHANGED <<pc, result>>
          /\ UNCHANGED <<n, layout, req, route>>
Select == /\ pc = "try" /\ Len(pat) = n
          /\ result' = ImplSelect(pat) /\ pc' = "done"
          /\ UNCHANGED <<n, layout, req, route, pat, handed>>
Next == (\E o \in Outcomes : Try(o)) \/ Select
Spec == Init /\ [][Next]_vars

Done == pc = "done"
SelectionAllowed == Done /\ result # REFUSED => result \in Allowed(pat)
ErrorIffNoneConverged == Done /\ result # REFUSED => (result = CalcError <=> Converged(pat) = {})
OnlyRequestedBranch == \A k \in 1..Len(handed) : handed[k] = SpecBranch(layout, req, route)
RefusedIffEmpty == /\ Done => (result = REFUSED <=> MustRefuse(layout, req, route))
                   /\ result = REFUSED => handed = <<>>
EveryCandidateTried == Done /\ result # REFUSED => Len(pat) = n /\ Len(handed) = n
\* list order: the k-th attempt is the k-th candidate (pat grows by appending only)
StepOrder == [][Len(pat') >= Len(pat) /\ (Len(pat') > Len(pat) => SubSeq(pat', 1, Len(pat)) = pat)]_vars

---------------------------------------------------------------------------
\* design-level listing: where the implementation leaves the STRICT reading (NaN ranks last)
StrictDiv == {p \in Patterns : ImplSelect(p) \notin SpecStrict(p)}
WeakDiv == {p \in Patterns : ImplSelect(p) \notin SpecWeak(p)}
\* every strict divergence is "a NaN error is the first converged candidate and is returned"
FirstConv(p) == CHOOSE i \in Converged(p) : \A j \in Converged(p) : i <= j
DivClass == \A p \in StrictDiv : p[FirstConv(p)] = NAN /\ ImplSelect(p) = FirstConv(p)
ASSUME PrintT(<<"DESIGN-DIVERGENCE", "patterns", Cardinality(Patterns), "strict", Cardinality(StrictDiv),
                "weak", Cardinality(WeakDiv), "all_nan_first", DivClass>>)
ASSUME WeakDiv = {}
ASSUME \A p \in Patterns : ~HasNaN(p) => SpecStrict(p) = SpecWeak(p)
=============================================================================
