SPECIFICATION SpecMC
INVARIANT ImplMeetsSpec
INVARIANT AtMostOneAction
INVARIANT ReadBeforeAnythingElse
INVARIANT WriteOnlyWhatWasProduced
CHECK_DEADLOCK FALSE
