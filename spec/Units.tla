------------------------------- MODULE Units -------------------------------
(***************************************************************************)
(* The pyGAPS unit system as symbolic algebra.                             *)
(*                                                                         *)
(* A quantity is never a float here.  A conversion multiplies a value by a *)
(* product of named constants; the product is an exponent vector           *)
(* (function Atoms -> Int).  Two descriptions are kept apart:              *)
(*                                                                         *)
(*   Canon*  - prescriptive: what every representation MEANS, as the       *)
(*             monomial by which the number in that representation differs *)
(*             from the SI quantity.  SpecFactor(a,b) = Canon(b)-Canon(a). *)
(*   Impl*   - descriptive: a transcription of the decision tables of      *)
(*             src/pygaps/units/converter_mode.py (c_pressure, c_loading,  *)
(*             c_material), including their refusal logic.                 *)
(*                                                                         *)
(* Argument encoding: a representation is <<mode-or-basis, unit>>; the     *)
(* strings "none" (Python None), "empty" ("") and "bogus" (any unknown     *)
(* string) stand for the degenerate arguments.                             *)
(***************************************************************************)
EXTENDS Integers, Sequences, FiniteSets, TLC, TLCExt

N == "none"
E == "empty"
B == "bogus"
Falsy(x) == x \in {N, E}

MolarU == {"mmol","mol","kmol","cm3(STP)","mL(STP)","cc(STP)","L(STP)"}
MassU  == {"amu","mg","cg","dg","g","kg"}
VolU   == {"cm3","mL","cc","dm3","L","m3"}
PresU  == {"Pa","kPa","MPa","mbar","bar","atm","mmHg","torr"}
TempU  == {"K","degC"}

AllU == MolarU \cup MassU \cup VolU \cup PresU
UAtab == TLCEval([k \in {"molar","mass","vol","pres"} |-> [u \in AllU |-> k \o ":" \o u]])
UA(kind, u) == UAtab[kind][u]
\* physical constants the library consults (psat in Pa; densities of the adsorbate; material)
Phys0 == {"psat","M","rhoLmass","rhoLmol","rhoGmass","rhoGmol","rhomat","Mmat","hundred"}
Atoms == {UA("molar",u) : u \in MolarU} \cup {UA("mass",u) : u \in MassU}
         \cup {UA("vol",u) : u \in VolU} \cup {UA("pres",u) : u \in PresU} \cup Phys0

\* TLCEval forces eager evaluation: TLC's function constructors are lazy, and nested lazy
\* vectors are re-evaluated on every application (observed: 80 states/s instead of 10^4)
Zero == TLCEval([a \in Atoms |-> 0])
One(a) == TLCEval([Zero EXCEPT ![a] = 1])
Plus(v, w) == TLCEval([a \in Atoms |-> v[a] + w[a]])
Neg(v) == TLCEval([a \in Atoms |-> -v[a]])
Minus(v, w) == TLCEval([a \in Atoms |-> v[a] - w[a]])
Scale(k, v) == TLCEval([a \in Atoms |-> k * v[a]])
\* quotient by the physical relations rho_mass = M * rho_molar (liquid and gas)
Phys(v) == LET l == v["rhoLmass"]  g == v["rhoGmass"] IN TLCEval(
   [v EXCEPT !["rhoLmass"] = 0, !["rhoGmass"] = 0, !["M"] = v["M"] + l + g,
             !["rhoLmol"] = v["rhoLmol"] + l, !["rhoGmol"] = v["rhoGmol"] + g])
Support(v) == {a \in Atoms : v[a] # 0}
Sparse(v) == [a \in Support(v) |-> v[a]]

---------------------------------------------------------------------------
\* tables: which unit set each mode/basis uses
Modes  == {"absolute","relative","relative%"}
LBases == {"mass","molar","volume_gas","volume_liquid","fraction","percent"}
MBases == {"mass","molar","volume"}
Frac(b) == b \in {"fraction","percent"}
LKind(b) == CASE b = "mass" -> "mass" [] b = "molar" -> "molar"
              [] b \in {"volume_gas","volume_liquid"} -> "vol" [] OTHER -> "nokind"
LUnits(b) == CASE b = "mass" -> MassU [] b = "molar" -> MolarU
              [] b \in {"volume_gas","volume_liquid"} -> VolU [] OTHER -> {}
MKind(b) == CASE b = "mass" -> "mass" [] b = "molar" -> "molar" [] b = "volume" -> "vol" [] OTHER -> "nokind"
MUnits(b) == CASE b = "mass" -> MassU [] b = "molar" -> MolarU [] b = "volume" -> VolU [] OTHER -> {}
PUnits(m) == IF m = "absolute" THEN PresU ELSE {}

LReps == {<<b,u>> : b \in {"mass"}, u \in MassU} \cup {<<b,u>> : b \in {"molar"}, u \in MolarU}
         \cup {<<b,u>> : b \in {"volume_gas","volume_liquid"}, u \in VolU}
         \cup {<<"fraction",N>>, <<"percent",N>>}
MReps == {<<b,u>> : b \in {"mass"}, u \in MassU} \cup {<<b,u>> : b \in {"molar"}, u \in MolarU}
         \cup {<<b,u>> : b \in {"volume"}, u \in VolU}
PReps == {<<"absolute",u>> : u \in PresU} \cup {<<"relative",N>>, <<"relative%",N>>}

ValidP(r) == r[1] \in Modes /\ (r[1] = "absolute" => r[2] \in PresU)
ValidL(r) == r[1] \in LBases /\ (~Frac(r[1]) => r[2] \in LUnits(r[1]))
ValidM(r) == r[1] \in MBases /\ r[2] \in MUnits(r[1])

---------------------------------------------------------------------------
\* Canon: number_in_rep = SI_quantity * monomial
CanonP(r) == CASE r[1] = "absolute" -> Neg(One(UA("pres", r[2])))
               [] r[1] = "relative" -> Neg(One("psat"))
               [] r[1] = "relative%" -> Plus(Neg(One("psat")), One("hundred"))
MatAsLoad(mb) == IF mb = "volume" THEN "volume_liquid" ELSE mb
\* amount of adsorbate (SI: mol) expressed in basis b, unit u
CanonLphys(b, u) == CASE b = "molar" -> Neg(One(UA("molar",u)))
               [] b = "mass" -> Plus(One("M"), Neg(One(UA("mass",u))))
               [] b = "volume_gas" -> Plus(Neg(One("rhoGmol")), Neg(One(UA("vol",u))))
               [] b = "volume_liquid" -> Plus(Neg(One("rhoLmol")), Neg(One(UA("vol",u))))
\* fraction: adsorbate in the basis and unit of the material ("g per g", "cm3 per cm3", "mol per mol")
CanonL(r, m) == CASE r[1] = "fraction" -> CanonLphys(MatAsLoad(m[1]), m[2])
               [] r[1] = "percent" -> Plus(CanonLphys(MatAsLoad(m[1]), m[2]), One("hundred"))
               [] OTHER -> CanonLphys(r[1], r[2])
\* "per amount of material": 1 / (material amount); SI amount of material: g (library convention)
CanonM(m) == CASE m[1] = "mass" -> One(UA("mass", m[2]))
               [] m[1] = "volume" -> Plus(One("rhomat"), One(UA("vol", m[2])))
               [] m[1] = "molar" -> Plus(One("Mmat"), One(UA("molar", m[2])))

SpecFactorP(f, t) == Minus(CanonP(t), CanonP(f))
SpecFactorL(f, t, m) == Minus(CanonL(t, m), CanonL(f, m))
SpecFactorM(f, t) == Minus(CanonM(t), CanonM(f))

---------------------------------------------------------------------------
\* Prescriptive outcome sets.  An outcome is <<"val", vector>> or <<"PE">>.
Val(v) == <<"val", v>>
PE == <<"PE">>

\* same mode/basis: unit-only change.  needs = units are meaningful for this mode/basis
SameKindOutcomes(needs, uf, ut, units, vecOf(_,_)) ==
   IF ~needs THEN
        \* units are ignored; an unknown string may be refused
        {Val(Zero)} \cup (IF (uf \notin {N} \cup units) \/ (ut \notin {N} \cup units) THEN {PE} ELSE {})
   ELSE IF Falsy(ut) THEN {PE, Val(Zero)}
   ELSE IF ut = uf THEN (IF uf \in units THEN {Val(Zero)} ELSE {PE})     \* an unknown unit is refused even as an identity
   ELSE IF uf \in units /\ ut \in units THEN {Val(vecOf(uf, ut))}
   ELSE {PE}

SpecPressure(f, t) ==
   IF f[1] \notin Modes \/ t[1] \notin Modes THEN {PE}
   ELSE IF f[1] = t[1] THEN
        SameKindOutcomes(f[1] = "absolute", f[2], t[2], PresU,
                         LAMBDA a, b : SpecFactorP(<<"absolute",a>>, <<"absolute",b>>))
   ELSE IF (f[1] = "absolute" /\ f[2] \notin PresU) \/ (t[1] = "absolute" /\ t[2] \notin PresU) THEN {PE}
   ELSE {Val(SpecFactorP(f, t))}

SpecLoading(f, t, m) ==
   IF f[1] \notin LBases \/ t[1] \notin LBases THEN {PE}
   ELSE IF f[1] = t[1] THEN
        SameKindOutcomes(~Frac(f[1]), f[2], t[2], LUnits(f[1]),
                         LAMBDA a, b : SpecFactorL(<<f[1],a>>, <<f[1],b>>, <<"mass","g">>))
   ELSE IF (~Frac(f[1]) /\ f[2] \notin LUnits(f[1])) \/ (~Frac(t[1]) /\ t[2] \notin LUnits(t[1])) THEN {PE}
   ELSE IF Frac(f[1]) /\ Frac(t[1]) THEN {Val(SpecFactorL(f, t, <<"mass","g">>))}
   ELSE IF (Frac(f[1]) \/ Frac(t[1])) /\ ~ValidM(m) THEN {PE}
   ELSE {Val(SpecFactorL(f, t, IF ValidM(m) THEN m ELSE <<"mass","g">>))}

SpecMaterial(f, t) ==
   IF f[1] \notin MBases \/ t[1] \notin MBases THEN {PE}
   ELSE IF f[1] = t[1] THEN
        SameKindOutcomes(TRUE, f[2], t[2], MUnits(f[1]),
                         LAMBDA a, b : SpecFactorM(<<f[1],a>>, <<f[1],b>>))
   ELSE IF f[2] \notin MUnits(f[1]) \/ t[2] \notin MUnits(t[1]) THEN {PE}
   ELSE {Val(SpecFactorM(f, t))}

---------------------------------------------------------------------------
\* Impl: transcriptions of converter_mode.py.  Result: <<"val", vec>>, <<"PE">>, <<"other", what>>
Other(w) == <<"other", w, 0>>
BadUnit(u, units) == Falsy(u) \/ u \notin units     \* _check_unit raises ParameterError
BadBasis(b, bases) == Falsy(b) \/ b \notin bases    \* _check_basis raises ParameterError

ImplPVec(f, t) ==
  IF f[1] # t[1] THEN
     IF "absolute" \in {f[1], t[1]} THEN
        LET unit == IF f[1] = "absolute" THEN f[2] ELSE t[2]
            sign == IF f[1] = "absolute" THEN -1 ELSE 1
            fac0 == Minus(One("psat"), One(UA("pres", unit)))   \* saturation_pressure(temp, unit=unit)
            fac == IF "relative%" \in {f[1], t[1]} THEN Minus(fac0, One("hundred")) ELSE fac0
        IN Scale(sign, fac)
     ELSE Scale(IF t[1] = "relative%" THEN 1 ELSE -1, One("hundred"))
  ELSE IF f[1] = "absolute" /\ ~Falsy(t[2]) THEN Minus(One(UA("pres", f[2])), One(UA("pres", t[2])))
  ELSE Zero

ImplPressure(f, t) ==
  IF BadBasis(f[1], Modes) \/ BadBasis(t[1], Modes) THEN PE
  ELSE IF f[1] # t[1] THEN
     IF (t[1] = "absolute" /\ BadUnit(t[2], PresU)) \/ (f[1] = "absolute" /\ BadUnit(f[2], PresU)) THEN PE
     ELSE Val(ImplPVec(f, t))
  ELSE IF ~Falsy(t[2]) /\ f[1] = "absolute" THEN
     IF BadUnit(t[2], PresU) \/ BadUnit(f[2], PresU) THEN PE ELSE Val(ImplPVec(f, t))
  ELSE Val(Zero)

LConst(bf, bt) ==   \* <<constant, sign>> of the if/elif table in c_loading
  CASE bf = "mass" /\ bt = "volume_gas" -> <<One("rhoGmass"), -1>>
    [] bf = "mass" /\ bt = "volume_liquid" -> <<One("rhoLmass"), -1>>
    [] bf = "mass" /\ bt = "molar" -> <<One("M"), -1>>
    [] bf = "volume_gas" /\ bt = "mass" -> <<One("rhoGmass"), 1>>
    [] bf = "volume_gas" /\ bt = "molar" -> <<One("rhoGmol"), 1>>
    [] bf = "volume_gas" /\ bt = "volume_liquid" -> <<Minus(One("rhoGmol"), One("rhoLmol")), 1>>
    [] bf = "volume_liquid" /\ bt = "mass" -> <<One("rhoLmass"), 1>>
    [] bf = "volume_liquid" /\ bt = "molar" -> <<One("rhoLmol"), 1>>
    [] bf = "volume_liquid" /\ bt = "volume_gas" -> <<Minus(One("rhoGmol"), One("rhoLmol")), -1>>
    [] bf = "molar" /\ bt = "mass" -> <<One("M"), 1>>
    [] bf = "molar" /\ bt = "volume_gas" -> <<One("rhoGmol"), -1>>
    [] bf = "molar" /\ bt = "volume_liquid" -> <<One("rhoLmol"), -1>>
    [] OTHER -> <<Zero, 1>>

\* valid arguments assumed (m = material representation handed over as basis_material/unit_material)
ImplLVec(f, t, m) ==
  IF f[1] # t[1] THEN
     IF Frac(f[1]) /\ Frac(t[1]) THEN Scale(IF f[1] = "percent" THEN -1 ELSE 1, One("hundred"))
     ELSE LET mb == MatAsLoad(m[1])
              bf == IF Frac(f[1]) THEN mb ELSE f[1]
              uf == IF Frac(f[1]) THEN m[2] ELSE f[2]
              bt == IF Frac(t[1]) THEN mb ELSE t[1]
              ut == IF Frac(t[1]) THEN m[2] ELSE t[2]
              fac == IF f[1] = "percent" THEN Neg(One("hundred"))
                     ELSE IF t[1] = "percent" THEN One("hundred") ELSE Zero
              c == LConst(bf, bt)
          IN Plus(Plus(One(UA(LKind(bf), uf)), fac), Minus(Scale(c[2], c[1]), One(UA(LKind(bt), ut))))
  ELSE IF ~Frac(f[1]) /\ ~Falsy(t[2]) /\ f[2] # t[2] THEN Minus(One(UA(LKind(f[1]), f[2])), One(UA(LKind(f[1]), t[2])))
  ELSE Zero

ImplLoading(f, t, m) ==
  IF BadBasis(f[1], LBases) \/ BadBasis(t[1], LBases) THEN PE
  ELSE IF f[1] # t[1] THEN
     IF (~Frac(t[1]) /\ BadUnit(t[2], LUnits(t[1]))) \/ (~Frac(f[1]) /\ BadUnit(f[2], LUnits(f[1]))) THEN PE
     ELSE IF Frac(f[1]) /\ Frac(t[1]) THEN Val(ImplLVec(f, t, m))
     ELSE IF Frac(f[1]) \/ Frac(t[1]) THEN
          \* _check_basis / _check_unit on the material arguments (since the c_loading repair)
          IF BadBasis(m[1], MBases) \/ BadUnit(m[2], MUnits(m[1])) THEN PE
          ELSE Val(ImplLVec(f, t, m))
     ELSE Val(ImplLVec(f, t, m))
  ELSE IF ~Falsy(t[2]) /\ ~Frac(f[1]) THEN
     IF f[2] # t[2] THEN (IF BadUnit(t[2], LUnits(f[1])) \/ BadUnit(f[2], LUnits(f[1])) THEN PE ELSE Val(ImplLVec(f, t, m)))
     ELSE IF BadUnit(t[2], LUnits(f[1])) THEN PE ELSE Val(Zero)
  ELSE Val(Zero)

MConst(bf, bt) ==
  CASE bf = "mass" /\ bt = "volume" -> <<One("rhomat"), -1>>
    [] bf = "mass" /\ bt = "molar" -> <<One("Mmat"), -1>>
    [] bf = "volume" /\ bt = "mass" -> <<One("rhomat"), 1>>
    [] bf = "volume" /\ bt = "molar" -> <<Minus(One("rhomat"), One("Mmat")), 1>>
    [] bf = "molar" /\ bt = "mass" -> <<One("Mmat"), 1>>
    [] bf = "molar" /\ bt = "volume" -> <<Minus(One("rhomat"), One("Mmat")), -1>>
    [] OTHER -> <<Zero, 1>>

ImplMVec(f, t) ==
  IF f[1] # t[1] THEN LET c == MConst(f[1], t[1]) IN
       Plus(Neg(One(UA(MKind(f[1]), f[2]))), Plus(Scale(-c[2], c[1]), One(UA(MKind(t[1]), t[2]))))
  ELSE IF ~Falsy(t[2]) /\ f[2] # t[2] THEN Minus(One(UA(MKind(f[1]), t[2])), One(UA(MKind(f[1]), f[2])))
  ELSE Zero

ImplMaterial(f, t) ==
  IF BadBasis(f[1], MBases) \/ BadBasis(t[1], MBases) THEN PE
  ELSE IF f[1] # t[1] THEN
     IF BadUnit(t[2], MUnits(t[1])) \/ BadUnit(f[2], MUnits(f[1])) THEN PE ELSE Val(ImplMVec(f, t))
  ELSE IF ~Falsy(t[2]) THEN
     IF f[2] # t[2] THEN (IF BadUnit(t[2], MUnits(f[1])) \/ BadUnit(f[2], MUnits(f[1])) THEN PE ELSE Val(ImplMVec(f, t)))
     ELSE IF BadUnit(t[2], MUnits(f[1])) THEN PE ELSE Val(Zero)
  ELSE Val(Zero)

\* An Impl outcome conforms when the prescriptive set contains it (values compared in the quotient)
Conforms(impl, spec) ==
  \/ impl = PE /\ PE \in spec
  \/ impl[1] = "val" /\ \E s \in spec : s[1] = "val" /\ s[2] = Phys(impl[2])

---------------------------------------------------------------------------
\* temperature is affine: modelled as (unit, kelvin offset count)
TempNorm(u) == IF u \in {"degC","C","c","°C","°c"} THEN "degC" ELSE IF u = "K" THEN "K" ELSE B
\* result: <<"val", k>> meaning value + k*273.15, or PE
SpecTemperature(uf, ut) ==
  IF TempNorm(uf) = B \/ TempNorm(ut) = B THEN {PE}
  ELSE {<<"val", (IF TempNorm(uf) = "degC" THEN 1 ELSE 0) - (IF TempNorm(ut) = "degC" THEN 1 ELSE 0)>>}
=============================================================================
