------------------------------ MODULE Identity ------------------------------
(***************************************************************************)
(* C05 - isotherm identity is determined by content, and only by content.  *)
(*                                                                         *)
(* CONTENT (prescriptive): what an isotherm observably holds -             *)
(*   class, metadata map, the 7 unit labels, material (name + properties), *)
(*   adsorbate, temperature, and for point isotherms the SEQUENCE of rows  *)
(*   (pressure, loading, branch mark, extra columns) with numbers taken to *)
(*   8 decimals, in stored order; for model isotherms the model name,      *)
(*   branch, parameters, ranges and rmse.                                  *)
(*   IdEq(x, y) <=> Canon(Content(x)) = Canon(Content(y)); nothing else -  *)
(*   not the construction route, not reads - may influence the identifier. *)
(*                                                                         *)
(* Numbers are fixed-point pairs <<q, r>> = q * 1e-8 + r * 1e-10 with      *)
(* |r| <= 49, so that "to 8 decimals" is a computation TLC performs:       *)
(* Round8(<<q, r>>) = q.  Metadata values are opaque tokens                *)
(* ("str:alice", "int:3", "list:a,b", ...) the harness renders.            *)
(*                                                                         *)
(* ROUTES: the ways the harness is asked to build the SAME content.        *)
(* MUTATIONS: minimal edits of a content, each classified by the spec      *)
(* itself (through Canon) as changing the content or not.                  *)
(***************************************************************************)
EXTENDS Integers, Sequences, FiniteSets, TLC, TLCExt

---------------------------------------------------------------------------
\* fixed-point numbers
Fx(units) == <<units * 1000000, 0>>                 \* units of 0.01: Fx(150) = 1.5
Norm(q, r) == IF r >= 50 THEN <<q + 1, r - 100>> ELSE IF r <= -50 THEN <<q - 1, r + 100>> ELSE <<q, r>>
AddFx(v, dq, dr) == Norm(v[1] + dq, v[2] + dr)
Round8(v) == v[1]
Integral(v) == v[2] = 0 /\ v[1] % 100000000 = 0

---------------------------------------------------------------------------
\* contents
Labels0 == [pressure_mode |-> "absolute", pressure_unit |-> "bar", loading_basis |-> "molar", loading_unit |-> "mmol",
            material_basis |-> "mass", material_unit |-> "g", temperature_unit |-> "K"]
Labels1 == [pressure_mode |-> "relative", pressure_unit |-> "none", loading_basis |-> "volume_gas", loading_unit |-> "cm3",
            material_basis |-> "volume", material_unit |-> "cm3", temperature_unit |-> "K"]
NoMeta == [k \in {} |-> ""]
Meta1 == [user |-> "str:alice", run |-> "int:3", ratio |-> "float:0.25", flag |-> "bool:T", tags |-> "list:a,b", cfg |-> "dict:x=1,y=2"]
Mat0 == [name |-> "mat1", props |-> NoMeta]
Mat1 == [name |-> "mat2", props |-> [density |-> "float:1.5"]]
NoModel == [name |-> "none", branch |-> "none", params |-> [k \in {} |-> <<0, 0>>], prange |-> <<>>, lrange |-> <<>>, rmse |-> <<0, 0>>]

Row(p, l, b) == [p |-> Fx(p), l |-> Fx(l), b |-> b, enth |-> Fx(0), note |-> ""]
RowX(p, l, b, e, n) == [p |-> Fx(p), l |-> Fx(l), b |-> b, enth |-> Fx(e), note |-> n]

Mk(cls, meta, labels, mat, ads, temp, extras, rows, model) ==
   [cls |-> cls, meta |-> meta, labels |-> labels, material |-> mat, adsorbate |-> ads, temp |-> temp,
    extras |-> extras, rows |-> rows, model |-> model]

\* temperature in micro-kelvin (never rounded by the identifier)
Bases == [
  meta0 |-> Mk("base", NoMeta, Labels0, Mat0, "nitrogen", 77355000, FALSE, <<>>, NoModel),
  meta1 |-> Mk("base", Meta1, Labels1, Mat1, "argon", 87300000, FALSE, <<>>, NoModel),
  p1    |-> Mk("point", NoMeta, Labels0, Mat0, "nitrogen", 77355000, FALSE, <<Row(150, 250, 0)>>, NoModel),
  p3    |-> Mk("point", Meta1, Labels0, Mat0, "nitrogen", 77000000, FALSE, <<Row(100, 100, 0), Row(200, 200, 0), Row(300, 400, 0)>>, NoModel),
  p4d   |-> Mk("point", NoMeta, Labels0, Mat1, "nitrogen", 77000000, FALSE,
               <<Row(100, 100, 0), Row(200, 200, 0), Row(300, 400, 0), Row(200, 300, 1)>>, NoModel),
  p8x   |-> Mk("point", Meta1, Labels1, Mat0, "argon", 87300000, TRUE,
               <<RowX(5, 110, 0, 1250, "a"), RowX(10, 215, 0, 1175, "b"), RowX(25, 330, 0, 1100, "c"), RowX(50, 445, 0, 1025, "d"),
                 RowX(90, 560, 0, 950, "e"), RowX(60, 520, 1, 975, "f"), RowX(30, 430, 1, 1050, "g"), RowX(12, 300, 1, 1150, "h")>>, NoModel),
  \* zeros in pressure, loading and a supplementary column (a point at vacuum, a baseline-corrected value)
  p4z   |-> Mk("point", NoMeta, Labels0, Mat0, "nitrogen", 77355000, TRUE,
               <<RowX(0, 0, 0, 0, "a"), RowX(50, 110, 0, 500, "b"), RowX(100, 200, 0, 450, "c"), RowX(60, 150, 1, 0, "d")>>, NoModel),
  mHenry |-> Mk("model", NoMeta, Labels0, Mat0, "nitrogen", 77355000, FALSE, <<>>,
               [name |-> "Henry", branch |-> "ads", params |-> [K |-> Fx(250)], prange |-> <<Fx(100), Fx(400)>>, lrange |-> <<Fx(200), Fx(1000)>>, rmse |-> Fx(3)]),
  mLangmuir |-> Mk("model", Meta1, Labels0, Mat0, "nitrogen", 77355000, FALSE, <<>>,
               [name |-> "Langmuir", branch |-> "ads", params |-> [K |-> Fx(55), n_m |-> Fx(275)], prange |-> <<Fx(10), Fx(450)>>, lrange |-> <<Fx(15), Fx(190)>>, rmse |-> Fx(2)]),
  mToth |-> Mk("model", NoMeta, Labels1, Mat1, "argon", 87300000, FALSE, <<>>,
               [name |-> "Toth", branch |-> "des", params |-> [n_m |-> Fx(300), K |-> Fx(120), t |-> Fx(80)], prange |-> <<Fx(1), Fx(95)>>, lrange |-> <<Fx(20), Fx(280)>>, rmse |-> Fx(1)]),
  mDSL |-> Mk("model", NoMeta, Labels0, Mat0, "nitrogen", 77355000, FALSE, <<>>,
               [name |-> "DSLangmuir", branch |-> "ads", params |-> [n_m1 |-> Fx(100), K1 |-> Fx(200), n_m2 |-> Fx(300), K2 |-> Fx(5)], prange |-> <<Fx(100), Fx(900)>>, lrange |-> <<Fx(100), Fx(400)>>, rmse |-> Fx(4)])
]
BaseNames == DOMAIN Bases

\* Canon: the part of a content the identifier may depend on (data to 8 decimals; extra
\* columns only where the isotherm has them)
CanonRow(c, r) == [p |-> Round8(r.p), l |-> Round8(r.l), b |-> r.b,
                   enth |-> IF c.extras THEN Round8(r.enth) ELSE 0, note |-> IF c.extras THEN r.note ELSE ""]
Canon(c) == [c EXCEPT !.rows = [i \in DOMAIN c.rows |-> CanonRow(c, c.rows[i])]]
ContentEq(a, b) == Canon(a) = Canon(b)
\* the content with its points as an unordered collection (rows of one isotherm are distinct here)
CanonUnordered(c) == LET k == Canon(c) IN [cls |-> k.cls, meta |-> k.meta, labels |-> k.labels, material |-> k.material, adsorbate |-> k.adsorbate,
                                           temp |-> k.temp, model |-> k.model, n |-> Len(k.rows), points |-> {k.rows[i] : i \in DOMAIN k.rows}]
\* which part differs (for reports)
Diff(a, b) ==
   LET x == Canon(a)  y == Canon(b) IN
   IF x.cls # y.cls THEN "class" ELSE IF x.meta # y.meta THEN "metadata" ELSE IF x.labels # y.labels THEN "unit labels"
   ELSE IF x.material # y.material THEN "material" ELSE IF x.adsorbate # y.adsorbate THEN "adsorbate"
   ELSE IF x.temp # y.temp THEN "temperature" ELSE IF Len(x.rows) # Len(y.rows) THEN "number of points"
   ELSE IF x.rows # y.rows THEN
        (IF [i \in DOMAIN x.rows |-> x.rows[i].b] # [i \in DOMAIN y.rows |-> y.rows[i].b] THEN "branch marks"
         ELSE IF [i \in DOMAIN x.rows |-> <<x.rows[i].p, x.rows[i].l>>] # [i \in DOMAIN y.rows |-> <<y.rows[i].p, y.rows[i].l>>] THEN "pressure/loading data"
         ELSE "extra columns")
   ELSE IF x.model # y.model THEN "model" ELSE "none"

---------------------------------------------------------------------------
\* MUTATIONS: [kind, ...]; Apply(c, m) is the edited content
OtherTok(t) == CASE t = "str:alice" -> "str:bob" [] t = "int:3" -> "int:4" [] t = "float:0.25" -> "float:0.5"
                 [] t = "bool:T" -> "bool:F" [] t = "list:a,b" -> "list:b,a" [] t = "dict:x=1,y=2" -> "dict:x=1,y=3"
                 [] t = "float:1.5" -> "float:1.25" [] OTHER -> "str:other"
\* a boolean / an integer replaced by the TEXT that prints the same: different content
AsText == [x \in {"bool:T", "int:3"} |-> IF x = "bool:T" THEN "str:True" ELSE "str:3"]
LabelEdits(l) ==        \* every label, changed to another value that keeps the isotherm valid
   (IF l.pressure_mode = "absolute"
    THEN {[l EXCEPT !.pressure_unit = "kPa"], [l EXCEPT !.pressure_mode = "relative", !.pressure_unit = "none"]}
    ELSE {[l EXCEPT !.pressure_mode = "relative%"], [l EXCEPT !.pressure_mode = "absolute", !.pressure_unit = "bar"]})
   \cup (IF l.loading_basis = "molar"
         THEN {[l EXCEPT !.loading_unit = "mol"], [l EXCEPT !.loading_basis = "mass", !.loading_unit = "mg"]}
         ELSE {[l EXCEPT !.loading_unit = "mL"], [l EXCEPT !.loading_basis = "volume_liquid"]})
   \cup (IF l.material_basis = "mass"
         THEN {[l EXCEPT !.material_unit = "kg"], [l EXCEPT !.material_basis = "molar", !.material_unit = "mol"]}
         ELSE {[l EXCEPT !.material_unit = "L"], [l EXCEPT !.material_basis = "mass", !.material_unit = "g"]})
   \cup {[l EXCEPT !.temperature_unit = "degC"]}

\* numeric deltas <<dq, dr>>: +-1e-7, +6e-9 change the 8-decimal value; +4e-9, +-1e-10 do not
Deltas == {<<10, 0>>, <<-10, 0>>, <<0, 60>>, <<0, 40>>, <<0, 1>>, <<0, -1>>}
\* around ZERO (and, in that base content, around every edited cell): values that round to zero from
\* below (-2e-9, -4.9e-9) and from above (+2e-9), +-3e-9 (same 8-decimal value), +-2e-8 (another one)
ZeroDeltas == {<<0, -20>>, <<0, -49>>, <<0, 20>>, <<0, 30>>, <<0, -30>>, <<2, 0>>, <<-2, 0>>}
IsZero(v) == v = <<0, 0>>
HasZeros(c) == \E i \in DOMAIN c.rows : IsZero(c.rows[i].p) \/ IsZero(c.rows[i].l) \/ (c.extras /\ IsZero(c.rows[i].enth))
Cols(c) == IF c.extras THEN {"p", "l", "enth"} ELSE {"p", "l"}
SetCol(r, col, v) == CASE col = "p" -> [r EXCEPT !.p = v] [] col = "l" -> [r EXCEPT !.l = v] [] col = "enth" -> [r EXCEPT !.enth = v]
GetCol(r, col) == CASE col = "p" -> r.p [] col = "l" -> r.l [] col = "enth" -> r.enth
SwapRows(rows, i, j) == [k \in DOMAIN rows |-> IF k = i THEN rows[j] ELSE IF k = j THEN rows[i] ELSE rows[k]]
DropRow(rows, i) == [k \in 1..(Len(rows) - 1) |-> IF k < i THEN rows[k] ELSE rows[k + 1]]

ZeroCells(c, col) == {k \in {1, Len(c.rows)} : IsZero(GetCol(c.rows[k], col))}
None == [kind |-> "none", a |-> "", i |-> 0, d |-> <<0, 0>>]
MutsOf(c) ==
   {None}
   \cup {[kind |-> "meta value", a |-> k, i |-> 0, d |-> <<0, 0>>] : k \in DOMAIN c.meta}
   \cup {[kind |-> "meta key removed", a |-> k, i |-> 0, d |-> <<0, 0>>] : k \in DOMAIN c.meta}
   \cup {[kind |-> "meta value as text", a |-> k, i |-> 0, d |-> <<0, 0>>] : k \in {x \in DOMAIN c.meta : c.meta[x] \in DOMAIN AsText}}
   \cup {[kind |-> "meta key added", a |-> "extra_key", i |-> 0, d |-> <<0, 0>>]}
   \cup {[kind |-> "label", a |-> "", i |-> n, d |-> <<0, 0>>] : n \in 1..Cardinality(LabelEdits(c.labels))}
   \cup {[kind |-> "material name", a |-> "", i |-> 0, d |-> <<0, 0>>], [kind |-> "material property", a |-> "", i |-> 0, d |-> <<0, 0>>],
         [kind |-> "adsorbate", a |-> "", i |-> 0, d |-> <<0, 0>>], [kind |-> "temperature", a |-> "", i |-> 0, d |-> <<0, 0>>]}
   \cup (IF c.cls = "point" THEN
           {[kind |-> "datum", a |-> col, i |-> i, d |-> d] : col \in Cols(c), i \in {1, Len(c.rows)}, d \in Deltas}
           \cup UNION {{[kind |-> "datum", a |-> col, i |-> i, d |-> d] : i \in ZeroCells(c, col), d \in ZeroDeltas} : col \in Cols(c)}
           \* the same zero written as the float -0.0 (content unchanged)
           \cup UNION {{[kind |-> "zero written as -0.0", a |-> col, i |-> i, d |-> <<0, 0>>] : i \in ZeroCells(c, col)} : col \in Cols(c)}
           \cup {[kind |-> "branch mark", a |-> "", i |-> i, d |-> <<0, 0>>] : i \in {1, Len(c.rows)}}
           \cup {[kind |-> "row removed", a |-> "", i |-> i, d |-> <<0, 0>>] : i \in {Len(c.rows)} \ {1}}
           \cup {[kind |-> "rows swapped", a |-> "", i |-> i, d |-> <<0, 0>>] : i \in {1} \ {Len(c.rows)}}
           \cup (IF c.extras THEN {[kind |-> "text cell", a |-> "note", i |-> 2, d |-> <<0, 0>>]}
                 ELSE {[kind |-> "column added", a |-> "enth", i |-> 0, d |-> <<0, 0>>]})
         ELSE {})
   \cup (IF c.cls = "model" THEN
           {[kind |-> "model parameter", a |-> k, i |-> 0, d |-> d] : k \in DOMAIN c.model.params, d \in {<<10, 0>>, <<0, 1>>}}
           \cup {[kind |-> "model range", a |-> a, i |-> i, d |-> <<100000000, 0>>] : a \in {"prange", "lrange"}, i \in {1, 2}}
           \cup {[kind |-> "model rmse", a |-> "", i |-> 0, d |-> <<10, 0>>], [kind |-> "model branch", a |-> "", i |-> 0, d |-> <<0, 0>>]}
         ELSE {})

SetToSeqL(S) == LET RECURSIVE f(_) f(T) == IF T = {} THEN <<>> ELSE LET x == CHOOSE y \in T : TRUE IN <<x>> \o f(T \ {x}) IN f(S)
Apply(c, m) ==
   CASE m.kind = "none" -> c
     [] m.kind = "meta value" -> [c EXCEPT !.meta = [c.meta EXCEPT ![m.a] = OtherTok(c.meta[m.a])]]
     [] m.kind = "meta value as text" -> [c EXCEPT !.meta = [c.meta EXCEPT ![m.a] = AsText[c.meta[m.a]]]]
     [] m.kind = "meta key removed" -> [c EXCEPT !.meta = [k \in DOMAIN c.meta \ {m.a} |-> c.meta[k]]]
     [] m.kind = "meta key added" -> [c EXCEPT !.meta = [k \in DOMAIN c.meta \cup {m.a} |-> IF k = m.a THEN "str:new" ELSE c.meta[k]]]
     [] m.kind = "label" -> [c EXCEPT !.labels = SetToSeqL(LabelEdits(c.labels))[m.i]]
     [] m.kind = "material name" -> [c EXCEPT !.material.name = "mat3"]
     [] m.kind = "material property" ->
          [c EXCEPT !.material.props = IF DOMAIN c.material.props = {} THEN [density |-> "float:1.5"]
                                       ELSE [k \in DOMAIN c.material.props |-> OtherTok(c.material.props[k])]]
     [] m.kind = "adsorbate" -> [c EXCEPT !.adsorbate = IF c.adsorbate = "nitrogen" THEN "argon" ELSE "nitrogen"]
     [] m.kind = "temperature" -> [c EXCEPT !.temp = c.temp + 1000000]
     [] m.kind = "datum" -> [c EXCEPT !.rows[m.i] = SetCol(c.rows[m.i], m.a, AddFx(GetCol(c.rows[m.i], m.a), m.d[1], m.d[2]))]
     [] m.kind = "zero written as -0.0" -> c
     [] m.kind = "branch mark" -> [c EXCEPT !.rows[m.i].b = 1 - c.rows[m.i].b]
     [] m.kind = "row removed" -> [c EXCEPT !.rows = DropRow(c.rows, m.i)]
     [] m.kind = "rows swapped" -> [c EXCEPT !.rows = SwapRows(c.rows, 1, Len(c.rows))]
     [] m.kind = "text cell" -> [c EXCEPT !.rows[m.i].note = "changed"]
     [] m.kind = "column added" -> [c EXCEPT !.extras = TRUE,
                                             !.rows = [k \in DOMAIN c.rows |-> [c.rows[k] EXCEPT !.enth = Fx(100 * k), !.note = "n"]]]
     [] m.kind = "model parameter" -> [c EXCEPT !.model.params[m.a] = <<c.model.params[m.a][1] + m.d[1], c.model.params[m.a][2] + m.d[2]>>]
     [] m.kind = "model range" -> IF m.a = "prange" THEN [c EXCEPT !.model.prange[m.i] = <<c.model.prange[m.i][1] + m.d[1], 0>>]
                                  ELSE [c EXCEPT !.model.lrange[m.i] = <<c.model.lrange[m.i][1] + m.d[1], 0>>]
     [] m.kind = "model rmse" -> [c EXCEPT !.model.rmse = <<c.model.rmse[1] + m.d[1], 0>>]
     [] m.kind = "model branch" -> [c EXCEPT !.model.branch = IF c.model.branch = "ads" THEN "des" ELSE "ads"]

\* a mutation the property says MUST change the identifier ("any metadata value, unit label, data
\* value above the rounding threshold, branch mark or model parameter"), decided through Canon
Effective(c, m) == ~ContentEq(c, Apply(c, m))

---------------------------------------------------------------------------
\* ROUTES: [cont, lit, br, via, perm, alias]
\*  cont : how the data are handed over   lit : integer or float literals
\*  br   : branch marks as ints / bools / a DataFrame column
\*  via  : direct | from_isotherm | json (export + parse) | dict (cls(**to_dict))
\*  perm : keyword / dict insertion order reversed   alias : spelling of the adsorbate
\*  dflt : unit labels that equal the documented defaults (Labels0) are OMITTED from the call, and an
\*         isotherm with entirely different unit labels was built just before (defaults are content;
\*         they may not depend on what the session built earlier)
\*  sub  : the object is an instance of a trivial user subclass (class X(PointIsotherm): pass)
\*  npm  : metadata and material properties are handed over as NUMPY scalars of every kind (numpy.str_, int64/int32,
\*         float32/float64, bool_, arrays / tuples of them, dict values), as they come out of arrays and tables
\*  br = "guess": no branch marks are given at all (the documented default branch='guess')
Route(cont, lit, br, via, perm, alias) == [cont |-> cont, lit |-> lit, br |-> br, via |-> via, perm |-> perm, alias |-> alias,
                                           dflt |-> FALSE, sub |-> FALSE, npm |-> FALSE]
R0(c) == CASE c.cls = "point" -> Route(IF c.extras THEN "df_default" ELSE "list", "float", "ints", "direct", FALSE, "name")
           [] c.cls = "base" -> Route("kw", "float", "na", "direct", FALSE, "name")
           [] c.cls = "model" -> Route("instance", "float", "na", "direct", FALSE, "name")
IntegralData(c) == \A i \in DOMAIN c.rows : Integral(c.rows[i].p) /\ Integral(c.rows[i].l)
IntegralModel(c) == c.cls = "model" /\ \A i \in {1, 2} : Integral(c.model.prange[i]) /\ Integral(c.model.lrange[i])
DfCont == {"df_default", "df_shift", "df_str", "df_reversed_labels"}
\* The JSON format writes a branch mark only for desorption points; a file without any mark is
\* parsed with branch='guess' (points after the first pressure maximum are desorption).  A parse of
\* an export therefore carries the SAME content only if a desorption mark is present or the marks
\* are the guessed ones; whether the codec preserves content otherwise is C06, not identity.
ArgMaxFirst(rows) == CHOOSE i \in DOMAIN rows : /\ \A j \in DOMAIN rows : Round8(rows[j].p) <= Round8(rows[i].p)
                                                /\ \A j \in 1..(i - 1) : Round8(rows[j].p) < Round8(rows[i].p)
GuessedMarks(rows) == [i \in DOMAIN rows |-> IF i > ArgMaxFirst(rows) THEN 1 ELSE 0]
\* branch='guess' builds THIS content only if its marks are the guessed ones; a leading maximum is
\* left out (the library documents it as "purely desorption", either reading is defensible)
GuessBuilds(c) == /\ [i \in DOMAIN c.rows |-> c.rows[i].b] = GuessedMarks(c.rows)
                  /\ (Len(c.rows) = 1 \/ ArgMaxFirst(c.rows) > 1)
JsonCarriesMarks(c) == \/ c.rows = <<>>
                       \/ \E i \in DOMAIN c.rows : c.rows[i].b = 1
                       \/ [i \in DOMAIN c.rows |-> c.rows[i].b] = GuessedMarks(c.rows)
Applicable(c, r) ==
   CASE c.cls = "point" ->
          /\ r.cont \in {"list", "tuple", "ndarray"} \cup DfCont
          /\ (c.extras => r.cont \in DfCont)
          /\ (r.lit = "int" => IntegralData(c))
          /\ r.br \in {"ints", "bools", "column", "column_bool", "guess"}
          /\ (r.br = "guess" => GuessBuilds(c))
          /\ (r.br \in {"column", "column_bool"} => r.cont \in DfCont)
          /\ (r.via = "from_isotherm" => r.br \in {"column", "column_bool", "guess"})     \* from_isotherm has no branch argument
          /\ r.via \in {"direct", "from_isotherm", "json", "copy"}
          /\ (r.via = "json" => JsonCarriesMarks(c))
     [] c.cls = "base" -> r.cont = "kw" /\ r.lit = "float" /\ r.br = "na" /\ r.via \in {"direct", "json", "dict", "copy"}
     [] c.cls = "model" ->
          /\ r.cont \in {"instance", "from_dict"} /\ r.br = "na"
          /\ r.lit \in {"float", "npfloat", "int", "npint", "lists"}
          /\ (r.lit \in {"int", "npint"} => IntegralModel(c))
          /\ r.via \in {"direct", "json", "copy"}
\* one factor at a time around R0, plus a few combinations
HasMeta(c) == DOMAIN c.meta # {} \/ DOMAIN c.material.props # {}
RoutesOf(c) ==
   LET r0 == R0(c)
       one == {[r0 EXCEPT !.cont = x] : x \in {"list", "tuple", "ndarray", "kw", "instance", "from_dict"} \cup DfCont}
              \cup {[r0 EXCEPT !.lit = x] : x \in {"int", "npfloat", "npint", "lists"}}
              \cup {[r0 EXCEPT !.br = x] : x \in {"bools", "guess"}}
              \cup {[r0 EXCEPT !.dflt = TRUE], [r0 EXCEPT !.sub = TRUE], [r0 EXCEPT !.npm = TRUE]}
              \cup {[r0 EXCEPT !.via = x] : x \in {"json", "dict", "copy"}}
              \cup {[r0 EXCEPT !.perm = TRUE]}
              \cup {[r0 EXCEPT !.alias = x] : x \in {"alias", "upper"}}
       combos == {Route("df_default", "float", "column", "direct", FALSE, "name"),
                  Route("df_default", "float", "column_bool", "direct", FALSE, "name"),
                  Route("df_default", "float", "column", "from_isotherm", FALSE, "name"),
                  Route("df_shift", "float", "column", "from_isotherm", TRUE, "alias"),
                  Route("df_shift", "int", "ints", "direct", FALSE, "name"),
                  Route("df_str", "float", "bools", "json", FALSE, "name"),
                  Route("df_reversed_labels", "int", "column", "direct", FALSE, "upper"),
                  Route("tuple", "int", "bools", "direct", TRUE, "upper"),
                  Route("ndarray", "int", "ints", "json", FALSE, "name"),
                  Route("ndarray", "float", "bools", "copy", TRUE, "alias"),
                  Route("list", "int", "ints", "json", TRUE, "alias"),
                  Route("kw", "float", "na", "json", TRUE, "upper"),
                  Route("kw", "float", "na", "dict", TRUE, "alias"),
                  Route("from_dict", "npfloat", "na", "json", TRUE, "alias"),
                  Route("from_dict", "npint", "na", "direct", FALSE, "name"),
                  Route("instance", "int", "na", "json", FALSE, "upper"),
                  Route("instance", "lists", "na", "copy", TRUE, "name"),
                  \* guessed branch marks under every row labelling and container
                  Route("df_default", "float", "guess", "direct", FALSE, "name"),
                  Route("df_shift", "float", "guess", "direct", FALSE, "name"),
                  Route("df_str", "float", "guess", "direct", FALSE, "name"),
                  Route("df_reversed_labels", "float", "guess", "direct", FALSE, "name"),
                  Route("df_shift", "float", "guess", "from_isotherm", FALSE, "alias"),
                  Route("df_shift", "int", "guess", "direct", TRUE, "name"),
                  Route("tuple", "float", "guess", "direct", FALSE, "upper"),
                  Route("ndarray", "float", "guess", "json", FALSE, "name"),
                  [Route("df_str", "float", "guess", "direct", TRUE, "alias") EXCEPT !.sub = TRUE],
                  \* omitted default labels / user subclasses combined with other factors
                  [Route("list", "float", "ints", "direct", TRUE, "alias") EXCEPT !.dflt = TRUE],
                  [Route("df_default", "float", "column", "from_isotherm", FALSE, "name") EXCEPT !.dflt = TRUE, !.sub = TRUE],
                  [Route("df_shift", "float", "bools", "json", FALSE, "name") EXCEPT !.dflt = TRUE],
                  [Route("list", "float", "bools", "copy", FALSE, "name") EXCEPT !.sub = TRUE],
                  [Route("kw", "float", "na", "json", FALSE, "name") EXCEPT !.dflt = TRUE],
                  [Route("kw", "float", "na", "dict", TRUE, "upper") EXCEPT !.dflt = TRUE, !.sub = TRUE],
                  [Route("from_dict", "float", "na", "direct", TRUE, "alias") EXCEPT !.dflt = TRUE, !.sub = TRUE],
                  [Route("instance", "npfloat", "na", "json", FALSE, "name") EXCEPT !.dflt = TRUE],
                  [Route("instance", "int", "na", "copy", FALSE, "name") EXCEPT !.sub = TRUE],
                  \* numpy-scalar metadata combined with other factors
                  [Route("df_shift", "float", "bools", "direct", TRUE, "alias") EXCEPT !.npm = TRUE],
                  [Route("list", "float", "ints", "json", FALSE, "name") EXCEPT !.npm = TRUE],
                  [Route("df_default", "float", "column", "from_isotherm", FALSE, "name") EXCEPT !.npm = TRUE, !.sub = TRUE],
                  [Route("kw", "float", "na", "dict", TRUE, "name") EXCEPT !.npm = TRUE],
                  [Route("kw", "float", "na", "direct", FALSE, "upper") EXCEPT !.npm = TRUE, !.dflt = TRUE],
                  [Route("from_dict", "npfloat", "na", "direct", TRUE, "name") EXCEPT !.npm = TRUE],
                  [Route("instance", "float", "na", "copy", FALSE, "alias") EXCEPT !.npm = TRUE]}
   IN {r \in one \cup combos : Applicable(c, r) /\ (r.npm => HasMeta(c))}

---------------------------------------------------------------------------
\* the scenario table: every base x its mutations x the routes of the mutated content
ScenariosOf(b) == UNION {{[base |-> b, mut |-> m, route |-> r] : r \in RoutesOf(Apply(Bases[b], m))} : m \in MutsOf(Bases[b])}
Scenarios == UNION {ScenariosOf(b) : b \in BaseNames}
ContentOf(s) == Apply(Bases[s.base], s.mut)
ValidScenario(s) == s.mut \in MutsOf(Bases[s.base]) /\ s.route \in RoutesOf(ContentOf(s))

---------------------------------------------------------------------------
\* DESCRIPTIVE: what the identifier of src/pygaps/utilities/hashgen.py depends on beyond the
\* content (hash_pandas_object over data_raw.round(8): row labels and column dtypes take part;
\* json.dumps of the model dict: Python/numpy number types take part).
\* ImplHidden(c, r) is that extra, route-dependent information; the implementation's identifier
\* is (an injective image of) <<Canon(c), ImplHidden(c, r)>>.
ImplHidden(c, r) ==
   CASE c.cls = "point" ->
          [num |-> IF r.lit = "int" THEN "int64" ELSE "float64",           \* JSON keeps int literals as ints
           index |-> IF r.via = "json" THEN "range" ELSE
                     CASE r.cont = "df_shift" -> "shifted" [] r.cont = "df_str" -> "strings" [] r.cont = "df_reversed_labels" -> "reversed" [] OTHER -> "range",
           branch |-> IF r.via = "json" /\ \E i \in DOMAIN c.rows : c.rows[i].b = 1 THEN "object" ELSE "numeric"]
     [] c.cls = "model" -> [num |-> IF r.via = "json" /\ r.lit \in {"npint"} THEN "unreachable" ELSE
                                    CASE r.lit \in {"int"} -> "int" [] r.lit = "npint" -> "TypeError" [] OTHER -> "float",
                            index |-> "na", branch |-> "na"]
     [] OTHER -> [num |-> "na", index |-> "na", branch |-> "na"]
ImplHasId(c, r) == ImplHidden(c, r).num # "TypeError"
\* a hashgen that hashes the data BY VALUE (floats to 8 decimals, branch marks as numbers, no row
\* labels, model numbers as floats) leaves nothing route-dependent behind; the harness tells the
\* oracle which transcription the tree under test corresponds to (never used for a verdict)
ImplHiddenOf(variant, c, r) == IF variant = "value-hash" THEN [num |-> "na", index |-> "na", branch |-> "na"] ELSE ImplHidden(c, r)
ImplHasIdOf(variant, c, r) == variant = "value-hash" \/ ImplHasId(c, r)
ImplIdEq(c1, r1, c2, r2) == ContentEq(c1, c2) /\ ImplHidden(c1, r1) = ImplHidden(c2, r2)
=============================================================================
