----------------------------- MODULE FitSelect -----------------------------
(***************************************************************************)
(* C12, discrete part: what ModelIsotherm.guess() / model_iso(model=[..])  *)
(* may return when several candidate models are tried, and which points a  *)
(* fit may be handed when a branch is requested.                           *)
(*                                                                         *)
(* An outcome of one candidate is an integer:                              *)
(*      0  the fit failed (CalculationError inside the attempt)            *)
(*     -1  the fit converged and reports rmse = NaN                        *)
(*    k>0  the fit converged; k is the RANK of its reported rmse among the *)
(*         distinct finite rmse values of the scenario (1 = smallest)      *)
(* A pattern is the sequence of outcomes in candidate-list order.          *)
(* A result is 0 (CalculationError: nothing could be fitted) or the        *)
(* 1-based position of the returned candidate.                             *)
(*                                                                         *)
(*   Spec*  - prescriptive (property text): "the one returned has the      *)
(*            smallest reported error among those that converged".         *)
(*   Impl*  - descriptive: attempts list, errors.index(min(errors)) with   *)
(*            Python's min/index semantics (IEEE comparisons with NaN are  *)
(*            false), modelisotherm.py:414-464.                            *)
(*                                                                         *)
(* Branch layouts: a layout is the sequence of branch flags (0 adsorption, *)
(* 1 desorption) of the stored points, in stored order.                    *)
(***************************************************************************)
EXTENDS Integers, Sequences, FiniteSets, TLC

FAIL == 0
NAN == -1
IsNum(o) == o > 0
Lt(a, b) == IsNum(a) /\ IsNum(b) /\ a < b          \* float '<': false as soon as a NaN is involved
Eq(a, b) == IsNum(a) /\ IsNum(b) /\ a = b          \* float '==': NaN equals nothing

Range(s) == {s[i] : i \in 1..Len(s)}
Converged(pat) == {i \in 1..Len(pat) : pat[i] # FAIL}
HasNaN(pat) == NAN \in Range(pat)

---------------------------------------------------------------------------
\* prescriptive
CalcError == 0
\* strict reading: a NaN error is not "the smallest" while some candidate reports a number
SpecStrict(pat) ==
   LET conv == Converged(pat)
       num == {i \in conv : IsNum(pat[i])}
   IN IF conv = {} THEN {CalcError}
      ELSE IF num = {} THEN conv
      ELSE {i \in num : \A j \in num : pat[i] <= pat[j]}
\* weak reading: no converged candidate reports a strictly smaller error (NaN is incomparable)
SpecWeak(pat) ==
   LET conv == Converged(pat)
   IN IF conv = {} THEN {CalcError}
      ELSE {i \in conv : \A j \in conv : ~Lt(pat[j], pat[i])}
\* the verdict: the strict reading wherever the reported errors are numbers (the property's
\* domain: increasing data have a positive range, so rmse is a number); with a NaN among the
\* reported errors the text does not say how it ranks, both readings are accepted.
Allowed(pat) == IF HasNaN(pat) THEN SpecWeak(pat) ELSE SpecStrict(pat)

---------------------------------------------------------------------------
\* descriptive: Python's   errors = [x.model.rmse for x in attempts]
\*                         best_fit = attempts[errors.index(min(errors))]
RECURSIVE Attempts(_, _)
Attempts(pat, i) == IF i > Len(pat) THEN <<>>
                    ELSE (IF pat[i] # FAIL THEN <<i>> ELSE <<>>) \o Attempts(pat, i + 1)
RECURSIVE PyMinPos(_, _, _)
PyMinPos(e, k, m) == IF k > Len(e) THEN m ELSE PyMinPos(e, k + 1, IF Lt(e[k], e[m]) THEN k ELSE m)
\* list.index(x): first position that IS x or == x
PyIndex(e, m) == CHOOSE k \in 1..Len(e) :
                    /\ (k = m \/ Eq(e[k], e[m]))
                    /\ \A j \in 1..(k - 1) : ~(j = m \/ Eq(e[j], e[m]))
ImplSelect(pat) ==
   LET att == Attempts(pat, 1) IN
   IF att = <<>> THEN CalcError
   ELSE LET errs == [k \in 1..Len(att) |-> pat[att[k]]]
        IN att[PyIndex(errs, PyMinPos(errs, 2, 1))]

---------------------------------------------------------------------------
\* branch selection
Routes == {"column", "point", "arrays"}
\*  column: ModelIsotherm(isotherm_data = frame with a 'branch' column, branch = req)
\*  point : ModelIsotherm.from_pointisotherm / model_iso(point isotherm, branch = req)
\*  arrays: ModelIsotherm(pressure = .., loading = .., branch = req): no branch information
\*          exists, every point belongs to the isotherm that is being declared `req`
Flag(req) == IF req = "ads" THEN 0 ELSE 1
RECURSIVE Filter(_, _, _)
Filter(layout, f, i) == IF i > Len(layout) THEN <<>>
                        ELSE (IF layout[i] = f THEN <<i>> ELSE <<>>) \o Filter(layout, f, i + 1)
All(layout) == [i \in 1..Len(layout) |-> i]
\* prescriptive: the points a fit may see = the requested branch, in stored order
SpecBranch(layout, req, route) ==
   IF route = "arrays" THEN All(layout) ELSE Filter(layout, Flag(req), 1)
\* descriptive: PointIsotherm.data(branch=req) selects rows first (route point), then the
\* constructor selects data.loc[data['branch'] == flag] (routes column and point)
ImplBranch(layout, req, route) ==
   IF route = "arrays" THEN All(layout)
   ELSE IF route = "column" THEN Filter(layout, Flag(req), 1)
   ELSE LET first == Filter(layout, Flag(req), 1)                       \* indices kept by data(branch=)
            sub == [k \in 1..Len(first) |-> layout[first[k]]]           \* their flags
            second == Filter(sub, Flag(req), 1)
        IN [k \in 1..Len(second) |-> first[second[k]]]
\* a model isotherm built from a template isotherm (ModelIsotherm.from_isotherm): the data and fitting
\* arguments are the caller's, everything else is the template's.  The result is labelled with the
\* REQUESTED branch (not the template's own, if the template is a model isotherm of the other branch)
\* and keeps the template's units and metadata.
TemplateLabels(req, branch, unitsTemplate, unitsResult, metaTemplate, metaResult) ==
   IF branch # req THEN "result is labelled with another branch than the requested one"
   ELSE IF unitsResult # unitsTemplate THEN "units or identity differ from the template isotherm"
   ELSE IF metaResult # metaTemplate THEN "metadata differ from the template isotherm"
   ELSE ""
\* an empty requested branch must be refused before any fit is attempted
MustRefuse(layout, req, route) == SpecBranch(layout, req, route) = <<>>
=============================================================================
