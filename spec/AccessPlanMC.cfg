SPECIFICATION Spec
CONSTANT CoverL1 <- QuickL
CONSTANT CoverM1 <- QuickM
CONSTANT CoverL2 <- TinyL
CONSTANT CoverM2 <- TinyM
INVARIANT StaysValid
INVARIANT ClassExact
INVARIANT Invariance
CHECK_DEADLOCK FALSE
