------------------------------ MODULE AccessPlan ------------------------------
(***************************************************************************)
(* C15 - characterisation results do not depend on the representation the  *)
(* isotherm is stored in.                                                  *)
(*                                                                         *)
(* Every characterisation entry point is transcribed as its ACCESS PLAN:   *)
(* the accessor calls it issues, with the literal unit arguments found in  *)
(* the source (Plan).  Composed with IsoAccess!ImplAccess - the conversion *)
(* pipeline each accessor really runs - this gives, for any stored         *)
(* representation, the monomial (relative to the SI quantity) of the       *)
(* numbers that reach the numeric core (Delivered), and for look-ups the   *)
(* monomial by which the abscissa is distorted (dist).                     *)
(*                                                                         *)
(* Prescriptive side (the property):                                       *)
(*   CoreWant   - what the numeric core is documented to consume           *)
(*   Conforms   - every read delivers exactly that, every look-up is       *)
(*                undistorted, multi-isotherm inputs are commensurable     *)
(*   ResultDims - how each result key must react to a change of            *)
(*                representation (own-unit exponents) and to a scaling of  *)
(*                all loadings (extensive / inverse / intensive)           *)
(* Descriptive side: Plan, PlanClass (first violated clause for a state).  *)
(* ClassTable is the closed-form grouping of the diverging representations *)
(* into classes; AccessPlanMC checks it is exact on the whole space.       *)
(*                                                                         *)
(* Results are per amount of material in the isotherm's OWN material basis *)
(* and unit (m2/g becomes m2/kg): that is the "reported in the isotherm's  *)
(* own units" clause, exponent mS below.                                   *)
(***************************************************************************)
EXTENDS IsoAccess

Analyses == {"area_BET", "area_langmuir", "t_plot", "alpha_s", "dr_plot", "da_plot",
             "psd_mesoporous", "psd_microporous", "psd_dft",
             "initial_henry_slope", "initial_henry_virial", "isosteric_enthalpy",
             "enthalpy_sorption_whittaker", "initial_enthalpy_comp", "initial_enthalpy_point"}
TwoIso == {"alpha_s", "isosteric_enthalpy"}

\* Defects of the access plans that have been repaired in the tree under test (fix: commits).  The transcription
\* below follows the source as found; each name switches one plan to its repaired form.  Edit together with the commit:
\*   "alpha_s_reference_loading_basis"   : the reference look-ups name loading_basis='molar'
\*   "isosteric_pressure_representation" : pressure_at(..., pressure_mode='absolute', pressure_unit='bar')
\*   "whittaker_pressure_mode"           : convert_pressure(mode_to='absolute', unit_to='Pa')
Repaired == {"alpha_s_reference_loading_basis", "isosteric_pressure_representation", "whittaker_pressure_mode"}

G0 == [pm |-> N, pu |-> N, lb |-> N, lu |-> N, mb |-> N, mu |-> N]
Rel == <<"relative", N>>
\* atoms whose value depends on the temperature of the isotherm they are evaluated for
TempAtoms == {"psat", "rhoLmass", "rhoLmol", "rhoGmass", "rhoGmol"}
TempDependent(v) == \E a \in TempAtoms : Phys(v)[a] # 0

\* role: "S" sample / first isotherm, "R" reference / further isotherm, "W" Whittaker's working copy of the
\* sample after convert_pressure(unit_to='Pa')
Rd(role, acc, g, slot, means) == [role |-> role, acc |-> acc, g |-> g, slot |-> slot, means |-> means]
\* utilities/pygaps_utilities.py get_iso_loading_and_pressure_ordered(isotherm, branch, {loading...}, {"pressure_mode": "relative"})
Ordered(role, lb, lu, sl, sp) ==
   << Rd(role, "p.loading", [G0 EXCEPT !.lb = lb, !.lu = lu], sl, Zero),
      Rd(role, "p.pressure", [G0 EXCEPT !.pm = "relative"], sp, Zero) >>

WhittakerOp == [k |-> "CP", a |-> IF "whittaker_pressure_mode" \in Repaired THEN "absolute" ELSE N, u |-> "Pa",
                pa |-> N, pu |-> N, la |-> N, lu |-> N, ma |-> N, mu |-> N]
RefLB == IF "alpha_s_reference_loading_basis" \in Repaired THEN "molar" ELSE N
RoleState(role, sS, sR) ==
   CASE role = "S" -> sS [] role = "R" -> sR [] role = "W" -> ImplStep(sS, WhittakerOp).s

Plan(an, sS, sR) ==
   CASE an \in {"area_BET", "area_langmuir", "dr_plot", "da_plot"} -> Ordered("S", "molar", "mol", "loading", "pressure")
     [] an \in {"t_plot", "psd_microporous"} -> Ordered("S", "molar", "mmol", "loading", "pressure")
     [] an = "psd_mesoporous" -> Ordered("S", "volume_liquid", "cm3", "loading", "pressure")
     [] an = "psd_dft" ->        \* kernel_units defaults: mmol/g, relative pressure, pressure_unit None
          << Rd("S", "p.loading", [G0 EXCEPT !.lb = "molar", !.lu = "mmol", !.mb = "mass", !.mu = "g"], "loading", Zero),
             Rd("S", "p.pressure", [G0 EXCEPT !.pm = "relative"], "pressure", Zero) >>
     [] an = "alpha_s" ->
          \* reference area: area_BET(reference_isotherm) / area_langmuir(reference_isotherm)
          Ordered("R", "molar", "mol", "ref_area_loading", "ref_area_pressure")
          \o Ordered("S", "molar", "mmol", "loading", "pressure")
          \* reference_isotherm.loading_at(pressure, pressure_unit=isotherm.pressure_unit, loading_unit='mmol')
          \o << Rd("R", "p.loading_at", [G0 EXCEPT !.pu = sS.pu, !.lb = RefLB, !.lu = "mmol"], "ref_loading", CanonP(Rel)),
          \* reference_isotherm.loading_at(reducing_pressure, loading_unit='mmol', pressure_mode='relative')
                Rd("R", "p.loading_at", [G0 EXCEPT !.pm = "relative", !.lb = RefLB, !.lu = "mmol"], "ref_point", CanonP(Rel)) >>
     [] an \in {"initial_henry_slope", "initial_henry_virial"} ->
          << Rd("S", "p.pressure", G0, "pressure", Zero), Rd("S", "p.loading", G0, "loading", Zero) >>
     [] an = "isosteric_enthalpy" ->
          \* load_args = loading_unit / material_unit of the FIRST isotherm; pressures in each isotherm's own representation
          LET g == [G0 EXCEPT !.lu = sS.lu, !.mu = sS.mu]
              grid == LET r == ImplAccess("p.loading", sS, g) IN IF r[1] = "val" THEN Plus(ColL(sS), r[3]) ELSE Zero
              gp == IF "isosteric_pressure_representation" \in Repaired THEN [g EXCEPT !.pm = "absolute", !.pu = "bar"] ELSE g
          IN << Rd("S", "p.loading", g, "range", Zero), Rd("R", "p.loading", g, "range", Zero),
                Rd("S", "p.pressure_at", gp, "pressures", grid), Rd("R", "p.pressure_at", gp, "pressures", grid) >>
     [] an = "enthalpy_sorption_whittaker" ->
          \* copy.convert_pressure(unit_to='Pa'); model fitted to the copy natively; model_isotherm.pressure_at(n, pressure_unit='Pa')
          << Rd("W", "m.pressure", G0, "model_pressure", Zero),
             Rd("W", "m.pressure_at", [G0 EXCEPT !.pu = "Pa"], "pressure_at", ColL(RoleState("W", sS, sR))) >>
     [] an \in {"initial_enthalpy_comp", "initial_enthalpy_point"} ->
          << Rd("S", "p.loading", [G0 EXCEPT !.lb = "molar", !.lu = "mmol"], "loading_normalised", Zero) >>

\* what a read hands to the core (out) and how far a look-up is from the abscissa it was asked for (dist)
ReadEval(rd, s) ==
   LET r == ImplAccess(rd.acc, s, rd.g) IN
   IF r[1] # "val" THEN [ok |-> FALSE, out |-> Zero, dist |-> Zero]
   ELSE [ok |-> TRUE,
         out |-> Phys(IF OutP(rd.acc) THEN Plus(ColP(s), r[3]) ELSE IF OutL(rd.acc) THEN Plus(ColL(s), r[3]) ELSE r[3]),
         dist |-> Phys(IF InP(rd.acc) THEN Minus(Plus(rd.means, r[2]), ColP(s))
                       ELSE IF InL(rd.acc) THEN Minus(Plus(rd.means, r[2]), ColL(s)) ELSE Zero)]
Evals(an, sS, sR) == LET p == Plan(an, sS, sR) IN [i \in 1..Len(p) |-> ReadEval(p[i], RoleState(p[i].role, sS, sR))]

---------------------------------------------------------------------------
\* ---- prescriptive: what the numeric core consumes (from the documentation of the *_raw functions)
PerOwnMaterial(b, u, s) == Phys(Plus(CanonLphys(b, u), CanonM(MEff(s))))
CoreWant(an, rd, sS, sR) ==      \* a vector, or <<"any">> when the core is insensitive to a constant factor
   LET s == RoleState(rd.role, sS, sR) IN
   CASE rd.slot \in {"pressure", "ref_area_pressure"} /\ an \notin {"initial_henry_slope", "initial_henry_virial"} -> CanonP(Rel)
     [] rd.slot \in {"loading", "ref_area_loading"} /\ an \in {"area_BET", "area_langmuir", "dr_plot", "da_plot", "alpha_s"}
           -> PerOwnMaterial("molar", IF rd.slot = "loading" /\ an = "alpha_s" THEN "mmol" ELSE "mol", s)
     [] rd.slot = "loading" /\ an \in {"t_plot", "psd_microporous"} -> PerOwnMaterial("molar", "mmol", s)
     [] rd.slot = "loading" /\ an = "psd_mesoporous" -> PerOwnMaterial("volume_liquid", "cm3", s)
     [] rd.slot = "loading" /\ an = "psd_dft" -> Phys(Plus(CanonLphys("molar", "mmol"), CanonM(<<"mass", "g">>)))
     [] rd.slot = "pressure" /\ an \in {"initial_henry_slope", "initial_henry_virial"} -> Phys(ColP(s))   \* Henry constants: own units
     [] rd.slot = "loading" /\ an \in {"initial_henry_slope", "initial_henry_virial"} -> Phys(ColL(s))
     [] rd.slot = "range" -> Phys(ColL(sS))               \* the first isotherm's own units
     [] rd.slot \in {"model_pressure", "pressure_at"} -> CanonP(<<"absolute", "Pa">>)
     [] OTHER -> <<"any">>

Slots == {"loading", "pressure", "ref_area_loading", "ref_area_pressure", "ref_loading", "ref_point", "range", "pressures",
          "model_pressure", "pressure_at", "loading_normalised"}
\* (string concatenation per state is slow in TLC: the class names are tabulated once)
ClsTab == TLCEval([c \in {"refused:", "abscissa_distorted:", "wrong_unit:"} |-> [sl \in Slots |-> c \o sl]])
\* first violated clause, in the order the code runs into it
RECURSIVE FirstBad(_, _, _, _, _, _)
FirstBad(an, p, ev, i, sS, sR) ==
   IF i > Len(p) THEN "ok"
   ELSE LET w == CoreWant(an, p[i], sS, sR) IN
        IF ~ev[i].ok THEN ClsTab["refused:"][p[i].slot]
        ELSE IF ev[i].dist # Zero THEN ClsTab["abscissa_distorted:"][p[i].slot]
        ELSE IF w # <<"any">> /\ ev[i].out # w THEN ClsTab["wrong_unit:"][p[i].slot]
        ELSE FirstBad(an, p, ev, i + 1, sS, sR)

PlanClass(an, sS, sR) ==
   IF an = "isosteric_enthalpy" /\ (sS.lb # sR.lb \/ sS.mb # sR.mb) THEN "guard:different_basis"     \* deliberate refusal
   ELSE LET p == Plan(an, sS, sR)  ev == Evals(an, sS, sR)  c == FirstBad(an, p, ev, 1, sS, sR) IN
        IF c # "ok" THEN c
        ELSE IF an = "alpha_s" /\ ev[5].out # ev[6].out THEN "reference_curve_and_point_in_different_units"
        ELSE IF an = "isosteric_enthalpy" THEN
             IF ev[3].out["psat"] # 0 \/ ev[4].out["psat"] # 0 THEN "pressures_not_absolute"
             ELSE IF ev[3].out # ev[4].out THEN "pressures_in_different_units"
             ELSE IF TempDependent(p[3].means) THEN "isosteres_not_at_constant_amount"
             ELSE "ok"
        ELSE "ok"

\* ---- the closed-form grouping of the diverging representations (checked exact by AccessPlanMC)
VolumeBasis(b) == b \in {"volume_gas", "volume_liquid"}
ClassTable(an, sS, sR) ==
   CASE an = "alpha_s" ->
          IF sR.lb # "molar" /\ "alpha_s_reference_loading_basis" \notin Repaired THEN "refused:ref_loading"
          ELSE IF sR.pm # "relative" THEN "abscissa_distorted:ref_loading"
          ELSE "ok"
     [] an = "isosteric_enthalpy" ->
          IF sS.lb # sR.lb \/ sS.mb # sR.mb THEN "guard:different_basis"
          ELSE IF "isosteric_pressure_representation" \notin Repaired /\ (sS.pm # "absolute" \/ sR.pm # "absolute") THEN "pressures_not_absolute"
          ELSE IF "isosteric_pressure_representation" \notin Repaired /\ sS.pu # sR.pu THEN "pressures_in_different_units"
          ELSE IF VolumeBasis(sS.lb) THEN "isosteres_not_at_constant_amount"
          ELSE "ok"
     [] an = "enthalpy_sorption_whittaker" ->
          IF sS.pm # "absolute" /\ "whittaker_pressure_mode" \notin Repaired THEN "wrong_unit:model_pressure" ELSE "ok"
     [] OTHER -> "ok"

---------------------------------------------------------------------------
\* ---- how every result key must behave.  Exponents:
\*   le  : of the factor by which ALL loadings (of the sample / first isotherm; every isotherm for isosteric) are multiplied
\*   leR : of the factor by which the loadings of the reference isotherm are multiplied
\*   mS, mR : of the own-material monomial of the sample / of the reference
\*   ol, op : of the own loading-unit / pressure-unit monomial of the sample (results reported in the isotherm's own units)
\*   kind: "num" | "index" (must be equal exactly) | "log" (shifts by ln of the factor) | "free" (not judged)
D(le, leR, mS, mR, ol, op, kind) == [le |-> le, leR |-> leR, mS |-> mS, mR |-> mR, ol |-> ol, op |-> op, kind |-> kind]
Intensive == D(0, 0, 0, 0, 0, 0, "num")
Extensive == D(1, 0, 1, 0, 0, 0, "num")        \* per amount of the isotherm's own material
Inverse == D(-1, 0, -1, 0, 0, 0, "num")
Index == D(0, 0, 0, 0, 0, 0, "index")
SecField == {"first", "last", "slope", "intercept", "corr_coef", "adsorbed_volume", "area"}
SecDim(f) == CASE f \in {"first", "last"} -> Index [] f = "corr_coef" -> Intensive [] OTHER -> Extensive
SecTab == TLCEval([p \in {"sec0.", "sec1.", "sec2."} |-> [f \in SecField |-> p \o f]])
SecKeys == {SecTab[p][f] : p \in DOMAIN SecTab, f \in SecField}
SecFieldOf(k) == CHOOSE f \in SecField : \E p \in DOMAIN SecTab : SecTab[p][f] = k
Limits == {"limit.lo", "limit.hi"}

ResultDims(an, key) ==
   IF key \in Limits \/ key = "n_sections" THEN Index
   ELSE IF key \in {"core.pressure", "core.temperature", "core.temperatures"} /\ an \notin {"initial_henry_slope", "initial_henry_virial"} THEN Intensive
   ELSE CASE an \in {"area_BET", "area_langmuir"} ->
          (CASE key \in {"area", "n_monolayer", "core.loading"} -> Extensive
             [] key \in {"bet_slope", "bet_intercept", "langmuir_slope", "langmuir_intercept"} -> Inverse
             [] key \in {"c_const", "p_monolayer", "corr_coef", "langmuir_const"} -> Intensive)
     [] an \in {"t_plot", "alpha_s"} ->
          (CASE key \in SecKeys -> SecDim(SecFieldOf(key))
             [] key \in {"t_curve", "alpha_curve"} -> Intensive
             [] key = "core.loading" -> Extensive
             [] key \in {"core.ref_loading", "core.ref_point"} -> D(0, 1, 0, 1, 0, 0, "num")   \* mmol per amount of the reference's own material
             [] key = "core.ref_area" -> D(0, 1, 0, 1, 0, 0, "num"))
     [] an \in {"dr_plot", "da_plot"} ->
          (CASE key \in {"pore_volume", "core.loading"} -> Extensive
             [] key = "intercept" -> D(1, 0, 1, 0, 0, 0, "log")          \* ln(micropore volume)
             [] key \in {"adsorption_potential", "corr_coef", "slope", "exponent"} -> Intensive)
     [] an = "psd_mesoporous" ->
          (CASE key = "pore_widths" -> Intensive
             [] key \in {"pore_volumes", "pore_areas", "pore_distribution", "pore_volume_cumulative", "pore_area_total", "core.loading"} -> Extensive)
     [] an = "psd_microporous" ->
          (CASE key = "pore_widths" -> Intensive
             [] key \in {"pore_distribution", "pore_volume_cumulative", "core.loading"} -> Extensive)
     [] an = "psd_dft" ->       \* per gram whatever the stored material representation: no own-material exponent
          (CASE key = "core.loading" -> D(1, 0, 0, 0, 0, 0, "num")
             [] key = "kernel_loading" -> D(1, 0, 0, 0, 0, 0, "num")
             [] OTHER -> D(0, 0, 0, 0, 0, 0, "free"))                       \* SLSQP (ftol 1e-4) results: not decided here
     [] an \in {"initial_henry_slope", "initial_henry_virial"} ->
          (CASE key = "K" -> D(1, 0, 1, 0, 1, -1, "num")
             [] key = "core.pressure" -> D(0, 0, 0, 0, 0, 1, "num")
             [] key = "core.loading" -> D(1, 0, 1, 0, 1, 0, "num"))
     [] an = "isosteric_enthalpy" ->
          (CASE key = "loading" -> D(1, 0, 1, 0, 1, 0, "num")              \* grid in the first isotherm's own units
             [] key \in {"isosteric_enthalpy", "slopes", "correlation", "std_errs"} -> Intensive)
     [] an = "enthalpy_sorption_whittaker" ->
          (CASE key \in {"loading", "param.n_m", "core.loading"} -> D(1, 0, 1, 0, 1, 0, "num")
             [] key \in {"enthalpy_sorption", "param.K", "param.t"} -> Intensive)
     [] an \in {"initial_enthalpy_comp", "initial_enthalpy_point"} -> Intensive

\* -log10 of the relative tolerance (DESIGN.md 8: what holds on the unchanged tree with a 100x margin;
\* default 1e-6, i.e. DecFloat precision; looser only where an iterative solver's own stopping rule shows)
TolExp(an, key) ==
   CASE an = "psd_microporous" /\ key \in {"pore_widths"} -> 4          \* root search per point: 2.3e-6 observed
     [] an = "psd_microporous" /\ key = "pore_distribution" -> 2      \* finite differences of the above: 1.2e-4 observed
     [] an = "da_plot" -> 6                                             \* bounded scalar search: 5e-11 observed
     [] an = "initial_enthalpy_comp" -> 2                               \* multi-start minimisation: 2.4e-5 observed
     [] an = "psd_dft" /\ key = "kernel_loading" -> 1                 \* SLSQP with ftol 1e-4: 9e-4 observed
     [] an = "initial_henry_virial" -> 3                                \* polynomial least squares: 2.6e-4 observed (cm3(STP))
     [] an = "enthalpy_sorption_whittaker" -> 5                         \* Langmuir / Toth least squares: 1.9e-9 observed
     [] OTHER -> 6

\* ---- expected factor of a result when the isotherm of `role` goes from representation s1 to s2
OwnM(s1, s2) == Minus(CanonM(MEff(s2)), CanonM(MEff(s1)))
OwnL(s1, s2) == Minus(CanonL(LRep(s2), MEff(s2)), CanonL(LRep(s1), MEff(s1)))
OwnP(s1, s2) == DeltaP(s1, s2)
RepFactor(an, key, role, s1, s2) ==
   LET d == ResultDims(an, key) IN
   IF role = "S" THEN Phys(Plus(Scale(d.mS, OwnM(s1, s2)), Plus(Scale(d.ol, OwnL(s1, s2)), Scale(d.op, OwnP(s1, s2)))))
   ELSE Phys(Scale(d.mR, OwnM(s1, s2)))
\* both isotherms may have been changed: (sS0, sR0) -> (sS, sR)
RepFactor2(an, key, sS0, sR0, sS, sR) == Phys(Plus(RepFactor(an, key, "S", sS0, sS), RepFactor(an, key, "R", sR0, sR)))
\* loadings multiplied by a constant: of the sample ("S"), of the reference ("R"), of every isotherm ("A")
ScaleExp(an, key, role) == LET d == ResultDims(an, key) IN
   CASE role = "S" -> d.le [] role = "R" -> d.leR [] role = "A" -> d.le + d.leR

\* ---- covering classes of stored representations for the replay: representations that send the plan's
\* conversions down the same branch (same mode / basis, unit equal to the requested one or not)
ReqLU(an) == CASE an \in {"area_BET", "area_langmuir", "dr_plot", "da_plot"} -> "mol"
               [] an = "psd_mesoporous" -> "cm3" [] OTHER -> "mmol"
PathKeyL(an, r) == <<r[1], r[2] = ReqLU(an)>>
PathKeyM(an, r) == <<r[1], r[2] \in {"g", "cm3", "mol"}>>
NonFracL == {r \in LReps : ~Frac(r[1])}
=============================================================================
