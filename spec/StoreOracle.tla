---------------------------- MODULE StoreOracle ----------------------------
(***************************************************************************)
(* Step oracle for C08 (pattern A): every record is one call of the public *)
(* API executed on real database files,                                    *)
(*   [pre  : file -> Store file record   (projection read through an       *)
(*                                        independent sqlite3 connection)  *)
(*    reg  : session registries before the call                            *)
(*    op   : the abstract operation                                        *)
(*    out  : "ok" | "refused" (ParsingError) | "error" (anything else)     *)
(*    post : file -> Store file record after the call                      *)
(*    ret  : what *_from_db returned, as key -> content token ("" if n/a)] *)
(* and is judged against Store!SpecStep FROM THE RECORDED PRE-STATE.  The  *)
(* answer names the first clause of property C08 that fails and what the   *)
(* implementation-shaped model predicts for the same step.                 *)
(* The universe (keys, content tokens, references of the isotherms) comes  *)
(* from the driver as JSON (IOEnv.U_IN).                                   *)
(***************************************************************************)
EXTENDS Naturals, Sequences, FiniteSets, TLC, TLCExt, Json, IOUtils

U == JsonDeserialize(IOEnv.U_IN)
Q == JsonDeserialize(IOEnv.X_IN)
ToSet(s) == {s[i] : i \in DOMAIN s}

S == INSTANCE Store WITH
       Files <- ToSet(U.files), Ads <- ToSet(U.ads), Mats <- ToSet(U.mats), APT <- ToSet(U.apt),
       MPT <- ToSet(U.mpt), ITY <- ToSet(U.ity), IPT <- ToSet(U.ipt), Isos <- ToSet(U.isos),
       AdsVer <- ToSet(U.adsver), MatVer <- ToSet(U.matver), TyVer <- ToSet(U.tyver),
       AdsUses <- [v \in DOMAIN U.adsuses |-> ToSet(U.adsuses[v])],
       MatUses <- [v \in DOMAIN U.matuses |-> ToSet(U.matuses[v])],
       IsoMat <- U.isomat, IsoAds <- U.isoads, IsoTy <- U.isoty,
       IsoMatVer <- U.isomatver, IsoAdsVer <- U.isoadsver, IsoTemp <- U.isotemp, IsoClass <- U.isoclass,
       Traits <- ToSet(U.traits)

Files == ToSet(U.files)

Step(q) ==
  LET o == q.op
      f == q.pre[o.d]
      g == q.post[o.d]
      allowed == S!SpecStep(f, o)
      outOK == \E s \in allowed : S!OutcomeAllowed(q.out, s.out)
      effOK == \E s \in allowed : S!OutcomeAllowed(q.out, s.out) /\ s.f = g
      indep == \A e \in Files \ {o.d} : q.post[e] = q.pre[e]
      retOK == (S!IsRetrieval(o) /\ q.out = "ok") => q.ret = S!SpecRetrieve(f, o)
      impl == S!ImplStep(f, q.reg, o)
      \* (the registries are compared only while they decide something: deletions by name remove
      \* whichever registry entry has the name among its aliases)
      implAgrees == /\ impl.out = q.out /\ impl.f = g
                    /\ (S!Has("registry_autoinsert") => impl.reg = q.regpost)
                    /\ ((S!IsRetrieval(o) /\ q.out = "ok") => q.ret = S!ImplRetrieve(f, o))
      clause == IF ~outOK THEN "outcome"                  \* accepted / refused against the dictionary model
                ELSE IF ~effOK THEN "effect"              \* exactly the dictionary update, or nothing when refused
                ELSE IF ~indep THEN "independence"        \* other files untouched
                ELSE IF ~retOK THEN "retrieval"           \* equal content of exactly the selected keys
                ELSE "none"
  IN [ok |-> clause = "none",
      clause |-> clause,
      allowed_out |-> {s.out : s \in allowed},
      spec_post |-> {s.f : s \in {t \in allowed : S!OutcomeAllowed(q.out, t.out)}},
      spec_ret |-> IF S!IsRetrieval(o) THEN S!SpecRetrieve(f, o) ELSE <<>>,
      impl_out |-> impl.out,
      impl_ret |-> IF S!IsRetrieval(o) THEN S!ImplRetrieve(f, o) ELSE <<>>,
      impl_class |-> S!DivergenceClass(f, q.reg, o),
      impl_agrees |-> implAgrees,
      integrity_pre |-> S!RefInt(f),
      integrity_post |-> S!RefInt(g)]

ASSUME JsonSerialize(IOEnv.X_OUT, [i \in 1..Len(Q) |-> Step(Q[i])])
VARIABLE x
Init == x = 0
Next == x' = x
=============================================================================
