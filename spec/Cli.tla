---------------------------------- MODULE Cli ----------------------------------
(***************************************************************************)
(* Growth beyond the listed properties: the command-line front end         *)
(* (src/pygaps/cli/cli.py) as a decision table.                            *)
(*                                                                         *)
(* An invocation is abstracted to: does the input path exist, its          *)
(* extension, which of --characterize / --model / --convert / --plot are   *)
(* present, the output extension, --verbose, --version.  The effect is the *)
(* sequence of library entry points reached (reader, action, writer,       *)
(* printing) or the error class.  Spec = what the help text promises;      *)
(* Impl = transcription of main(); TLC compares them on every invocation   *)
(* (CliMC) and the driver replays every invocation on the real main() with *)
(* the library entry points replaced by recorders.                         *)
(***************************************************************************)
EXTENDS Naturals, Sequences, FiniteSets, TLC

InExts == {"json", "csv", "xls", "aif", "txt"}
OutExts == {"none", "json", "csv", "xls", "aif", "txt"}
Chs == {"none", "a_bet", "a_lang", "kh"}
Mds == {"none", "guess", "henry", "langmuir", "dslangmuir", "bet"}
Reader(e) == CASE e = "json" -> "from_json" [] e = "csv" -> "from_csv" [] e = "xls" -> "from_xl" [] e = "aif" -> "from_aif"
Writer(e) == CASE e = "json" -> "to_json" [] e = "csv" -> "to_csv" [] e = "xls" -> "to_xl" [] e = "aif" -> "to_aif"
ChFun(c) == CASE c = "a_bet" -> "area_BET" [] c = "a_lang" -> "area_langmuir" [] c = "kh" -> "initial_henry_slope"

Invocations == [version : BOOLEAN, exists : BOOLEAN, ext : InExts, ch : Chs, md : Mds, cv : BOOLEAN, plot : BOOLEAN,
                out : OutExts, verbose : BOOLEAN]

\* ---- prescriptive (help text / docstring of main): at most one action, by the documented precedence
\* characterize > model > convert > plot > print; model and convert produce an isotherm that is saved
\* iff an output path with a supported extension is given; unsupported extensions are parsing errors.
Spec(i) ==
   IF i.version THEN <<"print_version">>
   ELSE IF ~i.exists THEN <<"FileNotFoundError">>
   ELSE IF i.ext \notin {"json", "csv", "xls", "aif"} THEN <<"ParsingError">>
   ELSE LET read == <<Reader(i.ext)>>
            act == IF i.ch # "none" THEN <<ChFun(i.ch)>>
                   ELSE IF i.md # "none" THEN <<"model_iso">>
                   ELSE IF i.cv THEN <<"convert">>
                   ELSE IF i.plot THEN <<"plot">>
                   ELSE <<"print_iso">>
            produces == i.ch = "none" /\ (i.md # "none" \/ i.cv)
            save == IF produces /\ i.out # "none"
                    THEN (IF i.out \in {"json", "csv", "xls", "aif"} THEN <<Writer(i.out)>> ELSE <<"ParsingError">>)
                    ELSE <<>>
            echo == IF produces /\ i.verbose /\ (save = <<>> \/ save[1] # "ParsingError") THEN <<"print_iso">> ELSE <<>>
        IN read \o act \o save \o echo

\* ---- descriptive: cli.py main(), statement by statement
Impl(i) ==
   IF i.version THEN <<"print_version">>
   ELSE IF ~i.exists THEN <<"FileNotFoundError">>
   ELSE IF i.ext = "json" \/ i.ext = "csv" \/ i.ext = "xls" \/ i.ext = "aif" THEN
        LET r == <<Reader(i.ext)>>
            a == IF i.ch # "none" THEN <<ChFun(i.ch)>>
                 ELSE IF i.md # "none" THEN <<"model_iso">>
                 ELSE IF i.cv THEN <<"convert">>
                 ELSE IF i.plot THEN <<"plot">>
                 ELSE <<"print_iso">>
            outiso == i.ch = "none" /\ (i.md # "none" \/ i.cv)
            w == IF outiso /\ i.out # "none" THEN
                     (IF i.out = "json" \/ i.out = "csv" \/ i.out = "xls" \/ i.out = "aif" THEN <<Writer(i.out)>> ELSE <<"ParsingError">>)
                 ELSE <<>>
            e == IF outiso /\ i.verbose /\ (w = <<>> \/ w[1] # "ParsingError") THEN <<"print_iso">> ELSE <<>>
        IN r \o a \o w \o e
   ELSE <<"ParsingError">>
=============================================================================
