----------------------------- MODULE IastOracle -----------------------------
(***************************************************************************)
(* C13: scenario tables (rational closed forms on the grids of             *)
(* spec/Iast.tla) and the judge of recorded observations (IastTrace).      *)
(*  {k:"forward", n, stride, offset} -> every stride-th grid point of n    *)
(*        components: K, p, fam, M and the expected loadings (rationals)   *)
(*  {k:"reverse", n, stride, offset} -> K, x, P, expected y and loadings   *)
(*  {k:"point"|"revobs"|"perm"|"close"|"same", ...} -> verdict             *)
(***************************************************************************)
EXTENDS Iast, IastTrace, Json, IOUtils, SequencesExt

Q == JsonDeserialize(IOEnv.X_IN)

Pick(s, stride, offset) == SelectSeq([i \in 1..Len(s) |-> <<i, s[i]>>], LAMBDA e : e[1] % stride = offset)
Fwd(n) == SetToSeq(FamM \X [1..n -> KVals] \X [1..n -> PVals])
FwdRow(e) == LET g == e[2]  l == Load(g[1][1], g[1][2], g[2], g[3]) IN
   [fam |-> g[1][1], M |-> g[1][2], K |-> g[2], p |-> g[3], load |-> l, x |-> Frac(l)]
Rev(n) == SetToSeq(FamM \X [1..n -> KVals] \X XGrid(n) \X PVals)
RevRow(e) == LET g == e[2] IN
   [fam |-> g[1][1], M |-> g[1][2], K |-> g[2], x |-> g[3], P |-> g[4],
    y |-> RevY(g[2], g[3], g[4]), load |-> RevLoad(g[1][1], g[1][2], g[2], g[3], g[4])]
Map(s, Op(_)) == [i \in 1..Len(s) |-> Op(s[i])]

Step(q) ==
  IF q.k = "forward" THEN [ok |-> TRUE, clause |-> "", rows |-> Map(Pick(Fwd(q.n), q.stride, q.offset), FwdRow)]
  ELSE IF q.k = "reverse" THEN [ok |-> TRUE, clause |-> "", rows |-> Map(Pick(Rev(q.n), q.stride, q.offset), RevRow)]
  ELSE LET c == CASE q.k = "point" -> Point(q)
                  [] q.k = "revobs" -> Reverse(q)
                  [] q.k = "perm" -> Permuted(q)
                  [] q.k = "close" -> CloseSeq(q)
                  [] q.k = "same" -> Same(q)
       IN [ok |-> c = "", clause |-> c,
           bad |-> IF q.k \in {"point", "revobs"} /\ c = "spreading_pressure_is_not_the_integral_of_loading" THEN QuadBad(q) ELSE {}]

ASSUME JsonSerialize(IOEnv.X_OUT, [i \in 1..Len(Q) |-> Step(Q[i])])
VARIABLE x
Init == x = 0
Next == x' = x
=============================================================================
