SPECIFICATION Spec
CONSTANT Parts <- PartsFactors
CONSTANT StartsLM <- StartsThorough
INVARIANT Valid
INVARIANT Consistent
INVARIANT RoundTrip
INVARIANT StepsAllowed
CHECK_DEADLOCK FALSE
VIEW View
