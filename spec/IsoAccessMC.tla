----------------------------- MODULE IsoAccessMC -----------------------------
(***************************************************************************)
(* Design-level exploration for C03: for every accessor, every stored      *)
(* representation and every argument pattern, does the conversion pipeline *)
(* the accessor really runs (ImplAccess) deliver what "convert a copy,     *)
(* read natively" prescribes?  Every divergence must fall into one of the  *)
(* two families recorded as known findings; anything else fails the run.   *)
(***************************************************************************)
EXTENDS IsoAccess

CONSTANT StoredLM
StoredQuick == {<<"molar","mmol","mass","g">>, <<"mass","mg","volume","cm3">>, <<"volume_liquid","cm3","molar","mol">>,
                <<"fraction",N,"mass","kg">>, <<"percent",N,"volume","L">>, <<"volume_gas","L","mass","g">>}
StoredThorough == {<<l[1], l[2], m[1], m[2]>> : l \in {r \in LReps : r[2] \in {N, "mmol", "cm3(STP)", "g", "mg", "cm3", "L"}},
                                                 m \in {r \in MReps : r[2] \in {"g", "kg", "cm3", "mol", "mmol"}}}

VARIABLES acc, s, cls
vars == <<acc, s, cls>>

Base == [pm |-> "absolute", pu |-> "bar", lb |-> "molar", lu |-> "mmol", mb |-> "mass", mu |-> "g", tu |-> "K"]
RepU == {"mmol", "cm3(STP)", "g", "kg", "cm3", "L"}
G(pm, pu, lb, lu, mb, mu) == [pm |-> pm, pu |-> pu, lb |-> lb, lu |-> lu, mb |-> mb, mu |-> mu]
ArgsP == {G(pm, pu, N, N, N, N) : pm \in Modes \cup {N, B}, pu \in {"kPa", "torr", N, B}}
ArgsLM == {G(N, N, lb, lu, mb, mu) : lb \in LBases \cup {N, B}, lu \in RepU \cup {N, B},
                                      mb \in MBases \cup {N, B}, mu \in RepU \cup {N, B}}

Init == /\ acc \in Accessors /\ cls = "init"
        /\ \/ \E r \in PReps : s = [Base EXCEPT !.pm = r[1], !.pu = r[2]]
           \/ \E r \in StoredLM : s = [Base EXCEPT !.lb = r[1], !.lu = r[2], !.mb = r[3], !.mu = r[4]]

Call(g) == /\ cls' = DivergenceClass(acc, s, g) /\ UNCHANGED <<acc, s>>
Next == \/ \E g \in ArgsP : Call(g)
        \/ \E g \in ArgsLM : Call(g)
Spec == Init /\ [][Next]_vars

OnlyKnownDivergences == cls # "unexpected"

\* the directly constructed target sets agree with their definition by filtering (sample)
SampleS == {[Base EXCEPT !.lb = r[1], !.lu = r[2], !.mb = r[3], !.mu = r[4]] : r \in StoredQuick}
           \cup {[Base EXCEPT !.pm = "relative", !.pu = N], [Base EXCEPT !.lb = "fraction", !.lu = N, !.mu = B]}
SampleG == {G(pm, pu, lb, lu, mb, mu) : pm \in {N, "absolute", "relative%", B}, pu \in {N, "kPa", B},
               lb \in {N, "mass", "percent", B}, lu \in {N, "mg", "cm3", B}, mb \in {N, "volume", B}, mu \in {N, "kg", "cm3", B}}
ASSUME \A x \in SampleS, g \in SampleG :
          /\ PTargets(x, g) = PTargetsF(x, g)
          /\ MTargets(x, g) = MTargetsF(x, g)
          /\ LTargets(x, g) = LTargetsF(x, g)
=============================================================================
