--------------------------------- MODULE Pure ---------------------------------
(***************************************************************************)
(* Purity of read-only entry points (C04, breadth).                        *)
(*                                                                         *)
(* Part 1 - the clauses of the property as predicates over observations.   *)
(*   An observation of an object is a record of digests (iso_id, labels,   *)
(*   data, meta, temperature, adsorbate, material ...); an outcome is      *)
(*   [kind, shape]: kind "value" or "error", shape = digest of everything  *)
(*   discrete in the result (structure, keys, strings, lengths, NaN mask;  *)
(*   the exception class for an error).  The numeric payload of two        *)
(*   outcomes is compared by the harness in float64 and handed over as a   *)
(*   relative distance (DecFloat); the specification fixes the tolerance.  *)
(*   These predicates are what PureTrace evaluates on the recorded log and *)
(*   what the invariants of Part 2 state about the model.                  *)
(*                                                                         *)
(* Part 2 - a small transition system with the three kinds of hidden state *)
(*   the property names (per-object interpolator cache, module-level cache *)
(*   of loaded reference curves / kernels, the shared thermodynamic state  *)
(*   object of an adsorbate) and a scratch model object written during     *)
(*   fitting.  Pure calls may change hidden state only; TLC checks over    *)
(*   all histories that observables never move under a call and that in    *)
(*   every reachable state every call answers exactly as on a fresh object *)
(*   (empty hidden state).  The hazards are named disjuncts switched on by *)
(*   the constant Defects; with Defects = {} the invariants must hold,     *)
(*   with any single defect TLC must find a counterexample (PureMC with    *)
(*   PURE_DEFECT set; the driver runs both on every check).                *)
(***************************************************************************)
EXTENDS DecFloat, FiniteSets

\* ------------------------------------------------------------------ Part 1
\* fields of an observation that differ (records given as functions with equal domains)
Changed(b, a) == {k \in DOMAIN b : a[k] # b[k]}
Unchanged(b, a) == DOMAIN a = DOMAIN b /\ Changed(b, a) = {}

\* outcomes: the value, or the kind of error; numeric payload to OutTol (relative)
OutTol == <<10000000, -19>>          \* 1e-12
SameOutcome(x, y, dist) == /\ x.kind = y.kind
                           /\ x.shape = y.shape
                           /\ (x.kind = "value" => DLeq(dist, OutTol))

\* ------------------------------------------------------------------ Part 2
CONSTANTS Objs,        \* argument objects (isotherms); they share adsorbate backend and module caches
          Data,        \* abstract content values of an object (changed only by Mutate = a permanent conversion)
          Keys,        \* interpolator settings (branch, kind, fill)
          Res,         \* resources kept in a module-level cache (standard isotherms, DFT kernels)
          Temps,       \* temperatures / state points the adsorbate backend can be set to
          Defects      \* subset of DefectNames: hazards switched on

DefectNames == {"inplace", "stale_interp", "key_ignored", "no_update", "fit_leaks"}
ASSUME Defects \subseteq DefectNames

NoKey == [key |-> "none", built |-> "none"]
VARIABLES obs,       \* obs[o] \in Data                      observable
          icache,    \* icache[o]: NoKey or [key, built]      hidden: interpolator and the content it was built from
          mcache,    \* mcache[r]: "none" or the resource whose content is stored under key r   hidden
          backend,   \* "none" or the state point last set    hidden
          scratch    \* parameters left by the last fit       hidden
vars == <<obs, icache, mcache, backend, scratch>>
Hidden == [icache |-> icache, mcache |-> mcache, backend |-> backend, scratch |-> scratch]
EmptyHidden == [icache |-> [o \in Objs |-> NoKey], mcache |-> [r \in Res |-> "none"], backend |-> "none", scratch |-> "none"]

Calls == {[f |-> "plain", o |-> o, a |-> "none"] : o \in Objs}                 \* area_BET, exports, plots ...
    \cup {[f |-> "interp", o |-> o, a |-> k] : o \in Objs, k \in Keys}         \* loading_at / pressure_at / spreading pressure
    \cup {[f |-> "std", o |-> o, a |-> r] : o \in Objs, r \in Res}             \* t_plot / psd with a stored reference curve, psd_dft
    \cup {[f |-> "thermo", o |-> o, a |-> t] : o \in Objs, t \in Temps}        \* anything that asks the adsorbate for a property
    \cup {[f |-> "fit", o |-> o, a |-> "none"] : o \in Objs}                   \* model_iso, guess, Whittaker, IAST on points

\* what the property prescribes: the outcome is a function of the observable content and the arguments
SpecOutcome(d, c) == <<c.f, d, c.a>>

\* what the implementation-shaped model answers from hidden state h
Hit(h, c) == h.icache[c.o].key = c.a
LoadedFirst(h) == IF \E r \in Res : h.mcache[r] # "none" THEN CHOOSE r \in Res : h.mcache[r] # "none" ELSE "none"
ImplOutcome(h, d, c) ==
   CASE c.f = "plain"  -> <<"plain", d, "none">>
     [] c.f = "interp" -> <<"interp", IF Hit(h, c) THEN h.icache[c.o].built ELSE d, c.a>>
     [] c.f = "std"    -> LET stored == IF "key_ignored" \in Defects /\ LoadedFirst(h) # "none" THEN h.mcache[LoadedFirst(h)]
                                        ELSE IF h.mcache[c.a] # "none" THEN h.mcache[c.a] ELSE c.a
                          IN <<"std", d, stored>>
     [] c.f = "thermo" -> <<"thermo", d, IF "no_update" \in Defects /\ h.backend # "none" THEN h.backend ELSE c.a>>
     [] c.f = "fit"    -> <<"fit", d, IF "fit_leaks" \in Defects /\ h.scratch # "none" THEN h.scratch ELSE "none">>

Init == obs \in [Objs -> Data] /\ icache = EmptyHidden.icache /\ mcache = EmptyHidden.mcache
        /\ backend = "none" /\ scratch = "none"

Call(c) ==
   /\ obs' = IF "inplace" \in Defects /\ c.f = "fit"                          \* the analysis converts its caller's object
             THEN [obs EXCEPT ![c.o] = CHOOSE d \in Data : d # obs[c.o]] ELSE obs
   /\ icache' = IF c.f = "interp" /\ ~Hit(Hidden, c) THEN [icache EXCEPT ![c.o] = [key |-> c.a, built |-> obs[c.o]]] ELSE icache
   /\ mcache' = IF c.f = "std" /\ mcache[c.a] = "none" THEN [mcache EXCEPT ![c.a] = c.a] ELSE mcache
   /\ backend' = IF c.f = "thermo" /\ ~("no_update" \in Defects /\ backend # "none") THEN c.a ELSE backend
   /\ scratch' = IF c.f = "fit" THEN obs[c.o] ELSE scratch

\* a permanent conversion: the only step allowed to move observables; it must drop the interpolators
Mutate(o) == /\ \E d \in Data \ {obs[o]} : obs' = [obs EXCEPT ![o] = d]
             /\ icache' = IF "stale_interp" \in Defects THEN icache ELSE [icache EXCEPT ![o] = NoKey]
             /\ UNCHANGED <<mcache, backend, scratch>>

Next == (\E c \in Calls : Call(c)) \/ (\E o \in Objs : Mutate(o))
Spec == Init /\ [][Next]_vars

\* ---- the property on the model
\* (1) observables move only under Mutate
ObservablyPure == [][obs' # obs => \E o \in Objs : Mutate(o)]_vars
\* (2) in every reachable state every call answers as the specification says ...
Functional == \A c \in Calls : ImplOutcome(Hidden, obs[c.o], c) = SpecOutcome(obs[c.o], c)
\* (3) ... and exactly as the same call on a fresh object (empty hidden state) with equal content
HiddenInvisible == \A c \in Calls : ImplOutcome(Hidden, obs[c.o], c) = ImplOutcome(EmptyHidden, obs[c.o], c)
\* (4) caches never outlive the content they were built from; a module cache stores under key r the content of r
NeverStale == /\ \A o \in Objs : icache[o] # NoKey => icache[o].built = obs[o]
              /\ \A r \in Res : mcache[r] \in {"none", r}
TypeOK == /\ obs \in [Objs -> Data]
          /\ \A o \in Objs : icache[o] = NoKey \/ (icache[o].key \in Keys /\ icache[o].built \in Data)
          /\ mcache \in [Res -> Res \cup {"none"}]
          /\ backend \in Temps \cup {"none"} /\ scratch \in Data \cup {"none"}
=============================================================================
