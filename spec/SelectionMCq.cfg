SPECIFICATION Spec
CONSTANTS MaxK = 6  MaxL = 14  MaxN = 6
INVARIANT Conforms
INVARIANT ClosedForm
INVARIANT Bounds
INVARIANT SpecSane
INVARIANT Exactly
CHECK_DEADLOCK FALSE
