SPECIFICATION Spec
INVARIANT PathIndependent
INVARIANT CanonLaws
INVARIANT ValidConforms
CHECK_DEADLOCK FALSE
