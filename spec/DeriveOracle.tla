---------------------------- MODULE DeriveOracle ----------------------------
(***************************************************************************)
(* X04 step oracle: one record per step executed on real isotherms,        *)
(*   [pre, step, out, post]                                                *)
(* pre/post = the abstract state projected from the real objects before    *)
(* and after the call (tokens are interned strings, identities are small   *)
(* integers), step = the call with the reference tokens the prescription   *)
(* needs (what the template's accessors returned just before the call).    *)
(* Derive!Judge names the broken clauses, the named deviation classes that *)
(* apply, and whether the observation is exactly what the transcription    *)
(* of the code predicts.                                                   *)
(***************************************************************************)
EXTENDS Naturals, Sequences, FiniteSets, TLC, Json, IOUtils
INSTANCE Derive WITH NilPl <- "none", NilSrc <- "none"

Q == JsonDeserialize(IOEnv.X_IN)

FnOf(seq, val(_)) == [k \in {seq[i].k : i \in 1..Len(seq)} |-> LET i == CHOOSE j \in 1..Len(seq) : seq[j].k = k IN val(seq[i])]
MetaOf(seq) == FnOf(seq, LAMBDA e : Val(e.v, e.r))
PropsOf(seq) == FnOf(seq, LAMBDA e : e.v)
ObjOf(j) == [cls |-> j.cls, lab |-> [p |-> j.lab.p, l |-> j.lab.l, m |-> j.lab.m], tu |-> j.tu, tv |-> j.tv, ads |-> j.ads, mat |-> j.mat, meta |-> MetaOf(j.meta), pref |-> j.pref,
             pl |-> j.pl, bm |-> j.bm, ex |-> j.ex, keys |-> j.keys, dref |-> j.dref,
             mname |-> j.mname, mbr |-> j.mbr, mcalc |-> j.mcalc, msrc |-> j.msrc, mpar |-> j.mpar]
StateOf(j) == [obj |-> [x \in Slots |-> ObjOf(j.obj[x])],
               cells |-> [c \in 1..Len(j.cells) |-> [name |-> j.cells[c].name, reg |-> j.cells[c].reg, props |-> PropsOf(j.cells[c].props)]]]
\* the sparse step of the harness on top of Derive!NoStep; identities of the new object are read off the post state
StepOf(j, post) ==
   LET given == [f \in DOMAIN NoStep |-> IF f \in DOMAIN j THEN j[f] ELSE NoStep[f]]
       n == IF "n" \in DOMAIN j THEN post.obj[j.n] ELSE AbsentObj
   IN [given EXCEPT !.names = IF "names" \in DOMAIN j THEN {j.names[i] : i \in 1..Len(j.names)} ELSE {},
                    !.props = IF "props" \in DOMAIN j THEN PropsOf(j.props) ELSE EmptyFn,
                    !.lab2 = IF "lab2" \in DOMAIN j THEN [p |-> j.lab2.p, l |-> j.lab2.l, m |-> j.lab2.m] ELSE NilLab,
                    !.fr = [pref |-> n.pref, dref |-> n.dref, cell |-> n.mat, v |-> [k \in MutKeys(n) |-> n.meta[k].r]]]
Answer(q) ==
   LET pre == StateOf(q.pre)
       post == StateOf(q.post)
       step == StepOf(q.step, post)
       j == Judge(pre, step, q.out, post)
   IN [verdict |-> j.verdict, failing |-> j.failing, devs |-> j.devs, applying |-> j.applying, asimpl |-> j.asimpl, astranscribed |-> j.astranscribed,
       spec_refuses |-> Derives(step) /\ SpecRefuses(pre, step)]

ASSUME JsonSerialize(IOEnv.X_OUT, [i \in 1..Len(Q) |-> Answer(Q[i])])
VARIABLE x
Init == x = 0
Next == x' = x
=============================================================================
