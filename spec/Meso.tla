-------------------------------- MODULE Meso --------------------------------
(***************************************************************************)
(* Classical mesopore size distributions (C16): pyGAPS-DH, BJH,            *)
(* Dollimore-Heal, and the Kelvin models.                                  *)
(*                                                                         *)
(* A scenario is an increasing branch: pressures p[1..n] (ascending),      *)
(* adsorbed liquid volumes V[1..n] (non-decreasing), layer thickness t[j]  *)
(* and Kelvin radius rk[j] at the measured pressures.  The methods return  *)
(* n-1 entries (one per interval): widths, volumes, distribution, and      *)
(* psd_mesoporous adds the cumulative curve.                               *)
(*                                                                         *)
(* Prescriptive clauses (the property text):                               *)
(*   Widths      reported widths = 2 (rk + t) at the measured pressures    *)
(*               (entry j may carry the width of either end of interval j) *)
(*   Increasing  widths increase with pressure                             *)
(*   ZeroExact   zero thickness: volumes = successive changes of V; their  *)
(*               sum = total change                                        *)
(*   Density     distribution * width increment = volume                   *)
(*   Cumulative  cumulative curve is the running sum of the volumes and    *)
(*               ends at V of the highest pressure used                    *)
(*   Kelvin      r * (-ln p) * g * R T = 2 gamma M / rho,  g = 2, 1, 1/2   *)
(*               for cylindrical, hemispherical, hemicylindrical menisci;  *)
(*               Kelvin-KJS: the hemispherical form + 0.3 nm, cylindrical  *)
(*               meniscus only                                             *)
(*   SingleStep  one condensation step => one peak, at the width the       *)
(*               Kelvin equation gives for the step pressure               *)
(* Exact tier: rational tables (Rat); observation tier: DecFloat.          *)
(***************************************************************************)
EXTENDS Rat, DecFloat, Sequences, FiniteSets, TLCExt

\* ------------------------------------------------------------------ exact tier
\* rational thickness / Kelvin-radius tables on the pressure universe k/10, k = 1..9
\* (any increasing tables would do; they are passed to the library as callables)
RkTab == << R(1, 2), R(1, 1), R(3, 2), R(2, 1), R(3, 1), R(4, 1), R(6, 1), R(9, 1), R(15, 1) >>
TkTab == << R(1, 10), R(1, 5), R(3, 10), R(2, 5), R(1, 2), R(3, 5), R(7, 10), R(4, 5), R(9, 10) >>
ZeroTab == [k \in 1..9 |-> RInt(0)]

SMin(S) == CHOOSE x \in S : \A y \in S : x <= y
RECURSIVE AscSeq(_)
AscSeq(S) == IF S = {} THEN <<>> ELSE LET x == SMin(S) IN <<x>> \o AscSeq(S \ {x})
MesoGrids(lo, hi) == {AscSeq(T) : T \in {S \in SUBSET (1..9) : Cardinality(S) \in lo..hi}}
\* volume increments in tenths of cm3: every pattern over {0, 1, 2} (0 = plateau allowed by the quantifier)
RECURSIVE IncPatterns(_)
IncPatterns(n) == IF n = 0 THEN {<<>>} ELSE {<<d>> \o s : d \in 0..2, s \in IncPatterns(n - 1)}
RECURSIVE CumFrom(_, _, _)
CumFrom(v0, incs, i) == IF i > Len(incs) THEN <<>> ELSE <<RAdd(v0, R(incs[i], 10))>> \o CumFrom(RAdd(v0, R(incs[i], 10)), incs, i + 1)
VolOf(v0, incs) == <<v0>> \o CumFrom(v0, incs, 1)           \* V[1] = v0, V[j+1] = V[j] + incs[j]/10

\* expected values of one scenario: grid g (indices into the universe), volumes V, tables tk / rk
WidthAt(g, tk, rk, j) == RMul(RInt(2), RAdd(rk[g[j]], tk[g[j]]))
ExactWidths(g, tk, rk) == [j \in 1..Len(g) |-> WidthAt(g, tk, rk, j)]
ExactVolumes(V) == [j \in 1..(Len(V) - 1) |-> RSub(V[j + 1], V[j])]                 \* zero thickness only
ExactDist(g, V, tk, rk) == [j \in 1..(Len(V) - 1) |-> RDiv(RSub(V[j + 1], V[j]), RSub(WidthAt(g, tk, rk, j + 1), WidthAt(g, tk, rk, j)))]
ExactCum(V) == [j \in 1..(Len(V) - 1) |-> V[j + 1]]                                   \* zero thickness: cumulative after interval j
ExactTotal(V) == RSub(V[Len(V)], V[1])

\* ------------------------------------------------------------------ meniscus table
MeniscusSpec(branch, pore) ==
   CASE pore = "slit" -> "hemicylindrical"
     [] pore = "cylinder" /\ branch = "ads" -> "cylindrical"
     [] pore = "cylinder" /\ branch = "des" -> "hemispherical"
     [] pore \in {"sphere", "halfopen-cylinder"} -> "hemispherical"
     [] OTHER -> "refuse"
\* geometry factor as <<num, den>>
GeoFactor(m) == CASE m = "cylindrical" -> <<2, 1>> [] m = "hemispherical" -> <<1, 1>> [] m = "hemicylindrical" -> <<1, 2>>

\* ------------------------------------------------------------------ observation tier (DecFloat)
D2 == DFromInt(2)
RGas == <<83144626, -7>>                               \* 8.3144626 J / (mol K)
KJS == <<30000000, -8>>                                \* 0.3 nm
DScaleQ(x, q) == DDiv(DMul(x, DFromInt(q[1])), DFromInt(q[2]))
\* 2 gamma M / (rho R T): surface tension mN/m, M g/mol, rho g/cm3 -> nm
KelvinConst(ad) == DDiv(DMul(DMul(D2, ad.gamma), DDiv(ad.mm, ad.rho)), DMul(RGas, ad.temp))
\* Kelvin radius the equation predicts at ln p (negative) for meniscus m
KelvinR(ad, m, lnp) == DDiv(KelvinConst(ad), DScaleQ(DNeg(lnp), GeoFactor(m)))

Tol(k) == DTol(k)
Near(a, b, k, scale) == DCloseAbs(a, b, Tol(k), DMul(Tol(k), scale))
\* folds over observation sequences; the accumulator is inspected at every step so that TLC
\* evaluates it eagerly (a chain of 60 lazy DAdd thunks overflows the Java stack)
RECURSIVE DMaxAbs(_, _, _)
DMaxAbs(s, i, acc) == IF acc[1] = acc[1] /\ i > Len(s) THEN acc ELSE DMaxAbs(s, i + 1, DMax(acc, DAbs(s[i])))
MaxAbs(s) == DMaxAbs(s, 1, DZero)
RECURSIVE MSumRec(_, _, _)
MSumRec(s, i, acc) == IF acc[1] = acc[1] /\ i > Len(s) THEN acc ELSE MSumRec(s, i + 1, DAdd(acc, s[i]))
MSum(s) == MSumRec(s, 1, DZero)

\* q: [V, t, rk, widths, volumes, dist, cum (possibly <<>>), zero (BOOLEAN), step, tolk (tolerance exponent)], all over the window used
N(q) == Len(q.V)
SpecW(q, j) == DMul(D2, DAdd(q.rk[j], q.t[j]))
WidthsLower(q) == \A j \in 1..(N(q) - 1) : DClose(q.widths[j], SpecW(q, j), Tol(q.tolk))
WidthsUpper(q) == \A j \in 1..(N(q) - 1) : DClose(q.widths[j], SpecW(q, j + 1), Tol(q.tolk))
ClWidths(q) == Len(q.widths) = N(q) - 1 /\ (WidthsLower(q) \/ WidthsUpper(q))
ClIncreasing(q) == \A j \in 1..(Len(q.widths) - 1) : DLt(q.widths[j], q.widths[j + 1])
VScale(q) == DMax(DAbs(DSub(q.V[N(q)], q.V[1])), MaxAbs(q.volumes))
ClZeroExact(q) == q.zero => LET vs == VScale(q) IN
                            /\ \A j \in 1..(N(q) - 1) : Near(q.volumes[j], DSub(q.V[j + 1], q.V[j]), q.tolk, DMax(vs, DAbs(q.V[j + 1])))
                            /\ Near(MSum(q.volumes), DSub(q.V[N(q)], q.V[1]), q.tolk, DMax(vs, DAbs(q.V[N(q)])))
ClDensity(q) == LET vs == VScale(q) IN
                \* (the absolute scale covers the cancellation in the width increment of 8-digit decimals)
                \A j \in 1..(N(q) - 1) : Near(DMul(q.dist[j], DSub(SpecW(q, j + 1), SpecW(q, j))), q.volumes[j], q.tolk,
                                               DMax(vs, DMul(DAbs(q.dist[j]), DAdd(SpecW(q, j + 1), SpecW(q, j)))))
ClCumulative(q) == Len(q.cum) = 0 \/ LET vs == VScale(q) IN
                   /\ Len(q.cum) = N(q) - 1
                   /\ Near(q.cum[N(q) - 1], q.V[N(q)], q.tolk, vs)
                   /\ \A j \in 2..(N(q) - 1) : Near(DSub(q.cum[j], q.cum[j - 1]), q.volumes[j], q.tolk, DMax(vs, DAbs(q.cum[j])))
ClShape(q) == Len(q.volumes) = N(q) - 1 /\ Len(q.dist) = N(q) - 1

\* single condensation step between points s and s + 1 (1-based, within the window): the pore volumes
\* have their maximum at the step interval, the pore volume attributed to all other widths is not positive
\* beyond 5 % of the peak (with a non-zero layer the recurrences leave small negative - and, through
\* their feedback, minute positive - artefacts there: at most 0.8 % on the unchanged tree), and with
\* the zero-thickness layer every other entry is exactly zero.
ArgMax(s) == CHOOSE i \in 1..Len(s) : \A j \in 1..Len(s) : DLeq(s[j], s[i])
PosPart(q) == [j \in 1..(N(q) - 1) |-> IF j # q.step /\ DLt(DZero, q.volumes[j]) THEN q.volumes[j] ELSE DZero]
PeakShare == <<50000000, -9>>                                                       \* 0.05
ClSingleStep(q) ==
   q.step = 0 \/
   LET dv == DSub(q.V[q.step + 1], q.V[q.step])
       eps == DMul(Tol(q.tolk), dv)
       pk == ArgMax(q.volumes)        \* the peak of the pore-volume histogram (the density over very unequal width
                                      \* increments can be dominated by a minute artefact in a 0.1 nm bin; Density ties the two)
   IN /\ DLt(DZero, q.volumes[q.step])                                               \* a peak where the step is
      /\ DLeq(MSum(PosPart(q)), DMul(PeakShare, q.volumes[q.step]))                   \* and no second one
      /\ (q.zero => \A j \in 1..(N(q) - 1) : j # q.step => DLeq(DAbs(q.volumes[j]), eps))
      /\ pk = q.step
      /\ DLeq(DMul(SpecW(q, q.step), DSub(DFromInt(1), Tol(q.tolk))), q.widths[pk])   \* at the Kelvin-predicted width of the step
      /\ DLeq(q.widths[pk], DMul(SpecW(q, q.step + 1), DAdd(DFromInt(1), Tol(q.tolk))))

PsdClauses(q) ==
   << <<"shape", ClShape(q)>>, <<"widths", ClShape(q) /\ ClWidths(q)>>, <<"increasing", ClIncreasing(q)>>,
      <<"zero_exact", ClShape(q) /\ ClZeroExact(q)>>, <<"density", ClShape(q) /\ ClDensity(q)>>,
      <<"cumulative", ClShape(q) /\ ClCumulative(q)>>, <<"single_step", ClShape(q) /\ ClSingleStep(q)>> >>
Failing(cl) == {cl[i][1] : i \in {j \in 1..Len(cl) : ~cl[j][2]}}

\* Kelvin observations: q.lnp[j], q.r[m][j] for the three menisci, q.kjs[j]
Menisci == {"cylindrical", "hemispherical", "hemicylindrical"}
ClKelvinEq(q, m) == \A j \in 1..Len(q.lnp) : DClose(DMul(DMul(q.r[m][j], DScaleQ(DNeg(q.lnp[j]), GeoFactor(m))), DMul(RGas, q.ad.temp)),
                                                    DMul(DMul(D2, q.ad.gamma), DDiv(q.ad.mm, q.ad.rho)), Tol(q.tolk))
ClKelvinRatios(q) == \A j \in 1..Len(q.lnp) : /\ DClose(q.r["hemispherical"][j], DMul(D2, q.r["cylindrical"][j]), Tol(6))
                                              /\ DClose(q.r["hemicylindrical"][j], DMul(D2, q.r["hemispherical"][j]), Tol(6))
ClKelvinKJS(q) == \A j \in 1..Len(q.lnp) : DClose(DSub(q.kjs[j], KJS), q.r["hemispherical"][j], Tol(q.tolk))
ClKelvinMonotone(q) == \A m \in Menisci : \A j \in 1..(Len(q.lnp) - 1) : DLt(q.r[m][j], q.r[m][j + 1])
KelvinClauses(q) ==
   << <<"kelvin_cylindrical", ClKelvinEq(q, "cylindrical")>>, <<"kelvin_hemispherical", ClKelvinEq(q, "hemispherical")>>,
      <<"kelvin_hemicylindrical", ClKelvinEq(q, "hemicylindrical")>>, <<"kelvin_ratios", ClKelvinRatios(q)>>,
      <<"kelvin_kjs", ClKelvinKJS(q)>>, <<"kelvin_increasing", ClKelvinMonotone(q)>> >>
=============================================================================
