SPECIFICATION Spec
INVARIANT HistoryIndependent
INVARIANT NeverStale
VIEW View
CHECK_DEADLOCK FALSE
