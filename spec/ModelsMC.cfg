SPECIFICATION Spec
INVARIANT Rows
INVARIANT Zeros
INVARIANT GridShape
INVARIANT GeneralGridShape
PROPERTY Monotone
CHECK_DEADLOCK FALSE
