SPECIFICATION Spec
CONSTANT StoredLM <- StoredQuick
INVARIANT OnlyKnownDivergences
CHECK_DEADLOCK FALSE
