------------------------------ MODULE BackendMC ------------------------------
(***************************************************************************)
(* The fallback machine explored exhaustively: any adsorbate kind, any     *)
(* sequence of property-method calls, with the hidden CoolProp state       *)
(* object (`_state`: absent / created) the implementation carries between  *)
(* calls.  Invariants: the implementation-shaped outcome is always one the *)
(* property allows, it never depends on the hidden state or on the         *)
(* previous call, the backend value is never returned when the backend     *)
(* cannot provide it ("never a silent wrong number"), and a unit is        *)
(* honoured whenever a backend value is returned.                          *)
(***************************************************************************)
EXTENDS Backend

VARIABLES ads, hid, last
vars == <<ads, hid, last>>

Units3 == {NoUnit, "bar", "torr"}
Calls == {[m |-> m, calc |-> c, unit |-> u] : m \in Methods, c \in BOOLEAN, u \in Units3}
ValidCall(c) == c.unit = NoUnit \/ c.m \in PsatM

\* branch of the saturation curve a method must read, and the branch its last flash leaves the state on
NeedsBranch(m) == IF m \in {"gas_density", "gas_molar_density"} THEN "vapour"
                  ELSE IF m \in {"enthalpy_liquefaction", "enthalpy_vaporisation"} THEN "both" ELSE "liquid"
LeavesOn(m) == IF NeedsBranch(m) = "liquid" THEN "liquid" ELSE "vapour"

Init == /\ ads \in [link : Links, user : BOOLEAN]
        /\ hid = "absent"
        /\ last = [kind |-> "new"]

\* `can` is the environment's choice, but the backend can only deliver for a usable link
Call(c, can) ==
   /\ ValidCall(c)
   /\ can => ads.link = "valid"
   /\ ads' = ads
   \* adsorbate.py:218-225: the state object is created on first use of self.backend;
   \* p_triple goes through PropsSI and never touches it; creation fails for a bogus/absent name
   \* the state object remembers the last saturation flash: temperature and BRANCH (Q = 0 liquid, Q = 1 vapour)
   /\ hid' = IF c.calc /\ ads.link = "valid" /\ c.m # "p_triple"
             THEN (IF c.m \in TDep /\ can THEN LeavesOn(c.m) ELSE IF hid = "absent" THEN "created" ELSE hid)
             ELSE IF c.calc /\ ads.link # "valid" /\ c.m # "p_triple" THEN "creation failed"
             \* adsorbate.py:218-225 records _backend_mode BEFORE the state object is created: after one failed
             \* creation self.backend silently returns None instead of raising - the outcome must not depend on it
             ELSE hid
   /\ last' = [kind |-> "call", call |-> c, can |-> can,
               out |-> ImplOutcome(ads.link, can, ads.user, c.calc),
               unit_applied |-> ImplUnitApplied(c.m, c.calc, c.unit),
               \* adsorbate.py: every temperature-dependent method re-flashes on ITS branch before reading the
               \* state, whatever the previous call left behind (hid is deliberately not consulted)
               branch_read |-> IF c.m \in TDep THEN NeedsBranch(c.m) ELSE "na"]
New == /\ ads' \in [link : Links, user : BOOLEAN] /\ hid' = "absent" /\ last' = [kind |-> "new"]
Next == New \/ \E c \in Calls, can \in BOOLEAN : Call(c, can)
Spec == Init /\ [][Next]_vars

InvAllowed == last.kind = "call" => last.out \in SpecOutcomes(last.can, ads.user, last.call.calc)
InvNoSilentBackend == last.kind = "call" /\ last.out = "backend" => last.can /\ last.call.calc
InvUnitHonoured == last.kind = "call" /\ last.out = "backend" /\ last.call.unit # NoUnit => last.unit_applied
\* the value read is from the branch the method is about, in every hidden state (liquid / vapour / none left behind)
InvBranch == last.kind = "call" /\ last.call.m \in TDep => last.branch_read = NeedsBranch(last.call.m)
\* for every state and every call: outcome is a function of (link, user, can, call) only
InvHistoryFree == \A c \in Calls, can \in BOOLEAN :
                     (ValidCall(c) /\ (can => ads.link = "valid")) =>
                        ImplOutcome(ads.link, can, ads.user, c.calc) \in SpecOutcomes(can, ads.user, c.calc)
=============================================================================
