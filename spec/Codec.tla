------------------------------- MODULE Codec -------------------------------
(***************************************************************************)
(* The pyGAPS isotherm codecs (JSON, CSV, Excel, AIF) - properties C06/C07. *)
(*                                                                         *)
(*  1. abstract metadata values / keys: feature records and the value      *)
(*     classes the scenarios are drawn from (VCTable)                      *)
(*  2. Spec (prescriptive): the value DOMAIN of every format, written from *)
(*     the quantifier text of the properties, and the verdicts it allows   *)
(*  3. Impl (descriptive): what the code does to one metadata entry on an  *)
(*     export/import round trip - a transcription of `_to_string` /        *)
(*     `cast_string` (none -> bool -> int -> float -> list -> str) and of  *)
(*     the key handling of each parser.  Never the source of a verdict.    *)
(*  4. Content relation: the clauses of C06 (exact) and C07 (by value, 8   *)
(*     decimals) over projected isotherm contents, and the judgement of a  *)
(*     recorded round trip                                                 *)
(*  5. Scenario enumeration: full products of the interacting dimensions   *)
(*     and an orthogonal-array slice that covers every pair of values      *)
(***************************************************************************)
EXTENDS Integers, Sequences, FiniteSets, TLC, TLCExt

NA == "na"
Formats == {"json", "csv", "xl", "aif"}

(***************************************************************************)
(* 1. Abstract metadata values                                             *)
(***************************************************************************)
\* py    : Python type            none bool int float str list dict
\* spell : what a TEXT spells     plain int float bool none empty list_ok list_bad
\* sep   : the written form contains the separator of the scenario
\* quote : none | inner | edge    (a quote character inside / at either end)
\* nl    : none | inner | trail   (line break)
\* pad   : none | lead | trail | both   (white space around the text)
\* neg, big : negative integer, |integer| > 2^53
\* num   : frac | integral | nan | inf          (floats)
\* items : empty num1 num str1 str nested (lists)   one many (dicts)
V(py, spell, sep, quote, nl, pad, neg, big, num, items) ==
  [py |-> py, spell |-> spell, sep |-> sep, quote |-> quote, nl |-> nl, pad |-> pad,
   neg |-> neg, big |-> big, num |-> num, items |-> items]
Str(spell, sep, quote, nl, pad) == V("str", spell, sep, quote, nl, pad, FALSE, FALSE, NA, NA)
PlainStr == Str("plain", FALSE, "none", "none", "none")
IntV(neg, big) == V("int", NA, FALSE, "none", "none", "none", neg, big, NA, NA)
FloatV(num) == V("float", NA, FALSE, "none", "none", "none", FALSE, FALSE, num, NA)
BoolV == V("bool", NA, FALSE, "none", "none", "none", FALSE, FALSE, NA, NA)
NoneV == V("none", NA, FALSE, "none", "none", "none", FALSE, FALSE, NA, NA)
ListV(items, sep) == V("list", NA, sep, "none", "none", "none", FALSE, FALSE, NA, items)
DictV(items, sep) == V("dict", NA, sep, "none", "none", "none", FALSE, FALSE, NA, items)

\* value classes of the scenario table -> admissible feature records of a representative
VCTable == [
  text_plain    |-> {PlainStr},
  text_unicode  |-> {PlainStr},
  text_space    |-> {PlainStr},
  text_int      |-> {Str("int", FALSE, "none", "none", "none")},
  text_float    |-> {Str("float", FALSE, "none", "none", "none")},
  text_bool     |-> {Str("bool", FALSE, "none", "none", "none")},
  text_none     |-> {Str("none", FALSE, "none", "none", "none")},
  text_empty    |-> {Str("empty", FALSE, "none", "none", "none")},
  text_list     |-> {Str(s, b, "none", "none", "none") : s \in {"list_ok", "list_bad"}, b \in BOOLEAN},
  text_sep      |-> {Str("plain", TRUE, "none", "none", "none")},
  text_quote    |-> {Str("plain", FALSE, q, "none", "none") : q \in {"inner", "edge"}},
  text_newline  |-> {Str("plain", FALSE, "none", n, "none") : n \in {"inner", "trail"}},
  text_padded   |-> {Str("plain", FALSE, "none", "none", p) : p \in {"lead", "trail", "both"}},
  int           |-> {IntV(n, FALSE) : n \in BOOLEAN},
  int_large     |-> {IntV(n, TRUE) : n \in BOOLEAN},
  float         |-> {FloatV("frac")},
  float_integral|-> {FloatV("integral")},
  float_extreme |-> {FloatV("frac")},
  float_nan     |-> {FloatV("nan")},
  float_inf     |-> {FloatV("inf")},
  bool          |-> {BoolV},
  none          |-> {NoneV},
  list_num      |-> {ListV(i, b) : i \in {"num1", "num"}, b \in BOOLEAN},
  list_str      |-> {ListV(i, b) : i \in {"str1", "str"}, b \in BOOLEAN},
  list_nested   |-> {ListV("nested", b) : b \in BOOLEAN},
  list_empty    |-> {ListV("empty", FALSE)},
  dict          |-> {DictV(i, b) : i \in {"one", "many"}, b \in BOOLEAN}
]
VCSeq == <<"text_plain", "text_unicode", "text_space", "text_int", "text_float", "text_bool", "text_none",
           "text_empty", "text_list", "text_sep", "text_quote", "text_newline", "text_padded", "int",
           "int_large", "float", "float_integral", "float_extreme", "float_nan", "float_inf", "bool",
           "none", "list_num", "list_str", "list_nested", "list_empty", "dict">>
ASSUME {VCSeq[i] : i \in 1..Len(VCSeq)} = DOMAIN VCTable /\ Len(VCSeq) = Cardinality(DOMAIN VCTable)
AllValues == UNION {VCTable[c] : c \in DOMAIN VCTable}

\* key classes: plain / non-ASCII / containing a blank / containing the separator / containing a quote /
\* colliding with the prefix under which the format stores material properties /
\* one of the names AIF maps to its own typed tags (text-typed: user, date, ...; float-typed: material_mass, ...)
KCSeq == <<"key_plain", "key_unicode", "key_space", "key_sep", "key_quote", "key_prefix", "key_aiftag", "key_aifnum">>
KeyClasses == {KCSeq[i] : i \in 1..Len(KCSeq)}

(***************************************************************************)
(* 2. Spec: value domains from the quantifier text, allowed verdicts       *)
(*    "in"   : the property promises preservation                          *)
(*    "out"  : a value the format cannot carry: preserved or refused with  *)
(*             a pyGAPS error, never changed                               *)
(*    "edge" : the text is silent / ambiguous (None, NaN, padded text, ..):*)
(*             judged like "out" (every defensible reading accepted)       *)
(***************************************************************************)
KeyDom(fmt, kc) ==
  CASE fmt \in {"json", "xl"} -> "in"         \* any non-reserved key / Excel: the quantifier restricts values only
    [] fmt = "csv" -> IF kc \in {"key_space", "key_sep"} THEN "out" ELSE "in"   \* "keys without separator or blank"
    [] fmt = "aif" -> IF kc = "key_space" THEN "out"                             \* blank separates CIF tokens
                      ELSE IF kc = "key_unicode" THEN "edge" ELSE "in"           \* CIF tags are ASCII
SpellsOther(v) == v.spell \in {"int", "float", "bool", "none", "empty", "list_ok", "list_bad"}
ValDom(fmt, v) ==
  IF fmt = "json"
  THEN (IF v.py = "float" /\ v.num \in {"nan", "inf"} THEN "edge" ELSE "in")   \* every JSON-representable value
  ELSE IF v.py \in {"list", "dict"} THEN "out"             \* "numbers, booleans, plain text" / Excel: scalars
  ELSE IF v.py = "none" THEN "edge"
  ELSE IF v.py \in {"bool", "int"} THEN "in"
  ELSE IF v.py = "float" THEN (IF v.num \in {"nan", "inf"} THEN "edge" ELSE "in")
  ELSE IF fmt = "xl" THEN (IF v.spell = "empty" THEN "edge" ELSE "in")
  ELSE \* csv / aif text: "not itself the spelling of a number, boolean, none or list and does not contain the separator/quote"
       IF SpellsOther(v) THEN "out"
       ELSE IF (fmt = "csv" /\ v.sep) \/ v.quote # "none" \/ v.nl # "none" THEN "out"
       ELSE IF v.pad # "none" THEN "edge" ELSE "in"
Worst(a, b) == IF "out" \in {a, b} THEN "out" ELSE IF "edge" \in {a, b} THEN "edge" ELSE "in"
Domain(fmt, kc, v) == Worst(KeyDom(fmt, kc), ValDom(fmt, v))
\* data the format's domain does not clearly admit: an empty text cell cannot be told from a missing one in CSV, AIF
\* and Excel (judged "preserved or refused"); JSON carries it
\* text cells that spell numbers / booleans / None: by the same reading as for metadata text they are outside what
\* the text formats promise to carry ("preserved or refused", never changed)
LayoutDom(fmt, layout) ==
  IF layout \in {"extra_text_empty", "extra_text_numlike", "extra_text_wordlike"} /\ fmt # "json" THEN "edge" ELSE "in"
\* verdict classes: preserved | refused_pg (a pyGAPS error) | refused_other (any other exception) | changed
Allowed(dom) == IF dom = "in" THEN {"preserved"} ELSE {"preserved", "refused_pg"}

(***************************************************************************)
(* 3. Impl: one metadata entry through Export;Import of each parser.       *)
(*    Result: [res |-> "ok", kc, v] | [res |-> "refused", exc, pg] |       *)
(*            [res |-> "unknown"] (not modelled: outcome depends on detail)*)
(*    kc may become "material" (entry re-attached to the material) or      *)
(*    "lost" / "renamed".                                                  *)
(***************************************************************************)
Ok(kc, v) == [res |-> "ok", kc |-> kc, v |-> v, exc |-> "", pg |-> FALSE]
Refused(exc, pg) == [res |-> "refused", kc |-> "", v |-> NoneV, exc |-> exc, pg |-> pg]
Unknown == [res |-> "unknown", kc |-> "", v |-> NoneV, exc |-> "", pg |-> FALSE]

\* utilities/string_utilities.py cast_string on a text with the given spelling;
\* `wrapped`: the caller turns any exception into ParsingError (csv.py does, aif.py does not)
CastString(kc, v, wrapped) ==
  CASE v.spell \in {"none", "empty"} -> Ok(kc, NoneV)
    [] v.spell = "bool"  -> Ok(kc, BoolV)
    [] v.spell = "int"   -> Ok(kc, IntV(FALSE, FALSE))        \* str.isnumeric(): digits only
    [] v.spell = "float" -> Ok(kc, FloatV("frac"))
    [] v.spell = "list_ok"  -> Ok(kc, ListV("num", FALSE))
    [] v.spell = "list_bad" -> IF wrapped THEN Refused("ParsingError", TRUE) ELSE Refused("ValueError|SyntaxError", FALSE)
    [] OTHER -> Ok(kc, v)

\* csv.py: line = key + sep + _to_string(value); read: line.strip().split(sep), cast_string(value)
ImplCsvValue(kc, v, sep) ==
  CASE v.py = "str" ->
         IF v.sep THEN Refused("ParsingError", TRUE)                  \* more than two values on the line
         ELSE IF v.spell = "empty" /\ sep = "tab" THEN Refused("ParsingError", TRUE)   \* rstrip() eats the trailing separator
         ELSE IF v.nl = "inner" THEN Refused("ParsingError", TRUE)    \* continuation line has no separator
         ELSE IF v.nl = "trail" THEN Ok(kc, Str("plain", FALSE, v.quote, "none", "none"))   \* rstrip; the blank line ends the header early
         ELSE IF v.spell = "plain"
              THEN (IF v.pad \in {"trail", "both"} THEN Ok(kc, Str("plain", FALSE, v.quote, "none", IF v.pad = "both" THEN "lead" ELSE "none"))
                    ELSE Ok(kc, v))
              ELSE CastString(kc, v, TRUE)
    [] v.py \in {"none", "bool", "float"} -> Ok(kc, v)                \* 'None' 'True' repr(float) read back
    [] v.py = "int" -> IF v.neg THEN Ok(kc, FloatV("integral")) ELSE Ok(kc, v)   \* '-12'.isnumeric() is False
    [] v.py = "list" -> CASE v.items \in {"empty", "num1", "num"} -> Ok(kc, v)  \* '[1 2 3]' -> literal_eval('[1,2,3]')
                          [] v.items \in {"str1", "str"} -> Refused("ParsingError", TRUE)   \* '[a b]' is not a literal
                          [] OTHER -> Unknown
    [] v.py = "dict" -> IF v.sep THEN Refused("ParsingError", TRUE)
                        ELSE Ok(kc, Str("plain", FALSE, "inner", "none", "none"))           \* str(dict) read as text
ImplCsv(kc, v, sep) ==
  IF kc = "key_sep" THEN (IF v.py = "str" /\ v.spell = "empty" /\ sep = "tab" THEN Unknown ELSE Refused("ParsingError", TRUE))
  ELSE LET r == ImplCsvValue(kc, v, sep) IN
       IF r.res = "ok" /\ kc = "key_prefix" THEN Ok("material", r.v) ELSE r

\* aif.py: _pygaps_<key with ' ' -> '_'> '<str(value)>'; read: value.strip("'"), cast_string (not wrapped);
\* keys named like AIF's own tags go through typed converters; 'sample_*' keys become material properties
\* a document gemmi cannot parse is refused with ParsingError on both routes (string and file)
AifUnparsable(tgt) == Refused("ParsingError", TRUE)
ImplAifValue(kc, v, tgt) ==
  CASE v.py = "str" ->
         IF v.nl # "none" THEN AifUnparsable(tgt)                     \* the CIF document does not parse
         ELSE IF v.quote = "edge" THEN Ok(kc, Str(v.spell, v.sep, "none", "none", v.pad))  \* strip("'")
         ELSE IF v.spell = "plain" THEN Ok(kc, v)
         ELSE CastString(kc, v, FALSE)
    [] v.py \in {"none", "bool", "float"} -> Ok(kc, v)
    [] v.py = "int" -> IF v.neg THEN Ok(kc, FloatV("integral")) ELSE Ok(kc, v)
    [] v.py = "list" -> CASE v.items \in {"empty", "num1", "str1"} -> Ok(kc, v)   \* str(list) without blanks is a literal
                          [] OTHER -> Refused("ValueError|SyntaxError", FALSE)         \* '[1, 2]' -> '[1,,2]'
    [] v.py = "dict" -> Ok(kc, Str("plain", v.sep, "inner", "none", "none"))
ImplAif(kc, v, tgt) ==
  CASE kc = "key_unicode" -> AifUnparsable(tgt)
    [] kc = "key_space" -> LET r == ImplAifValue(kc, v, tgt) IN IF r.res = "ok" THEN Ok("renamed", r.v) ELSE r
    [] kc = "key_prefix" -> LET r == ImplAifValue(kc, v, tgt) IN IF r.res = "ok" THEN Ok("material", r.v) ELSE r
    [] kc = "key_aiftag" ->        \* written quoted, read back with type str
         IF v.py = "str" THEN (IF v.nl # "none" THEN AifUnparsable(tgt)
                               ELSE IF v.quote = "edge" THEN Ok(kc, Str(v.spell, v.sep, "none", "none", v.pad)) ELSE Ok(kc, v))
         ELSE IF v.py \in {"list", "dict"} THEN Ok(kc, Str("plain", v.sep, "inner", "none", "none"))
         ELSE Ok(kc, Str(CASE v.py = "none" -> "none" [] v.py = "bool" -> "bool"
                           [] v.py = "int" -> (IF v.neg THEN "float" ELSE "int") [] OTHER -> "float",
                         FALSE, "none", "none", "none"))
    [] kc = "key_aifnum" ->        \* read back with float(); failure is logged and the entry dropped
         CASE v.py \in {"int", "float"} -> Ok(kc, FloatV(IF v.py = "int" THEN "integral" ELSE v.num))
           [] v.py = "bool" -> Ok("lost", v)
           [] v.py = "str" /\ v.spell \in {"int", "float"} /\ v.nl = "none" -> Ok(kc, FloatV("frac"))
           [] v.py = "str" /\ v.nl # "none" -> AifUnparsable(tgt)
           [] OTHER -> Ok("lost", v)
    [] OTHER -> ImplAifValue(kc, v, tgt)

\* excel.py: sheet 'otherdata', xlwt cell per value; numbers are doubles, '' and None are empty cells
ImplXlValue(kc, v) ==
  CASE v.py = "str" -> IF v.spell = "empty" THEN Ok(kc, NoneV) ELSE Ok(kc, v)
    [] v.py \in {"none", "bool", "float"} -> Ok(kc, v)
    [] v.py = "int" -> Ok(kc, FloatV("integral"))
    [] v.py = "list" -> CASE v.items = "empty" -> Ok(kc, NoneV)
                          [] v.items \in {"str1", "str"} -> Ok(kc, PlainStr)      \* xlwt takes a list of texts as rich text
                          [] v.items = "nested" -> Refused("Exception|IndexError", FALSE)
                          [] OTHER -> Refused("Exception", FALSE)                 \* xlwt: unexpected data type
    [] v.py = "dict" -> Refused("Exception", FALSE)
ImplXl(kc, v) ==
  LET r == ImplXlValue(kc, v) IN IF r.res = "ok" /\ kc = "key_prefix" THEN Ok("material", r.v) ELSE r

ImplJson(kc, v) == Ok(kc, v)

\* ctx = [tgt |-> "string" | "file", sep |-> "comma" | "semicolon" | "tab" | "na"]
Ctx(tgt, sep) == [tgt |-> tgt, sep |-> sep]
Impl(fmt, kc, v, ctx) == CASE fmt = "json" -> ImplJson(kc, v) [] fmt = "csv" -> ImplCsv(kc, v, ctx.sep)
                           [] fmt = "xl" -> ImplXl(kc, v) [] fmt = "aif" -> ImplAif(kc, v, ctx.tgt)

\* outcome label of one entry: <<what, detail>>
KindOf(py) == IF py \in {"int", "float"} THEN "num" ELSE py
Classify(kc, v, r) ==
  CASE r.res = "unknown" -> <<"unknown", "">>
    [] r.res = "refused" -> <<IF r.pg THEN "refused_pg" ELSE "refused_other", r.exc>>
    [] r.kc = "material" -> <<"to_material", "">>
    [] r.kc = "lost" -> <<"lost", "">>
    [] r.kc = "renamed" -> <<"renamed", "">>
    [] r.v = v -> <<"same", "">>
    [] KindOf(r.v.py) # KindOf(v.py) -> <<"retyped", r.v.py>>
    [] r.v.py # v.py -> <<IF v.big THEN "value_changed" ELSE "same_value", r.v.py>>
    [] OTHER -> <<"value_changed", r.v.py>>
ImplLabel(fmt, kc, v, ctx) == Classify(kc, v, Impl(fmt, kc, v, ctx))
\* does an observed label coincide with a predicted one (a refusal may name alternative exception classes)
ExcNames(s) == CASE s = "ValueError|SyntaxError" -> {"ValueError", "SyntaxError"}
                 [] s = "Exception|IndexError" -> {"Exception", "IndexError"} [] OTHER -> {s}
Agrees(pred, obs) == /\ pred[1] = obs[1]
                     /\ IF pred[1] \in {"refused_pg", "refused_other"} THEN obs[2] \in ExcNames(pred[2]) ELSE pred[2] = obs[2]
\* verdict class the label amounts to under C07 (by value) / C06 (exact)
LabelVerdict(l, exact) ==
  CASE l[1] = "same" -> "preserved"
    [] l[1] = "same_value" -> IF exact THEN "changed" ELSE "preserved"
    [] l[1] \in {"refused_pg", "refused_other"} -> l[1]
    [] l[1] = "unknown" -> "unknown"
    [] OTHER -> "changed"
\* design-level divergence list: where the transcription leaves the specification
ImplDiverges(fmt, kc, v, ctx) ==
  LET vd == LabelVerdict(ImplLabel(fmt, kc, v, ctx), fmt = "json") IN
  vd # "unknown" /\ vd \notin Allowed(Domain(fmt, kc, v))

(***************************************************************************)
(* 4. Content relation over projected isotherms                            *)
(*    entry : [k, kind, tag, strict, loose]   (harness/codec_common.canon) *)
(*    cell  : <<repr, sign, integer part, 9 fixed decimals | -1>>          *)
(***************************************************************************)
StrictEq(a, b) == a.kind = b.kind /\ a.tag = b.tag /\ a.strict = b.strict
LooseEq(a, b) == a.kind = b.kind /\ a.loose = b.loose
EntryEq(a, b, exact) == IF exact THEN StrictEq(a, b) ELSE LooseEq(a, b)
PyOf(e) == IF e.kind = "num" THEN e.tag ELSE e.kind

\* |a - b| <= 6e-9: a value and its rounding to 8 decimals (0.5e-8) plus the 9-decimal quantisation
Tol9 == 6
Giga == 1000000000
Abs(x) == IF x < 0 THEN -x ELSE x
CellExact(a, b) == a[1] = b[1]
CellClose(a, b) ==
  IF a[4] = -1 \/ b[4] = -1 THEN a[1] = b[1]
  ELSE IF a[2] # b[2]
       THEN a[3] = 0 /\ b[3] = 0 /\ a[4] + b[4] <= Tol9
       ELSE \/ a[3] = b[3] /\ Abs(a[4] - b[4]) <= Tol9
            \/ a[3] = b[3] + 1 /\ a[4] + (Giga - b[4]) <= Tol9
            \/ b[3] = a[3] + 1 /\ b[4] + (Giga - a[4]) <= Tol9
CellEq(a, b, exact) == IF exact THEN CellExact(a, b) ELSE CellClose(a, b)
SeqAll(s, t, P(_, _)) == Len(s) = Len(t) /\ \A i \in 1..Len(s) : P(s[i], t[i])

Keys(es) == {es[i].k : i \in 1..Len(es)}
Get(es, k) == es[CHOOSE i \in 1..Len(es) : es[i].k = k]
EntriesEq(x, y, exact) == Keys(x) = Keys(y) /\ \A k \in Keys(x) : EntryEq(Get(x, k), Get(y, k), exact)

\* the clauses; each is named so that a rejected round trip says which part of the content moved
LabelsOK(b, a, exact) == SeqAll(b.labels, a.labels, LAMBDA x, y : EntryEq(x, y, exact))
MaterialOK(b, a, exact) == EntryEq(b.material, a.material, exact) /\ EntriesEq(b.matprops, a.matprops, exact)
\* when a same-named material with OTHER properties is registered in the session at import time, the importer may hand
\* back the registered object enriched with its own extra keys; what the clause then demands is that every property
\* the document carries arrives with the document's value (the registry itself is not judged)
MaterialCarried(b, a, exact) ==
  /\ EntryEq(b.material, a.material, exact)
  /\ \A k \in Keys(b.matprops) : k \in Keys(a.matprops) /\ EntryEq(Get(b.matprops, k), Get(a.matprops, k), exact)
BasicsOK(b, a, exact) == EntryEq(b.adsorbate, a.adsorbate, exact)
TemperatureOK(b, a, exact) == IF exact THEN StrictEq(b.temperature, a.temperature) ELSE CellClose(b.tnum, a.tnum)
OtherMetaOK(b, a, exact, focus) ==
  LET kb == Keys(b.meta) \ {focus}  ka == Keys(a.meta) \ {focus} IN
  kb = ka /\ \A k \in kb : EntryEq(Get(b.meta, k), Get(a.meta, k), exact)
ColumnsOK(b, a) == b.data.cols = a.data.cols /\ b.data.n = a.data.n
CellsOK(b, a, exact) ==
  ColumnsOK(b, a) => \A c \in 1..Len(b.data.cells) : SeqAll(b.data.cells[c], a.data.cells[c], LAMBDA x, y : CellEq(x, y, exact))
BranchOK(b, a) == b.data.branch = a.data.branch          \* assignment AND order of every point
ModelNameOK(b, a) == b.model.name = a.model.name /\ b.model.branch = a.model.branch
\* model parameters and ranges are preserved to full float precision in every format (the 8-decimal clause of
\* C07 speaks about data columns only); `exact` is kept in the signature for symmetry with the data clauses
ParamsOK(b, a, exact) ==
  SeqAll(b.model.params, a.model.params, LAMBDA x, y : x[1] = y[1] /\ CellExact(x[2], y[2]))
RangesOK(b, a, exact) ==
  /\ SeqAll(b.model.prange, a.model.prange, CellExact)
  /\ SeqAll(b.model.lrange, a.model.lrange, CellExact)
RmseOK(b, a) == CellExact(b.model.rmse, a.model.rmse) /\ b.model.rmse_tag = a.model.rmse_tag
PredictOK(b, a) == SeqAll(b.model.pred, a.model.pred, CellExact)

\* the focus entry: observed label in the vocabulary of Classify
FocusLabel(b, a, focus) ==
  IF focus \notin Keys(b.meta) THEN <<"same", "">>
  ELSE IF focus \notin Keys(a.meta)
       THEN (IF Keys(a.matprops) # Keys(b.matprops) THEN <<"to_material", "">>
             ELSE IF Keys(a.meta) \ Keys(b.meta) # {} THEN <<"renamed", "">> ELSE <<"lost", "">>)
       ELSE LET x == Get(b.meta, focus)  y == Get(a.meta, focus) IN
            IF StrictEq(x, y) THEN <<"same", "">>
            ELSE IF x.kind # y.kind THEN <<"retyped", PyOf(y)>>
            ELSE IF x.loose = y.loose THEN <<"same_value", PyOf(y)>>
            ELSE <<"value_changed", PyOf(y)>>

\* content equality that obliges the identifiers to be equal under C07: metadata with types,
\* data by value to 8 decimals, branch marks, model by value
ContentEqual(b, a, focus) ==
  /\ b.cls = a.cls /\ LabelsOK(b, a, TRUE) /\ MaterialOK(b, a, TRUE) /\ BasicsOK(b, a, TRUE)
  /\ TemperatureOK(b, a, TRUE) /\ OtherMetaOK(b, a, TRUE, "") /\ ColumnsOK(b, a) /\ CellsOK(b, a, FALSE)
  /\ BranchOK(b, a) /\ ModelNameOK(b, a) /\ ParamsOK(b, a, TRUE) /\ RangesOK(b, a, TRUE) /\ RmseOK(b, a)

\* failing clauses of a completed round trip; exact = C06, by value = C07
Failing(b, a, exact, focus, docs, reg) ==
     (IF b.cls = a.cls THEN {} ELSE {"class"})
  \cup (IF LabelsOK(b, a, exact) THEN {} ELSE {"unit_labels"})
  \cup (IF (IF reg = "same_different" THEN MaterialCarried(b, a, exact) ELSE MaterialOK(b, a, exact))
           \/ FocusLabel(b, a, focus)[1] = "to_material" THEN {} ELSE {"material"})
  \cup (IF BasicsOK(b, a, exact) THEN {} ELSE {"adsorbate"})
  \cup (IF TemperatureOK(b, a, exact) THEN {} ELSE {"temperature"})
  \cup (IF OtherMetaOK(b, a, exact, focus) \/ FocusLabel(b, a, focus)[1] = "renamed" THEN {} ELSE {"other_metadata"})
  \cup (IF LabelVerdict(FocusLabel(b, a, focus), exact) = "preserved" THEN {} ELSE {"focus_metadata"})
  \cup (IF b.cls # "point" \/ a.cls # "point" THEN {}
        ELSE (IF ColumnsOK(b, a) THEN {} ELSE {"data_columns"})
             \cup (IF CellsOK(b, a, exact) THEN {} ELSE {"data_values"})
             \cup (IF BranchOK(b, a) THEN {} ELSE {"branch_marks"}))
  \cup (IF b.cls # "model" \/ a.cls # "model" THEN {}
        ELSE (IF ModelNameOK(b, a) THEN {} ELSE {"model_name"})
             \cup (IF ParamsOK(b, a, exact) THEN {} ELSE {"model_parameters"})
             \cup (IF RangesOK(b, a, exact) THEN {} ELSE {"model_ranges"})
             \cup (IF exact /\ ~RmseOK(b, a) THEN {"model_rmse"} ELSE {})
             \cup (IF ~PredictOK(b, a) THEN {"model_predictions"} ELSE {}))
  \cup (IF exact /\ reg # "same_different" /\ docs.again # "" /\ docs.again # docs.first THEN {"document_fixpoint"} ELSE {})
  \cup (IF exact /\ docs.string # "" /\ docs.string # docs.first THEN {"file_vs_string_document"} ELSE {})

IdObliged(b, a, exact, focus) == exact \/ ContentEqual(b, a, focus)

\* Judgement of one recorded round trip.
\*   q.fmt q.kc q.feat (feature record of the focus value; "absent" rows carry kc = "none")
\*   q.stage: "done" | "export" | "import";  q.exc, q.pg;  q.before, q.after;  q.focus;  q.docs
Judge(q) ==
  LET exact == q.fmt = "json"
      hasFocus == q.kc # "none"
      dom == Worst(IF hasFocus THEN Domain(q.fmt, q.kc, q.feat) ELSE "in", LayoutDom(q.fmt, q.layout))
      allowed == Allowed(dom)
      impl == IF hasFocus THEN ImplLabel(q.fmt, q.kc, q.feat, Ctx(q.target, q.sep)) ELSE <<"same", "">>
      \* what the model predicts for the same value under a plain key / for a plain text under the same key:
      \* tells whether the value or the key is responsible for the observed behaviour
      implV == IF hasFocus THEN ImplLabel(q.fmt, "key_plain", q.feat, Ctx(q.target, q.sep)) ELSE <<"same", "">>
      implK == IF hasFocus THEN ImplLabel(q.fmt, q.kc, PlainStr, Ctx(q.target, q.sep)) ELSE <<"same", "">>
      vdom == IF hasFocus THEN ValDom(q.fmt, q.feat) ELSE "in"
      kdom == IF hasFocus THEN KeyDom(q.fmt, q.kc) ELSE "in"
  IN
  IF q.stage = "build"
  THEN \* every scenario row describes an isotherm the constructor's own rules admit (valid labels, any metadata):
       \* a refusal while constructing it is never acceptable, whatever the focus entry
       LET vd == IF q.pg THEN "refused_pg" ELSE "refused_other" IN
       [verdict |-> vd, ok |-> FALSE, failing |-> {"valid_isotherm_refused_at_construction"}, dom |-> dom, vdom |-> vdom, kdom |-> kdom,
        ldom |-> LayoutDom(q.fmt, q.layout), allowed |-> {"preserved"},
        focus |-> <<"same", "">>, impl |-> impl, id_equal |-> TRUE, id_obliged |-> FALSE,
        agrees |-> FALSE, by_value |-> FALSE, by_key |-> FALSE]
  ELSE IF q.stage # "done"
  THEN LET vd == IF q.pg THEN "refused_pg" ELSE "refused_other" IN
       [verdict |-> vd, ok |-> vd \in allowed, failing |-> {}, dom |-> dom, vdom |-> vdom, kdom |-> kdom, ldom |-> LayoutDom(q.fmt, q.layout), allowed |-> allowed,
        focus |-> <<vd, q.exc>>, impl |-> impl, id_equal |-> TRUE, id_obliged |-> FALSE,
        agrees |-> Agrees(impl, <<vd, q.exc>>), by_value |-> Agrees(implV, <<vd, q.exc>>), by_key |-> Agrees(implK, <<vd, q.exc>>)]
  ELSE LET \* properties only the registered material has (named by the harness that registered it) are set aside:
           \* they are the registry's, not the document's
           regkeys == {q.regkeys[i] : i \in 1..Len(q.regkeys)}
           aft == [q.after EXCEPT !.matprops = SelectSeq(q.after.matprops, LAMBDA e : e.k \notin regkeys)]
           f == Failing(q.before, aft, exact, q.focus, q.docs, q.reg)
           ob == q.reg # "same_different" /\ IdObliged(q.before, aft, exact, q.focus)
           ideq == q.before.id = q.after.id
           f2 == IF f = {} /\ ob /\ ~ideq THEN {"identifier"} ELSE f
           vd == IF f2 = {} THEN "preserved" ELSE "changed"
           fl == FocusLabel(q.before, aft, q.focus) IN
       [verdict |-> vd, ok |-> vd \in allowed, failing |-> f2, dom |-> dom, vdom |-> vdom, kdom |-> kdom, ldom |-> LayoutDom(q.fmt, q.layout), allowed |-> allowed,
        focus |-> fl, impl |-> impl, id_equal |-> ideq, id_obliged |-> ob,
        agrees |-> Agrees(impl, fl), by_value |-> Agrees(implV, fl), by_key |-> Agrees(implK, fl)]

(***************************************************************************)
(* 5. Scenario enumeration                                                 *)
(***************************************************************************)
ClsSeq == <<"base", "point", "model">>
PModeSeq == <<"absolute", "relative", "relative%">>
LBasisSeq == <<"molar", "mass", "volume_gas", "volume_liquid", "fraction", "percent">>
MBasisSeq == <<"mass", "volume", "molar">>
TClassSeq == <<"K_frac", "K_integral", "C_zero", "C_neg", "C_pos">>
PointLayouts == <<"one_point", "ads_only", "des_only", "both", "interleaved", "branch_column", "extra_float",
                  "extra_text", "extra_int", "dup_pressure", "int_typed", "many_points", "ads_unsorted",
                  \* falsy cells: a point at pressure exactly 0.0 (first of the adsorption branch / in the middle of a
                  \* desorption scan / last point), loading exactly 0.0, extra numeric columns holding 0.0 and 0,
                  \* an extra text column holding the empty text
                  "zero_start", "zero_mid", "zero_end", "zero_loading", "extra_zero", "extra_text_empty",
                  \* an extra TEXT column whose entries look like numbers ('007', '1e3', '12') / like booleans, None, NaN
                  \* ('True', 'None', 'nan'): compared by value and type, cell by cell
                  "extra_text_numlike", "extra_text_wordlike">>
ModelLayouts == <<"constructed", "as_fitted", "fitted", "fitted_int">>
ModelSeq == <<"Henry", "Langmuir", "DSLangmuir", "TSLangmuir", "BET", "GAB", "Freundlich", "DA", "DR", "Quadratic",
              "TemkinApprox", "Virial", "Toth", "JensenSeaton", "FHVST", "WVST">>
TargetSeq == <<"string", "file">>
SepSeq == <<"comma", "semicolon", "tab">>
\* props_falsy: material properties whose values are legitimate but falsy (0, 0.0, False)
MatSeq == <<"name_plain", "name_space", "name_unicode", "props_num", "props_text", "props_int", "props_falsy">>
AdsSeq == <<"known", "alias", "custom">>
RepSeq == <<0, 1, 2>>
\* magnitude class of the numbers a model carries (parameters, ranges, fit error): of order one / tiny (1e-6..1e-12,
\* many significant digits: affinity constants with the pressure in Pa) / huge (1e6..1e12) / full float64 precision (1/3)
\* zero: one parameter exactly 0 (0.0 or the integer 0), fit error 0.0, ranges starting at 0.0
\* out_of_bounds: one parameter outside the model's DEFAULT bounds (below the lower / above the upper one), as a fit
\* with wider user bounds leaves it; the exported documents do not carry bounds
MagSeq == <<"order_one", "tiny", "huge", "many_digits", "zero", "out_of_bounds">>
\* row labels of the table a point isotherm is built from: 0..n-1 / shifted / permuted (after sort_values) /
\* with gaps and not starting at 0 (after boolean filtering) / text labels
RowLabSeq == <<"default", "shifted", "permuted", "gaps", "strings">>
\* session state at import time: is a material of the same name registered in pygaps.MATERIAL_LIST
\* (none / with the same properties / with other values for shared keys plus keys of its own)
RegSeq == <<"none", "same_equal", "same_different">>
LayoutsOf(cls) == CASE cls = "point" -> PointLayouts [] cls = "model" -> ModelLayouts [] OTHER -> <<"na">>
VCSeqX == VCSeq \o <<"absent">>

P == 29          \* prime >= every dimension size: orthogonal array OA(P^2, P+1, P, 2)
Pick(seq, d) == seq[(d % Len(seq)) + 1]

\* a row from its 17 digits (each in 0..P-1); dependent dimensions are interpreted per class / format
Row(fmt, dg) ==
  LET cls == Pick(ClsSeq, dg[1])
      vc == Pick(VCSeqX, dg[7]) IN
  [fmt |-> fmt, cls |-> cls, pmode |-> Pick(PModeSeq, dg[2]), lbasis |-> Pick(LBasisSeq, dg[3]),
   mbasis |-> Pick(MBasisSeq, dg[4]), tclass |-> Pick(TClassSeq, dg[5]), layout |-> Pick(LayoutsOf(cls), dg[6]),
   vc |-> vc, kc |-> IF vc = "absent" THEN "none" ELSE Pick(KCSeq, dg[8]),
   model |-> IF cls = "model" THEN Pick(ModelSeq, dg[9]) ELSE NA,
   target |-> IF fmt = "xl" THEN "file" ELSE Pick(TargetSeq, dg[10]),
   sep |-> IF fmt = "csv" THEN Pick(SepSeq, dg[11]) ELSE NA,
   matc |-> Pick(MatSeq, dg[12]), ads |-> Pick(AdsSeq, dg[13]), rep |-> Pick(RepSeq, dg[14]),
   mag |-> IF cls = "model" THEN Pick(MagSeq, dg[15]) ELSE NA,
   rowlab |-> IF cls = "point" THEN Pick(RowLabSeq, dg[16]) ELSE NA,
   reg |-> Pick(RegSeq, dg[17])]

NDims == 17
\* orthogonal array: column k of run (a, b) is a + k*b (+ a seeded shift per column) mod P; any two columns
\* k1 # k2 run through all P^2 pairs because (k1 - k2) is invertible mod P.  The shift is quadratic in k so
\* that different seeds give different arrays (a shift linear in k only renames the runs).
OADigit(k, a, b, seed) == (a + k * b + seed * (k * k + 1)) % P
OARow(fmt, a, b, seed) == Row(fmt, [k \in 1..NDims |-> OADigit(k, a, b, seed)])
Pairwise(fmt, seed) == [i \in 1..(P * P) |-> OARow(fmt, (i - 1) \div P, (i - 1) % P, seed)]
\* TLC-checked: every two columns of the array take all P^2 value pairs (so every pair of dimension values occurs)
OAStrength2 ==
  \A sd \in 0..3 : \A k1 \in 1..NDims : \A k2 \in (k1 + 1)..NDims :
    Cardinality({<<OADigit(k1, a, b, sd), OADigit(k2, a, b, sd)>> : a \in 0..(P - 1), b \in 0..(P - 1)}) = P * P
DimSizesFit ==
  \A s \in {ClsSeq, PModeSeq, LBasisSeq, MBasisSeq, TClassSeq, PointLayouts, ModelLayouts, VCSeqX, KCSeq, ModelSeq,
            TargetSeq, SepSeq, MatSeq, AdsSeq, MagSeq, RowLabSeq, RegSeq} : Len(s) <= P

\* the other dimensions of a product row vary with the row index (seeded), so products also sweep them
Varied(fmt, n, seed, fixed) ==
  LET dg == [k \in 1..NDims |-> IF k \in DOMAIN fixed THEN fixed[k] ELSE (n * (2 * k + 1) + seed * (k + 3) + k) % P]
  IN Row(fmt, dg)

\* class x layout x value class (the interacting dimensions), key class plain
CLV == LET cl == <<<<0, 0>>>> \o [i \in 1..Len(PointLayouts) |-> <<1, i - 1>>] \o [i \in 1..Len(ModelLayouts) |-> <<2, i - 1>>]
       IN cl
ProductCLV(fmt, seed) ==
  LET nv == Len(VCSeqX) IN
  [i \in 1..(Len(CLV) * nv) |->
     LET c == CLV[((i - 1) \div nv) + 1]  v == (i - 1) % nv IN
     Varied(fmt, i, seed, (1 :> c[1]) @@ (6 :> c[2]) @@ (7 :> v) @@ (8 :> 0))]
\* key class x value class on metadata-only isotherms
ProductKV(fmt, seed) ==
  LET nv == Len(VCSeq) IN
  [i \in 1..(Len(KCSeq) * nv) |->
     Varied(fmt, i, seed, (1 :> 0) @@ (8 :> ((i - 1) \div nv)) @@ (7 :> ((i - 1) % nv)))]
\* every unit configuration class x temperature class, metadata-only and point isotherms
ProductUnits(fmt, seed) ==
  [i \in 1..(2 * 3 * 6 * 3 * 5) |->
     LET j == i - 1 IN
     Varied(fmt, i, seed, (1 :> (j % 2)) @@ (2 :> ((j \div 2) % 3)) @@ (3 :> ((j \div 6) % 6)) @@ (4 :> ((j \div 36) % 3))
                          @@ (5 :> ((j \div 108) % 5)) @@ (7 :> (Len(VCSeqX) - 1)))]
\* every model x the way the model came to be
ProductModels(fmt, seed) ==
  [i \in 1..(Len(ModelSeq) * Len(ModelLayouts)) |->
     LET j == i - 1 IN
     Varied(fmt, i, seed, (1 :> 2) @@ (9 :> (j % Len(ModelSeq))) @@ (6 :> (j \div Len(ModelSeq))))]
\* every model x every temperature class (some models take the temperature as a parameter: DR, DA)
ProductModelTemp(fmt, seed) ==      \* layouts "constructed" (0) and "fitted" (2): the two ways a model meets the temperature
  [i \in 1..(Len(ModelSeq) * Len(TClassSeq) * 2) |->
     LET j == i - 1 IN
     Varied(fmt, i, seed, (1 :> 2) @@ (9 :> (j % Len(ModelSeq))) @@ (5 :> ((j \div Len(ModelSeq)) % Len(TClassSeq)))
                          @@ (6 :> 2 * (j \div (Len(ModelSeq) * Len(TClassSeq)))))]
\* every model x magnitude class of its numbers x the two ways a model object is handed over (constructed, as_fitted)
ProductModelMag(fmt, seed) ==
  [i \in 1..(Len(ModelSeq) * Len(MagSeq) * 2) |->
     LET j == i - 1 IN
     Varied(fmt, i, seed, (1 :> 2) @@ (9 :> (j % Len(ModelSeq))) @@ (15 :> ((j \div Len(ModelSeq)) % Len(MagSeq)))
                          @@ (6 :> (j \div (Len(ModelSeq) * Len(MagSeq)))))]
\* every point layout x every row labelling of the source table
ProductRowLab(fmt, seed) ==
  [i \in 1..(Len(PointLayouts) * Len(RowLabSeq)) |->
     LET j == i - 1 IN
     Varied(fmt, i, seed, (1 :> 1) @@ (6 :> (j % Len(PointLayouts))) @@ (16 :> (j \div Len(PointLayouts))))]
\* class x material class x registry state at import time
ProductReg(fmt, seed) ==
  [i \in 1..(3 * Len(MatSeq) * Len(RegSeq)) |->
     LET j == i - 1 IN
     Varied(fmt, i, seed, (1 :> (j % 3)) @@ (12 :> ((j \div 3) % Len(MatSeq))) @@ (17 :> (j \div (3 * Len(MatSeq)))))]
\* material class x adsorbate class x class
ProductMat(fmt, seed) ==
  [i \in 1..(3 * Len(MatSeq) * 3) |->
     LET j == i - 1 IN
     Varied(fmt, i, seed, (1 :> (j % 3)) @@ (12 :> ((j \div 3) % Len(MatSeq))) @@ (13 :> ((j \div (3 * Len(MatSeq))) % 3)) @@ (7 :> (Len(VCSeqX) - 1)))]

\* class x layout x value class x the key classes that interact with the value (plain, blank, prefix, typed AIF tag)
KSel == <<0, 2, 5, 6>>
ProductCLVK(fmt, seed) ==
  LET nv == Len(VCSeq)  nk == Len(KSel) IN
  [i \in 1..(Len(CLV) * nv * nk) |->
     LET j == i - 1
         c == CLV[(j \div (nv * nk)) + 1] IN
     Varied(fmt, i, seed, (1 :> c[1]) @@ (6 :> c[2]) @@ (7 :> ((j \div nk) % nv)) @@ (8 :> KSel[(j % nk) + 1]))]

Rows(fmt, tier, seed) ==
  LET core == ProductCLV(fmt, seed) \o ProductKV(fmt, seed) \o ProductModels(fmt, seed) \o ProductModelTemp(fmt, seed)
              \o ProductModelMag(fmt, seed) \o ProductRowLab(fmt, seed) \o ProductReg(fmt, seed) \o Pairwise(fmt, seed) IN
  IF tier = "quick" THEN core
  ELSE core \o ProductUnits(fmt, seed) \o ProductMat(fmt, seed) \o ProductCLVK(fmt, seed + 3) \o ProductKV(fmt, seed + 7)
            \o Pairwise(fmt, seed + 1) \o Pairwise(fmt, seed + 2) \o Pairwise(fmt, seed + 3) \o Pairwise(fmt, seed + 4)
            \o ProductModels(fmt, seed + 5)
=============================================================================
