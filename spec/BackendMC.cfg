SPECIFICATION Spec
INVARIANT InvAllowed
INVARIANT InvNoSilentBackend
INVARIANT InvUnitHonoured
INVARIANT InvHistoryFree
CHECK_DEADLOCK FALSE
