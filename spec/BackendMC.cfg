SPECIFICATION Spec
INVARIANT InvAllowed
INVARIANT InvNoSilentBackend
INVARIANT InvUnitHonoured
INVARIANT InvHistoryFree
INVARIANT InvBranch
CHECK_DEADLOCK FALSE
