SPECIFICATION Spec
INVARIANT ModelRows
INVARIANT ModelZero
INVARIANT PointRows
INVARIANT QueryShape
CHECK_DEADLOCK FALSE
