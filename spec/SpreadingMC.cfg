SPECIFICATION Spec
INVARIANT ModelRows
INVARIANT ModelZero
INVARIANT PointRows
INVARIANT PointScale
INVARIANT QueryShape
CHECK_DEADLOCK FALSE
