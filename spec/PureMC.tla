-------------------------------- MODULE PureMC --------------------------------
(* Exhaustive check of spec/Pure.tla.  The hazard switched on comes from the     *)
(* environment (PURE_DEFECT = none | inplace | stale_interp | key_ignored |      *)
(* no_update | fit_leaks): "none" must pass, every other value must be refuted.  *)
EXTENDS Pure, IOUtils
MCDefects == {IOEnv.PURE_DEFECT} \cap DefectNames
=============================================================================
