------------------------------ MODULE Enthalpy ------------------------------
(***************************************************************************)
(* C19 - enthalpy methods.                                                 *)
(*                                                                         *)
(* Isosteric: the scenario space (enthalpy x temperature subset x order x  *)
(* generator x isotherm kind x unit configuration) and the clause "the     *)
(* returned enthalpy is the dH of the van 't Hoff law the isotherms were   *)
(* generated with, at every loading" (slope = -dH/R as well).              *)
(* Whittaker: the closed form  h = lambda + h_vap + RT  with               *)
(* lambda = RT ln[ p_sat K (theta^t/(1-theta^t))^((t-1)/t) ], the pressure  *)
(* of each loading from the Langmuir / Toth equation, the classification   *)
(* of each loading w.r.t. the range where a vaporisation enthalpy exists,   *)
(* and the set of loadings that may / must be omitted.                     *)
(* Initial enthalpy point: first enthalpy row of the chosen branch.        *)
(* Logarithms and real powers are supplied as input data by the harness    *)
(* (TLA+ has neither); everything else is computed here over DecFloat.     *)
(***************************************************************************)
EXTENDS DecFloat, Integers, Sequences, FiniteSets, TLC, TLCExt, SequencesExt

DL(m, e) == DMk(DSgn(m), DAbsI(m), e)
DInt(i) == DL(i, 0)
Rgas == DL(831446262, -8)          \* J/(mol K), CODATA 2018 (exact in the 2019 SI: 8.31446261815324)
Idx(s) == 1..Len(s)

---------------------------------------------------------------------------
\* Isosteric scenario space
DHs == <<5, 10, 20, 40, 60>>                       \* kJ/mol
TempPool == <<200, 250, 298, 350, 400>>            \* K
Subsets == {S \in SUBSET (1..Len(TempPool)) : Cardinality(S) >= 2}
Asc(S) == SetToSortSeq(S, <)                        \* indices ascending = temperatures ascending
Rev(s) == [i \in 1..Len(s) |-> s[Len(s) + 1 - i]]
Rot(s) == Tail(s) \o <<Head(s)>>
OrderKinds == <<"asc", "desc", "rot">>
Ordered(S, o) == LET a == Asc(S) IN
                 LET idx == CASE o = "asc" -> a [] o = "desc" -> Rev(a) [] o = "rot" -> Rot(a)
                 IN [i \in 1..Len(idx) |-> TempPool[idx[i]]]
Generators == <<"Langmuir", "Toth", "DSLangmuir">>
Kinds == <<"model", "point">>
\* common unit configurations (pressure unit, loading basis/unit, material basis/unit, temperature unit)
UnitConfigs == <<
   [name |-> "bar-mmol-g-K", pressure_mode |-> "absolute", adsorbate |-> "N2", pressure_unit |-> "bar", loading_basis |-> "molar", loading_unit |-> "mmol", material_basis |-> "mass", material_unit |-> "g", temperature_unit |-> "K"],
   [name |-> "kPa-cm3STP-g-C", pressure_mode |-> "absolute", adsorbate |-> "N2", pressure_unit |-> "kPa", loading_basis |-> "molar", loading_unit |-> "cm3(STP)", material_basis |-> "mass", material_unit |-> "g", temperature_unit |-> "°C"],
   [name |-> "torr-mg-kg-K", pressure_mode |-> "absolute", adsorbate |-> "N2", pressure_unit |-> "torr", loading_basis |-> "mass", loading_unit |-> "mg", material_basis |-> "mass", material_unit |-> "kg", temperature_unit |-> "K"],
   \* relative pressure p/p0(T) is a unit common to all isotherms too (p0 differs per isotherm): needs an adsorbate that is
   \* subcritical over the whole temperature pool (n-butane: 135 K .. 425 K)
   [name |-> "relative-mmol-g-K", pressure_mode |-> "relative", adsorbate |-> "n-butane", pressure_unit |-> "none", loading_basis |-> "molar", loading_unit |-> "mmol", material_basis |-> "mass", material_unit |-> "g", temperature_unit |-> "K"],
   [name |-> "relative%-mmol-g-C", pressure_mode |-> "relative%", adsorbate |-> "n-butane", pressure_unit |-> "none", loading_basis |-> "molar", loading_unit |-> "mmol", material_basis |-> "mass", material_unit |-> "g", temperature_unit |-> "°C"] >>
\* accuracy the property states: exact for model isotherms, interpolation accuracy for sampled ones
Tol(kind) == IF kind = "model" THEN DTol(6) ELSE DTol(2)

\* decimal magnitude of the affinity at 298 K (1/bar): the whole set of isotherms rescaled in pressure by 10^-pmag
\* (equilibrium pressures from ~1e-13 bar to ~1e5 bar); dH does not depend on it
PMags == <<0, 6, 10, -3>>
IsoScenarios ==
   LET subs == SetToSortSeq(Subsets, LAMBDA A, B : Cardinality(A) < Cardinality(B) \/ (Cardinality(A) = Cardinality(B) /\ Asc(A) # Asc(B) /\
                                                  LET d == CHOOSE i \in 1..Len(Asc(A)) : Asc(A)[i] # Asc(B)[i] /\ \A j \in 1..(i - 1) : Asc(A)[j] = Asc(B)[j]
                                                  IN Asc(A)[d] < Asc(B)[d]))
   IN [h \in 1..Len(DHs), s \in 1..Len(subs), o \in 1..3, g \in 1..3, k \in 1..2, u \in 1..Len(UnitConfigs) |->
         [dH |-> DHs[h], temps |-> Ordered(subs[s], OrderKinds[o]), order |-> OrderKinds[o], gen |-> Generators[g], kind |-> Kinds[k], units |-> UnitConfigs[u],
          pmag |-> LET m == PMags[((h + s + o + g + k + u) % 4) + 1] IN IF UnitConfigs[u].pressure_mode = "absolute" \/ m >= 0 THEN m ELSE 0]]

\* Two-branch point isotherms with hysteresis: the adsorption branch is generated with one enthalpy, the desorption branch
\* (stored from the highest pressure downwards) with another; the analysis of branch b must return the enthalpy built into b
BranchPairs == << <<20, 35>>, <<40, 10>>, <<5, 60>> >>              \* <<dH of the adsorption branch, dH of the desorption branch>>
BranchDH(pair, b) == IF b = "ads" THEN pair[1] ELSE pair[2]
BranchScenarios ==
   LET subs == SetToSeq(Subsets)
   IN [p \in 1..Len(BranchPairs), s \in 1..Len(subs), g \in 1..3, b \in 1..2 |->
         [pair |-> BranchPairs[p], temps |-> Ordered(subs[s], OrderKinds[((p + s + g) % 3) + 1]), gen |-> Generators[g],
          branch |-> <<"ads", "des">>[b], dH |-> BranchDH(BranchPairs[p], <<"ads", "des">>[b])]]

\* q: [dH : integer kJ/mol; kind; nreq : number of loading points requested; h : returned enthalpies (kJ/mol);
\*     slopes : returned slopes of ln p against 1/T]
IsoJudge(q) ==
   LET dh == DInt(q.dH)
       slope == DNeg(DDiv(DMul(dh, DInt(1000)), Rgas))       \* d ln p / d(1/T) = -dH/R
       badH == {k \in Idx(q.h) : ~DClose(q.h[k], dh, Tol(q.kind))}
       badS == {k \in Idx(q.slopes) : ~DClose(q.slopes[k], slope, Tol(q.kind))}
   IN [len |-> Len(q.h) = q.nreq /\ Len(q.slopes) = q.nreq, enthalpy |-> badH, slope |-> badS]

---------------------------------------------------------------------------
\* Whittaker.  q: [model : "Langmuir" | "Toth"; T; nm; Kunit (affinity per pressure unit punit of the description); t (DecFloat, 1 for Langmuir);
\*   pt, pc, psat : observations of the adsorbate API (Pa);
\*   n : requested loadings; root : (1 - theta^t)^(1/t) per loading (harness, = 1 - theta for Langmuir, checked here);
\*   lnterm : ln[ psat K (theta^t/(1-theta^t))^((t-1)/t) ] per loading (harness);
\*   hvap : observation of adsorbate.enthalpy_vaporisation(press = p_k) in kJ/mol per loading (<<0,9999>> if the API refuses);
\*   hvap_t : the same at the triple-point pressure;
\*   rn, rh : returned loadings and enthalpies (kJ/mol)]
\* pascals per pressure unit (SI definitions; torr = 101325/760 Pa): a model isotherm may be expressed in any of them;
\* the affinity K of the model is then per that unit and the closed form needs it per Pa
UnitPa == [Pa |-> DInt(1), kPa |-> DInt(1000), bar |-> DInt(100000), torr |-> DL(133322368, -6)]
WhitModelUnits == <<"Pa", "kPa", "bar", "torr">>
KPa(q) == DDiv(q.Kunit, UnitPa[q.punit])
NoVal(x) == x[2] = 9999
One == DInt(1)
Theta(q, k) == DDiv(q.n[k], q.nm)
\* pressure of loading k from the model equation: p = theta / (K (1 - theta^t)^(1/t))
\* (for Langmuir, t = 1, the root is 1 - theta and is computed here; for Toth the real power is harness input)
Root(q, k) == IF q.model = "Langmuir" THEN DSub(One, Theta(q, k)) ELSE q.root[k]
PressureOf(q, k) == DDiv(Theta(q, k), DMul(KPa(q), Root(q, k)))
RootOk(q) == q.model = "Langmuir" => \A k \in Idx(q.n) : q.n[k][1] = 0 \/ DLeq(q.nm, q.n[k]) \/ DCloseAbs(q.root[k], DSub(One, Theta(q, k)), DTol(4), DL(1, -9))
PHi(q) == IF DLeq(q.psat, q.pc) THEN q.psat ELSE q.pc
Margin == DL(1, -5)
Up(x) == DMul(x, DAdd(One, Margin))
Down(x) == DMul(x, DSub(One, Margin))
\* class of a loading: where its pressure lies relative to the range in which a vaporisation enthalpy exists
\*   "zero"    n = 0
\*   "nopressure"  n >= n_m: the description has no positive equilibrium pressure there (negative / undefined), the closed
\*             form is not defined -> must be omitted
\*   "below"   p < p_triple                     (library documents: h_vap taken at the triple point) 
\*   "inside"  p_triple <= p <= min(p_sat, p_c)  -> must be reported
\*   "between" p_sat < p <= p_c                  (beyond saturation at T: may be omitted)
\*   "above"   p > p_c                           -> no vaporisation enthalpy: must be omitted
\*   "edge"    within 1e-5 of a boundary: not judged
ClassP(p, pt, psat, pc) ==
   LET hi == IF DLeq(psat, pc) THEN psat ELSE pc IN
   IF DLt(p, Down(pt)) THEN "below"
   ELSE IF DLeq(Up(pt), p) /\ DLeq(p, Down(hi)) THEN "inside"
   ELSE IF DLt(Up(hi), p) /\ DLeq(p, Down(pc)) THEN "between"
   ELSE IF DLt(Up(pc), p) THEN "above"
   ELSE "edge"
Class(q, k) == IF q.n[k][1] = 0 THEN "zero" ELSE IF DLeq(q.nm, q.n[k]) THEN "nopressure" ELSE ClassP(PressureOf(q, k), q.pt, q.psat, q.pc)
RT(q) == DMul(Rgas, q.T)
\* closed form in kJ/mol with a given vaporisation enthalpy (kJ/mol)
Closed(q, k, hv) == DDiv(DAdd(DAdd(DMul(RT(q), q.lnterm[k]), DMul(hv, DInt(1000))), RT(q)), DInt(1000))
\* position of requested loading k in the returned list (0 = omitted); returned loadings must be a subsequence
PosIn(q, k) == LET hits == {j \in Idx(q.rn) : q.rn[j] = q.n[k]} IN IF hits = {} THEN 0 ELSE CHOOSE j \in hits : TRUE
WhitJudge(q) ==
   LET pos == [k \in Idx(q.n) |-> PosIn(q, k)]
       cls == [k \in Idx(q.n) |-> Class(q, k)]
       subseq == /\ Len(q.rn) = Len(q.rh)
                 /\ \A j \in Idx(q.rn) : \E k \in Idx(q.n) : pos[k] = j
                 /\ \A k1, k2 \in Idx(q.n) : (k1 < k2 /\ pos[k1] > 0 /\ pos[k2] > 0) => pos[k1] < pos[k2]
       ValOk(k, hv) == ~NoVal(hv) /\ DClose(q.rh[pos[k]], Closed(q, k, hv), DTol(6))
       Bad(k) == CASE cls[k] = "inside" -> IF pos[k] = 0 THEN "omitted although the vaporisation enthalpy exists"
                                           ELSE IF ValOk(k, q.hvap[k]) THEN "" ELSE "value is not lambda + h_vap + RT"
                   [] cls[k] = "below" -> IF pos[k] = 0 \/ ValOk(k, q.hvap_t) THEN "" ELSE "value is not lambda + h_vap(triple point) + RT"
                   [] cls[k] = "between" -> IF pos[k] = 0 \/ ValOk(k, q.hvap[k]) THEN "" ELSE "value is not lambda + h_vap + RT"
                   [] cls[k] = "above" -> IF pos[k] = 0 THEN "" ELSE "reported although no vaporisation enthalpy exists above the critical pressure"
                   [] cls[k] = "nopressure" -> IF pos[k] = 0 THEN "" ELSE "reported although the description has no positive pressure at this loading"
                   [] cls[k] = "zero" -> ""
                   [] cls[k] = "edge" -> ""
   IN [input_ok |-> RootOk(q), subseq |-> subseq, cls |-> cls,
       bad |-> IF subseq THEN {<<k, Bad(k)>> : k \in {i \in Idx(q.n) : Bad(i) # ""}} ELSE {}]

\* Representations in which the point isotherms handed to the Whittaker method are stored (the method works on a copy
\* converted to absolute Pa; the closed form is the same whatever the stored representation; T is always in kelvin)
WhitStorage == <<
   [name |-> "Pa-K", pressure_mode |-> "absolute", pressure_unit |-> "Pa", temperature_unit |-> "K"],
   [name |-> "bar-C", pressure_mode |-> "absolute", pressure_unit |-> "bar", temperature_unit |-> "°C"],
   [name |-> "kPa-C", pressure_mode |-> "absolute", pressure_unit |-> "kPa", temperature_unit |-> "°C"],
   [name |-> "relative-K", pressure_mode |-> "relative", pressure_unit |-> "none", temperature_unit |-> "K"],
   [name |-> "relative%-C", pressure_mode |-> "relative%", pressure_unit |-> "none", temperature_unit |-> "°C"] >>

---------------------------------------------------------------------------
\* Initial enthalpy point: rows = sequence of [b |-> 0 (adsorption) | 1 (desorption), h |-> enthalpy], branch requested
Layouts == {<<na, nd>> : na \in 1..3, nd \in 0..3}
\* "neg" / "zero" / "huge": the first row of each branch is negative / zero / far above any physical enthalpy - the
\* method returns the first MEASURED value, whatever it is
Patterns == <<"up", "down", "peak", "neg", "zero", "huge">>
HVal(pat, i, n, na) ==
   LET first == i = 1 \/ i = na + 1 IN
   CASE pat = "up" -> 10 + 3 * i [] pat = "down" -> 40 - 2 * i [] pat = "peak" -> IF 2 * i <= n THEN 20 + i ELSE 30 - i
     [] pat = "neg" -> IF first THEN -7 - i ELSE 20 + i
     [] pat = "zero" -> IF first THEN 0 ELSE 25 - i
     [] pat = "huge" -> IF first THEN 450 + 100 * i ELSE 30 + i
RowsOf(lay, pat) == LET n == lay[1] + lay[2] IN [i \in 1..n |-> [b |-> IF i <= lay[1] THEN 0 ELSE 1, h |-> HVal(pat, i, n, lay[1])]]
PointScenarios == LET L == SetToSortSeq(Layouts, LAMBDA x, y : x[1] < y[1] \/ (x[1] = y[1] /\ x[2] < y[2]))
                  IN [l \in 1..Len(L), p \in 1..Len(Patterns), b \in 1..2 |-> [rows |-> RowsOf(L[l], Patterns[p]), branch |-> <<"ads", "des">>[b]]]
FirstOf(rows, branch) == LET want == IF branch = "ads" THEN 0 ELSE 1
                             S == {i \in Idx(rows) : rows[i].b = want}
                         IN IF S = {} THEN [some |-> FALSE, h |-> 0] ELSE [some |-> TRUE, h |-> rows[CHOOSE i \in S : \A j \in S : i <= j].h]
\* q: [rows, branch, observed : "value" | exception class, value : DecFloat]
PointJudge(q) == LET f == FirstOf(q.rows, q.branch)
                 IN [judged |-> f.some, ok |-> (~f.some) \/ (q.observed = "value" /\ DClose(q.value, DInt(f.h), DTol(7)))]
=============================================================================
