SPECIFICATION Spec
INVARIANT WellFormed
INVARIANT Covers
CHECK_DEADLOCK FALSE
