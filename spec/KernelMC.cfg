SPECIFICATION Spec
INVARIANT WellFormed
INVARIANT Covers
INVARIANT RowOrdersOk
INVARIANT AltGridOk
CHECK_DEADLOCK FALSE
