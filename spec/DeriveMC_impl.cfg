SPECIFICATION ImplSys
CONSTANT MaxDepth = 3
CONSTANT InitSel = "few"
INVARIANT ImplNoAliasButValues
INVARIANT ConsistentButForOwnUnits
PROPERTY DeviationsExact
PROPERTY NamedListComplete
PROPERTY IndependentButForSharedValues
PROPERTY TemplateUntouchedButForNamesake
CHECK_DEADLOCK FALSE
