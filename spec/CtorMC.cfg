SPECIFICATION SpecMC
INVARIANT DeviationsExact
INVARIANT DeviationsNamed
INVARIANT VerdictOfImpl
INVARIANT UnitClausesMatchIsoValid
INVARIANT AcceptedLabelsValid
INVARIANT SpecSatisfiable
INVARIANT MembershipPredicate
INVARIANT DeprecationBranchDead
INVARIANT RefusalsNameFailing
CHECK_DEADLOCK FALSE
