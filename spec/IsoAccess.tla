------------------------------ MODULE IsoAccess ------------------------------
(***************************************************************************)
(* Data accessors in requested units (C03, reused by C10/C15).             *)
(*                                                                         *)
(* Prescriptive reading of the property: a call with unit arguments equals *)
(* "convert a copy permanently with those arguments, then read natively".  *)
(* So the allowed results are defined through IsoConvert's POk/MOk/LOk:    *)
(*   output side: value * DeltaX(stored, target)                           *)
(*   input side : the caller's number is in `target` units, so the stored- *)
(*                unit number is  x * DeltaX(target, stored).              *)
(*                                                                         *)
(* Descriptive side: the conversion pipeline each accessor of              *)
(* pointisotherm.py / modelisotherm.py really runs (which arguments it     *)
(* hands to c_material / c_loading / c_pressure).                          *)
(*                                                                         *)
(* args: [pm, pu, lb, lu, mb, mu]  ("none" = omitted)                      *)
(***************************************************************************)
EXTENDS IsoConvert

Accessors == {"p.pressure", "p.loading", "p.loading_at", "p.pressure_at", "p.spreading_pressure_at",
              "m.pressure", "m.loading", "m.loading_at", "m.pressure_at", "m.spreading_pressure_at"}
\* which quantities an accessor takes on its input side / returns on its output side
InP(acc) == acc \in {"p.loading_at", "m.loading_at", "p.spreading_pressure_at", "m.spreading_pressure_at"}
InL(acc) == acc \in {"p.pressure_at", "m.pressure_at"}
OutP(acc) == acc \in {"p.pressure", "m.pressure", "p.pressure_at", "m.pressure_at"}
OutL(acc) == acc \in {"p.loading", "m.loading", "p.loading_at", "m.loading_at", "p.spreading_pressure_at"}
\* m.spreading_pressure_at returns the model's own (stored-unit) integral: no output conversion

WantsP(g) == ~Falsy(g.pm) \/ ~Falsy(g.pu)
WantsL(g) == ~Falsy(g.lb) \/ ~Falsy(g.lu)
WantsM(g) == ~Falsy(g.mb) \/ ~Falsy(g.mu)

---------------------------------------------------------------------------
\* ---- prescriptive: target label states a permanent conversion with these arguments may reach
\* (definition by filtering; the *Targets below are the same sets constructed directly, which is
\*  what TLC evaluates millions of times; IsoAccessMC checks that the two agree on a sample)
PTargetsF(s, g) == IF ~WantsP(g) THEN {s}
   ELSE {s2 \in {[s EXCEPT !.pm = r[1], !.pu = r[2]] : r \in PReps} : POk(s, g.pm, g.pu, s2)}
MTargetsF(s, g) == IF ~WantsM(g) THEN {s}
   ELSE {s2 \in {[s EXCEPT !.mb = r[1], !.mu = r[2]] : r \in MReps} : MOk(s, g.mb, g.mu, s2)}
LTargetsF(s, g) == IF ~WantsL(g) THEN {s}
   ELSE {s2 \in {[s EXCEPT !.lb = r[1], !.lu = r[2]] : r \in LReps} : LOk(s, g.lb, g.lu, s2)}

PTargets(s, g) ==
   IF ~WantsP(g) THEN {s}
   ELSE IF PMustRefuse(s, g.pm, g.pu) THEN {}
   ELSE LET mt == PMode(s, g.pm) IN
        IF mt # "absolute" THEN {[s EXCEPT !.pm = mt, !.pu = N]}
        ELSE IF g.pu \in PresU THEN {[s EXCEPT !.pm = mt, !.pu = g.pu]}
        ELSE IF s.pm = "absolute" THEN {[s EXCEPT !.pm = mt]}
        ELSE {[s EXCEPT !.pm = mt, !.pu = u] : u \in PresU}
MTargets(s, g) ==
   IF ~WantsM(g) THEN {s}
   ELSE IF MMustRefuse(s, g.mb, g.mu) THEN {}
   ELSE LET bt == MBasis(s, g.mb) IN
        IF g.mu \in MUnits(bt) THEN {[s EXCEPT !.mb = bt, !.mu = g.mu]}
        ELSE IF Falsy(g.mu) /\ bt = s.mb THEN {s}
        ELSE {[s EXCEPT !.mb = bt, !.mu = u] : u \in MUnits(bt)}
LTargets(s, g) ==
   IF ~WantsL(g) THEN {s}
   ELSE IF LMustRefuse(s, g.lb, g.lu) THEN {}
   ELSE LET bt == LBasis(s, g.lb) IN
        IF Frac(bt) THEN {[s EXCEPT !.lb = bt, !.lu = N]}
        ELSE IF g.lu \in LUnits(bt) THEN {[s EXCEPT !.lb = bt, !.lu = g.lu]}
        ELSE IF bt = s.lb THEN {s}
        ELSE {[s EXCEPT !.lb = bt, !.lu = u] : u \in LUnits(bt)}
\* material first, then loading (the order is immaterial for the result: DeltaL is a difference of Canons)
LMTargets(s, g) == UNION {LTargets(sm, g) : sm \in MTargets(s, g)}

\* An accessor is obliged to answer only when the requested representation is named completely
\* (a call that names a mode/basis but omits the unit it needs may be refused or may keep the unit)
MustSucceedP(s, g, av) == ~WantsP(g) \/
   (PMustSucceed(s, g.pm, g.pu, av) /\ (PMode(s, g.pm) = "absolute" => g.pu \in PresU))
MustSucceedLM(s, g, av) ==
   /\ (~WantsM(g) \/ (MMustSucceed(s, g.mb, g.mu, av) /\ g.mu \in MUnits(MBasis(s, g.mb))))
   /\ (~WantsL(g) \/ \A sm \in MTargets(s, g) :
            LMustSucceed(sm, g.lb, g.lu, av) /\ (~Frac(LBasis(s, g.lb)) => g.lu \in LUnits(LBasis(s, g.lb))))

\* allowed conversion factors: set of vectors; empty set = the call must be refused
SpecOut(acc, s, g) ==
   IF OutP(acc) THEN {DeltaP(s, s2) : s2 \in PTargets(s, g)}
   ELSE IF OutL(acc) THEN {DeltaL(s, s2) : s2 \in LMTargets(s, g)}
   ELSE {Zero}
\* factor from the caller's number to the stored-unit number
SpecIn(acc, s, g) ==
   IF InP(acc) THEN {DeltaP(s2, s) : s2 \in PTargets(s, g)}
   ELSE IF InL(acc) THEN {DeltaL(s2, s) : s2 \in LMTargets(s, g)}
   ELSE {Zero}
SpecMustSucceed(acc, s, g, av) ==
   /\ ((InP(acc) \/ OutP(acc)) => MustSucceedP(s, g, av))
   /\ ((InL(acc) \/ OutL(acc)) => MustSucceedLM(s, g, av))

---------------------------------------------------------------------------
\* ---- descriptive: the pipelines.  Result <<"val", vin, vout>> or <<"err">>.
AV(vin, vout) == <<"val", vin, vout>>
AErr == <<"err">>
Seq2(r1, r2) == IF IsVal(r1) /\ IsVal(r2) THEN Val(Plus(r1[2], r2[2])) ELSE PE
Dflt(x, d) == IF Falsy(x) THEN d ELSE x

\* output pressure: p.pressure defaults both mode and unit; *_at default only the mode
PipeOutP(s, g, dfltUnit) ==
   IF ~WantsP(g) THEN Val(Zero)
   ELSE ImplPressure(PRep(s), <<Dflt(g.pm, s.pm), IF dfltUnit THEN Dflt(g.pu, s.pu) ELSE g.pu>>)
PipeInP(s, g, guard) ==      \* guard = TRUE: refuse absolute input without unit; FALSE: default the unit to the stored one
   IF ~WantsP(g) THEN Val(Zero)
   ELSE LET pm == Dflt(g.pm, s.pm) IN
        IF guard /\ pm = "absolute" /\ Falsy(g.pu) THEN PE
        ELSE ImplPressure(<<pm, IF guard THEN g.pu ELSE Dflt(g.pu, s.pu)>>, PRep(s))
\* output loading; matSide = "req": c_loading gets the requested (defaulted) material; "stored": the stored one
PipeOutL(s, g, matSide) ==
   LET m1 == IF ~WantsM(g) THEN Val(Zero)
             ELSE ImplMaterial(MRep(s), <<Dflt(g.mb, s.mb), g.mu>>)
       mat == IF matSide = "req" THEN <<Dflt(g.mb, s.mb), Dflt(g.mu, s.mu)>> ELSE MRep(s)
       l1 == IF ~WantsL(g) THEN Val(Zero)
             ELSE ImplLoading(LRep(s), <<Dflt(g.lb, s.lb), g.lu>>, mat)
   IN Seq2(m1, l1)
\* input loading; matSide "stored" (point) or "caller" (model: whatever the caller passed, maybe none)
PipeInL(s, g, matSide) ==
   LET m1 == IF ~WantsM(g) THEN Val(Zero)
             ELSE IF Falsy(g.mu) THEN PE
             ELSE ImplMaterial(<<Dflt(g.mb, s.mb), g.mu>>, MRep(s))
       mat == IF matSide = "stored" THEN MRep(s) ELSE <<Dflt(g.mb, s.mb), Dflt(g.mu, s.mu)>>
       l1 == IF ~WantsL(g) THEN Val(Zero)
             ELSE IF Falsy(g.lu) /\ ~Frac(Dflt(g.lb, s.lb)) THEN PE
             ELSE ImplLoading(<<Dflt(g.lb, s.lb), g.lu>>, LRep(s), mat)
   IN Seq2(m1, l1)

Pack(rin, rout) == IF IsVal(rin) /\ IsVal(rout) THEN AV(rin[2], rout[2]) ELSE AErr
\* PointIsotherm.spreading_pressure_at integrates self.loading(...) ("req" pipeline) but closes the last
\* segment with self.loading_at(...) ("stored" pipeline): when the two disagree the result is no
\* multiple of the native one at all
AMixed == <<"mixed">>
PackSpreading(rin, r1, r2) ==
   IF ~(IsVal(rin) /\ IsVal(r1) /\ IsVal(r2)) THEN AErr
   ELSE IF Phys(r1[2]) # Phys(r2[2]) THEN AMixed
   ELSE AV(rin[2], r1[2])

ImplAccess(acc, s, g) ==
   CASE acc = "p.pressure" -> Pack(Val(Zero), PipeOutP(s, g, TRUE))
     [] acc = "p.loading" -> Pack(Val(Zero), PipeOutL(s, g, "req"))
     [] acc = "p.loading_at" -> Pack(PipeInP(s, g, TRUE), PipeOutL(s, g, "stored"))
     [] acc = "p.pressure_at" -> Pack(PipeInL(s, g, "stored"), PipeOutP(s, g, FALSE))
     [] acc = "p.spreading_pressure_at" -> PackSpreading(PipeInP(s, g, TRUE), PipeOutL(s, g, "req"), PipeOutL(s, g, "stored"))
     [] acc = "m.pressure" -> Pack(Val(Zero), PipeOutP(s, g, TRUE))
     [] acc = "m.loading" -> Pack(Val(Zero), PipeOutL(s, g, "req"))
     [] acc = "m.loading_at" -> Pack(PipeInP(s, g, TRUE), PipeOutL(s, g, "req"))
     [] acc = "m.pressure_at" -> Pack(PipeInL(s, g, "caller"), PipeOutP(s, g, TRUE))
     [] acc = "m.spreading_pressure_at" -> Pack(PipeInP(s, g, FALSE), Val(Zero))

\* ---- design-level comparison
ImplConforms(acc, s, g) ==
   LET r == ImplAccess(acc, s, g) IN
   IF r = AErr THEN ~SpecMustSucceed(acc, s, g, Phys0)
   ELSE IF r = AMixed THEN FALSE
   ELSE Phys(r[2]) \in SpecIn(acc, s, g) /\ Phys(r[3]) \in SpecOut(acc, s, g)
\* the known divergence family (DESIGN.md section 4, C03): c_material is applied to, and a single
\* material representation handed to c_loading for, a loading that is a fraction/percent on the stored
\* or on the requested side - the fraction's own dependence on the material representation is lost
FamilyFractionWithMaterial(acc, s, g) ==
   /\ InL(acc) \/ OutL(acc)
   /\ WantsM(g)
   /\ Frac(s.lb) \/ Frac(Dflt(g.lb, s.lb))
DivergenceClass(acc, s, g) ==
   IF ImplConforms(acc, s, g) THEN "conforms"
   ELSE IF FamilyFractionWithMaterial(acc, s, g) THEN "known:fraction_loading_with_material_argument"
   ELSE "unexpected"
=============================================================================
