----------------------------- MODULE EnthalpyMC -----------------------------
(***************************************************************************)
(* TLC walks (i) every temperature subset x order of the isosteric         *)
(* scenario space and checks each is a permutation of 2..5 distinct pool   *)
(* temperatures in the stated order, and (ii) the pressure classification  *)
(* of the Whittaker omission rule on an integer pressure line (triple      *)
(* point 3, critical 9, saturation 6 or 12): the classes partition the     *)
(* line exactly as the property's text says.                               *)
(***************************************************************************)
EXTENDS Enthalpy

VARIABLES S, o, p, ps
vars == <<S, o, p, ps>>
Init == S \in Subsets /\ o \in 1..3 /\ p = 1 /\ ps \in {6, 12}
Next == p < 12 /\ p' = p + 1 /\ UNCHANGED <<S, o, ps>>
Spec == Init /\ [][Next]_vars

T == Ordered(S, OrderKinds[o])
PermOk == /\ Len(T) = Cardinality(S) /\ Len(T) \in 2..5
          /\ {T[i] : i \in 1..Len(T)} = {TempPool[i] : i \in S}
          /\ \A i, j \in 1..Len(T) : i # j => T[i] # T[j]
          /\ (OrderKinds[o] = "asc" => \A i \in 1..(Len(T) - 1) : T[i] < T[i + 1])
          /\ (OrderKinds[o] = "desc" => \A i \in 1..(Len(T) - 1) : T[i] > T[i + 1])
          /\ (OrderKinds[o] = "rot" => T[Len(T)] = Ordered(S, "asc")[1])
Partition ==
   LET c == ClassP(DInt(p), DInt(3), DInt(ps), DInt(9))
       hi == IF ps < 9 THEN ps ELSE 9
   IN /\ (p < 3 <=> c = "below")
      /\ ((p > 3 /\ p < hi) => c = "inside")
      /\ (c = "inside" => (p >= 3 /\ p <= hi))
      /\ ((p > hi /\ p < 9) <=> c = "between")
      /\ (p > 9 <=> c = "above")
      /\ (c = "edge" <=> p \in {3, hi, 9})
\* the accepted accuracy is the one the property states
Tols == Tol("model") = DTol(6) /\ Tol("point") = DTol(2)
=============================================================================
