------------------------------ MODULE DeriveMC ------------------------------
(***************************************************************************)
(* Exhaustive exploration of spec/Derive.tla with three object slots and   *)
(* histories of bounded depth.  Two systems over the same state:           *)
(*   SpecSys : derivations as PRESCRIBED (Derive!SpecPost) + heap edits    *)
(*             -> DescriptionInherited, TemplateUntouched, Independent,    *)
(*                NoAlias, Consistent hold                                 *)
(*   ImplSys : derivations as TRANSCRIBED from the code (Derive!ImplPost)  *)
(*             -> every step is judged by Derive!Judge: it is either what  *)
(*                the prescription says or exactly the NAMED deviations    *)
(*                (DeviationsExact); with all of them repaired it meets    *)
(*                the prescription (NamedListComplete);                    *)
(*                independence holds except through the one named sharing  *)
(* Token universe: labels are bit triples, data tokens say whose numbers   *)
(* they are and in which representation they are expressed.                *)
(***************************************************************************)
EXTENDS Naturals, Sequences, FiniteSets, TLC

CONSTANTS MaxDepth,      \* length of the histories explored
          InitSel        \* "all": every initial template (48 initial states); "few": one per class and kind (12)

NL == [p |-> "none", l |-> "none", m |-> "none"]
INSTANCE Derive WITH NilPl <- [src |-> "none", lab |-> NL, how |-> "none"], NilSrc <- [src |-> "none", lab |-> NL, br |-> "none"]

VARIABLES obj, cells, last, out, depth, lineage
vars == <<obj, cells, last, out, depth, lineage>>
St == [obj |-> obj, cells |-> cells]
StP == [obj |-> obj', cells |-> cells']

CellIds == 1..4
Lab0 == [p |-> "p0", l |-> "l0", m |-> "m0"]
Flip(x) == CASE x = "p0" -> "p1" [] x = "p1" -> "p0" [] x = "l0" -> "l1" [] x = "l1" -> "l0" [] x = "m0" -> "m1" [] x = "m1" -> "m0"
                [] x = "K" -> "degC" [] x = "degC" -> "K" [] x = "T@K" -> "T@degC" [] x = "T@degC" -> "T@K"
PropsFull == [k \in {"density"} |-> "2.2"]

\* ---- initial templates
MatKinds == {"registered", "unregistered_with_properties", "unregistered_bare"}
MetaInits == {EmptyFn, [k \in {"plain", "mut"} |-> IF k = "mut" THEN Val("c0", 1) ELSE Scalar("v0")]}
Template(cls, tu, meta, bm, mbr, mcalc) ==
   LET base == [AbsentObj EXCEPT !.cls = cls, !.lab = Lab0, !.tu = tu, !.tv = IF tu = "K" THEN "T@K" ELSE "T@degC", !.ads = "N2", !.mat = 1, !.meta = meta, !.pref = 1]
   IN IF cls = "point" THEN [base EXCEPT !.pl = [src |-> "d0", lab |-> Lab0, how |-> "stored"], !.bm = bm, !.ex = "extra", !.keys = "pp|ll", !.dref = 1]
      ELSE IF cls = "model" THEN [base EXCEPT !.mname = "Langmuir", !.mpar = "fit0", !.mcalc = mcalc, !.mbr = mbr, !.msrc = [src |-> "d0", lab |-> Lab0, br |-> mbr]]
      ELSE base
Templates ==
   {Template("base", tu, meta, "none", "none", "none") : tu \in {"K", "degC"}, meta \in MetaInits}
   \cup {Template("point", "degC", meta, bm, "none", "none") : meta \in MetaInits, bm \in {"mix", "ads"}}
   \cup {Template("model", "degC", meta, "none", mbr, mcalc) : meta \in MetaInits, mbr \in {"ads", "des"}, mcalc \in {"loading", "pressure"}}
FewTemplates == {Template("base", "degC", m, "none", "none", "none") : m \in MetaInits \ {EmptyFn}}
                \cup {Template("point", "degC", m, "mix", "none", "none") : m \in MetaInits \ {EmptyFn}}
                \cup {Template("model", "degC", m, "none", "des", "loading") : m \in MetaInits \ {EmptyFn}}
                \cup {Template("model", "degC", EmptyFn, "none", "ads", "pressure")}
Cell0(kind) == [name |-> "mat", reg |-> kind = "registered", props |-> IF kind = "unregistered_bare" THEN EmptyFn ELSE PropsFull]

Init ==
   /\ \E t \in (IF InitSel = "few" THEN FewTemplates ELSE Templates) : obj = [x \in Slots |-> IF x = 1 THEN t ELSE AbsentObj]
   /\ \E kind \in MatKinds : cells = [c \in CellIds |-> IF c = 1 THEN Cell0(kind) ELSE AbsentCell]
   /\ last = NoStep /\ out = "ok" /\ depth = 0
   /\ lineage = [x \in Slots |-> 0]

\* ---- fresh identities (canonical: smallest unused)
Least(Used) == CHOOSE i \in 1..12 : i \notin Used /\ \A j \in 1..12 : j \notin Used => i <= j
FreeSlots == Slots \ Present(St)
FreeCells == CellIds \ LiveCells(St)
Fr(t) == [pref |-> Least(UsedPrefs(St)), dref |-> Least(UsedDrefs(St)), cell |-> Least(LiveCells(St)),
          v |-> [k \in MutKeys(obj[t]) |-> Least(UsedVrefs(St))]]

\* ---- the steps enabled in the current state
Given(t) == [src |-> "given", lab |-> obj[t].lab, how |-> "stored"]
Calc(t, how) == [src |-> "calc", lab |-> obj[t].lab, how |-> how]
DeriveBase(k, t) == [NoStep EXCEPT !.k = k, !.t = t, !.n = Least(Present(St)), !.fr = Fr(t), !.gbmguess = "mix", !.gex = "-", !.gkeys = "pressure|loading"]
StepsPFI == {[DeriveBase("PFI", t) EXCEPT !.dm = dm, !.gpl = Given(t), !.gbmcol = IF dm = "frame_with_marks" THEN "des" ELSE "none",
                                           !.gex = IF dm = "arrays" THEN "-" ELSE "extra2", !.gkeys = IF dm = "arrays" THEN "pressure|loading" ELSE "a|b"]
                : t \in Present(St), dm \in {"arrays", "frame", "frame_with_marks"}}
PtsArgs(t) == {<<p, 0>> : p \in {"none", "plist", "llist", "both"}}
              \cup {<<p, s>> : p \in {"piso", "liso"}, s \in {x \in Present(St) : obj[x].cls = "point" /\ HasBranch(obj[x], obj[t].mbr)}}
\* what the code computes from a passed isotherm: its numbers as stored (expressed in ITS labels), labelled with the model's
OwnTok(t, a) == [src |-> "calc", how |-> a[1],
                 lab |-> IF a[1] = "piso" THEN [obj[t].lab EXCEPT !.p = obj[a[2]].lab.p] ELSE IF a[1] = "liso" THEN [obj[t].lab EXCEPT !.l = obj[a[2]].lab.l, !.m = obj[a[2]].lab.m] ELSE obj[t].lab]
StepsPFM == UNION {{[DeriveBase("PFM", t) EXCEPT !.pts = a[1], !.s = a[2], !.ref = Calc(t, a[1]), !.refown = OwnTok(t, a), !.gbmguess = "none"] : a \in PtsArgs(t)}
                   : t \in {x \in Present(St) : obj[x].cls = "model"}}
StepsMFP == {[DeriveBase("MFP", t) EXCEPT !.br = br, !.marg = marg, !.names = IF marg = "single" THEN {"Henry"} ELSE {"Henry", "Toth"}, !.obsname = nm, !.obspar = "fit1", !.obscalc = "loading",
                                           !.refsrc = [src |-> obj[t].pl.src, lab |-> obj[t].pl.lab, br |-> br]]
                : t \in {x \in Present(St) : obj[x].cls = "point"}, br \in {"ads", "des", "none"}, marg \in {"single", "list"}, nm \in {"Henry"}}
StepsRT == {DeriveBase("RT", t) : t \in Present(St)}
DeriveSteps == IF FreeSlots = {} \/ FreeCells = {} THEN {} ELSE StepsPFI \cup StepsPFM \cup StepsMFP \cup StepsRT

Kinds(o) == IF obj[o].cls = "point" THEN {"P", "L", "M", "T"} ELSE {"T"}
ConvertStep(o, kind) ==
   LET b == obj[o]
       lab2 == CASE kind = "P" -> [b.lab EXCEPT !.p = Flip(@)] [] kind = "L" -> [b.lab EXCEPT !.l = Flip(@)] [] kind = "M" -> [b.lab EXCEPT !.m = Flip(@)] [] OTHER -> b.lab
   IN [NoStep EXCEPT !.k = "Convert", !.o = o, !.kind = kind, !.lab2 = lab2, !.tu2 = IF kind = "T" THEN Flip(b.tu) ELSE b.tu, !.tv2 = IF kind = "T" THEN Flip(b.tv) ELSE b.tv,
                     !.pl2 = CASE b.cls # "point" -> b.pl [] kind = "P" -> [b.pl EXCEPT !.lab.p = Flip(@)] [] kind = "L" -> [b.pl EXCEPT !.lab.l = Flip(@)]
                                  [] kind = "M" -> [b.pl EXCEPT !.lab.m = Flip(@)] [] OTHER -> b.pl]
\* metadata keys the constructor of a class can store (anything else is a named argument there)
Storable(cls) == CASE cls = "base" -> {"plain", "mut", "branch", "model_from", "model"} [] cls = "point" -> {"plain", "mut", "model_from", "model"} [] OTHER -> {"plain", "mut", "model_from"}
NewVal(key, old) == CASE key = "plain" -> IF old = "v0" THEN "v1" ELSE "v0" [] key = "mut" -> IF old = "c0" THEN "c1" ELSE "c0"
                      [] key = "branch" -> IF old = "des" THEN "junk" ELSE "des" [] key = "model_from" -> "Toth" [] OTHER -> "UFF"
EditStepsOf(k) ==
   CASE k = "Convert" -> {ConvertStep(o, kind) : o \in Present(St), kind \in UNION {Kinds(x) : x \in Present(St)}}
     [] k = "SetMeta" -> {[NoStep EXCEPT !.k = "SetMeta", !.o = o, !.key = key, !.val = NewVal(key, IF key \in DOMAIN obj[o].meta THEN obj[o].meta[key].v ELSE "none"),
                                         !.vr = IF key = "mut" THEN Least(UsedVrefs(St)) ELSE 0] : o \in Present(St), key \in {"plain", "mut", "branch", "model_from", "model"}}
     [] k = "DelMeta" -> {[NoStep EXCEPT !.k = "DelMeta", !.o = o, !.key = key] : o \in Present(St), key \in {"plain", "mut"}}
     [] k = "MutMeta" -> {[NoStep EXCEPT !.k = "MutMeta", !.o = o, !.key = "mut", !.val = "c2"] : o \in Present(St)}
     [] k = "EditMat" -> {[NoStep EXCEPT !.k = "EditMat", !.o = o, !.key = "density", !.val = "9.9"] : o \in Present(St)}
     [] k = "Drop" -> {[NoStep EXCEPT !.k = "Drop", !.o = o] : o \in Present(St)}
     [] k = "Register" -> {[NoStep EXCEPT !.k = "Register", !.name = "mat", !.props = [kk \in {"density", "molar_mass"} |-> "reg"], !.cell = Least(LiveCells(St))]}
     [] OTHER -> {}
EditSteps == UNION {EditStepsOf(k) : k \in {"Convert", "SetMeta", "DelMeta", "MutMeta", "EditMat", "Drop", "Register"}}
Enabled(s) ==
   CASE s.k = "Convert" -> s.kind \in Kinds(s.o)
     [] s.k = "SetMeta" -> s.key \in Storable(obj[s.o].cls)
     [] s.k = "DelMeta" -> s.key \in DOMAIN obj[s.o].meta
     [] s.k = "MutMeta" -> "mut" \in DOMAIN obj[s.o].meta /\ obj[s.o].meta["mut"].r # 0 /\ obj[s.o].meta["mut"].v # "c2"
     [] s.k = "EditMat" -> cells[obj[s.o].mat].props # EmptyFn /\ cells[obj[s.o].mat].props["density"] # "9.9"
     [] s.k = "Drop" -> FreeSlots = {} /\ s.o # 1
     [] s.k = "Register" -> FreeCells # {} /\ ~\E c \in LiveCells(St) : cells[c].reg
     [] OTHER -> TRUE
Steps == DeriveSteps \cup {s \in EditSteps : Enabled(s)}

Take(step, r) ==
   /\ depth < MaxDepth
   /\ obj' = r.S.obj /\ cells' = r.S.cells /\ last' = step /\ out' = r.out /\ depth' = depth + 1
   /\ lineage' = IF Derives(step) /\ r.out = "ok" THEN [lineage EXCEPT ![step.n] = step.t] ELSE lineage

Spec1(step) == IF Derives(step) THEN SpecPost(St, step) ELSE [out |-> "ok", S |-> EditPost(St, step)]
CanDerive == FreeSlots # {} /\ FreeCells # {}
Of(kinds) == UNION {CASE k = "PFI" -> IF CanDerive THEN StepsPFI ELSE {}
                      [] k = "PFM" -> IF CanDerive THEN StepsPFM ELSE {}
                      [] k = "MFP" -> IF CanDerive THEN StepsMFP ELSE {}
                      [] k = "RT" -> IF CanDerive THEN StepsRT ELSE {}
                      [] OTHER -> {s \in EditStepsOf(k) : Enabled(s)} : k \in kinds}
\* one named action per public operation (transcribed system)
IDerivePFI == \E step \in Of({"PFI"}) : Take(step, ImplPost(St, step))        \* PointIsotherm.from_isotherm
IDerivePFM == \E step \in Of({"PFM"}) : Take(step, ImplPost(St, step))        \* PointIsotherm.from_modelisotherm
IDeriveMFP == \E step \in Of({"MFP"}) : Take(step, ImplPost(St, step))        \* ModelIsotherm.from_pointisotherm
IDeriveRT == \E step \in Of({"RT"}) : Take(step, ImplPost(St, step))          \* to_dict + constructor
IConvert == \E step \in Of({"Convert"}) : Take(step, ImplPost(St, step))      \* convert_pressure / loading / material / temperature
IEditMeta == \E step \in Of({"SetMeta", "DelMeta", "MutMeta"}) : Take(step, ImplPost(St, step))
IEditMat == \E step \in Of({"EditMat", "Register"}) : Take(step, ImplPost(St, step))
IDrop == \E step \in Of({"Drop"}) : Take(step, ImplPost(St, step))
ImplNext == IDerivePFI \/ IDerivePFM \/ IDeriveMFP \/ IDeriveRT \/ IConvert \/ IEditMeta \/ IEditMat \/ IDrop
\* the same operations as prescribed
SDerivePFI == \E step \in Of({"PFI"}) : Take(step, Spec1(step))
SDerivePFM == \E step \in Of({"PFM"}) : Take(step, Spec1(step))
SDeriveMFP == \E step \in Of({"MFP"}) : Take(step, Spec1(step))
SDeriveRT == \E step \in Of({"RT"}) : Take(step, Spec1(step))
SConvert == \E step \in Of({"Convert"}) : Take(step, Spec1(step))
SEditMeta == \E step \in Of({"SetMeta", "DelMeta", "MutMeta"}) : Take(step, Spec1(step))
SEditMat == \E step \in Of({"EditMat", "Register"}) : Take(step, Spec1(step))
SDrop == \E step \in Of({"Drop"}) : Take(step, Spec1(step))
SpecNext == SDerivePFI \/ SDerivePFM \/ SDeriveMFP \/ SDeriveRT \/ SConvert \/ SEditMeta \/ SEditMat \/ SDrop
ImplSys == Init /\ [][ImplNext]_vars
SpecSys == Init /\ [][SpecNext]_vars

(***************************************************************************)
(* what holds of the PRESCRIBED system                                     *)
(***************************************************************************)
Description(S, x) == [lab |-> S.obj[x].lab, tu |-> S.obj[x].tu, tv |-> S.obj[x].tv, ads |-> S.obj[x].ads,
                      material |-> S.cells[S.obj[x].mat].name, material_properties |-> S.cells[S.obj[x].mat].props, meta |-> MetaContent(S.obj[x])]
DescriptionInherited ==
   [][(Derives(last') /\ out' = "ok") =>
        LET d == Description(StP, last'.n)
            t == Description(St, last'.t)        \* the template's description at that moment
        IN d = [t EXCEPT !.meta = Override(@, Additions(St, last'))]]_vars
TemplateUntouched ==
   [][Derives(last') => /\ \A x \in Present(St) : obj'[x] = obj[x]
                        /\ \A c \in LiveCells(St) : cells'[c] = cells[c]]_vars
\* an edit or conversion of one object shows on no other object; a material edit shows exactly on the holders of a registered Material
IsEdit(s) == s.k \in {"SetMeta", "DelMeta", "MutMeta", "Convert", "EditMat"}
Independent ==
   [][IsEdit(last') => \A x \in Present(St) \ {last'.o} :
          /\ obj'[x] = obj[x]
          /\ (cells'[obj[x].mat] # cells[obj[x].mat] => cells[obj[x].mat].reg /\ obj[x].mat = obj[last'.o].mat)]_vars
NoAlias ==
   \A x, y \in Present(St) : x # y =>
        /\ obj[x].pref # obj[y].pref
        /\ (obj[x].dref # 0 => obj[x].dref # obj[y].dref)
        /\ \A k \in MutKeys(obj[x]), k2 \in MutKeys(obj[y]) : obj[x].meta[k].r # obj[y].meta[k2].r
        /\ (obj[x].mat = obj[y].mat => cells[obj[x].mat].reg)
\* the numbers of a point isotherm are expressed in its own labels; a model was fitted to numbers expressed in the labels it carries
Consistent ==
   \A x \in Present(St) : /\ obj[x].cls = "point" => obj[x].pl.lab = obj[x].lab
                          /\ obj[x].cls = "model" => obj[x].msrc.lab = obj[x].lab
SpecSelfConsistent ==      \* the constructive form satisfies every clause
   [][Derives(last') => Clauses(St, last', out', StP) = {}]_vars

(***************************************************************************)
(* what holds of the TRANSCRIBED system                                    *)
(***************************************************************************)
DeviationsExact ==
   [][LET j == Judge(St, last', out', StP) IN
        /\ j.verdict # "violation"
        /\ j.asimpl
        /\ (DevSet(St, last') = {} => j.verdict = "ok")]_vars
\* the list of named deviations is complete: with every applying deviation repaired the transcription satisfies every clause
NamedListComplete ==
   [][Derives(last') => LET r == ImplPostF(St, last', DevSet(St, last')) IN Clauses(St, last', r.out, r.S) = {}]_vars
\* independence, except through the one named sharing (a mutable metadata value handed down by reference)
IndependentButForSharedValues ==
   [][IsEdit(last') => \A x \in Present(St) \ {last'.o} :
          /\ (obj'[x] # obj[x] => last'.k = "MutMeta" /\ \E k \in MutKeys(obj[x]) : obj[x].meta[k].r = obj[last'.o].meta[last'.key].r)
          /\ (cells'[obj[x].mat] # cells[obj[x].mat] => cells[obj[x].mat].reg /\ obj[x].mat = obj[last'.o].mat)]_vars
TemplateUntouchedButForNamesake ==
   [][Derives(last') => /\ \A x \in Present(St) : obj'[x] = obj[x]
                        /\ \A c \in LiveCells(St) : cells'[c] # cells[c] => DNamesake \in DevSet(St, last')]_vars
ImplNoAliasButValues ==
   \A x, y \in Present(St) : x # y =>
        /\ obj[x].pref # obj[y].pref
        /\ (obj[x].dref # 0 => obj[x].dref # obj[y].dref)
        /\ (obj[x].mat = obj[y].mat => cells[obj[x].mat].reg)
ConsistentButForOwnUnits ==
   \A x \in Present(St) : /\ obj[x].cls = "point" => obj[x].pl.lab = obj[x].lab \/ (obj[x].pl.src = "calc" /\ obj[x].pl.how \in {"piso", "liso"})
                          /\ obj[x].cls = "model" => obj[x].msrc.lab = obj[x].lab
=============================================================================
