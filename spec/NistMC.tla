-------------------------------- MODULE NistMC --------------------------------
EXTENDS Nist
VARIABLES doc, done
Init == doc \in Docs /\ done = FALSE
Next == done = FALSE /\ done' = TRUE /\ UNCHANGED doc
SpecMC == Init /\ [][Next]_<<doc, done>>
\* every allowed import yields labels the constructor accepts
SpecSane == \A r \in Spec(doc) : r[1] = "iso" => IsoValid(r[2])
\* implementation against specification: the divergences must be exactly the known class
Diverges == Impl(doc) \notin Spec(doc)
KnownClass == doc.n = 1 /\ doc.u2 # "none" /\ doc.u1 \in VolU /\ MaterialBasisOf(doc.u2) # B /\ doc.pu \in PresU
OnlyKnownDivergence == Diverges => KnownClass
=============================================================================
