------------------------------- MODULE MatReg -------------------------------
(***************************************************************************)
(* X05 (growth beyond the listed properties): WHICH Material does an       *)
(* isotherm refer to?  The material registry (pygaps.MATERIAL_LIST), the   *)
(* Material objects and the binding of isotherms to them.                  *)
(*                                                                         *)
(* Abstract state  s = [heap, reg, iso]                                    *)
(*   heap : sequence of Material OBJECTS in allocation order (object       *)
(*          identity = position)  [name, props, x]                         *)
(*          props : Keys -> 0..NV   (0 = key absent, v = the v-th value)   *)
(*          x     : number of property keys outside Keys (always 0 here;   *)
(*                  the harness reports what it finds on the real object)  *)
(*   reg  : MATERIAL_LIST as a sequence of heap positions (list order)     *)
(*   iso  : Isos -> [mat : heap position (0 = isotherm not built yet),     *)
(*                   basis : material basis of the stored loading]         *)
(*                                                                         *)
(* One operation record `o` per public operation (NewMaterial, ListAppend, *)
(* Find, NewIsotherm, SetMaterial, EditProps, GetProp, RoundTrip,          *)
(* ConvertMaterial, ReadLoading).                                          *)
(*                                                                         *)
(*   descriptive : Impl(s, o) = [s |-> next state, out |-> what the caller *)
(*                 sees], a transcription of core/material.py, of the      *)
(*                 material setter / to_dict of core/baseisotherm.py and   *)
(*                 of the way convert_material / loading() reach the       *)
(*                 material's density and molar mass                       *)
(*   prescriptive: Violated(s, o, t, out) = the set of documented clauses  *)
(*                 the step s -o-> t, out breaks (docs/manual/material.rst,*)
(*                 units.rst, docstrings of Material / BaseIsotherm)       *)
(*   deviations  : DevClass(s, o) names, from the PRE-state and the        *)
(*                 operation alone, the classes where the code is known    *)
(*                 to leave the documentation; everywhere else Impl must   *)
(*                 satisfy every clause (MatRegMC!OnlyKnownDivergence)     *)
(***************************************************************************)
EXTENDS Integers, Sequences, FiniteSets, TLC

CONSTANTS Names,      \* material names a user passes (opaque, case-sensitive strings)
          Keys,       \* property keys in play
          PropMaps,   \* the property maps an object can reach by editing (Keys -> 0..NV, possibly trimmed)
          PropChoices,\* the property maps a user passes to Material(...) or in a material dictionary
          NV,         \* number of distinct values per key
          MaxHeap,    \* bound on allocated Material objects (model checking only)
          Isos,       \* isotherm identifiers 1..n
          Bases       \* material bases in play (subset of {"mass", "volume", "molar"})

NoName == "<None>"                       \* Material(None, ...): what a dict without 'name' produces
Reserved == {"density", "molar_mass"}    \* Material._reserved_params with an accessor property
NoProps == [k \in Keys |-> 0]
Get(p, k) == IF k \in DOMAIN p THEN p[k] ELSE 0
IsEmpty(p) == \A k \in DOMAIN p : p[k] = 0
Upd(p, q) == [k \in DOMAIN p |-> IF Get(q, k) # 0 THEN q[k] ELSE p[k]]       \* dict.update
Obj(n, p) == [name |-> n, props |-> p, x |-> 0]
MinOf(S) == CHOOSE a \in S : \A b \in S : a <= b

RegPos(s, n) == {j \in DOMAIN s.reg : s.heap[s.reg[j]].name = n}
RegObjs(s, n) == {s.reg[j] : j \in RegPos(s, n)}
First(s, n) == s.reg[MinOf(RegPos(s, n))]
IsReg(s, h) == \E j \in DOMAIN s.reg : s.reg[j] = h
UniqueNames(s) == \A j, k \in DOMAIN s.reg : s.heap[s.reg[j]].name = s.heap[s.reg[k]].name => j = k
Fresh(s) == Len(s.heap) + 1
Bind(s, i, h) == [s EXCEPT !.iso[i].mat = h]
Alloc(s, ob) == [s EXCEPT !.heap = Append(@, ob)]
MatOf(s, i) == s.heap[s.iso[i].mat]

\* ---- operation and outcome records (one flat shape: TLC compares them freely, JSON carries them)
Op0 == [op |-> "", name |-> "", props |-> NoProps, store |-> FALSE, h |-> 0, i |-> 0, form |-> "", key |-> "", v |-> 0, basis |-> ""]
Out0 == [res |-> "ok", h |-> 0, v |-> 0, render |-> "", name |-> "", props |-> NoProps, x |-> 0, num |-> 0, den |-> 1]
Refused(e) == [Out0 EXCEPT !.res = e]

\* the physical values behind the value indices (pairwise distinct products and quotients, so that the
\* measured conversion factor identifies the object whose property was used)
Actual(k, v) == CASE k = "density" -> (IF v = 1 THEN 2 ELSE 3)
                  [] k = "molar_mass" -> (IF v = 1 THEN 7 ELSE 11)
                  [] OTHER -> v
RatEq(a, b) == a[1] * b[2] = a[2] * b[1]
Needed(b1, b2) == IF {b1, b2} = {"mass", "volume"} THEN {"density"}
                  ELSE IF {b1, b2} = {"mass", "molar"} THEN {"molar_mass"}
                  ELSE IF {b1, b2} = {"volume", "molar"} THEN {"density", "molar_mass"} ELSE {}
\* loading per unit of b1 (g, cm3, mol) -> loading per unit of b2, as <<numerator, denominator>>
Factor(b1, b2, p) ==
   LET d == Actual("density", Get(p, "density"))  m == Actual("molar_mass", Get(p, "molar_mass")) IN
   CASE b1 = "mass" /\ b2 = "volume" -> <<d, 1>>   [] b1 = "volume" /\ b2 = "mass" -> <<1, d>>
     [] b1 = "mass" /\ b2 = "molar" -> <<m, 1>>    [] b1 = "molar" /\ b2 = "mass" -> <<1, m>>
     [] b1 = "volume" /\ b2 = "molar" -> <<m, d>>  [] b1 = "molar" /\ b2 = "volume" -> <<d, m>>
     [] OTHER -> <<1, 1>>
HasAll(p, ks) == \A k \in ks : Get(p, k) # 0

---------------------------------------------------------------------------
\* DESCRIPTIVE: what the code does

\* Material.find (material.py:92-124): an object is returned as it is; a non-string is refused; a string is
\* compared with every list entry in list order (Material.__eq__(str): exact name) and the FIRST match wins
FindImpl(s, o) ==
   CASE o.form = "obj" -> [Out0 EXCEPT !.h = o.h]
     [] o.form = "name" -> IF RegPos(s, o.name) = {} THEN Refused("ParameterError") ELSE [Out0 EXCEPT !.h = First(s, o.name)]
     [] OTHER -> Refused("ParameterError")

\* BaseIsotherm.material setter (baseisotherm.py:228-242): [s |-> state, h |-> the object the isotherm gets]
Resolve(s, o) ==
   CASE o.form = "obj" -> [s |-> s, h |-> o.h]
     [] o.form = "name" -> IF RegPos(s, o.name) # {} THEN [s |-> s, h |-> First(s, o.name)]
                           ELSE [s |-> Alloc(s, Obj(o.name, NoProps)), h |-> Fresh(s)]
     [] o.form = "dict" -> IF RegPos(s, o.name) # {}
                           \* NAMED DEVIATION DictUpdatesRegistered: the registered object's own dictionary is updated
                           THEN LET h == First(s, o.name) IN [s |-> [s EXCEPT !.heap[h].props = Upd(@, o.props)], h |-> h]
                           ELSE [s |-> Alloc(s, Obj(o.name, o.props)), h |-> Fresh(s)]
     \* NAMED DEVIATION NamelessMaterial: value.pop('name', None) -> find(None) refused -> Material(None, **value)
     [] o.form = "nameless" -> [s |-> Alloc(s, Obj(NoName, o.props)), h |-> Fresh(s)]

\* Material.__init__ (material.py:37-53): `if self not in MATERIAL_LIST` compares by name
NewMaterialImpl(s, o) ==
   LET s1 == Alloc(s, Obj(o.name, o.props)) IN
   \* NAMED DEVIATION StoreDuplicateIgnored: store=True with a registered name leaves the new object out, silently
   IF o.store /\ RegPos(s, o.name) = {} THEN [s1 EXCEPT !.reg = Append(@, Fresh(s))] ELSE s1

\* material.properties[key] = value / del   and   material.density = value (setter: `if val:` then float(val))
EditImpl(s, o) ==
   IF o.form = "setter" /\ o.v = 0 THEN s
   ELSE [s EXCEPT !.heap[o.h].props[o.key] = o.v]

\* Material.get_prop (properties.get, then getattr), the accessor properties, and the call syntax of the manual
GetPropImpl(s, o) ==
   LET v == Get(s.heap[o.h].props, o.key) IN
   CASE o.form = "get_prop" -> IF v # 0 THEN [Out0 EXCEPT !.res = "value", !.v = v]
                               \* NAMED DEVIATION GetPropNoneForReserved: getattr finds the accessor property, which returns None
                               ELSE IF o.key \in Reserved THEN [Out0 EXCEPT !.res = "None"] ELSE Refused("ParameterError")
     [] o.form = "attr" -> IF v # 0 THEN [Out0 EXCEPT !.res = "value", !.v = v] ELSE [Out0 EXCEPT !.res = "None"]
     \* NAMED DEVIATION AccessorNotCallable: density / molar_mass are properties, material.molar_mass() calls a float / None
     [] OTHER -> Refused("TypeError")

\* BaseIsotherm.to_dict (baseisotherm.py:315-343) followed by the constructor on the dictionary
Render(m) == IF IsEmpty(m.props) /\ m.x = 0 THEN "string" ELSE "dict"
RoundTripImpl(s, o) ==
   LET m == MatOf(s, o.i)
       o2 == IF Render(m) = "string" THEN [Op0 EXCEPT !.form = "name", !.name = m.name]
             ELSE IF m.name = NoName THEN [Op0 EXCEPT !.form = "nameless", !.props = m.props]
             ELSE [Op0 EXCEPT !.form = "dict", !.name = m.name, !.props = m.props]
       r == Resolve(s, o2)
       fresh == r.h = Fresh(s)
   IN \* str(material) of a material named None: "__str__ returned non-string" (consequence of NamelessMaterial)
      IF m.name = NoName /\ Render(m) = "string" THEN [s |-> s, out |-> Refused("TypeError")]
      ELSE [s |-> IF fresh THEN s ELSE r.s,          \* a fresh object belongs to the rebuilt isotherm only
            out |-> [Out0 EXCEPT !.render = Render(m), !.h = IF fresh THEN 0 ELSE r.h,
                                 !.name = r.s.heap[r.h].name, !.props = r.s.heap[r.h].props, !.x = r.s.heap[r.h].x]]

\* convert_material / loading(material_basis=...) -> c_material(..., material=self.material): material.density and
\* material.molar_mass of the isotherm's OWN object; a missing one is None and `None ** sign` raises
ConvertImpl(s, o, permanent) ==
   LET b1 == s.iso[o.i].basis   p == MatOf(s, o.i).props IN
   IF HasAll(p, Needed(b1, o.basis))
   THEN [s |-> IF permanent THEN [s EXCEPT !.iso[o.i].basis = o.basis] ELSE s,
         out |-> [Out0 EXCEPT !.num = Factor(b1, o.basis, p)[1], !.den = Factor(b1, o.basis, p)[2]]]
   \* NAMED DEVIATION MissingPropertyTypeError
   ELSE [s |-> s, out |-> [Refused("TypeError") EXCEPT !.num = 1]]

Impl(s, o) ==
   CASE o.op = "NewMaterial" -> [s |-> NewMaterialImpl(s, o), out |-> [Out0 EXCEPT !.h = Fresh(s)]]
     [] o.op = "ListAppend" -> [s |-> [s EXCEPT !.reg = Append(@, o.h)], out |-> Out0]
     [] o.op = "Find" -> [s |-> s, out |-> FindImpl(s, o)]
     \* the constructor first tests `None in [material, adsorbate, temperature]`, which compares with ==, and
     \* Material.__eq__(None) is `self.name == None`: a Material OBJECT named None is refused there (consequence of NamelessMaterial)
     [] o.op = "NewIsotherm" /\ o.form = "obj" /\ s.heap[o.h].name = NoName -> [s |-> s, out |-> Refused("ParameterError")]
     [] o.op \in {"NewIsotherm", "SetMaterial"} -> LET r == Resolve(s, o) IN [s |-> Bind(r.s, o.i, r.h), out |-> [Out0 EXCEPT !.h = r.h]]
     [] o.op = "EditProps" -> [s |-> EditImpl(s, o), out |-> Out0]
     [] o.op = "GetProp" -> [s |-> s, out |-> GetPropImpl(s, o)]
     [] o.op = "RoundTrip" -> RoundTripImpl(s, o)
     [] o.op = "ConvertMaterial" -> ConvertImpl(s, o, TRUE)
     [] o.op = "ReadLoading" -> ConvertImpl(s, o, FALSE)

---------------------------------------------------------------------------
\* PRESCRIPTIVE: the clauses the documentation gives, each as a predicate over one observed step
\* (pre-state s, operation o, post-state t, outcome out).  Violated = names of the clauses broken.

\* objects that existed before the step and do not look the same after it
Changed(s, t) == {h \in DOMAIN s.heap : h \notin DOMAIN t.heap \/ t.heap[h] # s.heap[h]}
NewObjs(s, t) == {h \in DOMAIN t.heap : h \notin DOMAIN s.heap}
OtherIsos(s, t, i) == \A j \in DOMAIN s.iso : j # i => t.iso[j] = s.iso[j]
\* the step allocates nothing / exactly the object ob
NoAlloc(s, t) == Len(t.heap) = Len(s.heap)
AllocOnly(s, t, ob) == Len(t.heap) = Len(s.heap) + 1 /\ t.heap[Fresh(s)] = ob
Cl(name, holds) == IF holds THEN {} ELSE {name}

\* every operation: only the object an edit addresses may change ("NoActionAtADistance"); the registry changes only
\* through store=True / append; the isotherms the operation does not address keep their material
Frame(s, o, t) ==
        Cl("NoActionAtADistance", Changed(s, t) \subseteq (IF o.op = "EditProps" THEN {o.h} ELSE {}))
   \cup Cl("RegistryUntouched", o.op \in {"NewMaterial", "ListAppend"} \/ t.reg = s.reg)
   \cup Cl("OtherIsothermsUntouched", OtherIsos(s, t, IF o.op \in {"NewIsotherm", "SetMaterial", "ConvertMaterial"} THEN o.i ELSE 0))
   \cup Cl("ReferencesResolve", (\A j \in DOMAIN t.iso : t.iso[j].mat \in 0..Len(t.heap)) /\ (\A j \in DOMAIN t.reg : t.reg[j] \in 1..Len(t.heap)))

\* Material(name, store=..., **props): the object holds what was passed; with store=True it is "automatically stored in
\* MATERIAL_LIST", i.e. Material.find(name) gives a material with these properties (or the call is refused);
\* registering through store=True never produces two entries of one name
NewMaterialSpec(s, o, t, out) ==
   IF out.res # "ok" THEN Cl("StoreRefusalLeavesStateAlone", o.store /\ RegPos(s, o.name) # {} /\ t = s)
   ELSE Cl("MaterialCreated", AllocOnly(s, t, Obj(o.name, o.props)) /\ out.h = Fresh(s))
        \cup Cl("NotStoredUnlessAsked", o.store \/ t.reg = s.reg)
        \cup Cl("StoredMaterialIsFound", ~o.store \/ (RegPos(t, o.name) # {} /\ t.heap[First(t, o.name)].props = o.props))
        \cup Cl("StoreAppendsAtEnd", ~o.store \/ t.reg = s.reg \/ t.reg = Append(s.reg, Fresh(s)))
        \cup Cl("StoreKeepsNamesUnique", ~o.store \/ ~UniqueNames(s) \/ UniqueNames(t))

\* Material.find: "Get the specified material from the master list ... Raises ParameterError if it does not exist in list"
FindSpec(s, o, t, out) ==
   Cl("FindIsPure", t = s)
   \cup CASE o.form = "name" -> IF RegPos(s, o.name) = {} THEN Cl("FindRefusesUnknownName", out.res = "ParameterError")
                                ELSE Cl("FindReturnsRegisteredOfThatName", out.res = "ok" /\ out.h \in RegObjs(s, o.name))
          \* "skip search if already material": the object itself (refusing an unregistered one would also match the docstring)
          [] o.form = "obj" -> Cl("FindReturnsTheObject", (out.res = "ok" /\ out.h = o.h) \/ (out.res = "ParameterError" /\ ~IsReg(s, o.h)))
          [] OTHER -> Cl("FindRefusesNonString", out.res = "ParameterError")

\* manual/material.rst: "Each time an isotherm is created, pyGAPS looks in the main material list for an instance with the
\* same name ... If the material does not exist in pygaps.MATERIAL_LIST, pyGAPS will create a new instance for the isotherm."
BindSpec(s, o, t, out) ==
   Cl("BasisKept", t.iso[o.i].basis = s.iso[o.i].basis)
   \cup CASE o.form = "name" ->
               IF RegPos(s, o.name) # {}
               THEN Cl("NameBindsRegisteredObject", out.res = "ok" /\ t.iso[o.i].mat \in RegObjs(s, o.name) /\ NoAlloc(s, t))
               ELSE Cl("UnknownNameGetsFreshUnregisteredMaterial", out.res = "ok" /\ t.iso[o.i].mat = Fresh(s) /\ AllocOnly(s, t, Obj(o.name, NoProps)))
          [] o.form = "obj" -> Cl("ObjectBindsThatObject", out.res = "ok" /\ t.iso[o.i].mat = o.h /\ NoAlloc(s, t))
          \* a dictionary: the isotherm's material has that name and shows every entry of the dictionary; it is the registered
          \* object or a fresh one holding exactly the dictionary (what else changes is judged by Frame)
          [] o.form = "dict" ->
               LET h == t.iso[o.i].mat IN
               Cl("DictMaterialShowsTheDictionary", out.res = "ok" /\ h \in 1..Len(t.heap) /\ t.heap[h].name = o.name
                                                    /\ \A k \in Keys : o.props[k] # 0 => t.heap[h].props[k] = o.props[k])
               \cup Cl("DictBindsRegisteredOrFresh", (h \in RegObjs(s, o.name) /\ NoAlloc(s, t))
                                                     \/ (h = Fresh(s) /\ AllocOnly(s, t, Obj(o.name, o.props))))
          \* "Isotherm MUST have the following properties: material, ...": a material without a name is no material
          [] OTHER -> Cl("NamelessMaterialRefused", out.res = "ParameterError" /\ t = s)

\* the documented way to give a material its density: isotherm.material.properties['density'] = 2 (units.rst)
EditSpec(s, o, t, out) ==
   Cl("EditApplied", out.res = "ok" /\ NoAlloc(s, t) /\ o.h \in DOMAIN t.heap
                     /\ (t.heap[o.h] = [s.heap[o.h] EXCEPT !.props[o.key] = o.v]
                         \/ (o.form = "setter" /\ o.v = 0 /\ t.heap[o.h] = s.heap[o.h])))      \* setter with a falsy value: silent either way

\* get_prop: "Returns value of property in the properties dict. Raises ParameterError if it does not exist";
\* density / molar_mass: "(optional)" -> None when absent; manual: my_material.molar_mass()  >> 256
GetPropSpec(s, o, t, out) ==
   LET v == Get(s.heap[o.h].props, o.key) IN
   Cl("GetPropIsPure", t = s)
   \cup CASE o.form = "get_prop" -> IF v # 0 THEN Cl("GetPropReturnsTheValue", out.res = "value" /\ out.v = v)
                                    ELSE Cl("GetPropRefusesMissing", out.res = "ParameterError")
          [] o.form = "attr" -> IF v # 0 THEN Cl("AccessorReturnsTheValue", out.res = "value" /\ out.v = v)
                                ELSE Cl("AccessorNoneWhenAbsent", out.res = "None")
          [] OTHER -> IF v # 0 THEN Cl("ManualCallSyntaxReturnsTheValue", out.res = "value" /\ out.v = v) ELSE {}

\* to_dict: "Is the same dictionary that was used to create it": the constructor on it gives an isotherm referring to an
\* equal material (same name, same properties), and exporting changes nothing
RoundTripSpec(s, o, t, out) ==
   LET m == MatOf(s, o.i) IN
   Cl("RoundTripIsPure", t.reg = s.reg /\ t.iso = s.iso /\ NoAlloc(s, t))
   \cup Cl("RoundTripEqual", out.res = "ok" /\ out.name = m.name /\ out.props = m.props /\ out.x = m.x)

\* units.rst / convert_material docstring: "Depending on the conversion, the density or molar mass of the material is needed";
\* "Only applicable to materials that have been loaded in memory with a 'density' or 'molar mass' property"
ConvertSpec(s, o, t, out, permanent) ==
   LET b1 == s.iso[o.i].basis   p == MatOf(s, o.i).props IN
   IF HasAll(p, Needed(b1, o.basis))
   THEN Cl("ConversionUsesTheIsothermsOwnMaterial", out.res = "ok" /\ RatEq(<<out.num, out.den>>, Factor(b1, o.basis, p)))
        \cup Cl("ConversionLabelsTheNewBasis", t.iso[o.i] = [s.iso[o.i] EXCEPT !.basis = IF permanent THEN o.basis ELSE @])
   ELSE Cl("MissingPropertyRefusedWithParameterError", out.res = "ParameterError")
        \cup Cl("RefusedConversionLeavesIsothermAlone", out.res = "ok" \/ (t.iso = s.iso /\ RatEq(<<out.num, out.den>>, <<1, 1>>)))

Violated(s, o, t, out) ==
   Frame(s, o, t) \cup
   CASE o.op = "NewMaterial" -> NewMaterialSpec(s, o, t, out)
     [] o.op = "ListAppend" -> Cl("AppendAppends", t.reg = Append(s.reg, o.h) /\ NoAlloc(s, t))
     [] o.op = "Find" -> FindSpec(s, o, t, out)
     [] o.op \in {"NewIsotherm", "SetMaterial"} -> BindSpec(s, o, t, out)
     [] o.op = "EditProps" -> EditSpec(s, o, t, out)
     [] o.op = "GetProp" -> GetPropSpec(s, o, t, out)
     [] o.op = "RoundTrip" -> RoundTripSpec(s, o, t, out)
     [] o.op = "ConvertMaterial" -> ConvertSpec(s, o, t, out, TRUE)
     [] o.op = "ReadLoading" -> ConvertSpec(s, o, t, out, FALSE)

---------------------------------------------------------------------------
\* NAMED DEVIATIONS: where (pre-state, operation) the code is known to leave the documentation, and which clauses that costs.
\* Everything else must satisfy every clause.
DevClass(s, o) ==
   CASE o.op = "NewMaterial" /\ o.store /\ RegPos(s, o.name) # {} /\ s.heap[First(s, o.name)].props # o.props -> "StoreDuplicateIgnored"
     [] o.op \in {"NewIsotherm", "SetMaterial"} /\ o.form = "dict" /\ RegPos(s, o.name) # {}
        /\ Upd(s.heap[First(s, o.name)].props, o.props) # s.heap[First(s, o.name)].props -> "DictUpdatesRegistered"
     [] o.op \in {"NewIsotherm", "SetMaterial"} /\ o.form = "nameless" -> "NamelessMaterial"
     [] o.op = "NewIsotherm" /\ o.form = "obj" /\ s.heap[o.h].name = NoName -> "NamelessMaterial"
     [] o.op = "GetProp" /\ o.form = "get_prop" /\ o.key \in Reserved /\ Get(s.heap[o.h].props, o.key) = 0 -> "GetPropNoneForReserved"
     [] o.op = "GetProp" /\ o.form = "call" /\ Get(s.heap[o.h].props, o.key) # 0 -> "AccessorNotCallable"
     [] o.op = "RoundTrip" /\ MatOf(s, o.i).name = NoName /\ Render(MatOf(s, o.i)) = "string" -> "NamelessMaterial"
     \* the isotherm's material is not the object its name resolves to (a private object next to a registered namesake)
     [] o.op = "RoundTrip" /\ MatOf(s, o.i).name # NoName /\ RegPos(s, MatOf(s, o.i).name) # {}
        /\ First(s, MatOf(s, o.i).name) # s.iso[o.i].mat
        /\ s.heap[First(s, MatOf(s, o.i).name)].props # MatOf(s, o.i).props -> "RoundTripRebindsToRegisteredNamesake"
     [] o.op \in {"ConvertMaterial", "ReadLoading"} /\ ~HasAll(MatOf(s, o.i).props, Needed(s.iso[o.i].basis, o.basis)) -> "MissingPropertyTypeError"
     [] OTHER -> "none"

DevClauses(d) ==
   CASE d = "StoreDuplicateIgnored" -> {"StoredMaterialIsFound"}
     [] d = "DictUpdatesRegistered" -> {"NoActionAtADistance"}
     [] d = "NamelessMaterial" -> {"NamelessMaterialRefused", "RoundTripEqual", "ObjectBindsThatObject"}
     [] d = "GetPropNoneForReserved" -> {"GetPropRefusesMissing"}
     [] d = "AccessorNotCallable" -> {"ManualCallSyntaxReturnsTheValue"}
     [] d = "RoundTripRebindsToRegisteredNamesake" -> {"RoundTripEqual", "NoActionAtADistance"}
     [] d = "MissingPropertyTypeError" -> {"MissingPropertyRefusedWithParameterError"}
     [] OTHER -> {}
DevNames == {"StoreDuplicateIgnored", "DictUpdatesRegistered", "NamelessMaterial", "GetPropNoneForReserved", "AccessorNotCallable",
             "RoundTripRebindsToRegisteredNamesake", "MissingPropertyTypeError"}

\* what makes a step interesting (coverage tags the harness counts; no verdict depends on them)
Namesakes(s, h) == {g \in DOMAIN s.heap : g # h /\ s.heap[g].name = s.heap[h].name}
Tags(s, o) ==
   LET bound == IF o.i \in DOMAIN s.iso THEN s.iso[o.i].mat ELSE 0 IN
   (IF o.op \in {"ConvertMaterial", "ReadLoading"} /\ bound # 0 /\ HasAll(s.heap[bound].props, Needed(s.iso[o.i].basis, o.basis))
       /\ \E g \in Namesakes(s, bound) : \E k \in Needed(s.iso[o.i].basis, o.basis) : Get(s.heap[g].props, k) # Get(s.heap[bound].props, k)
    THEN {"conversion while a namesake holds another value"} ELSE {})
   \cup (IF o.op \in {"ConvertMaterial", "ReadLoading"} /\ bound # 0 /\ ~IsReg(s, bound) /\ RegPos(s, s.heap[bound].name) # {}
       THEN {"conversion on a private material with a registered namesake"} ELSE {})
   \cup (IF o.op = "EditProps" /\ Cardinality({i \in DOMAIN s.iso : s.iso[i].mat = o.h}) = 2 THEN {"edit of an object two isotherms share"} ELSE {})
   \cup (IF o.op = "EditProps" /\ IsReg(s, o.h) /\ \E i \in DOMAIN s.iso : s.iso[i].mat = o.h THEN {"edit of a registered object an isotherm is bound to"} ELSE {})
   \cup (IF o.op = "Find" /\ o.form = "name" /\ Cardinality(RegPos(s, o.name)) > 1 THEN {"lookup of a name registered twice"} ELSE {})
   \cup (IF o.op = "Find" /\ o.form = "obj" /\ ~IsReg(s, o.h) /\ RegPos(s, s.heap[o.h].name) # {} THEN {"lookup of an unregistered object with a registered namesake"} ELSE {})
   \cup (IF o.op \in {"NewIsotherm", "SetMaterial"} /\ o.form = "name" /\ RegPos(s, o.name) # {} THEN {"name bound to the registered object"} ELSE {})
   \cup (IF o.op \in {"NewIsotherm", "SetMaterial"} /\ o.form = "name" /\ RegPos(s, o.name) = {} /\ \E g \in DOMAIN s.heap : s.heap[g].name = o.name
       THEN {"unregistered name although an object of that name exists"} ELSE {})
   \cup (IF o.op \in {"NewIsotherm", "SetMaterial"} /\ o.form = "obj" /\ ~IsReg(s, o.h) /\ RegPos(s, s.heap[o.h].name) # {}
       THEN {"object bound although a registered namesake exists"} ELSE {})
   \cup (IF o.op = "RoundTrip" /\ bound # 0 /\ IsReg(s, bound) /\ ~IsEmpty(s.heap[bound].props) THEN {"round trip of a registered material with properties"} ELSE {})
   \cup (IF o.op = "RoundTrip" /\ bound # 0 /\ ~IsReg(s, bound) /\ RegPos(s, s.heap[bound].name) = {} /\ ~IsEmpty(s.heap[bound].props)
       THEN {"round trip of a private material with properties"} ELSE {})
   \cup (IF o.op = "NewMaterial" /\ o.store /\ RegPos(s, o.name) = {} /\ \E g \in DOMAIN s.heap : s.heap[g].name = o.name
       THEN {"store of a name only unregistered objects carry"} ELSE {})

\* verdict on one OBSERVED step: it satisfies every clause, or it is exactly the transcribed behaviour of a named deviation
StepVerdict(s, o, t, out) ==
   LET bad == Violated(s, o, t, out)
       r == Impl(s, o)
       asimpl == r.s = t /\ r.out = out
       d == DevClass(s, o)
   IN [ok |-> bad = {} \/ (d # "none" /\ asimpl /\ bad \subseteq DevClauses(d)),
       violated |-> bad, dev |-> IF bad # {} /\ asimpl THEN d ELSE "none", as_impl |-> asimpl,
       differs |-> (IF r.s.heap # t.heap THEN {"heap"} ELSE {}) \cup (IF r.s.reg # t.reg THEN {"registry"} ELSE {})
                   \cup (IF r.s.iso # t.iso THEN {"bindings"} ELSE {}) \cup (IF r.out # out THEN {"outcome"} ELSE {})]

---------------------------------------------------------------------------
\* THE STATE MACHINE: one named action per public operation, each taking the step Impl describes
VARIABLES heap, reg, iso, last
vars == <<heap, reg, iso, last>>
S == [heap |-> heap, reg |-> reg, iso |-> iso]

Init == heap = <<>> /\ reg = <<>> /\ iso = [i \in Isos |-> [mat |-> 0, basis |-> "mass"]] /\ last = [op |-> Op0, out |-> Out0]

Do(o) == LET r == Impl(S, o) IN
         /\ Len(r.s.heap) <= MaxHeap
         /\ heap' = r.s.heap /\ reg' = r.s.reg /\ iso' = r.s.iso /\ last' = [op |-> o, out |-> r.out]

Built(i) == iso[i].mat # 0
Live(h) == h \in DOMAIN heap
\* the ways a material can be handed to Find / an isotherm (quantifier bounds are constant so that TLC names every action)
ArgsOver(H) == {[Op0 EXCEPT !.form = "name", !.name = n] : n \in Names}
               \cup {[Op0 EXCEPT !.form = "dict", !.name = n, !.props = p] : n \in Names, p \in PropChoices}
               \cup {[Op0 EXCEPT !.form = "nameless", !.props = p] : p \in PropChoices}
               \cup {[Op0 EXCEPT !.form = "obj", !.h = h] : h \in H}
AllArgs == ArgsOver(1..MaxHeap)
ArgOK(a) == a.form = "obj" => Live(a.h)
FindArgs == {a \in AllArgs : a.form # "dict" /\ (a.form = "nameless" => a.props = NoProps)}
AsFind(a) == [a EXCEPT !.op = "Find", !.form = IF a.form = "nameless" THEN "other" ELSE @]

NewMaterial(n, p, st) == Len(heap) < MaxHeap /\ Do([Op0 EXCEPT !.op = "NewMaterial", !.name = n, !.props = p, !.store = st])
ListAppend(h) == Live(h) /\ ~IsReg(S, h) /\ Do([Op0 EXCEPT !.op = "ListAppend", !.h = h])
Find(a) == ArgOK(a) /\ Do(AsFind(a))
NewIsotherm(i, a) == ArgOK(a) /\ ~Built(i) /\ Do([a EXCEPT !.op = "NewIsotherm", !.i = i])
SetMaterial(i, a) == ArgOK(a) /\ Built(i) /\ Do([a EXCEPT !.op = "SetMaterial", !.i = i])
EditOK(h, k, v, f) == Live(h) /\ (f = "setter" => k \in Reserved) /\ [heap[h].props EXCEPT ![k] = v] \in PropMaps
EditProps(h, k, v, f) == EditOK(h, k, v, f) /\ Do([Op0 EXCEPT !.op = "EditProps", !.h = h, !.key = k, !.v = v, !.form = f])
GetOK(h, k, f) == Live(h) /\ (f # "get_prop" => k \in Reserved)
GetProp(h, k, f) == GetOK(h, k, f) /\ Do([Op0 EXCEPT !.op = "GetProp", !.h = h, !.key = k, !.form = f])
RoundTrip(i, f) == Built(i) /\ Do([Op0 EXCEPT !.op = "RoundTrip", !.i = i, !.form = f])
ConvertMaterial(i, b) == Built(i) /\ b # iso[i].basis /\ Do([Op0 EXCEPT !.op = "ConvertMaterial", !.i = i, !.basis = b])
ReadLoading(i, b) == Built(i) /\ b # iso[i].basis /\ Do([Op0 EXCEPT !.op = "ReadLoading", !.i = i, !.basis = b])

Next == \/ \E n \in Names, p \in PropChoices, st \in BOOLEAN : NewMaterial(n, p, st)
        \/ \E h \in 1..MaxHeap : ListAppend(h)
        \/ \E a \in FindArgs : Find(a)
        \/ \E i \in Isos, a \in AllArgs : NewIsotherm(i, a)
        \/ \E i \in Isos, a \in AllArgs : SetMaterial(i, a)
        \/ \E h \in 1..MaxHeap, k \in Keys, v \in 0..NV, f \in {"dict", "setter"} : EditProps(h, k, v, f)
        \/ \E h \in 1..MaxHeap, k \in Keys, f \in {"get_prop", "attr", "call"} : GetProp(h, k, f)
        \/ \E i \in Isos, f \in {"ctor", "from_isotherm"} : RoundTrip(i, f)
        \/ \E i \in Isos, b \in Bases : ConvertMaterial(i, b)
        \/ \E i \in Isos, b \in Bases : ReadLoading(i, b)
Spec == Init /\ [][Next]_vars

\* every operation enabled in the current state (the alphabet of Next), for the per-state clauses of MatRegMC
EnabledOps ==
   LET H == DOMAIN heap   A == ArgsOver(H) IN
   {o \in    {[Op0 EXCEPT !.op = "NewMaterial", !.name = n, !.props = p, !.store = st] : n \in Names, p \in PropChoices, st \in BOOLEAN}
        \cup {[Op0 EXCEPT !.op = "ListAppend", !.h = h] : h \in {x \in H : ~IsReg(S, x)}}
        \cup {AsFind(a) : a \in {x \in A : x \in FindArgs}}
        \cup {[a EXCEPT !.op = IF Built(i) THEN "SetMaterial" ELSE "NewIsotherm", !.i = i] : i \in Isos, a \in A}
        \cup {[Op0 EXCEPT !.op = "EditProps", !.h = x[1], !.key = x[2], !.v = x[3], !.form = x[4]] :
                 x \in {y \in H \X Keys \X (0..NV) \X {"dict", "setter"} : EditOK(y[1], y[2], y[3], y[4])}}
        \cup {[Op0 EXCEPT !.op = "GetProp", !.h = x[1], !.key = x[2], !.form = x[3]] :
                 x \in {y \in H \X Keys \X {"get_prop", "attr", "call"} : GetOK(y[1], y[2], y[3])}}
        \cup {[Op0 EXCEPT !.op = "RoundTrip", !.i = i, !.form = f] : i \in {x \in Isos : Built(x)}, f \in {"ctor", "from_isotherm"}}
        \cup {[Op0 EXCEPT !.op = c, !.i = x[1], !.basis = x[2]] : c \in {"ConvertMaterial", "ReadLoading"},
                 x \in {y \in Isos \X Bases : Built(y[1]) /\ y[2] # iso[y[1]].basis}}
    : Len(Impl(S, o).s.heap) <= MaxHeap}
=============================================================================
