CONSTANTS
  Objs = {"a"}
  Data = {"d1"}
  Keys = {"k1"}
  Res = {"r1"}
  Temps = {"t1"}
  Defects = {}
INIT TInit
NEXT TNext
