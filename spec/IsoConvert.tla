----------------------------- MODULE IsoConvert -----------------------------
(***************************************************************************)
(* Permanent conversions of a PointIsotherm (C02).                         *)
(*                                                                         *)
(* Abstract state of an isotherm: its seven unit labels.  The data are     *)
(* abstracted to the monomials by which the pressure column and the        *)
(* loading column differ from the SI quantities (ColP, ColL below), the    *)
(* temperature to the number of 273.15 offsets.                            *)
(*                                                                         *)
(*   StepAllowed(s, op, out, s2)  - PRESCRIPTIVE: may a call `op` on an    *)
(*        isotherm labelled s end with outcome out in {"ok","raised"} and  *)
(*        labels s2?  (the data obligation is: columns change by           *)
(*        DeltaP / DeltaL, evaluated numerically by the harness)           *)
(*   ImplStep(s, op)              - DESCRIPTIVE: what pointisotherm.py /   *)
(*        baseisotherm.py do (guards, early returns, label updates).       *)
(*                                                                         *)
(* Op encoding: [k |-> "CP"|"CL"|"CM"|"CT"|"CV", a |-> basis/mode arg,     *)
(*               u |-> unit arg, (CV:) pa,pu,la,lu,ma,mu]                  *)
(***************************************************************************)
EXTENDS Units

PRep(s) == <<s.pm, s.pu>>
LRep(s) == <<s.lb, s.lu>>
MRep(s) == <<s.mb, s.mu>>

\* the constructor's acceptance test (baseisotherm.py __init__), literally
IsoValid(s) ==
   /\ s.pm \in Modes /\ s.lb \in LBases /\ s.mb \in MBases
   /\ (s.pm = "absolute" => s.pu \in PresU)
   /\ (~Frac(s.lb) => s.lu \in LUnits(s.lb) /\ s.mu \in MUnits(s.mb))
   /\ s.tu \in TempU

DefaultMU(b) == CASE b = "mass" -> "g" [] b = "volume" -> "cm3" [] b = "molar" -> "mol" [] OTHER -> "g"
\* a fraction does not depend on the material unit inside one basis; use a canonical one when the
\* label is not a unit of the basis (the constructor accepts that for fraction/percent isotherms)
MEff(s) == IF s.mu \in MUnits(s.mb) THEN MRep(s) ELSE <<s.mb, DefaultMU(s.mb)>>
ColP(s) == CanonP(PRep(s))
ColL(s) == Plus(CanonL(LRep(s), MEff(s)), CanonM(MEff(s)))
DeltaP(s, s2) == Minus(ColP(s2), ColP(s))
DeltaL(s, s2) == Minus(ColL(s2), ColL(s))
TK(s) == IF s.tu = "degC" THEN 1 ELSE 0

SameP(s, s2) == s2.pm = s.pm /\ s2.pu = s.pu
SameL(s, s2) == s2.lb = s.lb /\ s2.lu = s.lu
SameM(s, s2) == s2.mb = s.mb /\ s2.mu = s.mu
SameT(s, s2) == s2.tu = s.tu

\* physical constants a change of representation needs (subset of Phys0); the harness reports
\* which are available for the isotherm's adsorbate / material
Needs(v) == {a \in Support(Phys(v)) : a \in Phys0 \ {"hundred"}}
Avail(av, v) == Needs(v) \subseteq av

---------------------------------------------------------------------------
\* ---- pressure
PMode(s, a) == IF Falsy(a) THEN s.pm ELSE a
PMustRefuse(s, a, u) == LET mt == PMode(s, a) IN
   \/ mt \notin Modes
   \/ mt = "absolute" /\ ~Falsy(u) /\ u \notin PresU
PMustSucceed(s, a, u, av) == LET mt == PMode(s, a) IN
   /\ mt \in Modes
   /\ mt = "absolute" => (u \in PresU \/ (Falsy(u) /\ s.pm = "absolute"))
   /\ mt # "absolute" => u \in PresU \cup {N, E}
   /\ Avail(av, DeltaP(s, [s EXCEPT !.pm = mt, !.pu = IF mt = "absolute" THEN (IF u \in PresU THEN u ELSE s.pu) ELSE N]))
POk(s, a, u, s2) == LET mt == PMode(s, a) IN
   /\ ~PMustRefuse(s, a, u) /\ IsoValid(s2)
   /\ s2.pm = mt
   /\ (mt = "absolute" /\ u \in PresU => s2.pu = u)
   /\ (mt = "absolute" /\ Falsy(u) /\ s.pm = "absolute" => s2.pu = s.pu)    \* keep the current unit
   /\ (mt # "absolute" => s2.pu = N)
   /\ SameL(s, s2) /\ SameM(s, s2) /\ SameT(s, s2)

\* ---- loading
LBasis(s, a) == IF Falsy(a) THEN s.lb ELSE a
LMustRefuse(s, a, u) == LET bt == LBasis(s, a) IN
   \/ bt \notin LBases
   \/ ~Frac(bt) /\ ~Falsy(u) /\ u \notin LUnits(bt)
   \/ bt \in LBases /\ bt # s.lb /\ (Frac(bt) # Frac(s.lb)) /\ ~ValidM(MRep(s))
LMustSucceed(s, a, u, av) == LET bt == LBasis(s, a) IN
   /\ bt \in LBases
   /\ (Frac(bt) \/ u \in LUnits(bt) \/ (Falsy(u) /\ bt = s.lb))
   /\ (bt # s.lb /\ (Frac(bt) # Frac(s.lb)) => ValidM(MRep(s)))
   /\ Avail(av, DeltaL(s, [s EXCEPT !.lb = bt, !.lu = IF Frac(bt) THEN N ELSE (IF u \in LUnits(bt) THEN u ELSE s.lu)]))
LOk(s, a, u, s2) == LET bt == LBasis(s, a) IN
   /\ ~LMustRefuse(s, a, u) /\ IsoValid(s2)
   /\ s2.lb = bt
   /\ (~Frac(bt) /\ u \in LUnits(bt) => s2.lu = u)
   /\ (~Frac(bt) /\ Falsy(u) /\ bt = s.lb => s2.lu = s.lu)
   /\ SameP(s, s2) /\ SameM(s, s2) /\ SameT(s, s2)

\* ---- material
MBasis(s, a) == IF Falsy(a) THEN s.mb ELSE a
MMustRefuse(s, a, u) == LET bt == MBasis(s, a) IN
   \/ bt \notin MBases
   \/ ~Falsy(u) /\ u \notin MUnits(bt) /\ ~(Frac(s.lb) /\ bt = s.mb)
   \/ bt \in MBases /\ bt # s.mb /\ ~ValidM(MRep(s))
MMustSucceed(s, a, u, av) == LET bt == MBasis(s, a) IN
   /\ bt \in MBases
   /\ (u \in MUnits(bt) \/ (Falsy(u) /\ bt = s.mb))
   /\ (bt # s.mb => ValidM(MRep(s)))
   /\ Avail(av, DeltaL(s, [s EXCEPT !.mb = bt, !.mu = IF u \in MUnits(bt) THEN u ELSE s.mu]))
MOk(s, a, u, s2) == LET bt == MBasis(s, a) IN
   /\ ~MMustRefuse(s, a, u) /\ IsoValid(s2)
   /\ s2.mb = bt
   /\ (u \in MUnits(bt) => s2.mu = u)
   /\ (Falsy(u) /\ bt = s.mb => s2.mu = s.mu)
   /\ SameP(s, s2) /\ SameL(s, s2) /\ SameT(s, s2)

\* ---- temperature
TMustRefuse(u) == TempNorm(u) = B
TOk(s, u, s2) == ~TMustRefuse(u) /\ s2.tu = TempNorm(u) /\ SameP(s, s2) /\ SameL(s, s2) /\ SameM(s, s2)

\* ---- combined convert(): the three single conversions it was asked for, in any order;
\* refused => exactly the effect of a proper subset of them, and some remaining one is refusable
CVWantsP(op) == ~Falsy(op.pa) \/ ~Falsy(op.pu)
CVWantsL(op) == ~Falsy(op.la) \/ ~Falsy(op.lu)
CVWantsM(op) == ~Falsy(op.ma) \/ ~Falsy(op.mu)
CVOk(s, op, s2) ==
   /\ IF CVWantsP(op) THEN POk(s, op.pa, op.pu, [s EXCEPT !.pm = s2.pm, !.pu = s2.pu]) ELSE SameP(s, s2)
   /\ IF CVWantsM(op) THEN MOk(s, op.ma, op.mu, [s EXCEPT !.mb = s2.mb, !.mu = s2.mu]) ELSE SameM(s, s2)
   /\ IF CVWantsL(op) THEN LOk([s EXCEPT !.mb = s2.mb, !.mu = s2.mu], op.la, op.lu,
                               [s EXCEPT !.mb = s2.mb, !.mu = s2.mu, !.lb = s2.lb, !.lu = s2.lu]) ELSE SameL(s, s2)
   /\ SameT(s, s2) /\ IsoValid(s2)
CVRaised(s, op, s2, av) ==
   \E doneP, doneM, doneL \in BOOLEAN :
      /\ (doneP => CVWantsP(op)) /\ (doneM => CVWantsM(op)) /\ (doneL => CVWantsL(op))
      /\ IF doneP THEN POk(s, op.pa, op.pu, [s EXCEPT !.pm = s2.pm, !.pu = s2.pu]) ELSE SameP(s, s2)
      /\ IF doneM THEN MOk(s, op.ma, op.mu, [s EXCEPT !.mb = s2.mb, !.mu = s2.mu]) ELSE SameM(s, s2)
      /\ IF doneL THEN LOk([s EXCEPT !.mb = s2.mb, !.mu = s2.mu], op.la, op.lu,
                           [s EXCEPT !.mb = s2.mb, !.mu = s2.mu, !.lb = s2.lb, !.lu = s2.lu]) ELSE SameL(s, s2)
      /\ SameT(s, s2) /\ IsoValid(s2)
      \* some requested step did not complete and was entitled to refuse from where we are
      /\ \/ CVWantsP(op) /\ ~doneP /\ ~PMustSucceed(s2, op.pa, op.pu, av)
         \/ CVWantsM(op) /\ ~doneM /\ ~MMustSucceed(s2, op.ma, op.mu, av)
         \/ CVWantsL(op) /\ ~doneL /\ ~LMustSucceed(s2, op.la, op.lu, av)

\* ---- the prescriptive step relation; returns the name of the violated clause or "ok"
Judge(s, op, out, s2, av) ==
   IF ~IsoValid(s) THEN "pre_state_invalid_not_judged"
   ELSE IF out = "raised" THEN
        IF s2 # s /\ op.k # "CV" THEN "refused_call_changed_labels"
        ELSE CASE op.k = "CP" -> IF PMustSucceed(s, op.a, op.u, av) THEN "valid_target_refused" ELSE "ok"
               [] op.k = "CL" -> IF LMustSucceed(s, op.a, op.u, av) THEN "valid_target_refused" ELSE "ok"
               [] op.k = "CM" -> IF MMustSucceed(s, op.a, op.u, av) THEN "valid_target_refused" ELSE "ok"
               [] op.k = "CT" -> IF ~TMustRefuse(op.u) THEN "valid_target_refused" ELSE "ok"
               [] op.k = "CV" -> IF CVRaised(s, op, s2, av) THEN "ok" ELSE "refused_combined_not_a_completed_prefix"
   ELSE IF ~IsoValid(s2) THEN "labels_invalid_after_call"
   ELSE CASE op.k = "CP" -> IF POk(s, op.a, op.u, s2) THEN "ok" ELSE "wrong_labels_after_convert_pressure"
          [] op.k = "CL" -> IF LOk(s, op.a, op.u, s2) THEN "ok" ELSE "wrong_labels_after_convert_loading"
          [] op.k = "CM" -> IF MOk(s, op.a, op.u, s2) THEN "ok" ELSE "wrong_labels_after_convert_material"
          [] op.k = "CT" -> IF TOk(s, op.u, s2) THEN "ok" ELSE "wrong_labels_after_convert_temperature"
          [] op.k = "CV" -> IF CVOk(s, op, s2) THEN "ok" ELSE "wrong_labels_after_convert"
StepAllowed(s, op, out, s2, av) == Judge(s, op, out, s2, av) \in {"ok", "pre_state_invalid_not_judged"}

---------------------------------------------------------------------------
\* ---- Impl: transcription of pointisotherm.py convert_* (after the unit-omitted repair) and
\* baseisotherm.py convert_temperature.  Result [out, s, vp, vl]: outcome, labels, data monomials applied.
IR(out, s, vp, vl) == [out |-> out, s |-> s, vp |-> vp, vl |-> vl]
IsVal(o) == o[1] = "val"

ImplCP(s, a, u) ==
   LET mt == IF Falsy(a) THEN s.pm ELSE a
       ut == IF Falsy(u) /\ mt = s.pm THEN s.pu ELSE u
   IN IF mt = s.pm /\ ut = s.pu THEN IR("ok", s, Zero, Zero)
      ELSE LET r == ImplPressure(PRep(s), <<mt, ut>>) IN
           IF ~IsVal(r) THEN IR("raised", s, Zero, Zero)
           ELSE IR("ok", [s EXCEPT !.pm = mt, !.pu = IF ut # s.pu /\ mt = "absolute" THEN ut ELSE N], r[2], Zero)

ImplCL(s, a, u) ==
   LET bt == IF Falsy(a) THEN s.lb ELSE a
       ut == IF Falsy(u) /\ bt = s.lb THEN s.lu ELSE u
   IN IF bt = s.lb /\ ut = s.lu THEN IR("ok", s, Zero, Zero)
      ELSE IF Frac(s.lb) /\ bt = s.lb THEN IR("ok", s, Zero, Zero)
      ELSE LET r == ImplLoading(LRep(s), <<bt, ut>>, MRep(s)) IN
           IF ~IsVal(r) THEN IR("raised", s, Zero, Zero)
           ELSE IR("ok", [s EXCEPT !.lb = bt, !.lu = IF Frac(bt) THEN N ELSE ut], Zero, r[2])

ImplCM(s, a, u) ==
   LET bt == IF Falsy(a) THEN s.mb ELSE a
       ut == IF Falsy(u) /\ bt = s.mb THEN s.mu ELSE u
   IN IF bt = s.mb /\ ut = s.mu THEN IR("ok", s, Zero, Zero)
      ELSE IF Frac(s.lb) /\ bt = s.mb THEN IR("ok", [s EXCEPT !.mu = ut], Zero, Zero)      \* "virtual" unit change
      ELSE LET r == ImplMaterial(MRep(s), <<bt, ut>>) IN
           IF ~IsVal(r) THEN IR("raised", s, Zero, Zero)
           ELSE IF Frac(s.lb) THEN
                LET r2 == ImplLoading(<<MatAsLoad(s.mb), s.mu>>, <<MatAsLoad(bt), ut>>, <<N, N>>) IN
                IF ~IsVal(r2) THEN IR("raised", s, Zero, Zero)
                ELSE IR("ok", [s EXCEPT !.mb = bt, !.mu = ut], Zero, Plus(r[2], r2[2]))
           ELSE IR("ok", [s EXCEPT !.mb = bt, !.mu = ut], Zero, r[2])

ImplCT(s, u) == IF TempNorm(u) = B THEN IR("raised", s, Zero, Zero) ELSE IR("ok", [s EXCEPT !.tu = TempNorm(u)], Zero, Zero)

ImplCV(s, op) ==
   LET r1 == IF CVWantsP(op) THEN ImplCP(s, op.pa, op.pu) ELSE IR("ok", s, Zero, Zero) IN
   IF r1.out = "raised" THEN r1 ELSE
   LET r2 == IF CVWantsM(op) THEN ImplCM(r1.s, op.ma, op.mu) ELSE IR("ok", r1.s, Zero, Zero) IN
   IF r2.out = "raised" THEN IR("raised", r1.s, r1.vp, Zero) ELSE
   LET r3 == IF CVWantsL(op) THEN ImplCL(r2.s, op.la, op.lu) ELSE IR("ok", r2.s, Zero, Zero) IN
   IF r3.out = "raised" THEN IR("raised", r2.s, r1.vp, r2.vl)
   ELSE IR("ok", r3.s, r1.vp, Plus(r2.vl, r3.vl))

ImplStep(s, op) ==
   CASE op.k = "CP" -> ImplCP(s, op.a, op.u)
     [] op.k = "CL" -> ImplCL(s, op.a, op.u)
     [] op.k = "CM" -> ImplCM(s, op.a, op.u)
     [] op.k = "CT" -> ImplCT(s, op.u)
     [] op.k = "CV" -> ImplCV(s, op)
=============================================================================
