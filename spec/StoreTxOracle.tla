---------------------------- MODULE StoreTxOracle ----------------------------
(***************************************************************************)
(* Judge of the fault / crash enumeration on the real code (property C09). *)
(* One record = one public write operation executed on a real database     *)
(* file with ONE fault injected (statement k rejected with an sqlite3      *)
(* error, a Python exception after statement k, or the process killed      *)
(* before / after statement k or around the commit):                       *)
(*   pre, complete : projection of the target file before the call / after *)
(*                   the same call run without fault (on a copy)           *)
(*   out0          : outcome of the fault-free call                        *)
(*   out, durable  : outcome of the faulted call, projection afterwards    *)
(*                   (independent connection, after hot-journal recovery)  *)
(*   others_same   : every other file is byte-identical                    *)
(*   facts         : row-level facts of the file afterwards (orphan rows,  *)
(*                   PRAGMA foreign_key_check, PRAGMA integrity_check)     *)
(*   retr_pre, retr: what *_from_db return before the call and afterwards  *)
(*   rep_out, rep_post : the same operation repeated afterwards, no fault  *)
(* The clauses are those of the property text; the repeat is judged with   *)
(* Store!SpecStep from the file as it actually is after the fault.         *)
(***************************************************************************)
EXTENDS Naturals, Sequences, FiniteSets, TLC, TLCExt, Json, IOUtils

U == JsonDeserialize(IOEnv.U_IN)
Q == JsonDeserialize(IOEnv.X_IN)
ToSet(s) == {s[i] : i \in DOMAIN s}

S == INSTANCE Store WITH
       Files <- ToSet(U.files), Ads <- ToSet(U.ads), Mats <- ToSet(U.mats), APT <- ToSet(U.apt),
       MPT <- ToSet(U.mpt), ITY <- ToSet(U.ity), IPT <- ToSet(U.ipt), Isos <- ToSet(U.isos),
       AdsVer <- ToSet(U.adsver), MatVer <- ToSet(U.matver), TyVer <- ToSet(U.tyver),
       AdsUses <- [v \in DOMAIN U.adsuses |-> ToSet(U.adsuses[v])],
       MatUses <- [v \in DOMAIN U.matuses |-> ToSet(U.matuses[v])],
       IsoMat <- U.isomat, IsoAds <- U.isoads, IsoTy <- U.isoty,
       IsoMatVer <- U.isomatver, IsoAdsVer <- U.isoadsver, IsoTemp <- U.isotemp, IsoClass <- U.isoclass,
       Traits <- ToSet(U.traits)

\* content tokens a file may legitimately hold: anything else is a half-present item
Good(fld, tok) ==
  \/ tok = S!Absent
  \/ fld = "ads" /\ tok \in ToSet(U.adsver)
  \/ fld = "mats" /\ tok \in ToSet(U.matver)
  \/ fld \in {"apt", "mpt", "ity", "ipt"} /\ tok \in ToSet(U.tyver)
  \/ fld = "isos" /\ tok = S!Here
Whole(f) == \A fld \in {"ads", "mats", "apt", "mpt", "ity", "ipt", "isos"} :
              \A k \in DOMAIN f[fld] : k = "#rest" \/ Good(fld, f[fld][k])
FactsClean(x) == /\ x.fk_violations = 0 /\ x.integrity_ok /\ x.orphan_ads_props = 0
                 /\ x.orphan_mat_props = 0 /\ x.orphan_iso_props = 0 /\ x.orphan_iso_data = 0

Step(q) ==
  LET o == q.op
      atomic == q.durable = q.pre \/ q.durable = q.complete
      whole == Whole(q.durable) /\ FactsClean(q.facts)
      intact == /\ q.others_same
                /\ q.durable.rest = q.pre.rest
                /\ (q.durable = q.pre => q.retr = q.retr_pre)
      \* a call that failed (or died before its commit returned) and left the old content must not have
      \* reported success; a call that reported success must have stored everything
      honest == /\ (q.out = "ok" => q.durable = q.complete)
                /\ (q.out \in {"refused", "error"} => q.durable = q.pre)
      allowedRep == S!SpecStep(q.durable, o)
      repeatable == \E s \in allowedRep : S!OutcomeAllowed(q.rep_out, s.out) /\ s.f = q.rep_post
      clause == IF ~atomic THEN "atomic"               \* complete effect or none of it
                ELSE IF ~whole THEN "nothing_half_present"
                ELSE IF ~intact THEN "prior_content_intact"
                ELSE IF ~honest THEN "outcome_matches_effect"
                ELSE IF ~repeatable THEN "repeatable"  \* the same operation can be repeated successfully
                ELSE "none"
      \* the fault-free call itself must be a step Store!Spec allows (otherwise the scenario shows a
      \* divergence that belongs to property C08 and says nothing about faults)
      base == \E s \in S!SpecStep(q.pre, o) : S!OutcomeAllowed(q.out0, s.out) /\ s.f = q.complete
  IN [ok |-> clause = "none", clause |-> clause, base_conforms |-> base,
      durable_is |-> IF q.durable = q.pre THEN (IF q.pre = q.complete THEN "pre=complete" ELSE "pre")
                     ELSE IF q.durable = q.complete THEN "complete" ELSE "neither",
      rep_allowed |-> {s.out : s \in allowedRep}]

ASSUME JsonSerialize(IOEnv.X_OUT, [i \in 1..Len(Q) |-> Step(Q[i])])
VARIABLE x
Init == x = 0
Next == x' = x
=============================================================================
