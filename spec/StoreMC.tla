------------------------------ MODULE StoreMC ------------------------------
(***************************************************************************)
(* The store run as a transition system over operation histories.          *)
(*                                                                         *)
(*  SpecSys  (StoreMC_spec*.cfg): db evolves by Store!SpecStep; `model` is *)
(*           a plain dictionary updated without preconditions on every     *)
(*           accepted operation.  TLC checks the history-level statement   *)
(*           of property C08 on every reachable state.                     *)
(*  ImplSys  (StoreMC_impl.cfg): db and the session registries evolve by   *)
(*           Store!ImplStep; every (state, operation) where Impl leaves    *)
(*           Spec is classified, and the first (= shortest, BFS, one       *)
(*           worker) history reaching each class is printed as WITNESS.    *)
(*  GenSys   (StoreMC_sim.cfg): the same system under -simulate prints     *)
(*           random operation histories (HIST) that the driver replays on  *)
(*           real database files.                                          *)
(***************************************************************************)
EXTENDS Store, Json

CONSTANTS MaxDepth, HistLen, WithIPT

MCAds == {"A1", "A2"}
MCMats == {"M1", "M2"}
MCAPT == {"pa"}
MCMPT == {"pm"}
MCITY == {"tp", "tm"}
MCIPT == {"pi"}
MCIsos == {"I1", "I2", "I3"}
MCAdsVer == {"a0", "a1"}
MCMatVer == {"m0", "m1"}
MCTyVer == {"t1", "t2", "auto"}
MCAdsUses == [v \in MCAdsVer |-> IF v = "a1" THEN {"pa"} ELSE {}]
MCMatUses == [v \in MCMatVer |-> IF v = "m1" THEN {"pm"} ELSE {}]
MCIsoMat == [i \in MCIsos |-> IF i = "I2" THEN "M2" ELSE "M1"]
MCIsoAds == [i \in MCIsos |-> IF i = "I3" THEN "A2" ELSE "A1"]
MCIsoTy == [i \in MCIsos |-> IF i = "I3" THEN "tm" ELSE "tp"]
MCIsoMatVer == [i \in MCIsos |-> IF i = "I2" THEN "m0" ELSE "m1"]
MCIsoAdsVer == [i \in MCIsos |-> "a0"]
\* Impl as first seen; the driver writes a derived cfg with "Traits = {...}" for the traits it probed
MCTraits == AllTraits
MCIsoTemp == [i \in MCIsos |-> IF i = "I1" THEN "T80.5" ELSE IF i = "I2" THEN "T0" ELSE "T83.5"]
MCIsoClass == [i \in MCIsos |-> IF i = "I2" THEN "coerce" ELSE "plain"]

VARIABLES db, model, reg, hist
vars == <<db, model, reg, hist>>

\* a file as db_create leaves it: the three standard isotherm types exist, nothing else tracked
Fresh == [ads |-> [a \in Ads |-> Absent], mats |-> [m \in Mats |-> Absent],
          apt |-> [t \in APT |-> Absent], mpt |-> [t \in MPT |-> Absent],
          ity |-> [t \in ITY |-> Auto], ipt |-> [t \in IPT |-> Absent], isos |-> [i \in Isos |-> Absent], rest |-> "r0"]
Reg0 == [mats |-> [m \in Mats |-> 0], ads |-> [a \in Ads |-> 0]]

O(op, d, k, v, ow, ai, am, aa, by, cm, ca) ==
  [op |-> op, d |-> d, k |-> k, v |-> v, ow |-> ow, ai |-> ai, am |-> am, aa |-> aa, by |-> by, cm |-> cm, ca |-> ca,
   ct |-> "*", cy |-> "*"]
\* criteria of isotherms_from_db: none, one column (every value incl. one that matches nothing), pairs
Temps == {IsoTemp[i] : i \in Isos}
NM == "nomatch"
Crits == TLCEval(
       {<<"*", "*", "*", "*">>}
  \cup {<<m, "*", "*", "*">> : m \in Mats \cup {NM}} \cup {<<"*", a, "*", "*">> : a \in Ads \cup {NM}}
  \cup {<<"*", "*", t, "*">> : t \in Temps \cup {NM}} \cup {<<"*", "*", "*", y>> : y \in ITY \cup {NM}}
  \cup {<<m, a, "*", "*">> : m \in Mats, a \in Ads} \cup {<<m, "*", t, "*">> : m \in Mats, t \in Temps}
  \cup {<<"*", a, t, "tp">> : a \in Ads, t \in Temps})
BOOL == {TRUE, FALSE}
UpTy == TyVer \ {Auto}
Ops == TLCEval(
     {O("ads_to", d, k, v, ow, ai, FALSE, FALSE, "", "*", "*") : d \in Files, k \in Ads, v \in AdsVer, ow \in BOOL, ai \in BOOL}
\cup {O("mat_to", d, k, v, ow, ai, FALSE, FALSE, "", "*", "*") : d \in Files, k \in Mats, v \in MatVer, ow \in BOOL, ai \in BOOL}
\cup {O("apt_to", d, k, v, ow, FALSE, FALSE, FALSE, "", "*", "*") : d \in Files, k \in APT, v \in UpTy, ow \in BOOL}
\cup {O("mpt_to", d, k, v, ow, FALSE, FALSE, FALSE, "", "*", "*") : d \in Files, k \in MPT, v \in UpTy, ow \in BOOL}
\cup {O("ity_to", d, k, v, ow, FALSE, FALSE, FALSE, "", "*", "*") : d \in Files, k \in ITY, v \in UpTy, ow \in BOOL}
\cup {O("ipt_to", d, k, v, ow, FALSE, FALSE, FALSE, "", "*", "*") : d \in Files, k \in IPT, v \in UpTy, ow \in BOOL}
\cup {O("iso_to", d, k, "", FALSE, FALSE, am, aa, "", "*", "*") : d \in Files, k \in Isos, am \in BOOL, aa \in BOOL}
\cup {O("ads_del", d, k, "", FALSE, FALSE, FALSE, FALSE, by, "*", "*") : d \in Files, k \in Ads, by \in {"name", "obj"}}
\cup {O("mat_del", d, k, "", FALSE, FALSE, FALSE, FALSE, by, "*", "*") : d \in Files, k \in Mats, by \in {"name", "obj"}}
\cup {O("apt_del", d, k, "", FALSE, FALSE, FALSE, FALSE, "name", "*", "*") : d \in Files, k \in APT}
\cup {O("mpt_del", d, k, "", FALSE, FALSE, FALSE, FALSE, "name", "*", "*") : d \in Files, k \in MPT}
\cup {O("ity_del", d, k, "", FALSE, FALSE, FALSE, FALSE, "name", "*", "*") : d \in Files, k \in ITY}
\cup {O("ipt_del", d, k, "", FALSE, FALSE, FALSE, FALSE, "name", "*", "*") : d \in Files, k \in IPT}
\cup {O("iso_del", d, k, "", FALSE, FALSE, FALSE, FALSE, by, "*", "*") : d \in Files, k \in Isos, by \in {"id", "obj", "retrieved"}}
\cup {O(op, d, "", "", FALSE, FALSE, FALSE, FALSE, "", "*", "*") : op \in {"ads_from", "mats_from", "apt_from", "mpt_from", "ity_from", "ipt_from"}, d \in Files}
\cup {O("session", d, "", "", FALSE, FALSE, FALSE, FALSE, "", "*", "*") : d \in {CHOOSE d \in Files : TRUE}}
\cup {[O("iso_from", d, "", "", FALSE, FALSE, FALSE, FALSE, "", c[1], c[2]) EXCEPT !.ct = c[3], !.cy = c[4]] : d \in Files, c \in Crits})

\* the isotherm-property-type table behaves like the other type tables (same SpecTyTo/SpecDel): its
\* operations take part in the state space only when WithIPT (thorough tier), always in StepLaws
Mutating == {o \in Ops : ~IsRetrieval(o) /\ o.op # "session" /\ (WithIPT \/ o.op \notin {"ipt_to", "ipt_del"})}

Init == /\ db = [d \in Files |-> Fresh] /\ model = db /\ reg = Reg0 /\ hist = <<>>

---------------------------------------------------------------------------
\* SpecSys: every allowed result of every operation
SpecNext ==
  \E o \in Mutating : \E r \in SpecStep(db[o.d], o) :
     /\ db' = [db EXCEPT ![o.d] = r.f]
     /\ model' = IF r.out = "ok" THEN [model EXCEPT ![o.d] = PlainEffect(model[o.d], o)] ELSE model
     /\ UNCHANGED <<reg, hist>>
SpecSys == Init /\ [][SpecNext]_vars

\* ---- the history-level statement of C08 ----
\* (1) what is stored is what a plain dictionary of the accepted operations holds
DictionaryModel == db = model
\* (2) no unknown references, ever
Integrity == \A d \in Files : RefInt(db[d])
\* (3) laws of every step enabled in the current state (state-level form of the action properties)
StepLaws ==
  \A o \in Ops : LET f == db[o.d]  S == SpecStep(f, o) IN
    /\ S # {}
    \* a refused operation changes nothing; retrievals change nothing
    /\ \A r \in S : (r.out # "ok" \/ IsRetrieval(o)) => r.f = f
    \* `rest` (everything not named by the operation) is never touched
    /\ \A r \in S : r.f.rest = f.rest
    \* duplicates are refused
    /\ (IsUpload(o) /\ ~o.ow /\ f[FieldOf(o.op)][o.k] # Absent) => \A r \in S : r.out # "ok"
    \* deletions of absent items are refused
    /\ (IsDelete(o) /\ f[FieldOf(o.op)][o.k] = Absent) => \A r \in S : r.out # "ok"
    \* unknown references are refused
    /\ (o.op = "iso_to" /\ ((f.mats[IsoMat[o.k]] = Absent /\ ~o.am) \/ (f.ads[IsoAds[o.k]] = Absent /\ ~o.aa)
                            \/ f.ity[IsoTy[o.k]] = Absent)) => \A r \in S : r.out # "ok"
    /\ (o.op = "ads_to" /\ ~o.ai /\ \E t \in UsesA(o.v) : f.apt[t] = Absent) => \A r \in S : r.out # "ok"
    /\ (o.op = "mat_to" /\ ~o.ai /\ \E t \in UsesM(o.v) : f.mpt[t] = Absent) => \A r \in S : r.out # "ok"
    \* an accepted upload is retrievable with equal content; an accepted deletion removes exactly that item
    /\ \A r \in S : (r.out = "ok" /\ IsUpload(o)) =>
          r.f[FieldOf(o.op)][o.k] = (IF o.op = "iso_to" THEN Here ELSE o.v)
    /\ \A r \in S : (r.out = "ok" /\ IsDelete(o)) =>
          r.f = [f EXCEPT ![FieldOf(o.op)][o.k] = Absent]
    \* an upload never removes or alters another key of the same kind
    /\ \A r \in S : IsUpload(o) =>
          \A k2 \in DOMAIN f[FieldOf(o.op)] : k2 # o.k => r.f[FieldOf(o.op)][k2] = f[FieldOf(o.op)][k2]
    \* every allowed result keeps referential integrity
    /\ \A r \in S : RefInt(r.f)
\* (4) a stored isotherm can be retrieved and deleted through what was retrieved
RetrieveThenDelete ==
  \A d \in Files : \A i \in Isos : db[d].isos[i] # Absent =>
     LET q == O("iso_from", d, "", "", FALSE, FALSE, FALSE, FALSE, "", "*", "*")
         del == O("iso_del", d, i, "", FALSE, FALSE, FALSE, FALSE, "retrieved", "*", "*")
     IN /\ SpecRetrieve(db[d], q)[i] = Here
        /\ \A r \in SpecStep(db[d], del) : r.out = "ok" /\ r.f.isos[i] = Absent
\* (5) independence of files: one step changes at most its target file
Independence == [][\E d \in Files : \A e \in Files \ {d} : db'[e] = db[e]]_vars
\* (6) the outcome is a function of the target file and the arguments: SpecStep takes nothing else
\*     (structural); checked as: files with equal content allow equal results
SameContentSameOutcome ==
  \A d, e \in Files : (d # e /\ db[d] = db[e]) =>
     \A o \in Ops : o.d = d => SpecStep(db[d], o) = SpecStep(db[e], [o EXCEPT !.d = e])

DepthBound == TLCGet("level") <= MaxDepth

---------------------------------------------------------------------------
\* ImplSys: the implementation-shaped system; divergences are listed, not forbidden
Seen(cls) == cls \in TLCGet(7)
Report(cls, o) ==
  IF cls = "conforms" \/ Seen(cls) THEN TRUE
  ELSE /\ TLCSet(7, TLCGet(7) \cup {cls})
       /\ PrintT(<<"WITNESS", cls, ToJson(Append(hist, o))>>)
Tally(cls) == IF cls = "conforms" THEN TRUE ELSE TLCSet(8, TLCGet(8) + 1)

ImplNext ==
  \E o \in Ops :
     LET r == ImplStep(db[o.d], reg, o) IN
     /\ Report(DivergenceClass(db[o.d], reg, o), o)
     /\ Tally(DivergenceClass(db[o.d], reg, o))
     /\ db' = [db EXCEPT ![o.d] = r.f]
     /\ reg' = r.reg
     /\ hist' = Append(hist, o)
     /\ model' = model
ImplInit == Init /\ TLCSet(7, {}) /\ TLCSet(8, 0)
ImplStats == PrintT(<<"DIVERGENT-EDGES", TLCGet(8), "CLASSES", TLCGet(7)>>)
ImplSys == ImplInit /\ [][ImplNext]_vars
ImplView == <<db, reg>>
\* the registries only ever over-approximate harmlessly?  No: this is the invariant Impl breaks.
\* Listed for the record (not checked as a requirement): RegistryMatchesFile
DivergentEdges == Cardinality({o \in Ops : DivergenceClass(db[o.d], reg, o) # "conforms"})

---------------------------------------------------------------------------
\* GenSys: random histories for the conformance replay
\* two steps out of three are operations the model expects to be accepted (so that histories build up
\* content), every third step is any operation at all (refusals of every kind)
Productive(o) == \/ ImplStep(db[o.d], reg, o).out = "ok"
                 \/ \E s \in SpecStep(db[o.d], o) : s.out = "ok"
GenNext ==
  \E o \in Ops :
     LET r == ImplStep(db[o.d], reg, o) IN
     /\ Len(hist) < HistLen
     /\ (Len(hist) % 3 = 2 \/ Productive(o))
     /\ db' = [db EXCEPT ![o.d] = r.f]
     /\ reg' = r.reg
     /\ hist' = Append(hist, o)
     /\ model' = model
GenSys == Init /\ [][GenNext]_vars
Emit == Len(hist) < HistLen \/ PrintT(<<"HIST", ToJson(hist)>>)
=============================================================================
