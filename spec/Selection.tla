----------------------------- MODULE Selection -----------------------------
(***************************************************************************)
(* Point-selection logic of the linearised characterisation methods (C14)  *)
(* and of psd_mesoporous (C16).                                            *)
(*                                                                         *)
(* Pressures (or thicknesses / alpha values) are integers on a fixed       *)
(* scale: a grid is a strictly increasing sequence g, a user limit is an   *)
(* integer on the same scale, NONE (omitted) or AUTO (no p_limits given).  *)
(* A threshold is a pair <<s, v>> meaning "s * g[i] compared with v", so   *)
(* derived limits such as 0.9 * p_max or p_end / 10 stay exact integers;   *)
(* <<0, 0>> = no threshold.  Windows are reported 0-based, inclusive, as   *)
(* the library reports them.                                               *)
(*                                                                         *)
(*   Spec*  - prescriptive: the outcomes the property text allows.         *)
(*            Points strictly inside the limits are in the window, points  *)
(*            strictly outside are not, a point exactly ON a limit is      *)
(*            unconstrained (either reading of "inside").  A window with   *)
(*            fewer than three points must be refused (CalculationError),  *)
(*            one with three or more must be fitted.                       *)
(*   Impl*  - descriptive: transcription of the selection code in          *)
(*            area_bet.py:276-307, area_lang.py:244-266,                   *)
(*            dr_da_plots.py:351-367, psd_meso.py:194-210,                 *)
(*            t_plots.py:262-264, alphas_plots.py:322-323.                 *)
(***************************************************************************)
EXTENDS Integers, Sequences, FiniteSets, TLC

NONE == -1          \* limit omitted (Python None)
AUTO == -2          \* p_limits not given at all
NoThr == <<0, 0>>

SMin(S) == CHOOSE x \in S : \A y \in S : x <= y
RECURSIVE AscSeq(_)
AscSeq(S) == IF S = {} THEN <<>> ELSE LET x == SMin(S) IN <<x>> \o AscSeq(S \ {x})
Last(g) == g[Len(g)]

\* number of points with s*g[i] < v: numpy.searchsorted(g, v/s) (side='left') on an increasing grid
Less(g, s, v) == Cardinality({i \in 1..Len(g) : s * g[i] < v})
Leq(g, s, v)  == Cardinality({i \in 1..Len(g) : s * g[i] <= v})

Refuse == <<"refuse", 0, 0>>
Win(mn, mx) == <<"win", mn, mx>>

---------------------------------------------------------------------------
(* PRESCRIPTIVE *)
LoCands(g, t) == IF t[1] = 0 THEN {0} ELSE {Less(g, t[1], t[2]), Leq(g, t[1], t[2])}
HiCands(g, t) == IF t[1] = 0 THEN {Len(g) - 1} ELSE {Less(g, t[1], t[2]) - 1, Leq(g, t[1], t[2]) - 1}
\* fewer than three points: refusal; otherwise exactly that window
Outcome3(mn, mx) == IF mx - mn + 1 < 3 THEN Refuse ELSE Win(mn, mx)
Windows3(g, tl, th) == {Outcome3(a, b) : a \in LoCands(g, tl), b \in HiCands(g, th)}
UserThr(l) == IF l = NONE THEN NoThr ELSE <<1, l>>

\* manual limits: BET, Langmuir, DR/DA
SpecUser(g, lo, hi) == Windows3(g, UserThr(lo), UserThr(hi))

\* Langmuir without limits: "5 %-90 %".  Two readings of the documentation are accepted:
\* of the maximum pressure, or of the pressure range [p_min, p_max].
SpecLangAuto(g) ==
   Windows3(g, <<20, Last(g)>>, <<10, 9 * Last(g)>>)
   \cup Windows3(g, <<20, 19 * g[1] + Last(g)>>, <<10, g[1] + 9 * Last(g)>>)

\* DR/DA without limits: the whole branch
SpecDaAuto(g) == Windows3(g, NoThr, NoThr)

\* BET without limits (Rouquerol): r[i] = n_i (1 - p_i).  The window ends where r stops
\* increasing: the last point of the increasing run or the first point after it (the text
\* does not separate the two); a plateau may count as "stopped" or not.  It starts at the
\* first point with p >= p_end / 10 (a point exactly at p_end / 10 unconstrained).
DownsStrict(r) == {i \in 1..(Len(r) - 1) : r[i] > r[i + 1]}
DownsWeak(r)   == {i \in 1..(Len(r) - 1) : r[i] >= r[i + 1]}
EndOf(r, D) == IF D = {} THEN {Len(r)} ELSE {SMin(D), SMin(D) + 1}       \* 1-based positions
EndCands(r) == EndOf(r, DownsStrict(r)) \cup EndOf(r, DownsWeak(r))
SpecRoq(g, r) == UNION {{Outcome3(s, e - 1) : s \in {Less(g, 10, g[e]), Leq(g, 10, g[e])}} : e \in EndCands(r)}

\* psd_mesoporous (C16 has no three-point clause): the reported limits must be the window;
\* a refusal is never judged.  Default limits (0.1, 0.99) on a grid in twentieths.
WindowsAny(g, tl, th) == {Win(a, b) : a \in LoCands(g, tl), b \in HiCands(g, th)} \cup {Refuse}
SpecPsd(g, lo, hi) == IF lo = AUTO THEN WindowsAny(g, <<1, 2>>, <<100, 1980>>)
                      ELSE WindowsAny(g, UserThr(lo), UserThr(hi))

\* t-plot / alpha-s sections: a set of 0-based indices between the strict and the closed selection
SecStrict(g, lo, hi) == {i - 1 : i \in {j \in 1..Len(g) : lo < g[j] /\ g[j] < hi}}
SecClosed(g, lo, hi) == {i - 1 : i \in {j \in 1..Len(g) : lo <= g[j] /\ g[j] <= hi}}
SpecSection(g, lo, hi, S) == SecStrict(g, lo, hi) \subseteq S /\ S \subseteq SecClosed(g, lo, hi)

SpecOf(m, g, lo, hi, r) ==
   CASE m = "psd" -> SpecPsd(g, lo, hi)
     [] lo # AUTO -> SpecUser(g, lo, hi)
     [] m = "bet" -> SpecRoq(g, r)
     [] m = "lang" -> SpecLangAuto(g)
     [] m = "da" -> SpecDaAuto(g)

---------------------------------------------------------------------------
(* DESCRIPTIVE *)
Truthy(l) == l # NONE /\ l # 0 /\ l # AUTO           \* `if p_limits[0]:`
\* the thresholds the code ends up using
ImplThr(m, g, lo, hi) ==
   IF lo = AUTO THEN
      CASE m = "lang" -> << <<20, Last(g)>>, <<10, 9 * Last(g)>> >>        \* pressure[maximum] * 0.05, * 0.9
        [] m = "psd" -> << <<1, 2>>, <<100, 1980>> >>                      \* (0.1, 0.99)
        [] OTHER -> <<NoThr, NoThr>>
   ELSE << IF Truthy(lo) THEN <<1, lo>> ELSE NoThr, IF Truthy(hi) THEN <<1, hi>> ELSE NoThr >>
ImplMin(g, t) == IF t[1] = 0 THEN 0 ELSE Less(g, t[1], t[2])              \* searchsorted(pressure, lo)
ImplMax(g, t) == IF t[1] = 0 THEN Len(g) - 1 ELSE Less(g, t[1], t[2]) - 1 \* searchsorted(pressure, hi) - 1
ImplCheck(mn, mx) == IF mx - mn < 2 THEN Refuse ELSE Win(mn, mx)
\* Rouquerol scan: first index whose successor is smaller; the successor becomes the maximum
ImplRoqMax(r) == IF DownsStrict(r) = {} THEN Len(r) - 1 ELSE SMin(DownsStrict(r))   \* 0-based
\* searchsorted(p, p[max] * 0.1): the float product may land on either side of a grid point that
\* equals p[max] / 10 exactly, so the transcription is nondeterministic there
ImplRoqMins(g, mx) == {Less(g, 10, g[mx + 1]), Leq(g, 10, g[mx + 1])}

ImplOutcomes(m, g, lo, hi, r) ==
   IF m = "bet" /\ lo = AUTO THEN LET mx == ImplRoqMax(r) IN {ImplCheck(mn, mx) : mn \in ImplRoqMins(g, mx)}
   ELSE LET t == ImplThr(m, g, lo, hi) IN {ImplCheck(ImplMin(g, t[1]), ImplMax(g, t[2]))}
ImplSection(g, lo, hi) == SecStrict(g, lo, hi)

---------------------------------------------------------------------------
(* Scenario spaces (shared by the model-checking run and the conformance driver) *)
Grids(maxk) == {AscSeq({2 * k : k \in T}) : T \in (SUBSET (1..maxk)) \ {{}}}      \* tenths, in twentieths
LoVals(maxl) == {NONE} \cup 0..maxl
HiVals(maxl) == {NONE} \cup 1..maxl
RoqUniverse == {1, 2, 3, 5, 10, 20, 30, 50, 70, 90}                                 \* hundredths
RoqGrids(maxn) == {AscSeq(T) : T \in {S \in SUBSET RoqUniverse : Cardinality(S) \in 3..maxn}}
\* r starts at 8 and moves by +-1; D = positions after which it goes down
RoqPattern(n, D) == [i \in 1..n |-> 8 + (i - 1) - 2 * Cardinality({j \in D : j < i})]
RoqPatterns(n) == {RoqPattern(n, D) : D \in SUBSET (1..(n - 1))}
=============================================================================
