--------------------------- MODULE SelectionOracle ---------------------------
(***************************************************************************)
(* Step oracle for the selection logic (C14, and the limits of C16): each  *)
(* record is one call executed on the real code together with what it did; *)
(* the specification answers whether that outcome is allowed, with the     *)
(* allowed set and with the prediction of the implementation-shaped model. *)
(*   [k |-> "win", m, g, lo, hi, r, obs |-> <<"win"|"refuse"|"error", mn, mx>>] *)
(*   [k |-> "sec", g, lo, hi, obs |-> <<indices>>]                          *)
(*   [k |-> "space", maxk, maxl, maxn]   the scenario space itself         *)
(***************************************************************************)
EXTENDS Selection, Json, IOUtils

Q == JsonDeserialize(IOEnv.X_IN)
SeqSet(s) == {s[i] : i \in DOMAIN s}

Step(q) ==
  CASE q.k = "win" ->
         LET al == SpecOf(q.m, q.g, q.lo, q.hi, q.r)
         IN [ok |-> <<q.obs[1], q.obs[2], q.obs[3]>> \in al, allowed |-> al,
             impl |-> ImplOutcomes(q.m, q.g, q.lo, q.hi, q.r)]
    [] q.k = "sec" ->
         [ok |-> SpecSection(q.g, q.lo, q.hi, SeqSet(q.obs)),
          allowed |-> {<<"strict", AscSeq(SecStrict(q.g, q.lo, q.hi))>>, <<"closed", AscSeq(SecClosed(q.g, q.lo, q.hi))>>},
          impl |-> {<<"sec", 0, 0>>}]
    [] q.k = "space" ->
         [ok |-> TRUE, allowed |-> {},
          impl |-> [grids |-> Grids(q.maxk), lo |-> LoVals(q.maxl), hi |-> HiVals(q.maxl),
                    roq |-> {<<g, RoqPatterns(Len(g))>> : g \in RoqGrids(q.maxn)}]]

ASSUME JsonSerialize(IOEnv.X_OUT, [i \in 1..Len(Q) |-> Step(Q[i])])
VARIABLE x
Init == x = 0
Next == x' = x
=============================================================================
