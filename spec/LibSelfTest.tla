---------------------------- MODULE LibSelfTest ----------------------------
\* Evaluates DecFloat / Rat operations on harness-supplied operands; compared in Python
\* against decimal / fractions (tools/selftest_libs.py, part of setup).
EXTENDS DecFloat, Rat, Json, IOUtils, Sequences
Q == JsonDeserialize(IOEnv.X_IN)
Step(q) ==
  CASE q.op = "dadd" -> DAdd(q.a, q.b) [] q.op = "dsub" -> DSub(q.a, q.b)
    [] q.op = "dmul" -> DMul(q.a, q.b) [] q.op = "ddiv" -> DDiv(q.a, q.b)
    [] q.op = "dleq" -> <<IF DLeq(q.a, q.b) THEN 1 ELSE 0, 0>>
    [] q.op = "dclose6" -> <<IF DClose(q.a, q.b, DTol(6)) THEN 1 ELSE 0, 0>>
    [] q.op = "radd" -> RAdd(q.a, q.b) [] q.op = "rmul" -> RMul(q.a, q.b) [] q.op = "rdiv" -> RDiv(q.a, q.b)
    [] q.op = "rleq" -> <<IF RLeq(q.a, q.b) THEN 1 ELSE 0, 0>>
ASSUME JsonSerialize(IOEnv.X_OUT, [i \in 1..Len(Q) |-> Step(Q[i])])
VARIABLE x
Init == x = 0
Next == x' = x
=============================================================================
