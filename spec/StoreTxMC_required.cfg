SPECIFICATION MSpec
CONSTANTS
  Shapes <- MCShapes
  Mode = "required"
INVARIANT AtomicAlways
INVARIANT OutcomeMatches
INVARIANT Repeatable
INVARIANT RegistryAgrees
INVARIANT NoCommitAfterFault
CHECK_DEADLOCK FALSE
