SPECIFICATION MSpec
CONSTANTS
  Shapes <- MCShapes
  Journal = "disk"
  Mode = "required"
INVARIANT AtomicAlways
INVARIANT OutcomeMatches
INVARIANT Repeatable
INVARIANT RegistryAgrees
INVARIANT NoCommitAfterFault
CHECK_DEADLOCK FALSE
