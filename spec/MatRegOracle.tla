---------------------------- MODULE MatRegOracle ----------------------------
(***************************************************************************)
(* X05 step oracle: TLC judges every step the harness OBSERVED on real     *)
(* pyGAPS objects.  A record of IOEnv.X_IN is                              *)
(*   [pre  |-> [heap, reg, iso]   projection of the real objects before,   *)
(*    op   |-> operation record (MatReg!Op0 shape),                        *)
(*    post |-> projection after, out |-> what the caller saw (Out0 shape)] *)
(* and the answer is MatReg!StepVerdict: ok iff the step satisfies every   *)
(* documented clause or is exactly the transcribed behaviour of the named  *)
(* deviation class of (pre, op); `violated` names the clauses broken,      *)
(* `differs` the parts where the observation leaves the transcription.     *)
(* A record [alphabet |-> TRUE] returns the value tables the harness needs *)
(* to materialise abstract values.                                         *)
(***************************************************************************)
EXTENDS MatRegMC, Json, IOUtils, SequencesExt

Q == JsonDeserialize(IOEnv.X_IN)

Step(q) ==
   IF "alphabet" \in DOMAIN q
   THEN [actual |-> [k \in Reserved |-> [v \in 1..NV |-> Actual(k, v)]], devs |-> SetToSeq(DevNames), nv |-> NV,
         keys |-> SetToSeq(Keys), noname |-> NoName]
   ELSE LET v == StepVerdict(q.pre, q.op, q.post, q.out)
            r == Impl(q.pre, q.op) IN
        [ok |-> v.ok, violated |-> SetToSeq(v.violated), dev |-> v.dev, as_impl |-> v.as_impl, differs |-> SetToSeq(v.differs),
         devclass |-> DevClass(q.pre, q.op), tags |-> SetToSeq(Tags(q.pre, q.op)), impl_out |-> r.out, impl_reg |-> r.s.reg,
         impl_iso |-> r.s.iso, impl_heap_len |-> Len(r.s.heap)]

ASSUME JsonSerialize(IOEnv.X_OUT, [k \in 1..Len(Q) |-> Step(Q[k])])

OInit == heap = <<>> /\ reg = <<>> /\ iso = <<>> /\ last = 0
ONext == UNCHANGED vars
=============================================================================
