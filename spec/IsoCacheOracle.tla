--------------------------- MODULE IsoCacheOracle ---------------------------
(* The specification's fresh-object outcome class for each query of the alphabet (C04). *)
EXTENDS IsoCache, Json, IOUtils, Sequences
Q == JsonDeserialize(IOEnv.X_IN)
ASSUME JsonSerialize(IOEnv.X_OUT, [i \in 1..Len(Q) |-> [fresh |-> FreshOutcome(Q[i])]])
OInit == Init
ONext == UNCHANGED vars
=============================================================================
