---------------------------- MODULE IsoConvertMC ----------------------------
(***************************************************************************)
(* All conversion histories of a point isotherm, at the label/monomial     *)
(* level.  The transition relation is the IMPLEMENTATION transcription     *)
(* (ImplStep); TLC checks that every step it can take is a step the        *)
(* prescriptive relation allows, and the history-level statements of C02:  *)
(* always valid, data always equal the original converted directly to the  *)
(* current labels, back at the start labels => original numbers.           *)
(* The label space factorises (pressure | loading x material |             *)
(* temperature); `part` selects the factor so each is explored fully.      *)
(***************************************************************************)
EXTENDS IsoConvert

CONSTANT StartsLM,     \* start representations of the loading x material factor (a covering subset)
         Parts         \* which factors to explore: subset of {"P","T","LM","ALL"} ("ALL" = full product, for simulation)
PartsFactors == {"P", "T", "LM"}
PartsAll == {"ALL"}
StartsQuick == {<<"molar","mmol","mass","g">>, <<"mass","mg","volume","cm3">>, <<"volume_liquid","cm3","molar","mol">>,
                <<"fraction",N,"mass","kg">>, <<"percent",N,"volume","L">>, <<"volume_gas","L","mass","g">>}
StartsThorough == {<<l[1], l[2], m[1], m[2]>> : l \in {r \in LReps : r[2] \in {N, "mmol", "cm3(STP)", "g", "amu", "cm3", "L"}},
                                                 m \in {r \in MReps : r[2] \in {"g", "kg", "cm3", "mol"}}}

VARIABLES part, start, s, accP, accL, last, lastop
vars == <<part, start, s, accP, accL, last, lastop>>
\* lastop is an observation variable (for replaying simulated behaviours); hidden from exhaustive runs
View == <<part, start, s, accP, accL, last>>

Base == [pm |-> "absolute", pu |-> "bar", lb |-> "molar", lu |-> "mmol", mb |-> "mass", mu |-> "g", tu |-> "K"]
LMU == MolarU \cup MassU \cup VolU
AllAvail == Phys0

Op(k, a, u) == [k |-> k, a |-> a, u |-> u, pa |-> N, pu |-> N, la |-> N, lu |-> N, ma |-> N, mu |-> N]
OpsP == {Op("CP", a, u) : a \in Modes \cup {N, B}, u \in PresU \cup {N, B}}
OpsL == {Op("CL", a, u) : a \in LBases \cup {N, B}, u \in LMU \cup {N, B}}
OpsM == {Op("CM", a, u) : a \in MBases \cup {N, B}, u \in LMU \cup {N, B}}
OpsT == {Op("CT", N, u) : u \in {"K", "degC", "C", N, B}}
OpsV == {[k |-> "CV", a |-> N, u |-> N, pa |-> pa, pu |-> pu, la |-> la, lu |-> lu, ma |-> ma, mu |-> mu] :
            pa \in {N, "relative", "absolute"}, pu \in {N, "kPa"}, la \in {N, "mass", "fraction", B}, lu \in {N, "mg"},
            ma \in {N, "volume"}, mu \in {N, "cm3", "kg"}}

Init == /\ accP = Zero /\ accL = Zero /\ last = "init" /\ lastop = Op("none", N, N)
        /\ part \in Parts
        /\ \/ part = "ALL" /\ \E p \in PReps, r \in StartsLM, t \in TempU :
                  start = [pm |-> p[1], pu |-> p[2], lb |-> r[1], lu |-> r[2], mb |-> r[3], mu |-> r[4], tu |-> t]
           \/ part = "P" /\ \E r \in PReps : start = [Base EXCEPT !.pm = r[1], !.pu = r[2]]
           \/ part = "T" /\ \E u \in TempU : start = [Base EXCEPT !.tu = u]
           \/ part = "LM" /\ \E r \in StartsLM : start = [Base EXCEPT !.lb = r[1], !.lu = r[2], !.mb = r[3], !.mu = r[4]]
        /\ s = start

Do(op) == LET r == ImplStep(s, op) IN
          /\ s' = r.s
          /\ accP' = Phys(Plus(accP, r.vp))
          /\ accL' = Phys(Plus(accL, r.vl))
          /\ last' = Judge(s, op, r.out, r.s, AllAvail)
          /\ lastop' = op
          /\ UNCHANGED <<part, start>>

Next == \/ part = "P" /\ \E op \in OpsP : Do(op)
        \/ part = "T" /\ \E op \in OpsT : Do(op)
        \/ part = "LM" /\ \E op \in OpsL \cup OpsM : Do(op)
        \/ part = "ALL" /\ \E op \in OpsP \cup OpsT \cup OpsL \cup OpsM \cup OpsV : Do(op)

Spec == Init /\ [][Next]_vars

\* --- history-level statements of C02
Valid == IsoValid(s)
Consistent == /\ accP = DeltaP(start, s)
              /\ accL = DeltaL(start, s)
RoundTrip == (s = start) => (accP = Zero /\ accL = Zero)
\* --- every implementation step is a step the prescriptive relation allows
StepsAllowed == last \in {"init", "ok"}
=============================================================================
