SPECIFICATION Spec
CONSTANTS MaxK = 7  MaxL = 16  MaxN = 7
INVARIANT Conforms
INVARIANT ClosedForm
INVARIANT Bounds
INVARIANT SpecSane
INVARIANT Exactly
CHECK_DEADLOCK FALSE
