------------------------------- MODULE IsoCache -------------------------------
(***************************************************************************)
(* Interpolator caches of a PointIsotherm (C04).                           *)
(*                                                                         *)
(* Hidden state: the loading interpolator (pressure -> loading) and the    *)
(* pressure interpolator (loading -> pressure), each remembered with the   *)
(* (branch, kind, fill) it was built for and the data generation it was    *)
(* built from.  Queries: loading_at, pressure_at, spreading_pressure_at;   *)
(* Convert stands for any permanent conversion (new data generation).      *)
(*                                                                         *)
(* Spec: the outcome class of a query is a function of the query alone     *)
(* (FreshOutcome) and the observable state never changes.                  *)
(* Impl: transcription of pointisotherm.py (cache test in loading_at /     *)
(* pressure_at, resets in convert_*, the refusal guard and the internal    *)
(* loading_at call of spreading_pressure_at).                              *)
(***************************************************************************)
EXTENDS Integers, FiniteSets, TLC

Branches == {"ads", "des"}
Kinds == {"linear", "nearest", "cubic"}
Fills == {"nofill", "num", "extrap"}
XClasses == {"below", "first", "interior", "last", "above"}
NoKey == [b |-> "none", k |-> "none", f |-> "none", gen |-> -1]
Key(b, k, f, g) == [b |-> b, k |-> k, f |-> f, gen |-> g]

Queries == {[op |-> "LA", b |-> b, k |-> k, f |-> f, x |-> x] : b \in Branches, k \in Kinds, f \in Fills, x \in XClasses}
      \cup {[op |-> "PA", b |-> b, k |-> k, f |-> f, x |-> x] : b \in Branches, k \in Kinds, f \in Fills, x \in XClasses}
      \cup {[op |-> "SP", b |-> b, k |-> "linear", f |-> f, x |-> x] : b \in Branches, f \in Fills, x \in XClasses}

Inside(x) == x \in {"first", "interior", "last"}
\* outcome of an interpolator built for fill f, evaluated at x
InterpOutcome(f, x) == IF Inside(x) THEN "value"
                       ELSE IF f = "nofill" THEN "refused" ELSE IF f = "num" THEN "fill" ELSE "value"

\* ---- prescriptive: what a freshly built isotherm answers
FreshOutcome(q) ==
   IF q.op \in {"LA", "PA"} THEN InterpOutcome(q.f, q.x)
   ELSE \* spreading pressure: Henry's law below the first point, refused above the last unless a fill rule is given
        IF q.x \in {"below", "first"} THEN "value"
        ELSE IF q.x = "above" THEN (IF q.f = "nofill" THEN "refused" ELSE "value")
        ELSE "value"

\* ---- descriptive
VARIABLES lc, pc, gen, out, fresh, lastq     \* lastq: observation variable for replaying behaviours
vars == <<lc, pc, gen, out, fresh, lastq>>
View == <<lc, pc, gen, out, fresh>>
QNone == [op |-> "none", b |-> "none", k |-> "none", f |-> "none", x |-> "none"]

Hit(c, q) == c # NoKey /\ c.b = q.b /\ c.k = q.k /\ c.f = q.f
\* the interpolator actually consulted: the cached one on a hit (whatever generation it was built from), else a new one
Used(c, q) == IF Hit(c, q) THEN c ELSE Key(q.b, q.k, q.f, gen)
Stale(c) == c.gen # gen
ImplInterp(c, q) == IF Stale(Used(c, q)) THEN "stale" ELSE InterpOutcome(Used(c, q).f, q.x)

Init == lc = NoKey /\ pc = NoKey /\ gen = 0 /\ out = "none" /\ fresh = "none" /\ lastq = QNone

LoadingAt(q) == /\ q.op = "LA"
                /\ out' = ImplInterp(lc, q) /\ fresh' = FreshOutcome(q)
                /\ lc' = Used(lc, q) /\ lastq' = q /\ UNCHANGED <<pc, gen>>
PressureAt(q) == /\ q.op = "PA"
                 /\ out' = ImplInterp(pc, q) /\ fresh' = FreshOutcome(q)
                 /\ pc' = Used(pc, q) /\ lastq' = q /\ UNCHANGED <<lc, gen>>
SpreadingAt(q) ==
   /\ q.op = "SP" /\ fresh' = FreshOutcome(q) /\ lastq' = q /\ UNCHANGED <<pc, gen>>
   /\ IF q.f = "nofill" /\ q.x = "above" THEN out' = "refused" /\ lc' = lc           \* the guard (arguments only)
      ELSE IF q.x \in {"below", "first"} THEN out' = "value" /\ lc' = lc              \* Henry segment, no interpolation
      ELSE \* closes the last segment with self.loading_at(x, branch, interp_fill=f) (default kind)
           LET qq == [op |-> "LA", b |-> q.b, k |-> "linear", f |-> q.f, x |-> q.x] IN
           /\ out' = (IF ImplInterp(lc, qq) = "fill" THEN "value" ELSE ImplInterp(lc, qq))
           /\ lc' = Used(lc, qq)
Convert == /\ gen' = 1 - gen /\ lc' = NoKey /\ pc' = NoKey /\ out' = "none" /\ fresh' = "none"
           /\ lastq' = [QNone EXCEPT !.op = "CONVERT"]

Next == \/ \E q \in Queries : LoadingAt(q) \/ PressureAt(q) \/ SpreadingAt(q)
        \/ Convert
Spec == Init /\ [][Next]_vars

\* history independence: whatever was asked before, the answer is the fresh answer
HistoryIndependent == out = fresh
\* caches never outlive the data they were built from
NeverStale == (lc # NoKey => lc.gen = gen) /\ (pc # NoKey => pc.gen = gen)
=============================================================================
