INIT OInit
NEXT ONext
CONSTANTS
  Names = {"a", "A", "b"}
  Keys = {"density", "molar_mass", "note"}
  NV = 2
  MaxHeap = 1000
  Isos = {1, 2}
  Bases = {"mass", "volume", "molar"}
  PropMaps <- SimPropMaps
  PropChoices <- SimPropChoices
