---------------------------- MODULE LinearisedMC ----------------------------
(***************************************************************************)
(* TLC check that the pieces of Linearised fit together, exhaustively over *)
(* a grid of generating parameters and point triples (exact rationals):    *)
(* the transform of the governing equation through any two data points is  *)
(* a line whose slope/intercept the method's formulas turn back into the   *)
(* generating parameters, a third point lies on the same line, and the     *)
(* expected-output table agrees with it.                                   *)
(***************************************************************************)
EXTENDS Linearised

VARIABLES meth, par, pts, rec
vars == <<meth, par, pts, rec>>

Tenths == {R(k, 10) : k \in 1..9}
NMs == {R(1, 50), R(3, 25), R(1, 10)}
Cs == {4, 9, 25, 100}
Ks == {R(1, 2), R(3, 1), R(25, 1)}
Ss == {R(1, 2), R(7, 3)}
Is == {RInt(0), R(5, 4)}

Triples == {t \in Tenths \X Tenths \X Tenths : RLt(t[1], t[2]) /\ RLt(t[2], t[3])}
Init == /\ rec = <<>>
        /\ pts \in Triples
        /\ \/ meth = "bet" /\ par \in {<<nm, RInt(c)>> : nm \in NMs, c \in Cs}
           \/ meth = "lang" /\ par \in {<<nm, k>> : nm \in NMs, k \in Ks}
           \/ meth = "lin" /\ par \in {<<s, i>> : s \in Ss, i \in Is}

Y(p) == CASE meth = "bet" -> BetT(p, RMul(par[1], BetX(par[2][1], p)))
          [] meth = "lang" -> LangT(p, RMul(par[1], LangX(par[2], p)))
          [] meth = "lin" -> LinPoint(par[1], par[2], p)
Fit == LET s == Slope(pts[1], Y(pts[1]), pts[2], Y(pts[2]))
           i == Icept(pts[1], Y(pts[1]), pts[2], Y(pts[2]))
       IN [slope |-> s, intercept |-> i, third |-> RAdd(RMul(s, pts[3]), i),
           a |-> CASE meth = "bet" -> BetNm(s, i) [] meth = "lang" -> LangNm(s, i) [] meth = "lin" -> s,
           b |-> CASE meth = "bet" -> BetC(s, i) [] meth = "lang" -> LangK(s, i) [] meth = "lin" -> i]
Next == rec = <<>> /\ rec' = <<Fit>> /\ UNCHANGED <<meth, par, pts>>
Spec == Init /\ [][Next]_vars

RProd(f) == IF Len(f) = 1 THEN f[1] ELSE IF Len(f) = 2 THEN RMul(f[1], f[2]) ELSE RMul(RMul(f[1], f[2]), f[3])
Expect == CASE meth = "bet" -> BetExpect(par[1], par[2][1], One)
            [] meth = "lang" -> LangExpect(par[1], par[2], One)
            [] meth = "lin" -> TpExpect(par[1], par[2], One, One)
\* the fit through two exact points returns the generating parameters
Recovers == rec # <<>> => rec[1].a = par[1] /\ rec[1].b = par[2]
\* exact linearity: the third point is on the line
Linear == rec # <<>> => rec[1].third = Y(pts[3])
\* the expected-output table says the same
TableAgrees == rec # <<>> => /\ RProd(Expect.slope) = rec[1].slope
                             /\ RProd(Expect.intercept) = rec[1].intercept
\* the factor-list generator is the governing equation
PointsAgree == /\ meth = "bet" => \A i \in 1..3 : RMul(par[1], BetX(par[2][1], pts[i])) =
                     LET f == BetPoint(par[1], par[2][1], pts[i]) IN RMul(RMul(f[1], f[2]), RMul(f[3], f[4]))
               /\ meth = "lang" => \A i \in 1..3 : RMul(par[1], LangX(par[2], pts[i])) =
                     LET f == LangPoint(par[1], par[2], pts[i]) IN RMul(RMul(f[1], f[2]), f[3])
\* the integer test for "n (1 - p) increases" is the rational definition
RoqMonotone == meth = "bet" => \A i \in 1..2 :
                  RoqStrictUp(pts[i], pts[i + 1]) <=> RLt(RMul(RMul(par[1], BetX(par[2][1], pts[i])), RSub(One, pts[i])),
                                                         RMul(RMul(par[1], BetX(par[2][1], pts[i + 1])), RSub(One, pts[i + 1])))
\* monolayer pressure: p_m = 1 / (sqrt(C) + 1) is where the BET loading equals n_m
Monolayer == meth = "bet" => RMul(par[1], BetX(par[2][1], RProd(Expect.p_monolayer))) = par[1]
=============================================================================
