----------------------------- MODULE MesoOracle -----------------------------
(***************************************************************************)
(* Batch oracle for C16.                                                   *)
(*  "space"   the rational tables and the universe of the exact tier       *)
(*  "rows"    every (grid, increment pattern) scenario of a given size     *)
(*  "exact"   expected widths / volumes / distribution / cumulative curve  *)
(*            of one scenario, exact rationals                             *)
(*  "psd"     one executed call with everything it returned (DecFloat):    *)
(*            answers the set of failing clauses of Meso!PsdClauses        *)
(*  "kelvin"  observed Kelvin radii for the three menisci (+ KJS)          *)
(*  "meniscus" observed get_meniscus_geometry(branch, pore)                *)
(***************************************************************************)
EXTENDS Meso, Json, IOUtils

Q == JsonDeserialize(IOEnv.X_IN)

Tab(name) == IF name = "zero" THEN ZeroTab ELSE TkTab
Men(q) == IF q.men = "" THEN MeniscusSpec(q.branch, q.pore) ELSE q.men
RkOf(q) == CASE q.kmode = "table" -> q.rk
             [] q.kmode = "eq" -> TLCEval([j \in 1..Len(q.lnp) |-> KelvinR(q.ad, Men(q), q.lnp[j])])
             [] q.kmode = "kjs" -> TLCEval([j \in 1..Len(q.lnp) |-> DAdd(KelvinR(q.ad, "hemispherical", q.lnp[j]), KJS)])
WithRk(q) == [q EXCEPT !.rk = RkOf(q)]
Empty == [widths |-> <<>>, volumes |-> <<>>, dist |-> <<>>, cum |-> <<>>, total |-> <<0, 1>>]

Step(q) ==
  CASE q.k = "psd" -> LET B == Failing(PsdClauses(WithRk(q))) IN [ok |-> B = {}, bad |-> B, expect |-> Empty]
    [] q.k = "kelvin" -> LET B == Failing(KelvinClauses(q)) IN [ok |-> B = {}, bad |-> B, expect |-> Empty]
    [] q.k = "meniscus" -> [ok |-> q.obs = MeniscusSpec(q.branch, q.pore), bad |-> IF q.obs = MeniscusSpec(q.branch, q.pore) THEN {} ELSE {"meniscus_table"}, expect |-> Empty]
    [] q.k = "exact" ->
         LET V == VolOf(q.v0, q.incs)  tk == Tab(q.model)
         IN [ok |-> TRUE, bad |-> {},
             expect |-> [widths |-> ExactWidths(q.g, tk, RkTab),
                         volumes |-> IF q.model = "zero" THEN ExactVolumes(V) ELSE <<>>,
                         dist |-> IF q.model = "zero" THEN ExactDist(q.g, V, tk, RkTab) ELSE <<>>,
                         cum |-> IF q.model = "zero" THEN ExactCum(V) ELSE <<>>,
                         total |-> ExactTotal(V), V |-> V]]
    [] q.k = "rows" -> [ok |-> TRUE, bad |-> {}, expect |-> {<<g, s>> : g \in MesoGrids(q.n, q.n), s \in IncPatterns(q.n - 1)}]
    [] q.k = "space" -> [ok |-> TRUE, bad |-> {}, expect |-> [rk |-> RkTab, tk |-> TkTab, zero |-> ZeroTab]]

ASSUME JsonSerialize(IOEnv.X_OUT, [i \in 1..Len(Q) |-> Step(Q[i])])
VARIABLE x
Init == x = 0
Next == x' = x
=============================================================================
