SPECIFICATION Spec
CONSTANTS
  Names = {"a"}
  Keys = {"density", "molar_mass", "note"}
  NV = 2
  MaxHeap = 4
  Isos = {1, 2}
  Bases = {"mass", "volume", "molar"}
  PropMaps <- SimPropMaps
  PropChoices <- SimPropChoices
INVARIANT RefsResolve
CHECK_DEADLOCK FALSE
