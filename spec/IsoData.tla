------------------------------- MODULE IsoData -------------------------------
(***************************************************************************)
(* Point data of an isotherm as a finite sequence: branch guessing,        *)
(* branch / limit selection, linear interpolation (C03).  Everything is    *)
(* stated on POSITIONS and VALUES only - row labels and dtypes do not      *)
(* exist in this model, which is the content of "depends only on the       *)
(* sequence of pressures".                                                 *)
(***************************************************************************)
EXTENDS Integers, Sequences, FiniteSets, Rat, TLC

RECURSIVE SeqsUpTo(_, _)
SeqsOfLen(S, n) == [1..n -> S]
SeqsUpTo(S, n) == IF n = 0 THEN {} ELSE SeqsOfLen(S, n) \cup SeqsUpTo(S, n - 1)

MaxOf(p) == CHOOSE m \in {p[i] : i \in DOMAIN p} : \A i \in DOMAIN p : p[i] <= m
FirstMaxPos(p) == CHOOSE i \in DOMAIN p : p[i] = MaxOf(p) /\ \A j \in 1..(i - 1) : p[j] < MaxOf(p)

\* adsorption (0) up to and including the first maximum, desorption (1) after it.
\* A leading maximum: the property admits two readings (all desorption | first point adsorption).
MarksGeneric(p) == [i \in DOMAIN p |-> IF i <= FirstMaxPos(p) THEN 0 ELSE 1]
MarksAllowed(p) ==
   IF Len(p) > 1 /\ FirstMaxPos(p) = 1 THEN {[i \in DOMAIN p |-> 1], MarksGeneric(p)}
   ELSE {MarksGeneric(p)}

\* positions of the points of `branch` ("all" | 0 | 1), in stored order
BranchPos(marks, branch) == {i \in DOMAIN marks : branch = "all" \/ marks[i] = (IF branch = "ads" THEN 0 ELSE 1)}
\* limits: lo/hi non-negative integers, NoLim (-1) = no limit.  Strictly inside: must be returned; on a limit: may be.
NoLim == -1
Inside(v, lo, hi) == (lo = NoLim \/ lo < v) /\ (hi = NoLim \/ v < hi)
OnLimit(v, lo, hi) == (lo # NoLim /\ v = lo) \/ (hi # NoLim /\ v = hi)
MustSelect(vals, marks, branch, lo, hi) == {i \in BranchPos(marks, branch) : Inside(vals[i], lo, hi)}
MaySelect(vals, marks, branch, lo, hi) == {i \in BranchPos(marks, branch) : Inside(vals[i], lo, hi) \/ OnLimit(vals[i], lo, hi)}

\* linear interpolation on strictly increasing xs (integers) with integer ys, query q rational
Interp(xs, ys, q) ==
   IF RLt(q, RInt(xs[1])) \/ RLt(RInt(xs[Len(xs)]), q) THEN <<"outside">>
   ELSE IF \E i \in DOMAIN xs : RInt(xs[i]) = q THEN <<"val", RInt(ys[CHOOSE i \in DOMAIN xs : RInt(xs[i]) = q])>>
   ELSE LET i == CHOOSE j \in 1..(Len(xs) - 1) : RLt(RInt(xs[j]), q) /\ RLt(q, RInt(xs[j + 1]))
            t == RDiv(RSub(q, RInt(xs[i])), RInt(xs[i + 1] - xs[i]))
        IN <<"val", RAdd(RInt(ys[i]), RMul(t, RInt(ys[i + 1] - ys[i])))>>
=============================================================================
