SPECIFICATION Spec
INVARIANT InvShippedStable
INVARIANT InvShippedFind
INVARIANT InvFindSound
INVARIANT InvNoDupName
INVARIANT InvLast
PROPERTY StepAllowed
CHECK_DEADLOCK FALSE
INVARIANT InvDbStep
