--------------------------------- MODULE Ctor ---------------------------------
(***************************************************************************)
(* Growth beyond the listed properties (X06): constructor argument         *)
(* handling of BaseIsotherm / PointIsotherm / ModelIsotherm and of the     *)
(* documented entry point pygaps.modelling.model_iso, as a decision table. *)
(*                                                                         *)
(* An abstract invocation says HOW every argument is given (keyword,       *)
(* shorthand, both, missing, falsy value, object ...), never a number.     *)
(* The abstract state is the projection of the object that comes back      *)
(* (or the refusal): outcome, exception class, requirement named, the      *)
(* seven unit labels, the defaults warned about, which value was bound to  *)
(* material / adsorbate / temperature, branch marks, data source, model,   *)
(* branch label, data handed to the fit, metadata keys.                    *)
(*                                                                         *)
(*   Must / May / Allowed* / SpecJudge - PRESCRIPTIVE: what the docstrings *)
(*        and docs/manual/isotherm.rst promise.  Where they are silent     *)
(*        every defensible reading is allowed (sets).                      *)
(*   ImplBase / ImplPoint / ImplModel / ImplMiso - DESCRIPTIVE: the code's *)
(*        order of checks, statement by statement, including the places    *)
(*        where it leaves the prescription; each such place is a NAMED     *)
(*        deviation disjunct (field dev).                                  *)
(*   Verdict(inv, obs) - what the driver asks TLC about an observed call.  *)
(*                                                                         *)
(* The acceptance test of the unit labels is IsoConvert!IsoValid (reused). *)
(***************************************************************************)
EXTENDS IsoConvert

OM == "omitted"
NA == "na"

\* ---------------------------------------------------------------- the abstract product
MVals == {"kw", "sh", "both", "missing", "kwfalsy", "shfalsy", "obj"}
AVals == MVals \cup {"unknown"}
TVals == {"kw", "sh", "both", "missing", "kw0", "sh0", "str", "badstr"}
PMVals == {OM, "absolute", "relative", B, N}
PUVals == {OM, "kPa", "mmol", N}
LBVals == {OM, "molar", "mass", "volume_gas", "fraction", "volume", B, N}
LUVals == {OM, "mmol", "g", "cm3", B, N}
MBVals == {OM, "mass", "volume", B, N}
MUVals == {OM, "g", "cm3", B, N}
TUVals == {OM, "K", "degC", B}
PDataVals == {"none", "pl", "ponly", "lonly", "unequal", "empty", "scalar", "df", "df_nokeys", "df_nolkey", "df_badkey",
              "df_pl", "df_branchcol", "notframe"}
MDataVals == PDataVals \cup {"df_adsonly"}
PBranchVals == {OM, "guess", "ads", "des", "other", N, "list_ok", "list_bad"}
MBranchVals == {OM, "ads", "des", "other", N}
ModelVals == {"missing", "name", "unknown", "list", "guess", "instance"}
MisoModelVals == {"missing", "empty", "emptylist", "name", "unknown", "list", "list_unknown", "guess", "instance"}
MisoIsoVals == {"iso_both", "iso_adsonly"}
MetaVals == {"none", "user", "reserved", "control"}

\* the nominal invocation uses NON-default labels, so "as given" and "defaulted" can be told apart
UGiven == [pm |-> "absolute", pu |-> "kPa", lb |-> "mass", lu |-> "g", mb |-> "volume", mu |-> "cm3", tu |-> "degC"]
UOmitted == [pm |-> OM, pu |-> OM, lb |-> OM, lu |-> OM, mb |-> OM, mu |-> OM, tu |-> OM]
USmall == {UGiven, UOmitted, [UGiven EXCEPT !.lu = B]}
UFull == [pm : PMVals, pu : PUVals, lb : LBVals, lu : LUVals, mb : MBVals, mu : MUVals, tu : TUVals]

Inv(cls, m, a, t, u, data, branch, model, meta) ==
   [cls |-> cls, m |-> m, a |-> a, t |-> t, pm |-> u.pm, pu |-> u.pu, lb |-> u.lb, lu |-> u.lu, mb |-> u.mb, mu |-> u.mu, tu |-> u.tu,
    data |-> data, branch |-> branch, model |-> model, meta |-> meta]
Nominal(cls) == Inv(cls, "kw", "kw", "kw", UGiven, IF cls = "base" THEN NA ELSE "pl", IF cls = "base" THEN NA ELSE OM,
                    IF cls = "model" THEN "name" ELSE NA, "none")

\* families (each a full product over its focus, the rest at a few representative values)
FamReq(c) == {Inv(c, m, a, t, u, IF c = "base" THEN NA ELSE "pl", IF c = "base" THEN NA ELSE OM, IF c = "model" THEN "name" ELSE NA, "none") :
                m \in MVals, a \in AVals, t \in TVals, u \in USmall}
FamUnits == {Inv("base", "kw", "kw", "kw", u, NA, NA, NA, "none") : u \in UFull}
FamBaseMeta == {Inv("base", "kw", "kw", t, u, NA, NA, NA, meta) : t \in {"kw", "missing"}, u \in USmall, meta \in MetaVals}
FamPoint == {Inv("point", r[1], r[2], r[3], u, d, b, NA, meta) :
               r \in {<<"kw", "kw", "kw">>, <<"sh", "sh", "sh">>, <<"kw", "kw", "missing">>}, u \in USmall, d \in PDataVals, b \in PBranchVals, meta \in MetaVals}
FamModel == {Inv("model", "kw", "kw", t, u, d, b, md, meta) :
               t \in {"kw", "missing"}, u \in USmall, d \in MDataVals, b \in MBranchVals, md \in ModelVals, meta \in MetaVals}
FamMiso == {Inv("miso", "kw", "kw", "kw", UGiven, d, b, md, "user") : d \in MisoIsoVals, b \in MBranchVals, md \in MisoModelVals}
\* Invocations = FamReq("base") u FamReq("point") u FamReq("model") u FamUnits u FamBaseMeta u FamPoint u FamModel u FamMiso; never
\* built as one set (TLC's union of enumerated sets is quadratic) - CtorMC walks the families, the oracle uses the predicate IsInv
U(i) == [pm |-> i.pm, pu |-> i.pu, lb |-> i.lb, lu |-> i.lu, mb |-> i.mb, mu |-> i.mu, tu |-> i.tu]
Plain(i) == i.m = "kw" /\ i.a = "kw" /\ i.t = "kw"
IsInv(i) ==
   \/ i.cls \in {"base", "point", "model"} /\ i.m \in MVals /\ i.a \in AVals /\ i.t \in TVals /\ U(i) \in USmall /\ i.meta = "none"
      /\ i.data = (IF i.cls = "base" THEN NA ELSE "pl") /\ i.branch = (IF i.cls = "base" THEN NA ELSE OM) /\ i.model = (IF i.cls = "model" THEN "name" ELSE NA)
   \/ i.cls = "base" /\ Plain(i) /\ U(i) \in UFull /\ i.data = NA /\ i.branch = NA /\ i.model = NA /\ i.meta = "none"
   \/ i.cls = "base" /\ i.m = "kw" /\ i.a = "kw" /\ i.t \in {"kw", "missing"} /\ U(i) \in USmall /\ i.data = NA /\ i.branch = NA /\ i.model = NA /\ i.meta \in MetaVals
   \/ i.cls = "point" /\ <<i.m, i.a, i.t>> \in {<<"kw", "kw", "kw">>, <<"sh", "sh", "sh">>, <<"kw", "kw", "missing">>} /\ U(i) \in USmall
      /\ i.data \in PDataVals /\ i.branch \in PBranchVals /\ i.model = NA /\ i.meta \in MetaVals
   \/ i.cls = "model" /\ i.m = "kw" /\ i.a = "kw" /\ i.t \in {"kw", "missing"} /\ U(i) \in USmall
      /\ i.data \in MDataVals /\ i.branch \in MBranchVals /\ i.model \in ModelVals /\ i.meta \in MetaVals
   \/ i.cls = "miso" /\ Plain(i) /\ U(i) = UGiven /\ i.data \in MisoIsoVals /\ i.branch \in MBranchVals /\ i.model \in MisoModelVals /\ i.meta = "user"

\* ---------------------------------------------------------------- results
NoLabels == [pm |-> NA, pu |-> NA, lb |-> NA, lu |-> NA, mb |-> NA, mu |-> NA, tu |-> NA]
Raised(exc, clause, dev) ==
   [out |-> "raised", exc |-> exc, clause |-> clause, labels |-> NoLabels, warned |-> {}, depwarn |-> NA, mval |-> NA, aval |-> NA, tval |-> NA,
    awarn |-> NA, marks |-> NA, src |-> NA, model |-> NA, blabel |-> NA, fitdata |-> NA, nfit |-> NA, meta |-> {}, dev |-> dev]
Refused(clause) == Raised("ParameterError", clause, {})
Proj(r) == [out |-> r.out, exc |-> r.exc, clause |-> r.clause, labels |-> r.labels, warned |-> r.warned, depwarn |-> r.depwarn, mval |-> r.mval,
            aval |-> r.aval, tval |-> r.tval, awarn |-> r.awarn, marks |-> r.marks, src |-> r.src, model |-> r.model, blabel |-> r.blabel,
            fitdata |-> r.fitdata, nfit |-> r.nfit, meta |-> r.meta]

\* ---------------------------------------------------------------- shared vocabulary
D(x, dflt) == IF x = OM THEN dflt ELSE x
Rel(pm) == pm \in {"relative", "relative%"}
LabelNames == {"pm", "pu", "lb", "lu", "mb", "mu", "tu"}
Omitted(i) == {k \in LabelNames : i[k] = OM}
\* labels after the documented defaults (bar, mmol, g, molar, mass, absolute, K)
Eff(i) == LET pm == D(i.pm, "absolute") IN
   [pm |-> pm, pu |-> IF Rel(pm) THEN N ELSE D(i.pu, "bar"), lb |-> D(i.lb, "molar"), lu |-> D(i.lu, "mmol"),
    mb |-> D(i.mb, "mass"), mu |-> D(i.mu, "g"), tu |-> D(i.tu, "K")]
\* the requirements behind IsoValid, one name each (UnitClausesMatchIsoValid in CtorMC ties the two together)
UnitFailing(s) ==
   (IF s.pm \notin Modes THEN {"pm"} ELSE {}) \cup (IF s.lb \notin LBases THEN {"lb"} ELSE {}) \cup (IF s.mb \notin MBases THEN {"mb"} ELSE {})
   \cup (IF s.pm = "absolute" /\ s.pu \notin PresU THEN {"pu"} ELSE {})
   \cup (IF s.lb \in LBases /\ ~Frac(s.lb) /\ s.lu \notin LUnits(s.lb) THEN {"lu"} ELSE {})
   \cup (IF s.lb \in LBases /\ ~Frac(s.lb) /\ s.mb \in MBases /\ s.mu \notin MUnits(s.mb) THEN {"mu"} ELSE {})
   \cup (IF s.tu \notin TempU THEN {"tu"} ELSE {})
\* the metadata an invocation carries beside the documented parameters
UserKeys(meta) == CASE meta = "none" -> {} [] meta = "user" -> {"user", "DOI"} [] meta = "reserved" -> {"_material", "data_raw", "other_keys"}
                    [] meta = "control" -> {"verbose", "plot_fit"}
HasCol(i) == i.data = "df_branchcol"
FrameData(i) == i.data \in {"df", "df_pl", "df_branchcol", "df_adsonly"}
ArrayData(i) == i.data \in {"pl", "empty"}
BranchOf(i) == IF i.branch = OM THEN "ads" ELSE i.branch

-----------------------------------------------------------------------------
\* PRESCRIPTIVE
\* 'volume' as loading basis: not a documented option; the library's own deprecation message promises
\* "assumed as volume_gas".  Both readings are accepted.
Lenient(i) == IF i.lb = "volume" THEN [Eff(i) EXCEPT !.lb = "volume_gas"] ELSE Eff(i)

MustReq(i) == (IF "missing" \in {i.m, i.a, i.t} THEN {"required"} ELSE {}) \cup (IF i.t = "badstr" THEN {"temperature_value"} ELSE {})
MayReq(i) == IF i.m \in {"kwfalsy", "shfalsy"} \/ i.a \in {"kwfalsy", "shfalsy"} THEN {"required"} ELSE {}   \* an empty name: silent
MustUnits(i) == UnitFailing(Lenient(i))
MayUnits(i) == IF i.lb = "volume" THEN UnitFailing(Eff(i)) ELSE {}
MayMeta(i) == IF i.meta = "reserved" THEN {"reserved"} ELSE {}

MustData(i) ==
   CASE i.data = "none" -> IF i.cls = "model" /\ i.model = "instance" THEN {} ELSE {"data_missing"}
     [] i.data \in {"ponly", "lonly"} -> {"data_incomplete"}
     [] i.data = "unequal" -> {"data_unequal"}
     [] i.data \in {"scalar", "notframe"} -> {"data_malformed"}
     [] i.data \in {"df_nokeys", "df_nolkey"} -> {"keys_missing"}
     [] i.data = "df_badkey" -> {"key_not_column"}
     [] i.data = "empty" -> IF i.cls = "model" THEN {"data_empty"} ELSE {}      \* nothing to fit
     [] OTHER -> {}
MayData(i) == IF i.data = "empty" THEN {"data_empty"} ELSE {}
MustPBranch(i) ==
   IF HasCol(i) THEN {}
   ELSE CASE i.branch \in {"other", N} -> {"branch_value"} [] i.branch = "list_bad" -> {"branch_length"} [] OTHER -> {}
MayPBranch(i) == IF i.branch \in {"other", N, "list_bad"} THEN {"branch_value", "branch_length"} ELSE {}
MustModel(i) ==
   (CASE i.model = "missing" -> {"model_missing"} [] i.model = "unknown" -> {"model_unknown"} [] OTHER -> {})
   \cup (IF i.branch \in {"other", N} THEN {"branch_value"} ELSE {})
   \cup (IF i.branch = "des" /\ i.data = "df_adsonly" THEN {"branch_empty"} ELSE {})
MayModel(i) ==
   CASE i.model = "list" -> {"model_type", "model_unknown"}         \* constructor docstring: "str or Model class"; type hint also lists
     [] i.model = "guess" -> {"model_unknown"}                      \* 'guess' is documented for model_iso only
     [] i.model = "instance" /\ i.data # "none" -> {"model_type"}   \* a ready-made model AND data to fit: silent
     [] OTHER -> {}
MustMiso(i) ==
   (CASE i.model \in {"missing", "empty", "emptylist"} -> {"model_missing"} [] i.model \in {"unknown", "list_unknown"} -> {"model_unknown"} [] OTHER -> {})
   \cup (IF i.branch = "other" THEN {"branch_value"} ELSE {})          \* None is a documented value of model_iso's branch
   \cup (IF i.branch = "des" /\ i.data = "iso_adsonly" THEN {"branch_empty"} ELSE {})
MayMiso(i) == IF i.model = "instance" THEN {"model_type"} ELSE {}

Must(i) ==
   CASE i.cls = "base" -> MustReq(i) \cup MustUnits(i)
     [] i.cls = "point" -> MustReq(i) \cup MustUnits(i) \cup MustData(i) \cup MustPBranch(i)
     [] i.cls = "model" -> MustReq(i) \cup MustUnits(i) \cup MustData(i) \cup MustModel(i)
     [] i.cls = "miso" -> MustMiso(i)
May(i) ==
   CASE i.cls = "base" -> MayReq(i) \cup MayUnits(i) \cup MayMeta(i)
     [] i.cls = "point" -> MayReq(i) \cup MayUnits(i) \cup MayMeta(i) \cup MayData(i) \cup MayPBranch(i)
     [] i.cls = "model" -> MayReq(i) \cup MayUnits(i) \cup MayMeta(i) \cup MayData(i) \cup MayModel(i)
     [] i.cls = "miso" -> MayMiso(i)

\* what a constructed object must look like
LabelsOk(i, lab) ==
   LET s == IF i.cls = "miso" THEN UGiven ELSE Lenient(i) IN
   /\ lab.pm = s.pm /\ lab.lb = s.lb /\ lab.mb = s.mb /\ lab.tu = s.tu
   /\ lab.pu = (IF Rel(s.pm) THEN N ELSE s.pu)
   /\ (~Frac(s.lb) => lab.lu = s.lu /\ lab.mu = s.mu)
\* every default that was applied and matters is warned about; nothing else is
WarnedOk(i, w) ==
   LET s == Lenient(i)
       applicable == {k \in Omitted(i) : ~(k = "pu" /\ Rel(s.pm)) /\ ~(k \in {"lu", "mu"} /\ Frac(s.lb))} IN
   IF i.cls = "miso" THEN w = {} ELSE applicable \subseteq w /\ w \subseteq Omitted(i)
DepWarnOk(i, d) == IF i.cls # "miso" /\ i.lb = "volume" THEN d = "yes" ELSE d = "no"
AllowedMval(i) == CASE i.m \in {"kw", "sh", "obj"} -> {i.m} [] i.m = "both" -> {"kw", "sh"} [] i.m \in {"kwfalsy", "shfalsy"} -> {"empty"} [] OTHER -> {}
AllowedAval(i) == CASE i.a \in {"kw", "sh", "obj", "unknown"} -> {i.a} [] i.a = "both" -> {"kw", "sh"} [] i.a \in {"kwfalsy", "shfalsy"} -> {"empty"} [] OTHER -> {}
AllowedTval(i) == CASE i.t \in {"kw", "sh", "str"} -> {i.t} [] i.t = "both" -> {"kw", "sh"} [] i.t \in {"kw0", "sh0"} -> {"zero"} [] OTHER -> {}
AllowedMarks(i) ==
   IF i.cls # "point" THEN {NA}
   ELSE IF i.data = "empty" THEN {"emptymarks"}
   ELSE (IF HasCol(i) THEN {"column"} ELSE {})
        \cup (CASE i.branch \in {OM, "guess"} -> IF HasCol(i) THEN {} ELSE {"guessed"}
                [] i.branch \in {"ads", "des"} -> {i.branch}
                [] i.branch = "list_ok" -> {"given"}
                [] OTHER -> {})
AllowedSrc(i) == IF i.cls # "point" THEN {NA} ELSE IF FrameData(i) THEN {"frame"} ELSE {"arrays"}
AllowedModel(i) ==
   CASE i.cls \in {"base", "point"} -> {NA}
     [] i.cls = "model" -> CASE i.model = "name" -> {"named"} [] i.model \in {"list", "guess"} -> {"named", "best"}
                             [] i.model = "instance" -> IF i.data = "none" THEN {"instance"} ELSE {"instance", "named"} [] OTHER -> {}
     [] i.cls = "miso" -> CASE i.model = "name" -> {"named"} [] i.model \in {"list", "guess"} -> {"named", "best"}
                             [] i.model = "instance" -> {"instance", "named"} [] OTHER -> {}
AllowedBLabel(i) ==
   CASE i.cls \in {"base", "point"} -> {NA}
     [] i.cls = "model" -> {BranchOf(i)}
     [] i.cls = "miso" -> IF i.branch = N THEN {"ads", "des", N} ELSE {BranchOf(i)}
AllowedFit(i) ==     \* <<which points reach the fit, how many fits>>
   CASE i.cls \in {"base", "point"} -> {<<NA, NA>>}
     [] i.cls = "model" ->
          LET n == IF i.model \in {"list", "guess"} THEN {"1", "many"} ELSE {"1"} IN
          IF i.model = "instance" /\ i.data = "none" THEN {<<"nofit", "0">>}
          ELSE IF i.model = "instance" THEN {<<"nofit", "0">>} \cup ({"all", BranchOf(i)} \X {"1"})
          ELSE IF ArrayData(i) THEN {"all", BranchOf(i)} \X n      \* arrays carry no marks: the branch is a label (or the guessed part)
          ELSE {BranchOf(i)} \X n
     [] i.cls = "miso" ->
          LET n == IF i.model \in {"list", "guess"} THEN {"1", "many"} ELSE {"1"} IN
          (IF i.branch = N THEN {"all", "ads"} ELSE {BranchOf(i)}) \X n
AllowedMeta(i) ==
   CASE i.cls = "miso" -> {{"user"}}                                   \* the template's metadata, nothing the caller did not give
     [] i.cls = "model" /\ i.meta = "control" -> {{"plot_fit"}, {}}    \* verbose is a documented parameter; plot_fit is not
     [] OTHER -> {UserKeys(i.meta)}

\* the set of clauses an observed result breaks (empty = allowed)
SpecJudge(i, r) ==
   IF r.out = "raised" THEN
        IF r.exc # "ParameterError" THEN {"S.exception_class_not_ParameterError"}
        ELSE IF Must(i) \cup May(i) = {} THEN {"S.valid_invocation_refused"}
        ELSE IF r.clause \notin Must(i) \cup May(i) THEN {"S.refusal_names_a_requirement_that_holds"}
        ELSE {}
   ELSE IF Must(i) # {} THEN {"S.invalid_invocation_accepted"}
   ELSE (IF LabelsOk(i, r.labels) THEN {} ELSE {"S.labels"})
        \cup (IF WarnedOk(i, r.warned) THEN {} ELSE {"S.defaults_warned"})
        \cup (IF DepWarnOk(i, r.depwarn) THEN {} ELSE {"S.deprecation_warned"})
        \cup (IF i.cls = "miso" \/ (r.mval \in AllowedMval(i) /\ r.aval \in AllowedAval(i) /\ r.tval \in AllowedTval(i)) THEN {} ELSE {"S.required_values"})
        \cup (IF r.marks \in AllowedMarks(i) THEN {} ELSE {"S.branch_marks"})
        \cup (IF r.src \in AllowedSrc(i) THEN {} ELSE {"S.data_source"})
        \cup (IF r.model \in AllowedModel(i) THEN {} ELSE {"S.model"})
        \cup (IF r.blabel \in AllowedBLabel(i) THEN {} ELSE {"S.branch_label"})
        \cup (IF <<r.fitdata, r.nfit>> \in AllowedFit(i) THEN {} ELSE {"S.fit_data"})
        \cup (IF r.meta \in AllowedMeta(i) THEN {} ELSE {"S.metadata"})

-----------------------------------------------------------------------------
\* DESCRIPTIVE: the code, in its order.  Named deviation classes:
DevNames == {"DShorthandFalsy",        \* shorthands tested with `if data:`: t=0 is dropped, the isotherm "has no temperature"
             "DNoneTestEq",            \* `None in [material, adsorbate, temperature]` calls Adsorbate.__eq__(None): AttributeError
             "DTempValueError",        \* a temperature that is not a number: ValueError from float()
             "DModeNotString",         \* pressure_mode=None: AttributeError from .startswith
             "DMaterialUnitMessage",   \* the material-unit refusal indexes _MATERIAL_MODE with the LOADING basis: KeyError
             "DDataNotSized",          \* pressure/loading without a length: TypeError
             "DDataNotFrame",          \* isotherm_data that is not a DataFrame: AttributeError
             "DEmptyGuess",            \* no points and branch guessing: ValueError
             "DBranchNone",            \* PointIsotherm(branch=None): accepted, every mark is None
             "DEmptyBranchList",       \* no points and a list of marks: accepted, one all-NaN row per mark
             "DEmptyData",             \* ModelIsotherm with no points: ValueError from min()
             "DModelBranchUnchecked",  \* ModelIsotherm from arrays / around an instance: any branch value is stored
             "DModelKeyError",         \* ModelIsotherm: key that is not a column: KeyError
             "DModelList",             \* ModelIsotherm(model=[...]): AttributeError
             "DModelInstanceData",     \* ModelIsotherm(model=<instance>, data): AttributeError
             "DMisoBranchNone",        \* model_iso(branch=None): documented, refused
             "DPlotFit"}               \* model_iso with several models: plot_fit=False appears in the result's metadata

MBound(i) == CASE i.m = "both" -> "sh" [] i.m = "kwfalsy" -> "empty" [] i.m = "shfalsy" -> "missing" [] OTHER -> i.m
ABound(i) == CASE i.a = "both" -> "sh" [] i.a = "kwfalsy" -> "empty" [] i.a = "shfalsy" -> "missing" [] OTHER -> i.a
TBound(i) == CASE i.t = "both" -> "sh" [] i.t = "kw0" -> "zero" [] i.t = "sh0" -> "missing" [] OTHER -> i.t
\* what super().__init__(**other_properties) sees as extra keywords
BaseKeys(i) == IF i.cls = "model" /\ i.meta = "control" THEN {"plot_fit"} ELSE UserKeys(i.meta)

\* BaseIsotherm.__init__: a raised record, or the constructed prefix (out = "ok")
ImplBase(i) ==
   LET s == Eff(i)
       \* t=0 is the ONLY reason for "no temperature" (no other parameter is absent or an empty name)
       only_t0 == i.t = "sh0" /\ i.m \notin {"missing", "shfalsy", "kwfalsy"} /\ i.a \notin {"missing", "shfalsy", "kwfalsy"} IN
   IF MBound(i) = "missing" THEN Refused("required")
   ELSE IF ABound(i) = "obj" THEN Raised("AttributeError", NA, {"DNoneTestEq"})
   ELSE IF ABound(i) = "missing" \/ TBound(i) = "missing" THEN Raised("ParameterError", "required", IF only_t0 THEN {"DShorthandFalsy"} ELSE {})
   ELSE IF TBound(i) = "badstr" THEN Raised("ValueError", NA, {"DTempValueError"})
   ELSE IF i.pm = N THEN Raised("AttributeError", NA, {"DModeNotString"})
   ELSE IF s.pm \notin Modes THEN Refused("pm")
   ELSE IF s.lb \notin LBases THEN Refused("lb")            \* 'volume' included: the deprecation branch tests the class default, it is dead
   ELSE IF s.mb \notin MBases THEN Refused("mb")
   ELSE IF s.pm = "absolute" /\ s.pu \notin PresU THEN Refused("pu")
   ELSE IF ~Frac(s.lb) /\ s.lu \notin LUnits(s.lb) THEN Refused("lu")
   ELSE IF ~Frac(s.lb) /\ s.mu \notin MUnits(s.mb) THEN
        (IF s.lb \in MBases THEN Refused("mu") ELSE Raised("KeyError", NA, {"DMaterialUnitMessage"}))
   ELSE IF s.tu \notin TempU THEN Refused("tu")
   ELSE [out |-> "ok", exc |-> "none", clause |-> NA, labels |-> s, warned |-> Omitted(i), depwarn |-> "no", mval |-> MBound(i), aval |-> ABound(i),
         tval |-> TBound(i), awarn |-> IF ABound(i) \in {"unknown", "empty"} THEN "yes" ELSE "no", marks |-> NA, src |-> NA, model |-> NA, blabel |-> NA,
         fitdata |-> NA, nfit |-> NA, meta |-> BaseKeys(i), dev |-> {}]

ImplPoint(i) ==
   LET b == ImplBase(i) IN
   IF b.out # "ok" THEN b
   ELSE IF i.data \in {"df_nokeys", "df_nolkey"} THEN Refused("keys_missing")
   ELSE IF i.data = "notframe" THEN Raised("AttributeError", NA, {"DDataNotFrame"})
   ELSE IF i.data = "df_badkey" THEN Refused("key_not_column")
   ELSE IF i.data \in {"ponly", "lonly"} THEN Refused("data_incomplete")
   ELSE IF i.data = "scalar" THEN Raised("TypeError", NA, {"DDataNotSized"})
   ELSE IF i.data = "unequal" THEN Refused("data_unequal")
   ELSE IF i.data = "none" THEN Refused("data_missing")
   ELSE LET src == IF FrameData(i) THEN "frame" ELSE "arrays"
            done(marks, dev) == [b EXCEPT !.marks = IF i.data = "empty" THEN "emptymarks" ELSE marks, !.src = src, !.dev = dev] IN
        IF HasCol(i) THEN done("column", {})
        ELSE IF i.branch \in {OM, "guess"} THEN (IF i.data = "empty" THEN Raised("ValueError", NA, {"DEmptyGuess"}) ELSE done("guessed", {}))
        ELSE IF i.branch \in {"ads", "des"} THEN done(i.branch, {})
        ELSE IF i.branch = "other" THEN Refused("branch_value")
        ELSE IF i.branch = N THEN done("nonemarks", {"DBranchNone"})
        ELSE IF i.branch = "list_ok" THEN done("given", {})
        \* a list of the wrong length: pandas refuses it - except on a frame without rows, which it silently extends
        ELSE IF i.data = "empty" THEN [b EXCEPT !.marks = "listbad", !.src = "nanrows", !.dev = {"DEmptyBranchList"}]
        ELSE Refused("branch_length")

\* the tail of ModelIsotherm.__init__ after the data have been selected: get_isotherm_model + fit
ImplFitTail(i, b, fitdata, dev) ==
   IF i.data = "empty" THEN Raised("ValueError", NA, {"DEmptyData"})            \* min(pressure) is evaluated before the model is looked up
   ELSE CASE i.model = "list" -> Raised("AttributeError", NA, {"DModelList"})
          [] i.model = "instance" -> Raised("AttributeError", NA, {"DModelInstanceData"})
          [] i.model \in {"unknown", "guess"} -> Refused("model_unknown")
          [] i.model = "name" -> [b EXCEPT !.model = "named", !.blabel = BranchOf(i), !.fitdata = fitdata, !.nfit = "1", !.dev = dev]

ImplModel(i) ==
   LET b == ImplBase(i) IN
   IF b.out # "ok" THEN b
   ELSE IF i.model = "missing" THEN Refused("model_missing")
   ELSE IF i.data \in {"df_nokeys", "df_nolkey"} THEN Refused("keys_missing")
   ELSE IF i.data = "notframe" THEN Raised("AttributeError", NA, {"DDataNotFrame"})
   ELSE IF i.data \in {"df", "df_pl", "df_branchcol", "df_adsonly", "df_badkey"} THEN
        (IF BranchOf(i) \notin {"ads", "des"} THEN Refused("branch_value")
         ELSE IF i.data = "df_adsonly" /\ BranchOf(i) = "des" THEN Refused("branch_empty")
         ELSE IF i.data = "df_badkey" THEN Raised("KeyError", NA, {"DModelKeyError"})
         ELSE ImplFitTail(i, b, BranchOf(i), {}))
   ELSE IF i.data \in {"ponly", "lonly"} THEN Refused("data_incomplete")
   ELSE IF i.data = "scalar" THEN Raised("TypeError", NA, {"DDataNotSized"})
   ELSE IF i.data = "unequal" THEN Refused("data_unequal")
   ELSE IF i.data \in {"pl", "empty"} THEN ImplFitTail(i, b, "all", IF BranchOf(i) \notin {"ads", "des"} THEN {"DModelBranchUnchecked"} ELSE {})
   ELSE IF i.model = "instance" THEN    \* no data: built around the ready-made model
        [b EXCEPT !.model = "instance", !.blabel = BranchOf(i), !.fitdata = "nofit", !.nfit = "0",
                  !.dev = IF BranchOf(i) \notin {"ads", "des"} THEN {"DModelBranchUnchecked"} ELSE {}]
   ELSE Refused("data_missing")

\* model_iso -> ModelIsotherm.from_pointisotherm (-> ModelIsotherm.guess) on a valid PointIsotherm labelled UGiven
ImplMiso(i) ==
   LET okres(model, n, meta, dev) ==
          [out |-> "ok", exc |-> "none", clause |-> NA, labels |-> UGiven, warned |-> {}, depwarn |-> "no", mval |-> NA, aval |-> NA, tval |-> NA,
           awarn |-> "no", marks |-> NA, src |-> NA, model |-> model, blabel |-> BranchOf(i), fitdata |-> BranchOf(i), nfit |-> n, meta |-> meta, dev |-> dev]
   IN
   IF i.model \in {"missing", "empty", "emptylist"} THEN Refused("model_missing")
   ELSE IF BranchOf(i) = "other" THEN Refused("branch_value")                       \* isotherm.data(branch=...)
   ELSE IF i.model \in {"name", "unknown"} THEN
        (IF BranchOf(i) = N THEN Raised("ParameterError", "branch_value", {"DMisoBranchNone"})
         ELSE IF BranchOf(i) = "des" /\ i.data = "iso_adsonly" THEN Refused("branch_empty")
         ELSE IF i.model = "unknown" THEN Refused("model_unknown")
         ELSE okres("named", "1", {"user"}, {}))
   ELSE IF i.model = "instance" THEN Refused("model_type")
   ELSE IF i.model = "list_unknown" THEN Refused("model_unknown")
   ELSE \* list / guess: every candidate is constructed with plot_fit=False
        IF BranchOf(i) = N THEN Raised("ParameterError", "branch_value", {"DMisoBranchNone"})
        ELSE IF BranchOf(i) = "des" /\ i.data = "iso_adsonly" THEN Refused("branch_empty")
        ELSE okres("best", "many", {"user", "plot_fit"}, {"DPlotFit"})

Impl(i) == CASE i.cls = "base" -> ImplBase(i) [] i.cls = "point" -> ImplPoint(i) [] i.cls = "model" -> ImplModel(i) [] i.cls = "miso" -> ImplMiso(i)

-----------------------------------------------------------------------------
\* the question the driver asks about one observed call (obs: a result record without dev)
Verdict(i, obs) ==
   LET fails == SpecJudge(i, obs)
       r == Impl(i) IN
   IF ~IsInv(i) THEN [verdict |-> "not_an_invocation", failing |-> {}, devs |-> {}, drift |-> FALSE]
   ELSE IF fails = {} THEN [verdict |-> "ok", failing |-> {}, devs |-> {}, drift |-> obs # Proj(r)]
   ELSE IF obs = Proj(r) /\ r.dev # {} THEN [verdict |-> "observation", failing |-> fails, devs |-> r.dev, drift |-> FALSE]
   ELSE [verdict |-> "violation", failing |-> fails, devs |-> r.dev, drift |-> obs # Proj(r)]
=============================================================================
