---------------------------- MODULE BackendOracle ----------------------------
(***************************************************************************)
(* C20, backend part: TLC judges every recorded property-method call       *)
(* (k = "call") against the fallback specification and every recorded      *)
(* temperature sweep of a backend-linked adsorbate (k = "thermo") against  *)
(* the consistency clauses of spec/Backend.tla.                            *)
(***************************************************************************)
EXTENDS Backend, Json, IOUtils, SequencesExt

Q == JsonDeserialize(IOEnv.X_IN)

Step(q) ==
  CASE q.k = "call" -> LET j == JudgeCall(q) IN
                       [ok |-> j.ok, observed |-> j.observed, allowed |-> SetToSeq(j.allowed), impl_predicts |-> j.impl_predicts]
    [] q.k = "thermo" -> LET j == JudgeThermo(q) IN [ok |-> j.ok, failed |-> SetToSeq(j.failed)]
    [] q.k = "alphabet" -> [methods |-> SetToSeq(Methods), tdep |-> SetToSeq(TDep), psat |-> SetToSeq(PsatM),
                            units |-> SetToSeq(PresU), links |-> SetToSeq(Links),
                            userkey |-> [m \in Methods |-> UserKey(m)]]

ASSUME JsonSerialize(IOEnv.X_OUT, [i \in 1..Len(Q) |-> Step(Q[i])])
VARIABLE x
Init == x = 0
Next == x' = x
=============================================================================
