------------------------------ MODULE Spreading ------------------------------
(***************************************************************************)
(* Property C11: the reduced spreading pressure is                         *)
(*      pi(p) = INTEGRAL_0^p n(p') / p' dp'                                *)
(* of that same isotherm - the model equation (spec/Models.tla), or for    *)
(* measured points the piecewise-linear interpolant continued to the       *)
(* origin by Henry's law.                                                  *)
(*                                                                         *)
(* Part A (exact, symbolic).  For the models with an elementary integral   *)
(* the antiderivative is written as   rat(p) + SUM c_i * ln(arg_i(p))      *)
(* with rational rat, c_i, arg_i, together with d rat/dp and d arg_i/dp.   *)
(* SpreadingMC checks on the exact grid that p * d(pi)/dp = L(p) (the      *)
(* derivative clause, against the loading of Models.tla), that pi(0) = 0   *)
(* (rat = 0, every arg = 1) and that every arg is positive: by the         *)
(* fundamental theorem of calculus the symbolic form IS the integral.  The *)
(* driver evaluates it in float64 and compares with spreading_pressure().  *)
(*                                                                         *)
(* Part B (point isotherms, exact).  PiPoint(P, N, q) is the integral of   *)
(* the interpolant, in the same symbolic form; SpreadingMC checks its      *)
(* continuity, additivity over segments, Henry exactness and the           *)
(* derivative clause on every enumerated data set.                         *)
(*                                                                         *)
(* Part C (relational).  GeoStep judges observations n_k = loading(p_k),   *)
(* pi_k = spreading_pressure(p_k) on a geometric pressure grid: composite  *)
(* Simpson sums of n_k with the constant step ln r must reproduce every    *)
(* difference pi_j - pi_i (additivity + integral identity), pi must be     *)
(* non-decreasing, vanish with p like c*n(p), and its logarithmic          *)
(* derivative must be the loading.  PtStep does the same for the symbolic  *)
(* form of a point isotherm with the logarithms of the inputs supplied as  *)
(* observations.                                                           *)
(***************************************************************************)
EXTENDS Models

LogT(c, arg, darg) == [c |-> c, arg |-> arg, darg |-> darg]
Sym(rat, drat, logs) == [rat |-> rat, drat |-> drat, logs |-> logs]
LangLog(nm, K, p) == LogT(nm, RAdd(R1, RMul(K, p)), K)

HasPiSym(m, a) ==
  CASE m \in {"Henry", "Langmuir", "DSLangmuir", "TSLangmuir", "BET", "GAB", "Quadratic", "TemkinApprox", "Freundlich"} -> TRUE
    [] m = "Toth" -> a.t \in {R1, R2}
    [] m = "JensenSeaton" -> a.c = R1
    [] OTHER -> FALSE

\* the integral of L(m, a, p')/p' from 0 to p, p > 0 (for p = 0 see PiZero)
PiSym(m, a, p) ==
  CASE m = "Henry" -> Sym(RMul(a.K, p), a.K, <<>>)
    [] m = "Langmuir" -> Sym(R0, R0, <<LangLog(a.n_m, a.K, p)>>)
    [] m = "DSLangmuir" -> Sym(R0, R0, <<LangLog(a.n_m1, a.K1, p), LangLog(a.n_m2, a.K2, p)>>)
    [] m = "TSLangmuir" -> Sym(R0, R0, <<LangLog(a.n_m1, a.K1, p), LangLog(a.n_m2, a.K2, p), LangLog(a.n_m3, a.K3, p)>>)
    [] m = "BET" -> LET d == RSub(a.C, a.N) IN      \* n_m ln((1 - Np + Cp)/(1 - Np))
          Sym(R0, R0, <<LogT(a.n_m, RAdd(R1, RMul(d, p)), d), LogT(RNeg(a.n_m), RSub(R1, RMul(a.N, p)), RNeg(a.N))>>)
    [] m = "GAB" -> LET d == RMul(a.K, RSub(a.C, R1)) IN
          Sym(R0, R0, <<LogT(a.n_m, RAdd(R1, RMul(d, p)), d), LogT(RNeg(a.n_m), RSub(R1, RMul(a.K, p)), RNeg(a.K))>>)
    [] m = "Quadratic" -> Sym(R0, R0, <<LogT(a.n_m, RAdd(R1, RAdd(RMul(a.Ka, p), RMul(a.Kb, RSq(p)))),
                                              RAdd(a.Ka, RMul(R2, RMul(a.Kb, p))))>>)
    [] m = "TemkinApprox" ->      \* n_m [ ln(1+Kp) + theta ((2Kp+1)/(2(1+Kp)^2) - 1/2) ]
          LET kp == RMul(a.K, p)  d == RAdd(R1, kp)
          IN Sym(RMul(RMul(a.n_m, a.tht), RSub(RDiv(RAdd(RMul(R2, kp), R1), RMul(R2, RSq(d))), Q(1, 2))),
                 RNeg(RDiv(RMul(RMul(a.n_m, a.tht), RMul(a.K, kp)), RCube(d))),
                 <<LangLog(a.n_m, a.K, p)>>)
    [] m = "Freundlich" ->        \* m K p^(1/m)
          IF a.m = R1 THEN Sym(RMul(a.K, p), a.K, <<>>)
          ELSE IF a.m = R2 THEN Sym(RMul(R2, RMul(a.K, RSqrt(p))), RDiv(a.K, RSqrt(p)), <<>>)
          ELSE Sym(RDiv(RMul(a.K, RSq(p)), R2), RMul(a.K, p), <<>>)
    [] m = "Toth" ->
          IF a.t = R1 THEN Sym(R0, R0, <<LangLog(a.n_m, a.K, p)>>)
          ELSE LET kp == RMul(a.K, p)  s == RSqrt(RAdd(R1, RSq(kp)))        \* n_m asinh(Kp)
               IN Sym(R0, R0, <<LogT(a.n_m, RAdd(kp, s), RAdd(a.K, RDiv(RMul(a.K, kp), s)))>>)
    [] m = "JensenSeaton" ->      \* c = 1:  K a (1 + b p) / (a + D p),  D = a b + K
          LET D == RAdd(RMul(a.a, a.b), a.K)
          IN Sym(RDiv(RMul(RMul(a.K, a.a), RMul(a.b, p)), D), RDiv(RMul(RMul(a.K, a.a), a.b), D),
                 <<LogT(RDiv(RMul(RSq(a.K), a.a), RSq(D)), RAdd(R1, RDiv(RMul(D, p), a.a)), RDiv(D, a.a))>>)

\* descriptive (classifies signatures, never decides): the library's TemkinApprox antiderivative
\* n_m (ln(1+Kp) + theta (2Kp+1) / (2 (1+Kp)^2)) lacks the constant -theta/2
ImplPiOffset(m, a) == IF m = "TemkinApprox" THEN RDiv(RMul(a.n_m, a.tht), R2) ELSE R0
\* the library integrates these numerically (scipy.integrate.quad, absolute tolerance 1.49e-8)
QuadBased(m) == m \in {"Toth", "JensenSeaton", "DR", "DA"}
SpreadingModels == {"Henry", "Langmuir", "DSLangmuir", "TSLangmuir", "Quadratic", "BET", "TemkinApprox", "Toth",
                    "JensenSeaton", "GAB", "Freundlich", "DR", "DA"}
\* geometric grid of the relational contract: p_k = p_top * r^(k - n), r = 2^(1/16), 12 octaves
LnR == <<43321698, -9>>                      \* ln 2 / 16
GeoPerOctave == 16
GeoOctaves == 12
GeoWindow == 8
\* top pressures per parameter vector (inside the validity range; BET/GAB well below the pole)
GeoTops(m, a) == LET xs == ArgsG(m, a) IN
  CASE m \in {"BET", "GAB"} -> <<xs[3], xs[4]>>
    [] m \in {"DR", "DA"} -> <<xs[3], xs[4]>>      \* p = 1 is a branch point of |ln p|^m: not smooth enough for Simpson
    [] OTHER -> <<xs[5], xs[8]>>

\* p * d(pi)/dp, computed from the symbolic form
PDeriv(s, p) == RMul(p, RAdd(s.drat, RSum([i \in 1..Len(s.logs) |-> RDiv(RMul(s.logs[i].c, s.logs[i].darg), s.logs[i].arg)])))
SymRowOK(m, a, p) ==
  LET s == PiSym(m, a, p) IN
  /\ \A i \in 1..Len(s.logs) : RPos(s.logs[i].arg)
  /\ PDeriv(s, p) = L(m, a, p)                       \* the derivative clause, exactly
\* zero limit: at p = 0 the rational part vanishes and every logarithm is ln 1
\* (Freundlich m = 2 has p^(1/2) in rat and 1/p^(1/2) in drat: evaluated at 0 only for rat)
SymZeroOK(m, a) ==
  LET s == IF m = "Freundlich" /\ a.m = R2 THEN Sym(RMul(R2, RMul(a.K, RSqrt(R0))), R0, <<>>) ELSE PiSym(m, a, R0) IN
  /\ s.rat = R0
  /\ \A i \in 1..Len(s.logs) : s.logs[i].arg = R1
\* for the Langmuir family the property's rational cross-check: exp(pi / n_m) = 1 + K p
LangmuirCross(m, a, p) == m = "Langmuir" =>
  LET s == PiSym(m, a, p) IN Len(s.logs) = 1 /\ s.rat = R0 /\ s.logs[1].c = a.n_m /\ s.logs[1].arg = RAdd(R1, RMul(a.K, p))

---------------------------------------------------------------------------
\* Part B: point isotherms.  P strictly increasing positive pressures, N loadings, 0 < q <= P[Len(P)].
Below(P, q) == Cardinality({i \in 1..Len(P) : RLt(P[i], q)})        \* points strictly below q
Slope(P, N, i) == RDiv(RSub(N[i + 1], N[i]), RSub(P[i + 1], P[i]))
Icpt(P, N, i) == RSub(N[i], RMul(Slope(P, N, i), P[i]))
Interp(P, N, q) == LET k == Below(P, q) IN
   IF k = 0 THEN RMul(RDiv(N[1], P[1]), q)                          \* Henry continuation
   ELSE RAdd(N[k], RMul(Slope(P, N, k), RSub(q, P[k])))
PLog(c, arg) == [c |-> c, arg |-> arg]
PiPoint(P, N, q) == LET k == Below(P, q) IN
   IF k = 0 THEN [rat |-> RMul(RDiv(N[1], P[1]), q), logs |-> <<>>]
   ELSE [rat |-> RAdd(RAdd(N[1], RSum([i \in 1..(k - 1) |-> RMul(Slope(P, N, i), RSub(P[i + 1], P[i]))])),
                      RMul(Slope(P, N, k), RSub(q, P[k]))),
         logs |-> [i \in 1..k |-> IF i < k THEN PLog(Icpt(P, N, i), RDiv(P[i + 1], P[i]))
                                  ELSE PLog(Icpt(P, N, k), RDiv(q, P[k]))]]

\* The integral of n dp/p does not change when every pressure (data and query) is multiplied by the same factor:
\* the same measurement expressed in another pressure unit (Pa / bar, or p/p0 of a micropore isotherm ~ 1e-9).
\* SpreadingMC checks PiPoint(s*P, N, s*q) = PiPoint(P, N, q) for s = 10 and s = 1/100 on every enumerated data set,
\* hence for every power of ten; the driver replays the data sets rescaled by 10^e, e in PointMagnitudeExps.
ScaleSeq(P, s) == [i \in 1..Len(P) |-> RMul(P[i], s)]
PtScaleInvariant(P, N, q) == \A s \in {Q(10, 1), Q(1, 100)} : PiPoint(ScaleSeq(P, s), N, RMul(q, s)) = PiPoint(P, N, q)
PointMagnitudeExps == {-9, -6, -3, 3, 6}

PVals == {Q(1, 2), Q(1, 1), Q(2, 1), Q(3, 1), Q(5, 1)}
NVals == {Q(1, 2), Q(1, 1), Q(2, 1), Q(3, 1)}
Lens == 2..4
IncSeqs(S, n) == {s \in [1..n -> S] : \A i \in 1..(n - 1) : RLt(s[i], s[i + 1])}
NonDecSeqs(S, n) == {s \in [1..n -> S] : \A i \in 1..(n - 1) : RLeq(s[i], s[i + 1])}
\* query pressures: below the range, the first point, every midpoint, every later point (the last = the edge)
Queries(P) == <<RDiv(P[1], R2), P[1]>> \o
              Flat([i \in 1..(Len(P) - 1) |-> <<RDiv(RAdd(P[i], P[i + 1]), R2), P[i + 1]>>], Len(P) - 1)

IsHenryData(P, N) == \A i \in 1..Len(P) : RMul(N[i], P[1]) = RMul(N[1], P[i])
PtOK(P, N, q) ==
  LET s == PiPoint(P, N, q)  k == Below(P, q) IN
  /\ (k = 0 => s.rat = RMul(RDiv(N[1], P[1]), q) /\ s.logs = <<>>)
  /\ (k > 0 => s.rat = Interp(P, N, q))                             \* SUM slope*dp telescopes
  /\ (q = P[1] => s.rat = N[1])                                      \* continuity with the Henry segment
  /\ (IsHenryData(P, N) => s.rat = RMul(RDiv(N[1], P[1]), q) /\ \A i \in 1..Len(s.logs) : s.logs[i].c = R0)
  \* derivative clause: q * d(pi)/dq = slope*q + intercept = the interpolated loading
  /\ (k > 0 => RAdd(RMul(Slope(P, N, k), q), s.logs[k].c) = Interp(P, N, q))
  \* additivity over a whole segment: pi(P[j]) - pi(P[j-1]) = slope*dp + intercept*ln(P[j]/P[j-1])
  /\ \A j \in 2..Len(P) : q = P[j] =>
        LET t == PiPoint(P, N, P[j - 1]) IN
        /\ RSub(s.rat, t.rat) = RMul(Slope(P, N, j - 1), RSub(P[j], P[j - 1]))
        /\ Len(s.logs) = j - 1 /\ SubSeq(s.logs, 1, Len(t.logs)) = t.logs
        /\ s.logs[j - 1] = PLog(Icpt(P, N, j - 1), RDiv(P[j], P[j - 1]))

---------------------------------------------------------------------------
\* Part C: relational contracts over observations.
DSumF(f(_), lo, hi) == LET RECURSIVE go(_, _)
                           go(i, acc) == IF i > hi THEN acc ELSE go(i + 1, DAdd(acc, f(i)))
                       IN go(lo, DZero)
D3 == DFromInt(3)
D4 == DFromInt(4)
D2 == DFromInt(2)
\* composite Simpson sum of f over the w steps (w even) starting at index s, step h
Simpson(f(_), s, w, h) ==
  LET ends == DAdd(f(s), f(s + w))
      odd == DSumF(LAMBDA j : f(s + 2 * j - 1), 1, w \div 2)
      even == DSumF(LAMBDA j : f(s + 2 * j), 1, (w \div 2) - 1)
  IN DMul(DDiv(h, D3), DAdd(ends, DAdd(DMul(D4, odd), DMul(D2, even))))

\* low-pressure behaviour: pi ~ c * n(p) as p -> 0 where n ~ p^(1/c):
\* c = 1 for every model with a Henry regime, m for Freundlich, and e/RT for DA with exponent 1
\* (n = n_m p^(RT/e), a power law; a bare model built without a temperature uses RT = 1000)
RTDefault == 1000
LowFactor(model, par) ==
  CASE model = "Freundlich" -> DFromRat(par.m)
    [] model = "DA" -> DFromRat(RDiv(par.e, <<RTDefault, 1>>))
    [] OTHER -> DFromInt(1)
\* loading vanishes faster than any power of p: only "pi(p_z) negligible against pi(p_top)" can be asked
FastDecay(model, par) == model = "DR" \/ (model = "DA" /\ RLt(R1, par.m))

\* q: [model, par, h = ln r, w, kind = "model" | "point", pts = << <<n_k, pi_k>> >>, z = <<n_z, pi_z>>]
\* len(pts) = 1 + multiple of w; z is observed at p_z = 2^-40 times the top pressure
GeoStep(q) ==
  LET n == Len(q.pts)
      f(i) == q.pts[i][1]
      g(i) == q.pts[i][2]
      nw == (n - 1) \div q.w
      tolI == IF q.kind = "point" THEN <<50000000, -10>> ELSE <<20000000, -12>>      \* 5e-3 (kinks) / 2e-5
      tolD == IF q.kind = "point" THEN <<50000000, -9>> ELSE <<50000000, -10>>       \* 5e-2 (kinks) / 5e-3
      \* absolute floor for numerically integrated models: 100 x the absolute tolerance 1.49e-8 of scipy's quad
      atolQ == IF q.model \in {"Toth", "JensenSeaton", "DR", "DA"} THEN <<15000000, -13>> ELSE DZero
      WinOK(j) == LET s == 1 + (j - 1) * q.w
                      S == Simpson(f, s, q.w, q.h)
                  IN DCloseAbs(DSub(g(s + q.w), g(s)), S, tolI, DAdd(DMul(DTol(6), DAbs(g(s + q.w))), atolQ))
      integral == {Bad("integral", 1 + (j - 1) * q.w) : j \in {jj \in 1..nw : ~WinOK(jj)}}
      total == LET S == DSumF(LAMBDA j : Simpson(f, 1 + (j - 1) * q.w, q.w, q.h), 1, nw)
               IN IF DCloseAbs(DSub(g(n), g(1)), S, tolI, DAdd(DMul(DTol(6), DAbs(g(n))), atolQ)) THEN {} ELSE {Bad("integral_total", n)}
      mono == {Bad("monotone", i + 1) : i \in {ii \in 1..(n - 1) : ~DLeq(g(ii), g(ii + 1))}}
      zero == IF FastDecay(q.model, q.par)
              THEN (IF q.z[2][1] >= 0 /\ DLeq(q.z[2], DMul(DTol(6), g(n))) THEN {} ELSE {Bad("zero_limit", 0)})
              ELSE (IF DCloseAbs(q.z[2], DMul(LowFactor(q.model, q.par), q.z[1]), <<20000000, -9>>, DMul(DTol(9), DAbs(g(n)))) THEN {}
                    ELSE {Bad("zero_limit", 0)})
      \* fourth-order central difference: (-pi_{k+2} + 8 pi_{k+1} - 8 pi_{k-1} + pi_{k-2}) / (12 h) = n_k
      DerOK(i) == LET D == DDiv(DAdd(DSub(g(i - 2), g(i + 2)), DMul(DFromInt(8), DSub(g(i + 1), g(i - 1)))), DMul(DFromInt(12), q.h))
                  IN DCloseAbs(D, f(i), tolD, DAdd(DMul(<<20000000, -12>>, DAbs(g(i + 2))), DMul(DFromInt(40), atolQ)))
      deriv == {Bad("derivative", i) : i \in {ii \in 3..(n - 2) : ii % 2 = 1 /\ ~DerOK(ii)}}
  IN [bad |-> integral \cup total \cup mono \cup zero \cup deriv]

\* q: [P, N (rationals), qp (rational query), lns (decimal ln of every PiPoint log argument, in order), pi (observed),
\*     e10: the object was built from 10^e10 * P and queried at 10^e10 * qp - by PtScaleInvariant the expected value is that of (P, N, qp)]
\* The integral is a property of the SET of measured points of the branch: the storage order (a desorption
\* branch is recorded from the highest pressure downwards) is irrelevant.  q.P / q.N arrive in stored order.
ByPressure(P, N) == LET idx == SortSeq([i \in 1..Len(P) |-> i], LAMBDA i, j : RLt(P[i], P[j]))
                    IN [P |-> [i \in 1..Len(P) |-> P[idx[i]]], N |-> [i \in 1..Len(P) |-> N[idx[i]]]]
PtStep(q) ==
  LET srt == ByPressure(q.P, q.N)
      s == PiPoint(srt.P, srt.N, q.qp)
      terms == [i \in 1..Len(s.logs) |-> DMul(DFromRat(s.logs[i].c), q.lns[i])]
      expected == DAdd(DFromRat(s.rat), DSumF(LAMBDA i : terms[i], 1, Len(s.logs)))
      scale == DAdd(DAbs(DFromRat(s.rat)), DSumF(LAMBDA i : DAbs(terms[i]), 1, Len(s.logs)))
  IN [ok |-> Len(q.lns) = Len(s.logs) /\ DCloseAbs(q.pi, expected, DTol(5), DMul(DTol(6), scale)),
      expected |-> expected]
=============================================================================
