------------------------------- MODULE Kernel -------------------------------
(***************************************************************************)
(* C18 - kernel (DFT) fitting.                                             *)
(*                                                                         *)
(* Scenario space (TLC enumerates it, KernelMC checks it is well formed    *)
(* and covers every grid x limits x spline-order combination) and the      *)
(* clauses of the property over recorded observations (Judge):             *)
(*   non-negative distribution; cumulative volume non-decreasing and equal *)
(*   to the running integral of the reported distribution; kernel-weighted *)
(*   sum of the distribution = reported fitted isotherm (spline order 0);  *)
(*   fitted isotherm = input within the optimiser tolerance; the fit does  *)
(*   not depend on the smoothing order; only points inside the pressure    *)
(*   limits influence the result; pressures outside the kernel range are   *)
(*   refused with CalculationError.                                        *)
(* The kernel matrix, the pressures and the input loadings are INPUT data  *)
(* supplied by the harness (read from the kernel file); every number       *)
(* returned by the library is an observation.  All numbers DecFloat.       *)
(***************************************************************************)
EXTENDS DecFloat, Integers, Sequences, FiniteSets, TLC, TLCExt, SequencesExt

DL(m, e) == DMk(DSgn(m), DAbsI(m), e)
DInt(i) == DL(i, 0)
DHalf(a) == DMul(a, DL(5, -1))
DSumF(s) == FoldLeft(DAdd, DZero, s)            \* eager sum (Java fold), safe on long sequences
Idx(s) == 1..Len(s)

---------------------------------------------------------------------------
\* Scenario space.  nw = number of kernel pore widths, nr = number of kernel pressure rows.
\* A weight vector is a sequence of <<column index, small integer weight>> and a scale (DecFloat).
Scales == <<DL(5, -2), DL(2, -1), DInt(1)>>
UnitW(i) == [kind |-> "unit", cols |-> <<<<i, 1>>>>, scale |-> Scales[(i % 3) + 1], cls |-> "physical"]
PairW(k, nw) == LET a == ((7 * k) % nw) + 1
                    b0 == ((13 * k + 5) % nw) + 1
                    b == IF b0 = a THEN (a % nw) + 1 ELSE b0
                IN [kind |-> "pair", cols |-> <<<<a, 1 + (k % 3)>>, <<b, 1 + (k % 2)>>>>, scale |-> DL(1, -1), cls |-> "physical"]
DenseCols(k, nw) == LET w(i) == ((i * (k + 1)) % 4) + (k % 2)
                    IN TLCEval(SelectSeq([i \in 1..nw |-> <<i, w(i)>>], LAMBDA c : c[2] > 0))
DenseW(k, nw) == [kind |-> "dense", cols |-> DenseCols(k, nw), scale |-> DL(1, -2), cls |-> "physical"]
\* the same dense vectors at scale 10 (loadings of 10^4..10^5 mmol/g, three orders of magnitude beyond any measurement;
\* "physical" vectors give loadings below 100 mmol/g)
LargeW(k, nw) == [kind |-> "dense", cols |-> DenseCols(k, nw), scale |-> DInt(10), cls |-> "large"]
NPairs(nw) == IF nw >= 30 THEN 30 ELSE 3
NDense(nw) == IF nw >= 30 THEN 10 ELSE 2
NLarge(nw) == IF nw >= 30 THEN 2 ELSE 0
Weights(nw) == [i \in 1..nw |-> UnitW(i)] \o [k \in 1..NPairs(nw) |-> PairW(k, nw)] \o [k \in 1..NDense(nw) |-> DenseW(k, nw)]
               \o [k \in 1..NLarge(nw) |-> LargeW(k, nw)]

\* pressure grids: rows of the kernel file (knots of the library's interpolators): <<first, stride>>, all rows first, first+stride, ... <= nr
Grids(nr) == IF nr >= 100 THEN <<<<2, 4>>, <<1, 3>>, <<40, 5>>, <<3, 8>>>> ELSE <<<<1, 1>>, <<2, 1>>, <<1, 2>>, <<1, 1>>>>
GridRows(g, nr) == LET n == ((nr - g[1]) \div g[2]) + 1 IN [i \in 1..n |-> g[1] + (i - 1) * g[2]]
\* limits: "none", "lower", "upper", "both"; the limit values lie strictly between two grid pressures:
\* lower between positions a and a+1, upper between b and b+1 (1-based positions in the grid)
LimitKinds == <<"none", "lower", "upper", "both">>
LimitPos(n) == [a |-> (n \div 5) + 1, b |-> n - (n \div 5) - 1]
Orders == <<0, 1, 2, 3>>

\* scenario k (1-based) of a kernel with nw widths / nr rows, rotation r (the seed): weight vector k with a
\* (grid, limits, order) combination chosen so that all 64 combinations occur
\* (W = the evaluated Weights(nw): callers pass TLCEval(Weights(nw)) so that it is built once)
Scenario(k, W, nr, r) ==
   LET c == (k + r) % 64
   IN [id |-> k, w |-> W[k], grid |-> Grids(nr)[(c % 4) + 1],
       limits |-> IF W[k].cls = "large" THEN "none" ELSE LimitKinds[((c \div 4) % 4) + 1],   \* large: whole isotherm
       order |-> Orders[((c \div 16) % 4) + 1]]
NScen(nw) == Len(Weights(nw))

\* Row orders of a user kernel file: the pressure rows of the table may come in any order (the loader interpolates each
\* column over its pressure index); results must be those of the ascending file.  RowPerm(order, nr)[i] = which row of
\* the ascending table is written as the i-th row of the file.
RowOrders == <<"ascending", "descending", "shuffled">>
RowPerm(order, nr) == [i \in 1..nr |-> CASE order = "ascending" -> i [] order = "descending" -> nr + 1 - i
                                          [] order = "shuffled" -> ((i * 5) % nr) + 1]        \* a permutation when 5 does not divide nr
\* Grid histories: two pressure grids with the same number of points and the same first and last pressure but other
\* interior pressures (interior rows shifted by one; needs rows at least two apart), fitted one after the other in one
\* process; every fit is judged like a first fit with the kernel values AT ITS OWN pressures.
AltRows(rows) == [i \in 1..Len(rows) |-> IF i = 1 \/ i = Len(rows) THEN rows[i] ELSE rows[i] + 1]
AltOk(rows) == Len(rows) >= 3 /\ \A i \in 1..(Len(rows) - 1) : rows[i + 1] - rows[i] >= 2
GridHistories == << <<"A", "B", "A">>, <<"B", "A", "B">> >>

\* Kernel units: a user kernel may be tabulated in other units than relative pressure / mmol/g; the caller says so with a
\* kernel_units dictionary.  The SAME dictionary object is handed to every call of the scenarios of that kernel (a caller
\* keeps it next to the kernel file); every call is judged like a first call in those units.
KernelUnits == [loading_basis |-> "molar", loading_unit |-> "cm3(STP)", material_basis |-> "mass", material_unit |-> "g",
                pressure_mode |-> "absolute", pressure_unit |-> "kPa"]

\* Histories: the result of a fit is a function of the CONTENT of the kernel file it names and of the isotherm, not of
\* which kernel files were used before.  Two different user kernels that share their file name (in different
\* directories) are fitted in every order of length 4; each fit is judged like a first call.
HistoryKernels == {"user5", "user5b"}
Histories == [1..4 -> HistoryKernels]
\* One path whose CONTENT changes: "bad" = the file with one non-numeric cell (loading it fails part-way; whatever the
\* library answers is accepted), "good" = the well-formed file.  Every use of the good content must give the result of
\* a first call on that content - a kernel that failed to load must leave nothing behind.
FileHistories == << <<"good">>, <<"bad", "good">>, <<"bad", "bad", "good">>, <<"good", "bad", "good">> >>
FileStepJudged(state) == state = "good"
Scenarios(nw, nr, r) == LET W == TLCEval(Weights(nw)) IN [k \in 1..Len(W) |-> Scenario(k, W, nr, r)]

---------------------------------------------------------------------------
\* Observations of one call: [w, dist, cum, kl : sequences; lim : <<min, max>> 0-based positions]
Tol9 == DL(1, -9)
NonNeg(o) == \A i \in Idx(o.dist) : DLeq(DNeg(Tol9), o.dist[i])
CumMono(o) == \A i \in 1..(Len(o.cum) - 1) : DLeq(o.cum[i], DAdd(o.cum[i + 1], DMul(DTol(7), DAbs(o.cum[i + 1]))))
WidthsMono(o) == \A i \in 1..(Len(o.w) - 1) : DLeq(o.w[i], o.w[i + 1])
ShapeOk(o) == Len(o.w) = Len(o.dist) /\ Len(o.w) = Len(o.cum) /\ Len(o.w) >= 1

\* quadrature weights of the reported distribution: the volume x_i attributed to reported width i
\*   "right0": dist_i * (w_i - w_(i-1)), w_0 = 0     (what the library documents: dV/dw on the width increments)
\*   "trapz0": (dist_i + dist_(i-1))/2 * (w_i - w_(i-1)), dist_0 = 0, w_0 = 0
Wprev(o, i) == IF i = 1 THEN DZero ELSE o.w[i - 1]
Dprev(o, i) == IF i = 1 THEN DZero ELSE o.dist[i - 1]
Incr(o, rule) == [i \in Idx(o.w) |->
                    IF rule = "right0" THEN DMul(o.dist[i], DSub(o.w[i], Wprev(o, i)))
                    ELSE DMul(DHalf(DAdd(o.dist[i], Dprev(o, i))), DSub(o.w[i], Wprev(o, i)))]
Rules == {"right0", "trapz0"}
\* running sums, eager
RunSum(s) == LET step(acc, x) == Append(acc, DAdd(IF Len(acc) = 0 THEN DZero ELSE acc[Len(acc)], x)) IN FoldLeft(step, <<>>, s)
CumIsIntegral(o, rule) ==
   LET rs == RunSum(Incr(o, rule))
       top == DAbs(rs[Len(rs)])
   IN \A i \in Idx(o.cum) : DCloseAbs(o.cum[i], rs[i], DTol(5), DMul(DTol(6), top))

\* kernel-weighted sum at fed point j: Sum_i K[j][i] * x_i  with K given sparsely as sequence of <<i, K_ji>> over
\* the columns whose reported distribution is non-zero (harness drops zero columns: they contribute nothing)
WSum(o, krow, inc) == DSumF([c \in Idx(krow) |-> DMul(krow[c][2], inc[krow[c][1]])])
WSumOk(o, K, rule) ==
   LET inc == Incr(o, rule)
   IN Len(K) = Len(o.kl) /\ \A j \in Idx(K) : DCloseAbs(WSum(o, K[j], inc), o.kl[j], DTol(5), DL(1, -8))

\* window selected by limits <<lo, hi>> (DZero = absent) on increasing pressures p: positions with lo <= p < hi
\* (the harness places limits strictly between grid pressures, so boundary conventions do not matter)
Window(p, lim) ==
   LET inside == {i \in Idx(p) : (lim[1][1] = 0 \/ DLeq(lim[1], p[i])) /\ (lim[2][1] = 0 \/ DLt(p[i], lim[2]))}
   IN inside
MinS(S) == CHOOSE x \in S : \A y \in S : x <= y
MaxS(S) == CHOOSE x \in S : \A y \in S : x >= y

\* residual sum of squares between fitted and input loadings on the window
RSS(kl, load, win) == LET lo == MinS(win) IN DSumF([j \in Idx(kl) |-> LET d == DSub(kl[j], load[lo + j - 1]) IN DMul(d, d)])
\* optimiser tolerance: SLSQP runs with ftol = 1e-4 on the sum of squares; termination values observed on the unchanged
\* tree are <= 2e-3 (mmol/g)^2; accepted up to 0.2, i.e. rms 0.07 mmol/g on 40 points
RSSTol == DL(2, -1)

SameSeq(a, b) == Len(a) = Len(b) /\ \A i \in Idx(a) : DCloseAbs(a[i], b[i], DTol(6), DL(1, -12))
SameOut(a, b) == SameSeq(a.w, b.w) /\ SameSeq(a.dist, b.dist) /\ SameSeq(a.cum, b.cum) /\ SameSeq(a.kl, b.kl)

\* q: [p, load : fed isotherm; lim : <<lo, hi>>; order; wk : kernel widths; K : sparse kernel rows on the window;
\*     o0 : observation with order 0; ok : observation with q.order; op : observation (order q.order) of the isotherm
\*     (p2, load2): the same points inside the window, but other loadings outside it and - when there is an upper limit -
\*     further points beyond the kernel's pressure range appended above it (they lie outside the limits, so the result
\*     must be that of the truncated isotherm, not a refusal); op.exc = TRUE when that call raised; useK : FALSE when the pressures are not kernel rows
\*     (then K is empty and the kernel-weighted-sum clause is not evaluated)]
Judge(q) ==
   LET win == Window(q.p, q.lim)
       n == Cardinality(win)
       win2 == Window(q.p2, q.lim)
       limOk(o) == n >= 1 /\ o.lim[1] = MinS(win) - 1 /\ o.lim[2] = MaxS(win) - 1
       limOk2(o) == n >= 1 /\ o.lim[1] = MinS(win2) - 1 /\ o.lim[2] = MaxS(win2) - 1
       lenOk(o) == Len(o.kl) = n
       \* the two isotherms coincide inside the limits (same points in the same order) and differ only outside
       pairOk == /\ Len(q.load2) = Len(q.p2) /\ Cardinality(win2) = n /\ n >= 1
                 /\ \A i \in win : LET i2 == MinS(win2) + (i - MinS(win)) IN i2 \in win2 /\ q.p2[i2] = q.p[i] /\ q.load2[i2] = q.load[i]
       goodRules(o) == {r \in Rules : CumIsIntegral(o, r)}
       rules0 == {r \in goodRules(q.o0) : WSumOk(q.o0, q.K, r)}
       rss == IF lenOk(q.o0) /\ n >= 1 THEN RSS(q.o0.kl, q.load, win) ELSE DZero
   IN [pair_wellformed |-> pairOk,
       shape |-> ShapeOk(q.o0) /\ ShapeOk(q.ok) /\ (q.op.exc \/ ShapeOk(q.op)),
       limits |-> limOk(q.o0) /\ limOk(q.ok) /\ (q.op.exc \/ limOk2(q.op)) /\ lenOk(q.o0) /\ lenOk(q.ok) /\ (q.op.exc \/ lenOk(q.op)),
       nonneg |-> NonNeg(q.o0) /\ NonNeg(q.ok),
       cum_mono |-> CumMono(q.o0) /\ CumMono(q.ok),
       cum_integral |-> goodRules(q.o0) # {} /\ goodRules(q.ok) # {},
       widths |-> SameSeq(q.o0.w, q.wk) /\ WidthsMono(q.ok) /\ WidthsMono(q.o0)
                  /\ (Len(q.ok.w) >= 1 => DLeq(q.wk[1], q.ok.w[1]) /\ DLeq(q.ok.w[Len(q.ok.w)], DMul(q.wk[Len(q.wk)], DL(10000001, -7)))),
       wsum |-> (~q.useK) \/ rules0 # {},
       repro |-> DLeq(rss, RSSTol),
       rss |-> rss,
       order_invariant |-> SameSeq(q.o0.kl, q.ok.kl),
       limits_only |-> (~q.op.exc) /\ SameOut(q.ok, q.op)]

\* refusal: any fed pressure above the largest kernel pressure, or negative, must give CalculationError
\* (0 <= p < smallest kernel pressure is not judged: the library documents a zero row prepended for interpolation)
OutOfRange(p, pmax) == \E i \in Idx(p) : DLt(pmax, p[i]) \/ p[i][1] < 0
BelowOnly(p, pmin, pmax) == ~OutOfRange(p, pmax) /\ \E i \in Idx(p) : DLt(p[i], pmin)
Refusal(q) == [expected |-> IF OutOfRange(q.p, q.pmax) THEN "CalculationError" ELSE IF BelowOnly(q.p, q.pmin, q.pmax) THEN "any" ELSE "value",
               ok |-> IF OutOfRange(q.p, q.pmax) THEN q.observed = "CalculationError"
                      ELSE IF BelowOnly(q.p, q.pmin, q.pmax) THEN TRUE ELSE q.observed = "value"]
=============================================================================
