SPECIFICATION Spec
INVARIANT SelectionAllowed
INVARIANT ErrorIffNoneConverged
INVARIANT OnlyRequestedBranch
INVARIANT RefusedIffEmpty
INVARIANT EveryCandidateTried
PROPERTY StepOrder
CHECK_DEADLOCK FALSE
