SPECIFICATION ImplSpec
CONSTANTS
  Shapes <- MCShapes
  Mode = "implemented"
CONSTRAINT Tally
POSTCONDITION Stats
CHECK_DEADLOCK FALSE
