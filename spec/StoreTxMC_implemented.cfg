SPECIFICATION ImplSpec
CONSTANTS
  Shapes <- MCShapes
  Journal = "disk"
  Mode = "implemented"
CONSTRAINT Tally
POSTCONDITION Stats
CHECK_DEADLOCK FALSE
