------------------------------ MODULE LookupOracle ------------------------------
(***************************************************************************)
(* JSON batch step oracle of Lookup (X07).  A record is one step of the    *)
(* real library: the abstract invocation, the two caches before the call   *)
(* (as projected from models_thickness._LOADED / psd_kernel._LOADED), the  *)
(* observed outcome [cls, why, target] and the caches after the call.      *)
(* TLC decides: "conforms" (the outcome is one the documentation allows),  *)
(* "known-deviation" (it is exactly what the Impl transcription predicts   *)
(* AND falls in a named deviation class) or "violation" (naming the failed *)
(* clause); the caches after the call must be the specified ones.          *)
(***************************************************************************)
EXTENDS Lookup, Json, IOUtils
Q == JsonDeserialize(IOEnv.X_IN)
SetOf(s) == {s[k] : k \in DOMAIN s}
Obs(q) == [cls |-> q.obs.cls, why |-> q.obs.why, target |-> q.obs.target]
Clause(i, tc, kc, r) ==
   LET im == Impl(i, tc, kc) IN
   IF r.cls = "other" THEN "raises " \o r.why \o " instead of a pyGAPS error or a result"
   ELSE IF r.cls = "ok" /\ (\A s \in Spec(i, tc, kc) : s.cls # "ok") THEN "accepted although the documentation requires a refusal"
   ELSE IF r.cls # "ok" /\ (\A s \in Spec(i, tc, kc) : s.cls = "ok") THEN "refused although the documentation requires a result"
   ELSE IF r.cls = "ok" THEN "dispatched to something else than documented"
   ELSE IF \E s \in Spec(i, tc, kc) : s.cls = r.cls THEN "the error blames an argument that is not objectionable"
   ELSE "wrong error class"
Step(q) ==
   IF ~IsInvocation(q.inv) THEN [ok |-> FALSE, verdict |-> "machinery", clause |-> "not an invocation of the model", dev |-> "none", impl |-> Go, allowed |-> {}]
   ELSE LET i == q.inv  tc == SetOf(q.tc)  kc == SetOf(q.kc)  r == Obs(q)
            v == Verdict(i, tc, kc, r)
            cacheOk == SetOf(q.tc2) = TcAfter(i, tc) /\ SetOf(q.kc2) = KcAfter(i, kc, r)
        IN [ok |-> v # "violation" /\ cacheOk,
            verdict |-> IF v = "violation" THEN v ELSE IF ~cacheOk THEN "violation" ELSE v,
            clause |-> IF v = "violation" THEN Clause(i, tc, kc, r) ELSE IF ~cacheOk THEN "the module-level cache is not the specified one after the call" ELSE "-",
            dev |-> IF v = "known-deviation" THEN DevOf(i, r) ELSE "none",
            impl |-> Impl(i, tc, kc),
            allowed |-> Spec(i, tc, kc)]
ASSUME JsonSerialize(IOEnv.X_OUT, [k \in 1..Len(Q) |-> Step(Q[k])])
VARIABLE x
Init == x = 0
Next == x' = x
=============================================================================
