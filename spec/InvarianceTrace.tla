--------------------------- MODULE InvarianceTrace ---------------------------
(***************************************************************************)
(* C15, validation of recorded runs (pattern B).  One record per replayed  *)
(* scenario: an analysis was run on the fixture as stored (base) and on a  *)
(* copy that was permanently converted / exported and re-imported / had    *)
(* all loadings multiplied by a constant (variant); the record carries,    *)
(* per result key, the numbers both runs returned (decimal floats) and the *)
(* float64 value of the monomial spec/AccessPlan!RepFactor names.          *)
(* The clauses of the property, as formulas over these observations:       *)
(*   intensive results are equal, own-unit results differ by exactly the   *)
(*   unit monomial, extensive results scale with the loading factor,       *)
(*   discrete outputs (point windows, section bounds) are identical, the   *)
(*   variant run does not fail where the base run succeeded.               *)
(* The expected monomial is recomputed here from the labels in the record  *)
(* and must be the one the harness evaluated (vec).                        *)
(***************************************************************************)
EXTENDS AccessPlan, DecFloat, Json, IOUtils

Q == JsonDeserialize(IOEnv.X_IN)
DOne == <<10000000, -7>>
NaNMark == <<0, 99>>             \* a non-finite number in the result
Pairs(v) == {<<a, v[a]>> : a \in Support(v)}
SeqToSet(s) == {s[i] : i \in 1..Len(s)}

RECURSIVE DPowI(_, _)
DPowI(a, k) == IF k = 0 THEN DOne ELSE IF k > 0 THEN DMul(a, DPowI(a, k - 1)) ELSE DDiv(DOne, DPowI(a, -k))
\* the largest finite magnitude of a sequence: the record names the position (o.imax, 0 = no finite element),
\* the specification checks that it is one (no recursion: TLC re-evaluates accumulators of recursive operators)
IsFinite(x) == x # NaNMark
MaxOk(s, k) == IF k = 0 THEN \A i \in 1..Len(s) : ~IsFinite(s[i])
               ELSE k \in 1..Len(s) /\ IsFinite(s[k]) /\ \A i \in 1..Len(s) : IsFinite(s[i]) => DLeq(DAbs(s[i]), DAbs(s[k]))
\* expected factor of one key in this scenario
\*   variant "rep"/"json": the evaluated unit monomial;  "scale": (n/d)^exponent
KeyFactor(q, o) ==
   IF q.variant = "scale" THEN DPowI(DDiv(DFromInt(q.scale[1]), DFromInt(q.scale[2])), ScaleExp(q.an, o.key, q.role))
   ELSE o.fac
ExpectedVec(q, o) ==
   IF q.variant = "rep" THEN Pairs(RepFactor2(q.an, o.key, q.sS0, q.sR0, q.sS, q.sR)) ELSE {}

\* index of the first element satisfying P, 0 if none
First(s, P(_)) == LET bad == {i \in 1..Len(s) : P(i)} IN IF bad = {} THEN 0 ELSE CHOOSE i \in bad : \A j \in bad : i <= j

KeyClause(q, o) ==
   LET d == ResultDims(q.an, o.key)
       tol == DTol(TolExp(q.an, o.key))
       f == TLCEval(KeyFactor(q, o))
       want == TLCEval([i \in 1..Len(o.base) |-> IF o.base[i] = NaNMark THEN NaNMark ELSE DMul(o.base[i], f)])
       atol == TLCEval(IF Len(o.base) > 1 /\ o.imax > 0 THEN DMul(tol, DAbs(want[o.imax])) ELSE DZero)
       trivial == f = DOne \/ DClose(f, DOne, DTol(6))
   IN
   IF d.kind = "free" THEN [c |-> "not_judged", i |-> 0]
   ELSE IF q.variant = "rep" /\ SeqToSet(o.vec) # ExpectedVec(q, o) THEN [c |-> "MACHINERY:factor_monomial_is_not_the_one_the_specification_names", i |-> 0]
   ELSE IF ~MaxOk(o.base, o.imax) THEN [c |-> "MACHINERY:imax_is_not_the_position_of_the_largest_magnitude", i |-> 0]
   ELSE IF Len(o.val) # Len(o.base) THEN [c |-> "shape_changed", i |-> 0]
   ELSE IF d.kind = "index" THEN
        LET b == First(o.base, LAMBDA i : o.val[i] # o.base[i]) IN
        [c |-> IF b = 0 THEN "" ELSE "selected_points_changed", i |-> b]
   ELSE IF d.kind = "log" THEN
        \* value = ln(extensive quantity): shifts by ln(factor), supplied as o.logfac (scale: exponent * ln(n/d))
        LET b == First(o.base, LAMBDA i : ~DCloseAbs(DSub(o.val[i], o.base[i]), o.logfac, tol, DMul(tol, DMax(DAbs(o.base[i]), DOne)))) IN
        [c |-> IF b = 0 THEN "" ELSE "log_result_not_shifted_by_ln_of_factor", i |-> b]
   ELSE LET b == First(o.base, LAMBDA i : IF want[i] = NaNMark \/ o.val[i] = NaNMark THEN want[i] # o.val[i]
                                                ELSE ~DCloseAbs(o.val[i], want[i], tol, atol)) IN
        [c |-> IF b = 0 THEN ""
               ELSE IF q.variant = "scale" THEN (IF ScaleExp(q.an, o.key, q.role) = 0 THEN "intensive_result_changed_under_loading_scaling"
                                                   ELSE "extensive_result_not_scaled_by_the_loading_factor")
               ELSE IF trivial THEN "result_changed"
               ELSE "own_unit_result_not_changed_by_exactly_the_unit_factor",
         i |-> b]

Step(q) ==
   \* the OUTCOME CLASS is part of the result: an isotherm the analysis refuses as stored (its pressure cannot be read
   \* as p/p0 ...) must be refused in every representation, not answered in the units it happens to be stored in
   IF q.base_outcome = "raised" THEN
        IF q.outcome = "raised" THEN [ok |-> TRUE, bad |-> <<>>]
        ELSE [ok |-> FALSE, bad |-> <<[key |-> "*", c |-> "answered_in_this_representation_but_refused_as_stored", i |-> 0]>>]
   ELSE IF q.outcome = "raised" THEN
        \* the variant run failed although the base run returned
        [ok |-> FALSE, bad |-> <<[key |-> "*", c |-> IF q.cls = "guard:different_basis" THEN "not_judged_deliberate_guard" ELSE "refused_after_change_of_representation", i |-> 0]>>]
   ELSE LET cl == [j \in 1..Len(q.obs) |-> [key |-> q.obs[j].key] @@ KeyClause(q, q.obs[j])]
            bad == SelectSeq(cl, LAMBDA r : r.c \notin {"", "not_judged"})
        IN [ok |-> bad = <<>>, bad |-> bad]

ASSUME JsonSerialize(IOEnv.X_OUT, [i \in 1..Len(Q) |-> Step(Q[i])])
VARIABLE x
Init == x = 0
Next == x' = x
=============================================================================
