------------------------------- MODULE Models -------------------------------
(***************************************************************************)
(* Property C10: isotherm model equations are mutually inverse, monotone   *)
(* and physically bounded.                                                 *)
(*                                                                         *)
(* Part 1 (exact, pattern C).  For every model whose loading is a rational *)
(* function of pressure and parameters - and for the rational special      *)
(* cases of the transcendental ones (Toth t in {1,2}, Jensen-Seaton c in   *)
(* {1,2}, Freundlich m in {1/2,1,2}, DR/DA at p in {0,1}, Virial A=B=C=0,  *)
(* FH-VST a1v=0, W-VST L1v=Lv1=1) - the model equation L(m,a,p) is written *)
(* over exact rationals.  ModelsMC lets TLC walk the parameter x pressure  *)
(* grid and checks: the defining polynomial relation (a second,            *)
(* division-free formulation), L(0)=0, 0<=L, L<=capacity, strict           *)
(* monotonicity between neighbouring grid points, L = p*G with G(0) the    *)
(* Henry slope.  ModelsOracle hands the table (model, parameters, p, n)    *)
(* to the driver, which replays it on model.loading / model.pressure.      *)
(*                                                                         *)
(* Part 2 (relational, pattern B).  For arbitrary parameters the driver    *)
(* records what the implementation returned; ObsStep states the clauses    *)
(* of the property over those observations in decimal floating point.      *)
(***************************************************************************)
EXTENDS Integers, Sequences, FiniteSets, TLC, TLCExt, Rat, DecFloat

Q(n, d) == RNorm(n, d)
R0 == <<0, 1>>
R1 == <<1, 1>>
R2 == <<2, 1>>
RSq(x) == RMul(x, x)
RCube(x) == RMul(x, RMul(x, x))
RPow(x, k) == IF k = 1 THEN x ELSE IF k = 2 THEN RSq(x) ELSE RCube(x)
\* exact square root of a rational that is a perfect square (CHOOSE fails loudly otherwise)
ISqrt(n) == CHOOSE i \in 0..215 : i * i = n
RSqrt(x) == <<ISqrt(x[1]), ISqrt(x[2])>>
RSum(s) == LET RECURSIVE go(_, _)
               go(i, acc) == IF i > Len(s) THEN acc ELSE go(i + 1, RAdd(acc, s[i]))
           IN go(1, R0)
RPos(x) == x[1] > 0

AllModels == {"Henry", "Langmuir", "DSLangmuir", "TSLangmuir", "BET", "GAB", "Freundlich", "DA", "DR",
              "Quadratic", "TemkinApprox", "Virial", "Toth", "JensenSeaton", "FHVST", "WVST"}
ModelSeq == <<"Henry", "Langmuir", "DSLangmuir", "TSLangmuir", "BET", "GAB", "Freundlich", "DA", "DR",
              "Quadratic", "TemkinApprox", "Virial", "Toth", "JensenSeaton", "FHVST", "WVST">>
PressureExplicit == {"Virial", "FHVST", "WVST"}
Calc(m) == IF m \in PressureExplicit THEN "pressure" ELSE "loading"

---------------------------------------------------------------------------
\* The model equations (exact).  a = parameter record named as in pyGAPS.
Lang(nm, K, p) == RDiv(RMul(nm, RMul(K, p)), RAdd(R1, RMul(K, p)))
LangG(nm, K, p) == RDiv(RMul(nm, K), RAdd(R1, RMul(K, p)))
JSr(a, p) == RDiv(RMul(a.K, p), RMul(a.a, RAdd(R1, RMul(a.b, p))))       \* K p / (a (1 + b p))

L(m, a, p) ==
  CASE m = "Henry" -> RMul(a.K, p)
    [] m = "Langmuir" -> Lang(a.n_m, a.K, p)
    [] m = "DSLangmuir" -> RAdd(Lang(a.n_m1, a.K1, p), Lang(a.n_m2, a.K2, p))
    [] m = "TSLangmuir" -> RAdd(RAdd(Lang(a.n_m1, a.K1, p), Lang(a.n_m2, a.K2, p)), Lang(a.n_m3, a.K3, p))
    [] m = "BET" -> LET u == RSub(R1, RMul(a.N, p))
                    IN RDiv(RMul(a.n_m, RMul(a.C, p)), RMul(u, RAdd(u, RMul(a.C, p))))
    [] m = "GAB" -> LET kp == RMul(a.K, p)  u == RSub(R1, kp)
                    IN RDiv(RMul(a.n_m, RMul(a.C, kp)), RMul(u, RAdd(u, RMul(a.C, kp))))
    [] m = "Quadratic" -> RDiv(RMul(a.n_m, RMul(RAdd(a.Ka, RMul(R2, RMul(a.Kb, p))), p)),
                               RAdd(R1, RAdd(RMul(a.Ka, p), RMul(a.Kb, RSq(p)))))
    [] m = "TemkinApprox" -> LET x == Lang(R1, a.K, p)
                             IN RMul(a.n_m, RAdd(x, RMul(a.tht, RMul(RSq(x), RSub(x, R1)))))
    [] m = "Toth" -> IF a.t = R1 THEN Lang(a.n_m, a.K, p)
                     ELSE IF a.t = R2 THEN RDiv(RMul(a.n_m, RMul(a.K, p)), RSqrt(RAdd(R1, RSq(RMul(a.K, p)))))
                     ELSE Assert(FALSE, "Toth: no rational form for this t")
    [] m = "JensenSeaton" -> IF a.c = R1 THEN RDiv(RMul(a.K, p), RAdd(R1, JSr(a, p)))
                     ELSE IF a.c = R2 THEN RDiv(RMul(a.K, p), RSqrt(RAdd(R1, RSq(JSr(a, p)))))
                     ELSE Assert(FALSE, "JensenSeaton: no rational form for this c")
    [] m = "Freundlich" -> IF a.m = R1 THEN RMul(a.K, p)
                     ELSE IF a.m = R2 THEN RMul(a.K, RSqrt(p))
                     ELSE IF a.m = Q(1, 2) THEN RMul(a.K, RSq(p))
                     ELSE Assert(FALSE, "Freundlich: no rational form for this m")
    [] m \in {"DR", "DA"} -> IF p = R0 THEN R0 ELSE IF p = R1 THEN a.n_m
                     ELSE Assert(FALSE, "DR/DA: rational only at p = 0 and p = 1")
    [] m = "Virial" -> IF a.A = R0 /\ a.B = R0 /\ a.C = R0 THEN RMul(a.K, p)
                     ELSE Assert(FALSE, "Virial: rational only for A=B=C=0")
    [] m = "FHVST" -> IF a.a1v = R0 THEN Lang(a.n_m, RDiv(a.K, a.n_m), p)
                     ELSE Assert(FALSE, "FHVST: rational only for a1v=0")
    [] m = "WVST" -> IF a.L1v = R1 /\ a.Lv1 = R1 THEN Lang(a.n_m, RDiv(a.K, a.n_m), p)
                     ELSE Assert(FALSE, "WVST: rational only for L1v=Lv1=1")

\* Second formulation: the defining relation, cross-multiplied (no division, no root).
Defining(m, a, p, n) ==
  CASE m = "Henry" -> n = RMul(a.K, p)
    [] m = "Langmuir" -> RMul(n, RAdd(R1, RMul(a.K, p))) = RMul(a.n_m, RMul(a.K, p))
    [] m = "DSLangmuir" -> LET d1 == RAdd(R1, RMul(a.K1, p))  d2 == RAdd(R1, RMul(a.K2, p))
          IN RMul(n, RMul(d1, d2)) = RAdd(RMul(RMul(a.n_m1, RMul(a.K1, p)), d2), RMul(RMul(a.n_m2, RMul(a.K2, p)), d1))
    [] m = "TSLangmuir" -> LET d1 == RAdd(R1, RMul(a.K1, p))  d2 == RAdd(R1, RMul(a.K2, p))  d3 == RAdd(R1, RMul(a.K3, p))
          IN RMul(n, RMul(d1, RMul(d2, d3))) =
             RAdd(RAdd(RMul(RMul(a.n_m1, RMul(a.K1, p)), RMul(d2, d3)), RMul(RMul(a.n_m2, RMul(a.K2, p)), RMul(d1, d3))),
                  RMul(RMul(a.n_m3, RMul(a.K3, p)), RMul(d1, d2)))
    [] m = "BET" -> LET u == RSub(R1, RMul(a.N, p))
          IN RMul(n, RMul(u, RAdd(u, RMul(a.C, p)))) = RMul(a.n_m, RMul(a.C, p))
    [] m = "GAB" -> LET kp == RMul(a.K, p)  u == RSub(R1, kp)
          IN RMul(n, RMul(u, RAdd(u, RMul(a.C, kp)))) = RMul(a.n_m, RMul(a.C, kp))
    [] m = "Quadratic" -> RMul(n, RAdd(R1, RAdd(RMul(a.Ka, p), RMul(a.Kb, RSq(p)))))
                          = RMul(a.n_m, RMul(p, RAdd(a.Ka, RMul(R2, RMul(a.Kb, p)))))
    [] m = "TemkinApprox" -> LET kp == RMul(a.K, p)  d == RAdd(R1, kp)
          IN RMul(n, RCube(d)) = RMul(a.n_m, RSub(RMul(kp, RSq(d)), RMul(a.tht, RSq(kp))))
    \* t, c in {1, 2}; written for the ratio n / (Henry line) to keep the integers small
    [] m = "Toth" -> LET k == a.t[1]  kp == RMul(a.K, p) IN
             IF p = R0 THEN n = R0
             ELSE RMul(RPow(RDiv(n, RMul(a.n_m, kp)), k), RAdd(R1, RPow(kp, k))) = R1
    [] m = "JensenSeaton" -> LET k == a.c[1]  kp == RMul(a.K, p) IN
             IF p = R0 THEN n = R0
             ELSE RMul(RPow(RDiv(n, kp), k), RAdd(R1, RPow(JSr(a, p), k))) = R1
    [] m = "Freundlich" -> IF a.m = R1 THEN n = RMul(a.K, p)
                           ELSE IF a.m = R2 THEN RSq(n) = RMul(RSq(a.K), p)
                           ELSE n = RMul(a.K, RSq(p))
    [] m \in {"DR", "DA"} -> (p = R0 /\ n = R0) \/ (p = R1 /\ n = a.n_m)
    [] m = "Virial" -> RMul(p, a.K) = n
    [] m \in {"FHVST", "WVST"} -> RMul(p, RMul(a.K, RSub(a.n_m, n))) = RMul(a.n_m, n)

\* Henry's law: L(p) = p * G(p) with G regular at 0; the Henry slope is G(0).
HasHenry(m) == m \notin {"Freundlich", "DR", "DA"}
G(m, a, p) ==
  CASE m = "Henry" -> a.K
    [] m = "Langmuir" -> LangG(a.n_m, a.K, p)
    [] m = "DSLangmuir" -> RAdd(LangG(a.n_m1, a.K1, p), LangG(a.n_m2, a.K2, p))
    [] m = "TSLangmuir" -> RAdd(RAdd(LangG(a.n_m1, a.K1, p), LangG(a.n_m2, a.K2, p)), LangG(a.n_m3, a.K3, p))
    [] m = "BET" -> LET u == RSub(R1, RMul(a.N, p)) IN RDiv(RMul(a.n_m, a.C), RMul(u, RAdd(u, RMul(a.C, p))))
    [] m = "GAB" -> LET kp == RMul(a.K, p)  u == RSub(R1, kp)
                    IN RDiv(RMul(a.n_m, RMul(a.C, a.K)), RMul(u, RAdd(u, RMul(a.C, kp))))
    [] m = "Quadratic" -> RDiv(RMul(a.n_m, RAdd(a.Ka, RMul(R2, RMul(a.Kb, p)))),
                               RAdd(R1, RAdd(RMul(a.Ka, p), RMul(a.Kb, RSq(p)))))
    [] m = "TemkinApprox" -> LET x == Lang(R1, a.K, p)
                             IN RMul(LangG(a.n_m, a.K, p), RAdd(R1, RMul(a.tht, RMul(x, RSub(x, R1)))))
    [] m = "Toth" -> IF a.t = R1 THEN LangG(a.n_m, a.K, p)
                     ELSE RDiv(RMul(a.n_m, a.K), RSqrt(RAdd(R1, RSq(RMul(a.K, p)))))
    [] m = "JensenSeaton" -> IF a.c = R1 THEN RDiv(a.K, RAdd(R1, JSr(a, p)))
                     ELSE RDiv(a.K, RSqrt(RAdd(R1, RSq(JSr(a, p)))))
    [] m = "Virial" -> a.K
    [] m \in {"FHVST", "WVST"} -> LangG(a.n_m, RDiv(a.K, a.n_m), p)
\* the Henry slope as a function of the parameters alone (valid for ALL parameter values)
HenryR(m, a) ==
  CASE m = "Henry" -> a.K
    [] m = "Langmuir" -> RMul(a.n_m, a.K)
    [] m = "DSLangmuir" -> RAdd(RMul(a.n_m1, a.K1), RMul(a.n_m2, a.K2))
    [] m = "TSLangmuir" -> RAdd(RAdd(RMul(a.n_m1, a.K1), RMul(a.n_m2, a.K2)), RMul(a.n_m3, a.K3))
    [] m = "BET" -> RMul(a.n_m, a.C)
    [] m = "GAB" -> RMul(a.n_m, RMul(a.C, a.K))
    [] m = "Quadratic" -> RMul(a.n_m, a.Ka)
    [] m = "TemkinApprox" -> RMul(a.n_m, a.K)
    [] m = "Toth" -> RMul(a.n_m, a.K)
    [] m \in {"JensenSeaton", "Virial", "FHVST", "WVST"} -> a.K

\* saturation capacity
HasCap(m) == m \in {"Langmuir", "DSLangmuir", "TSLangmuir", "Quadratic", "TemkinApprox", "Toth", "DR", "DA", "FHVST", "WVST"}
CapR(m, a) ==
  CASE m = "DSLangmuir" -> RAdd(a.n_m1, a.n_m2)
    [] m = "TSLangmuir" -> RAdd(RAdd(a.n_m1, a.n_m2), a.n_m3)
    [] m = "Quadratic" -> RMul(R2, a.n_m)
    [] OTHER -> a.n_m

\* parameter values for which the defining equation is monotone (property quantifier)
MonoDomain(m, a) ==
  CASE m = "Quadratic" -> ~(a.Ka[1] < 0) /\ ~(a.Kb[1] < 0)
    [] m = "TemkinApprox" -> ~(a.tht[1] < 0) /\ RLeq(a.tht, <<3, 1>>)
    [] OTHER -> TRUE
\* accuracy class of the library's inverse
InvClass(m) ==
  CASE m \in {"Henry", "Langmuir", "Freundlich", "DR", "DA", "Toth"} -> "closed"
    [] m \in {"DSLangmuir", "BET", "GAB", "Quadratic"} -> "quadratic"
    [] m \in {"TSLangmuir", "TemkinApprox", "JensenSeaton", "FHVST", "WVST"} -> "root"
    [] m = "Virial" -> "minimize"
\* descriptive (used only to classify signatures, never for a verdict): the library inverts these
\* models with the quadratic formula, whose leading coefficient vanishes for these parameters
DegenerateQuadratic(m, a) ==
  CASE m = "BET" -> a.C = a.N
    [] m = "GAB" -> a.C = R1
    [] m = "Quadratic" -> a.Kb = R0
    [] OTHER -> FALSE
\* the inverse is ill-conditioned where dL/dp = 0: TemkinApprox at theta = 3 has a stationary inflection
InvJudged(m, a) == ~(m = "TemkinApprox" /\ ~RLt(a.tht, <<3, 1>>))

---------------------------------------------------------------------------
\* The exact grid.
V6 == {Q(1, 4), Q(1, 2), Q(1, 1), Q(2, 1), Q(5, 1), Q(20, 1)}
ParamsR(m) ==
  CASE m = "Henry" -> {[K |-> k] : k \in V6}
    [] m = "Langmuir" -> {[K |-> k, n_m |-> n] : k \in V6, n \in {Q(1, 2), Q(2, 1), Q(5, 1)}}
    [] m = "DSLangmuir" -> {[n_m1 |-> n1, K1 |-> k1, n_m2 |-> n2, K2 |-> k2] :
                            n1 \in {Q(1, 2), Q(2, 1)}, k1 \in {Q(1, 4), Q(1, 1), Q(5, 1)}, n2 \in {Q(1, 1), Q(5, 1)}, k2 \in {Q(1, 2), Q(2, 1), Q(10, 1)}}
    [] m = "TSLangmuir" -> {[n_m1 |-> n1, K1 |-> k1, n_m2 |-> R1, K2 |-> k2, n_m3 |-> n3, K3 |-> k3] :
                            n1 \in {Q(1, 2), Q(2, 1)}, k1 \in {Q(1, 2), Q(2, 1)}, k2 \in {Q(1, 1), Q(3, 1)}, n3 \in {Q(1, 1), Q(2, 1)}, k3 \in {Q(1, 4), Q(5, 1)}}
    [] m = "BET" -> {[n_m |-> n, C |-> c, N |-> k] : n \in {Q(1, 2), Q(2, 1)}, c \in {Q(1, 4), Q(1, 2), Q(2, 1), Q(20, 1)}, k \in {Q(1, 4), Q(1, 2), Q(1, 1)}}
    [] m = "GAB" -> {[n_m |-> n, C |-> c, K |-> k] : n \in {Q(1, 2), Q(2, 1)}, c \in {Q(1, 4), Q(1, 1), Q(2, 1), Q(20, 1)}, k \in {Q(1, 4), Q(1, 2), Q(1, 1)}}
    [] m = "Quadratic" -> {[n_m |-> n, Ka |-> ka, Kb |-> kb] : n \in {Q(1, 2), Q(2, 1)}, ka \in {Q(1, 4), Q(1, 1), Q(5, 1)}, kb \in {R0, Q(1, 4), Q(1, 1), Q(5, 1)}}
    [] m = "TemkinApprox" -> {[n_m |-> n, K |-> k, tht |-> t] : n \in {Q(1, 2), Q(2, 1)}, k \in {Q(1, 4), Q(1, 1), Q(5, 1)}, t \in {R0, Q(1, 4), Q(1, 1), Q(2, 1), Q(3, 1)}}
    [] m = "Toth" -> {[n_m |-> n, K |-> k, t |-> t] : n \in {Q(1, 2), Q(5, 1)}, k \in {Q(1, 2), Q(1, 1), Q(2, 1)}, t \in {R1, R2}}
    [] m = "JensenSeaton" -> {[K |-> k, a |-> x, b |-> y, c |-> z] : k \in {Q(2, 1), Q(5, 1)}, x \in {Q(1, 1), Q(2, 1)}, y \in {R0, Q(1, 4)}, z \in {R1, R2}}
    [] m = "Freundlich" -> {[K |-> k, m |-> x] : k \in {Q(1, 2), Q(2, 1), Q(5, 1)}, x \in {Q(1, 2), R1, R2}}
    [] m = "DR" -> {[n_m |-> n, e |-> e] : n \in {Q(1, 2), Q(5, 1)}, e \in {Q(500, 1), Q(3000, 1)}}
    [] m = "DA" -> {[n_m |-> n, e |-> e, m |-> x] : n \in {Q(1, 2), Q(5, 1)}, e \in {Q(500, 1), Q(3000, 1)}, x \in {R1, Q(5, 2), Q(3, 1)}}
    [] m = "Virial" -> {[K |-> k, A |-> R0, B |-> R0, C |-> R0] : k \in V6}
    [] m = "FHVST" -> {[n_m |-> n, K |-> k, a1v |-> R0] : n \in {Q(1, 2), Q(5, 1)}, k \in {Q(1, 2), Q(2, 1), Q(20, 1)}}
    [] m = "WVST" -> {[n_m |-> n, K |-> k, L1v |-> R1, Lv1 |-> R1] : n \in {Q(1, 2), Q(5, 1)}, k \in {Q(1, 2), Q(2, 1), Q(20, 1)}}

\* reduced pressures x = (affinity) * p, ascending; the grid of a parameter vector is <<0>> \o x / scale
XG == <<Q(1, 10), Q(1, 2), Q(1, 1), Q(3, 1), Q(10, 1)>>
XPole == <<Q(1, 10), Q(1, 4), Q(1, 2), Q(4, 5)>>                 \* N p (BET), K p (GAB): below the pole
Triples == <<Q(5, 12), Q(8, 15), Q(3, 4), Q(4, 3), Q(15, 8), Q(12, 5)>>      \* 1 + x^2 is a perfect square
Squares == <<Q(1, 4), Q(1, 1), Q(9, 4), Q(4, 1), Q(9, 1)>>
Over(xs, s) == [i \in 1..Len(xs) |-> RDiv(xs[i], s)]
PGridPos(m, a) ==
  CASE m \in {"Henry", "Virial"} -> Over(XG, R1)
    [] m \in {"Langmuir", "TemkinApprox"} -> Over(XG, a.K)
    [] m = "DSLangmuir" -> XG
    [] m = "TSLangmuir" -> SubSeq(XG, 1, 4)
    [] m = "BET" -> Over(XPole, a.N)
    [] m = "GAB" -> Over(XPole, a.K)
    [] m = "Quadratic" -> XG
    [] m = "Toth" -> IF a.t = R1 THEN Over(XG, a.K) ELSE Over(Triples, a.K)
    [] m = "JensenSeaton" -> IF a.c = R1 THEN Over(XG, a.K)
          ELSE [i \in 1..Len(Triples) |-> LET x == Triples[i] IN      \* K p = x a (1 + b p)
                  RDiv(RMul(x, a.a), RSub(a.K, RMul(x, RMul(a.a, a.b))))]
    [] m = "Freundlich" -> IF a.m = R2 THEN Squares ELSE XG
    [] m \in {"DR", "DA"} -> <<R1>>
    [] m \in {"FHVST", "WVST"} -> Over(XG, RDiv(a.K, a.n_m))
PGridR(m, a) == <<R0>> \o PGridPos(m, a)

\* validity range of the pressure argument
Valid(m, a, p) ==
  CASE m = "BET" -> RLt(RMul(a.N, p), R1)
    [] m = "GAB" -> RLt(RMul(a.K, p), R1)
    [] m \in {"DR", "DA"} -> RLeq(p, R1)
    [] OTHER -> TRUE

\* what TLC checks of every grid row
RowOK(m, a, p) ==
  LET n == L(m, a, p) IN
  /\ Valid(m, a, p)
  /\ Defining(m, a, p, n)
  /\ ~(n[1] < 0)
  /\ (HasCap(m) => RLeq(n, CapR(m, a)))
  /\ (HasHenry(m) => n = RMul(p, G(m, a, p)))
ZeroOK(m, a) ==
  /\ L(m, a, R0) = R0
  /\ (HasHenry(m) => G(m, a, R0) = HenryR(m, a) /\ RPos(HenryR(m, a)))
StepMono(m, a, p1, p2) == MonoDomain(m, a) => RLt(p1, p2) /\ RLt(L(m, a, p1), L(m, a, p2))

---------------------------------------------------------------------------
\* The general grid for the relational contract: parameters that are NOT special.
\* Each entry: [par |-> record, xs |-> sequence of arguments] where the arguments are pressures
\* for loading-explicit models and loadings for pressure-explicit ones (inside the validity range
\* and where the inverse is well conditioned in float64).
GV == {Q(3, 10), Q(7, 5), Q(13, 2)}
GN == {Q(3, 4), Q(17, 5)}
XGen == <<Q(1, 100), Q(1, 20), Q(1, 5), Q(1, 2), Q(1, 1), Q(2, 1), Q(5, 1), Q(20, 1), Q(50, 1)>>
XGenPole == <<Q(1, 100), Q(1, 10), Q(3, 10), Q(1, 2), Q(7, 10)>>
XRel == <<Q(1, 20), Q(1, 5), Q(1, 2), Q(4, 5), Q(1, 1)>>
Cov == <<Q(1, 100), Q(1, 10), Q(3, 10), Q(1, 2), Q(7, 10), Q(9, 10)>>
ParamsG(m) ==
  CASE m = "Henry" -> {[K |-> k] : k \in GV \cup {Q(1, 50), Q(90, 1)}}
    [] m = "Langmuir" -> {[K |-> k, n_m |-> n] : k \in GV \cup {Q(1, 50), Q(90, 1)}, n \in GN}
    [] m = "DSLangmuir" -> {[n_m1 |-> n1, K1 |-> k1, n_m2 |-> n2, K2 |-> k2] : n1 \in GN, k1 \in GV, n2 \in {Q(6, 5)}, k2 \in {Q(1, 20), Q(9, 10), Q(30, 1)}}
    [] m = "TSLangmuir" -> {[n_m1 |-> n1, K1 |-> k1, n_m2 |-> Q(6, 5), K2 |-> k2, n_m3 |-> n3, K3 |-> k3] :
                            n1 \in GN, k1 \in GV, k2 \in {Q(1, 20), Q(30, 1)}, n3 \in {Q(2, 5), Q(9, 2)}, k3 \in {Q(9, 10), Q(4, 1)}}
    [] m = "BET" -> {[n_m |-> n, C |-> c, N |-> k] : n \in GN, c \in GV \cup {Q(80, 1)}, k \in {Q(1, 20), Q(2, 5), Q(1, 1)}}
    [] m = "GAB" -> {[n_m |-> n, C |-> c, K |-> k] : n \in GN, c \in GV \cup {Q(80, 1)}, k \in {Q(1, 20), Q(2, 5), Q(1, 1)}}
    [] m = "Quadratic" -> {[n_m |-> n, Ka |-> ka, Kb |-> kb] : n \in GN, ka \in GV, kb \in {Q(1, 20), Q(7, 5), Q(30, 1)}}
    [] m = "TemkinApprox" -> {[n_m |-> n, K |-> k, tht |-> t] : n \in GN, k \in GV, t \in {Q(1, 10), Q(7, 10), Q(3, 2), Q(5, 2)}}
    [] m = "Toth" -> {[n_m |-> n, K |-> k, t |-> t] : n \in GN, k \in GV, t \in {Q(3, 10), Q(3, 4), Q(3, 2)}}
    [] m = "JensenSeaton" -> {[K |-> k, a |-> x, b |-> y, c |-> z] : k \in GV, x \in {Q(1, 2), Q(3, 1)}, y \in {R0, Q(1, 5), Q(2, 1)}, z \in {Q(1, 2), Q(7, 5), Q(2, 1)}}
    [] m = "Freundlich" -> {[K |-> k, m |-> x] : k \in GV, x \in {Q(3, 10), Q(7, 5), Q(4, 1)}}
    [] m = "DR" -> {[n_m |-> n, e |-> e] : n \in GN, e \in {Q(700, 1), Q(1500, 1), Q(4000, 1)}}
    [] m = "DA" -> {[n_m |-> n, e |-> e, m |-> x] : n \in GN, e \in {Q(700, 1), Q(1500, 1), Q(4000, 1)}, x \in {R1, Q(3, 2), Q(5, 2), Q(3, 1)}}
    [] m = "Virial" -> {[K |-> k, A |-> x, B |-> y, C |-> z] : k \in GV, x \in {R0, Q(1, 10), Q(-1, 20)}, y \in {R0, Q(1, 100)}, z \in {R0, Q(1, 1000)}}
    [] m = "FHVST" -> {[n_m |-> n, K |-> k, a1v |-> x] : n \in GN, k \in GV, x \in {Q(-1, 2), Q(1, 2), Q(1, 1), Q(2, 1)}}
    [] m = "WVST" -> {[n_m |-> n, K |-> k, L1v |-> x, Lv1 |-> y] : n \in GN, k \in GV, x \in {Q(1, 2), Q(2, 1)}, y \in {Q(1, 2), Q(1, 1), Q(2, 1)}}
\* arguments: pressures (loading-explicit) / loadings (pressure-explicit)
ArgsG(m, a) ==
  CASE m = "Henry" -> Over(XGen, R1)
    [] m \in {"Langmuir", "TemkinApprox", "Toth", "JensenSeaton"} -> Over(XGen, a.K)
    [] m \in {"DSLangmuir", "TSLangmuir"} -> Over(XGen, a.K1)
    [] m = "BET" -> Over(XGenPole, a.N)
    [] m = "GAB" -> Over(XGenPole, a.K)
    [] m = "Quadratic" -> Over(XGen, a.Ka)
    [] m = "Freundlich" -> XGen
    [] m \in {"DR", "DA"} -> XRel
    [] m = "Virial" -> <<Q(1, 100), Q(1, 10), Q(1, 2), Q(1, 1), Q(2, 1), Q(5, 1)>>
    [] m \in {"FHVST", "WVST"} -> [i \in 1..Len(Cov) |-> RMul(Cov[i], a.n_m)]

\* the thorough tier interleaves the arithmetic midpoints (still ascending, still inside the range)
Fine(xs) == [i \in 1..(2 * Len(xs) - 1) |-> IF i % 2 = 1 THEN xs[(i + 1) \div 2]
                                             ELSE RDiv(RAdd(xs[i \div 2], xs[(i \div 2) + 1]), R2)]

---------------------------------------------------------------------------
\* Relational contract over observations (decimal floats <<m, e>>).
DFromRat(r) == DDiv(DFromInt(r[1]), DFromInt(r[2]))
DOnePlus(k) == DAdd(DFromInt(1), DTol(k))                 \* 1 + 10^-k
TolOf(m) == CASE InvClass(m) = "closed" -> DTol(6)        \* DecFloat carries 2e-7 per operation
              [] InvClass(m) = "quadratic" -> DTol(6)
              [] InvClass(m) = "root" -> DTol(6)
              [] InvClass(m) = "minimize" -> DTol(2)
IsZero(d) == d[1] = 0
\* A point of a loading-explicit model:  [st, x = p, y = loading(p), z = pressure(y)]
\* A point of a pressure-explicit model: [st, x = n, y = pressure(n), sm, z = loading(y), w = pressure(z)]
\* st / sm: 0 value, 1 refused with CalculationError, 2 non-finite value, 3 any other exception
Bad(c, i) == [clause |-> c, at |-> i]
SeqFilter(n, P(_)) == LET RECURSIVE go(_, _)
                          go(i, acc) == IF i > n THEN acc ELSE go(i + 1, IF P(i) THEN Append(acc, i) ELSE acc)
                      IN go(1, <<>>)

\* The same physical isotherm expressed in another pressure unit: pressures are multiplied by 10^-e10 and every
\* parameter by 10^(e10 * PressurePower): the Henry slope (loading per pressure) scales with 10^e10, loadings,
\* capacities and the clauses of the property do not change.  (Rationals stay small: the scaling is an exponent.)
DScale10(d, k) == IF d[1] = 0 THEN d ELSE <<d[1], d[2] + k>>
PressurePower(m) ==          \* exponent of 1/pressure in the dimension of each parameter (0 when absent)
  CASE m \in {"Henry", "Langmuir", "TemkinApprox", "Toth", "Virial", "FHVST", "WVST", "GAB"} -> [K |-> 1]
    [] m = "DSLangmuir" -> [K1 |-> 1, K2 |-> 1]
    [] m = "TSLangmuir" -> [K1 |-> 1, K2 |-> 1, K3 |-> 1]
    [] m = "BET" -> [C |-> 1, N |-> 1]
    [] m = "Quadratic" -> [Ka |-> 1, Kb |-> 2]
    [] m = "JensenSeaton" -> [K |-> 1, b |-> 1]
    [] OTHER -> [none |-> 0]          \* Freundlich (irrational power), DR/DA (relative pressure only): not rescaled
Rescalable(m) == m \notin {"Freundlich", "DR", "DA"}
MagnitudeExps == {-6, -3, 3, 7}

\* Whole-number arguments inside the domain of each function (integer-typed input must give what the float of
\* equal value gives): pressures for loading(), loadings for pressure(); 0 is the zero point.
Whole == <<0, 1, 2, 5, 10>>
IntPressures(m, a) == SelectSeq(Whole, LAMBDA i : Valid(m, a, <<i, 1>>))
IntLoadings(m, a) == SelectSeq(Whole, LAMBDA i :
    CASE HasCap(m) -> RLt(<<i, 1>>, CapR(m, a))
      [] m = "JensenSeaton" -> RLt(<<i, 1>>, a.a)            \* loading stays below a (1 + b p)
      [] OTHER -> TRUE)

\* concatenation of f[1] .. f[n]
Flat(f, n) == LET RECURSIVE go(_, _)
                  go(i, acc) == IF i > n THEN acc ELSE go(i + 1, acc \o f[i])
              IN go(1, <<>>)
\* consecutive judged points must not decrease
MonoBad(idx, val(_)) == LET RECURSIVE go(_, _)
                            go(j, acc) == IF j >= Len(idx) THEN acc
                                          ELSE go(j + 1, IF DLeq(val(idx[j]), val(idx[j + 1])) THEN acc
                                                         ELSE Append(acc, Bad("monotone", idx[j + 1])))
                        IN go(1, <<>>)

ObsLoadingExplicit(m, a, pts, zero, hen, e10) ==
  LET n == Len(pts)
      okv == SeqFilter(n, LAMBDA i : pts[i].st = 0)
      cap == IF HasCap(m) THEN DMul(DFromRat(CapR(m, a)), DOnePlus(6)) ELSE DZero
      value == [i \in 1..n |-> IF pts[i].st \in {0, 1} THEN <<>> ELSE <<Bad("value", i)>>]
      perpt == [i \in 1..n |-> IF pts[i].st # 0 THEN <<>> ELSE
                 (IF pts[i].y[1] < 0 THEN <<Bad("nonneg", i)>> ELSE <<>>)
                 \o (IF HasCap(m) /\ ~DLeq(pts[i].y, cap) THEN <<Bad("cap", i)>> ELSE <<>>)
                 \o (IF InvJudged(m, a) /\ ~DClose(pts[i].z, pts[i].x, TolOf(m)) THEN <<Bad("inverse", i)>> ELSE <<>>)]
      mono == IF ~MonoDomain(m, a) THEN <<>> ELSE MonoBad(okv, LAMBDA i : pts[i].y)
      zeroc == IF zero.st \notin {0, 1} THEN <<Bad("value", 0)>>
               ELSE IF zero.st = 1 THEN <<>>
               ELSE (IF IsZero(zero.y) THEN <<>> ELSE <<Bad("zero_loading", 0)>>)
                    \o (IF IsZero(zero.z) THEN <<>> ELSE <<Bad("zero_pressure", 0)>>)
      henc == IF ~HasHenry(m) \/ hen.st # 0 THEN (IF hen.st \in {0, 1} THEN <<>> ELSE <<Bad("value", -1)>>)
              ELSE IF DClose(hen.y, DMul(DScale10(DFromRat(HenryR(m, a)), e10), hen.x), DTol(4)) THEN <<>> ELSE <<Bad("henry", -1)>>
  IN [bad |-> Flat(value, n) \o Flat(perpt, n) \o mono \o zeroc \o henc, prefix |-> n]

\* pressure-explicit: the validity range is the prefix on which the closed form pressure(n) is
\* positive and strictly increasing (before its turning point)
ObsPressureExplicit(m, a, pts, zero, hen, e10) ==
  LET n == Len(pts)
      RECURSIVE pre(_)
      pre(i) == IF i > n THEN n
                ELSE IF pts[i].st # 0 \/ pts[i].y[1] <= 0 THEN i - 1
                ELSE IF i > 1 /\ ~DLt(pts[i - 1].y, pts[i].y) THEN i - 1
                ELSE pre(i + 1)
      K == pre(1)
      okv == SeqFilter(K, LAMBDA i : pts[i].sm = 0)
      cap == IF HasCap(m) THEN DMul(DFromRat(CapR(m, a)), DOnePlus(6)) ELSE DZero
      value == [i \in 1..n |-> (IF pts[i].st \in {0, 1} THEN <<>> ELSE <<Bad("value_pressure", i)>>)
                               \o (IF i > K \/ pts[i].sm \in {0, 1} THEN <<>> ELSE <<Bad("value", i)>>)]
      perpt == [i \in 1..K |-> IF pts[i].sm # 0 THEN <<>> ELSE
                 (IF pts[i].z[1] < 0 THEN <<Bad("nonneg", i)>> ELSE <<>>)
                 \o (IF HasCap(m) /\ ~DLeq(pts[i].z, cap) THEN <<Bad("cap", i)>> ELSE <<>>)
                 \o (IF ~DClose(pts[i].z, pts[i].x, TolOf(m)) THEN <<Bad("inverse", i)>> ELSE <<>>)
                 \o (IF ~DClose(pts[i].w, pts[i].y, TolOf(m)) THEN <<Bad("inverse_pressure", i)>> ELSE <<>>)]
      mono == MonoBad(okv, LAMBDA i : pts[i].z)
      \* zero: y = pressure(0), z = loading(0)
      zeroc == (IF zero.st \notin {0, 1} THEN <<Bad("value_pressure", 0)>>
                ELSE IF zero.st = 0 /\ ~IsZero(zero.y) THEN <<Bad("zero_pressure", 0)>> ELSE <<>>)
               \o (IF zero.sm \notin {0, 1} THEN <<Bad("value", 0)>>
                   ELSE IF zero.sm = 0 /\ ~IsZero(zero.z) THEN <<Bad("zero_loading", 0)>> ELSE <<>>)
      \* Henry: x tiny loading, y = pressure(x): x ~ H y ; z = loading(p_small = hen.p): z ~ H p
      H == DScale10(DFromRat(HenryR(m, a)), e10)
      henc == (IF hen.st # 0 THEN (IF hen.st = 1 THEN <<>> ELSE <<Bad("value_pressure", -1)>>)
               ELSE IF DClose(hen.x, DMul(H, hen.y), DTol(4)) THEN <<>> ELSE <<Bad("henry_pressure", -1)>>)
              \o (IF hen.sm # 0 THEN (IF hen.sm = 1 THEN <<>> ELSE <<Bad("value", -1)>>)
                  ELSE IF DClose(hen.z, DMul(H, hen.p), DTol(4)) THEN <<>> ELSE <<Bad("henry", -1)>>)
  IN [bad |-> Flat(value, n) \o Flat(perpt, K) \o mono \o zeroc \o henc, prefix |-> K]
---------------------------------------------------------------------------
\* History on ONE model object.  The clauses of the property speak about "that same isotherm", i.e.
\* the parameters the object holds NOW: whatever was evaluated before, and whatever other instance of
\* the class was used in between, a call must give what a freshly built model with the current
\* parameters gives (no hidden state: memo tables keyed without the parameters, class-level caches).
\* A plan: evaluate A; evaluate another instance B of the class; evaluate A again; overwrite A's
\* parameters in place one at a time with B's (evaluating after each); re-fit A in place; evaluate.
\* `cur` = the parameters the evaluated object must be judged with (computed here, not observed).
RECURSIVE SeqOfSet(_)
SeqOfSet(S) == IF S = {} THEN <<>> ELSE LET x == CHOOSE y \in S : TRUE IN <<x>> \o SeqOfSet(S \ {x})
Varies(m, q) == \E x, y \in ParamsG(m) : x[q] # y[q]
HistPairs(m) == {ab \in ParamsG(m) \X ParamsG(m) : \A q \in DOMAIN ab[1] : Varies(m, q) => ab[1][q] # ab[2][q]}
HistPlan(a, b) ==
  LET order == SeqOfSet(DOMAIN a)
      mix(i) == [q \in DOMAIN a |-> IF \E j \in 1..i : order[j] = q THEN b[q] ELSE a[q]]
  IN <<[op |-> "eval", who |-> "A", param |-> "", cur |-> a],
       [op |-> "eval", who |-> "B", param |-> "", cur |-> b],
       [op |-> "eval", who |-> "A", param |-> "", cur |-> a]>>
     \o [i \in 1..Len(order) |-> [op |-> "set", who |-> "A", param |-> order[i], cur |-> mix(i)]]
     \o <<[op |-> "refit", who |-> "A", param |-> "", cur |-> a]>>       \* cur after a re-fit is observed (the object's own params)
\* an observation pair: <<status, value>> of the object with a history and of a fresh model, same call, same argument
SameOutcome(x, y) == x[1] = y[1] /\ (x[1] = 0 => (x[2] = y[2] \/ DClose(x[2], y[2], DTol(6))))
\* q.evals: sequence of [step, fn, form, pairs = << <<hist outcome, fresh outcome>> >>]
HistStep(q) ==
  [bad |-> UNION {{[step |-> q.evals[i].step, fn |-> q.evals[i].fn, form |-> q.evals[i].form, at |-> j]
                    : j \in {jj \in 1..Len(q.evals[i].pairs) : ~SameOutcome(q.evals[i].pairs[jj][1], q.evals[i].pairs[jj][2])}}
                  : i \in 1..Len(q.evals)}]
---------------------------------------------------------------------------
\* Elementwise clause ("for scalars and arrays alike"): a call with an array argument is the scalar
\* call applied position by position, whatever the ORDER of the elements and with repeated elements.
\* A pattern lists, for 6 array positions, which of 5 distinct arguments stands there: the first five
\* positions are a permutation that is not its own inverse (so neither sorted, reversed nor a product of
\* swaps - a result put back with the wrong permutation cannot coincide), the sixth repeats one of them.
ElemPatterns == {s \in [1..6 -> 1..5] : (\A i, j \in 1..5 : i # j => s[i] # s[j]) /\ (\E i \in 1..5 : s[s[i]] # i)}
ElemArgs(m, a) == LET xs == ArgsG(m, a) IN
   IF Len(xs) >= 9 THEN <<xs[1], xs[3], xs[5], xs[7], xs[9]>> ELSE SubSeq(xs, 1, 5)
Near(x, y, tol) == x = y \/ DClose(x, y, tol)
\* q.arr[i], q.ref[i]: <<status, value>> of position i of the array call and of the reference (the scalar
\* call on that element; for the ModelIsotherm wrapper the bare model on the same array).  Answer per position:
\*   ok | skip (a reported failure is not judged) | misplaced (the value another position should hold)
\*   | wrong (no reference value at all) | novalue (the array call raised where the reference returns)
ElemStep(q) ==
  LET tol == IF q.model \in AllModels THEN TolOf(q.model) ELSE DTol(6)
      n == Len(q.arr)
      Cls(i) == LET x == q.arr[i]  y == q.ref[i] IN
         IF x[1] = 1 \/ y[1] = 1 THEN "skip"
         ELSE IF x[1] # 0 \/ y[1] # 0 THEN (IF x[1] = y[1] THEN "ok" ELSE IF x[1] = 3 THEN "novalue" ELSE "wrong")
         ELSE IF Near(x[2], y[2], tol) THEN "ok"
         ELSE IF \E k \in 1..n : q.ref[k][1] = 0 /\ Near(x[2], q.ref[k][2], tol) THEN "misplaced"
         ELSE "wrong"
  IN [cls |-> [i \in 1..n |-> Cls(i)]]
=============================================================================
