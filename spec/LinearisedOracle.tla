-------------------------- MODULE LinearisedOracle --------------------------
(***************************************************************************)
(* Batch oracle for the exact-recovery half of C14.                        *)
(*  "space": the enumerated generating parameters and sampling grids.      *)
(*  "gen":   data points of the governing equation and expected outputs,   *)
(*           exact (rational factor lists), for one parameter vector.      *)
(*  "judge": observations returned by the real code (DecFloat) against the *)
(*           expected outputs; answers ok / the set of failing outputs.    *)
(*           obs = << <<name, value, abs_scale, k>>, ... >>: an output       *)
(*           passes when |value - expected| <= 10^-k * (max(|value|,       *)
(*           |expected|) + abs_scale)  (abs_scale > 0 only where the       *)
(*           expectation is 0; k = 5, or 3 for a searched DA exponent).    *)
(***************************************************************************)
EXTENDS Linearised, Json, IOUtils

Q == JsonDeserialize(IOEnv.X_IN)

Expect(q) ==
  CASE q.m = "bet"  -> BetExpect(q.nm, q.c, q.sigma)
    [] q.m = "lang" -> LangExpect(q.nm, q.kk, q.sigma)
    [] q.m = "tp"   -> TpExpect(q.s, q.i, q.mm, q.rho)
    [] q.m = "as"   -> AsExpect(q.s, q.i, q.aref, q.apt, q.mm, q.rho)
    [] q.m = "da"   -> DaExpect(q.vt, q.eps, q.ex, q.mm, q.rho)
    [] q.m = "self" -> SelfExpect(q.nm, q.c, q.sigma, q.pr)
    [] q.m = "asiso" -> AsIsoExpect(q.s, q.i, q.c, q.sigma, q.pr, q.mm, q.rho)
    [] q.m = "asisoL" -> AsIsoLangExpect(q.s, q.i, q.kk, q.sigma, q.pr, q.mm, q.rho)
Points(q) ==
  CASE q.m = "bet"  -> [j \in 1..Len(q.ps) |-> BetPoint(q.nm, q.c, q.ps[j])]
    [] q.m = "lang" -> [j \in 1..Len(q.ps) |-> LangPoint(q.nm, q.kk, q.ps[j])]
    [] q.m = "tp"   -> [j \in 1..Len(q.ps) |-> <<LinPoint(q.s, q.i, q.ps[j])>>]
    [] q.m = "as"   -> [j \in 1..Len(q.ps) |-> <<LinPoint(q.s, q.i, RDiv(q.ps[j], q.apt))>>]
    [] q.m = "da"   -> <<>>
    [] q.m = "self" -> [j \in 1..Len(q.ps) |-> BetPoint(q.nm, q.c, q.ps[j])]
    [] q.m = "asiso" -> [j \in 1..Len(q.ps) |-> <<q.s, BetX(q.c, q.ps[j]), RInv(BetX(q.c, q.pr))>>]    \* + q.i (added by the harness)
    [] q.m = "asisoL" -> [j \in 1..Len(q.ps) |-> <<q.s, LangX(q.kk, q.ps[j]), RInv(LangX(q.kk, q.pr))>>]  \* + q.i

ExpectDec(q, name) ==
  LET e == Expect(q)
  IN IF name = "area" /\ q.m \in {"bet", "lang", "self", "asiso", "asisoL"} THEN DMul(DOfFactors(e["area_over_NA18"]), NA18)
     ELSE DOfFactors(e[name])
ObsOk(q, o) == LET x == ExpectDec(q, o[1]) IN DCloseAbs(o[2], x, DTol(o[4]), DMul(DTol(o[4]), o[3]))

\* ---- the enumerated scenario space of the quantifier
NMs == {R(1, 10000), R(1, 1000), R(3, 250), R(1, 10)}               \* 1e-4 .. 1e-1 mol/g
Cs == {4, 9, 49, 100, 400, 1600, 1936, 2000}                           \* 2 .. 2000 (perfect squares except the last)
Ks == {R(1, 2), R(3, 1), R(25, 1), R(500, 1)}                          \* 0.5 .. 500
Sigmas == {R(81, 500), R(71, 500), R(1, 5)}                            \* N2 0.162, Ar 0.142, 0.2 nm2
Slopes == {R(1, 2), R(7, 3), R(40, 1)}   Icepts == {RInt(0), R(5, 4), R(12, 1)}
Vts == {R(1, 10), R(9, 20), R(6, 5)}   Epss == {R(3000, 1), R(8000, 1), R(20000, 1)}
Exps == {RInt(1), R(6, 5), R(3, 2), RInt(2), R(5, 2), RInt(3)}
Uniform(n, a, step, den) == [j \in 1..n |-> R(a + (j - 1) * step, den)]
GridFams == {Uniform(5, 5, 5, 100), Uniform(8, 5, 4, 100), Uniform(20, 2, 4, 100), Uniform(95, 1, 1, 100),
             Uniform(99, 1, 1, 100), Uniform(66, 3, 3, 200),          \* dense up to 0.99: Rouquerol steps of a few 1e-6 for high C
             Uniform(100, 1, 1, 200), Uniform(12, 1, 2, 40), [j \in 1..18 |-> R((j + 1) * (j + 1), 400)]}

Step(q) ==
  CASE q.k = "gen" -> [ok |-> TRUE, points |-> Points(q), expect |-> Expect(q), bad |-> {}]
    [] q.k = "judge" -> LET B0 == {q.obs[j][1] : j \in {jj \in 1..Len(q.obs) : ~ObsOk(q, q.obs[jj])}}
                            \* q.win: the automatic (Rouquerol) window the call reported, <<-1, -1>> when not applicable
                            B == B0 \cup (IF q.win[1] >= 0 /\ <<q.win[1], q.win[2]>> \notin RoqWindows(q.ps) THEN {"rouquerol_window"} ELSE {})
                        IN [ok |-> B = {}, points |-> <<>>, expect |-> Expect(q), bad |-> B]
    [] q.k = "space" -> [ok |-> TRUE, points |-> <<>>, bad |-> {},
                         expect |-> [nm |-> NMs, c |-> Cs, kk |-> Ks, sigma |-> Sigmas, s |-> Slopes, i |-> Icepts,
                                     vt |-> Vts, eps |-> Epss, ex |-> Exps, grids |-> GridFams]]

ASSUME JsonSerialize(IOEnv.X_OUT, [i \in 1..Len(Q) |-> Step(Q[i])])
VARIABLE x
Init == x = 0
Next == x' = x
=============================================================================
