----------------------------- MODULE IdentityMC -----------------------------
(***************************************************************************)
(* One live isotherm as a state machine: its content is edited (Mutate),   *)
(* it is rebuilt from the same content by another route (Reroute), and     *)
(* read-only calls fill its caches (Read).  The identifier the PROPERTY    *)
(* prescribes is SpecId = Canon(content); the identifier of the current    *)
(* implementation is modelled as ImplId = <<Canon(content), ImplHidden>>   *)
(* (row labels / dtypes / number types left behind by the route).          *)
(*                                                                         *)
(* TLC explores every history of up to MaxEdits edits with any number of   *)
(* reroutes and reads, for each base content, and checks                   *)
(*  - the content model is well formed on every reachable content (numbers *)
(*    normalised, never on a rounding tie; the current route applicable),  *)
(*  - SpecId is path independent: undoing an edit restores it, sub-        *)
(*    threshold edits never change it, effective edits always do,          *)
(*  - reads and reroutes never change SpecId,                              *)
(*  - ImplId is at least SENSITIVE (every effective edit changes it) and   *)
(*    stable under reads.                                                  *)
(* Where ImplId leaves SpecId - reroutes that change ImplId - is listed as *)
(* DESIGN-DIVERGENCE (these are the defect classes the conformance run     *)
(* must find on the unpatched hashgen, and nothing else).                  *)
(***************************************************************************)
EXTENDS Identity

CONSTANTS MaxEdits, MCBases      \* MCBases: the base contents explored (all of them in the thorough configuration)
VARIABLES base, c, r, cache, edits, prev
vars == <<base, c, r, cache, edits, prev>>

SpecId(cc) == Canon(cc)
ImplId(cc, rr) == <<Canon(cc), ImplHidden(cc, rr)>>

\* a reduced edit alphabet (one representative per kind and position) keeps the graph small
EditsOf(cc) == {m \in MutsOf(cc) : m.kind # "none" /\ (m.kind = "datum" => m.i = 1 /\ m.a \in {"p", "enth"})
                                   /\ (m.kind \in {"meta value", "meta key removed"} => m.a = "run")
                                   /\ (m.kind = "label" => m.i \in {1, 4})
                                   /\ (m.kind = "model parameter" => m.a \in {"K", "K1"})
                                   /\ (m.kind = "model range" => m.a = "prange" /\ m.i = 1)
                                   /\ m.kind \notin {"material name", "meta key added", "row removed", "rows swapped"}}

Init == /\ base \in (BaseNames \cap MCBases) /\ c = Bases[base] /\ r = R0(Bases[base])
        /\ cache = "empty" /\ edits = 0 /\ prev = [kind |-> "init"]

Mutate(m) == /\ edits < MaxEdits
             /\ LET c2 == Apply(c, m) IN
                /\ c' = c2
                /\ r' = IF r \in RoutesOf(c2) THEN r ELSE R0(c2)     \* e.g. integer literals no longer possible
                /\ prev' = [kind |-> "mutate", effective |-> Effective(c, m), spec_same |-> SpecId(c2) = SpecId(c),
                            impl_same |-> ImplId(c2, r') = ImplId(c, r), route_kept |-> r' = r]
             /\ edits' = edits + 1 /\ cache' = "empty" /\ UNCHANGED base
\* reroutes explored here: the routes that differ from the default route in at most one factor
\* (the combined routes of RoutesOf are exercised by the conformance run, not by this graph)
MCRoutes(cc) == {rr \in RoutesOf(cc) : Cardinality({f \in DOMAIN rr : rr[f] # R0(cc)[f]}) <= 1}
Reroute(r2) == /\ r2 \in MCRoutes(c) /\ r2 # r
               /\ r' = r2 /\ cache' = "empty"
               /\ prev' = [kind |-> "reroute", spec_same |-> TRUE, impl_same |-> ImplId(c, r2) = ImplId(c, r)]
               /\ UNCHANGED <<base, c, edits>>
Read == /\ cache = "empty" /\ cache' = "filled"
        /\ prev' = [kind |-> "read", spec_same |-> TRUE, impl_same |-> TRUE]
        /\ UNCHANGED <<base, c, r, edits>>
Next == \/ \E m \in EditsOf(c) : Mutate(m)
        \/ \E r2 \in MCRoutes(c) : Reroute(r2)
        \/ Read
Spec == Init /\ [][Next]_vars

FxOK(v) == v[2] > -50 /\ v[2] < 50
InvWellFormed == /\ \A i \in DOMAIN c.rows : FxOK(c.rows[i].p) /\ FxOK(c.rows[i].l) /\ FxOK(c.rows[i].enth)
                 /\ r \in RoutesOf(c)
                 /\ c.cls = Bases[base].cls
InvEffective == prev.kind = "mutate" => (prev.effective <=> ~prev.spec_same)
InvImplSensitive == prev.kind = "mutate" /\ prev.effective /\ prev.route_kept => ~prev.impl_same
InvReadStable == prev.kind = "read" => prev.spec_same /\ prev.impl_same
\* path independence: a content reached again by any history has the identifier it had
InvPathIndependent == ContentEq(c, Bases[base]) => SpecId(c) = SpecId(Bases[base])
\* undoing the last numeric edit is possible and restores the identifier
InvUndo == \A m \in EditsOf(c) : m.kind = "datum" =>
              LET back == [m EXCEPT !.d = <<-m.d[1], -m.d[2]>>] IN SpecId(Apply(Apply(c, m), back)) = SpecId(c)

\* DESIGN-DIVERGENCE: hidden components by which two routes of one (base) content differ
HiddenKeys == {"num", "index", "branch"}
DivOf(b) == {{k \in HiddenKeys : ImplHidden(Bases[b], r1)[k] # ImplHidden(Bases[b], r2)[k]} :
                r1 \in RoutesOf(Bases[b]), r2 \in RoutesOf(Bases[b])} \ {{}}
ASSUME PrintT(<<"DESIGN-DIVERGENCE", [b \in BaseNames |-> DivOf(b)]>>)
=============================================================================
