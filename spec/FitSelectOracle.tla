-------------------------- MODULE FitSelectOracle --------------------------
(***************************************************************************)
(* Scenario table and step oracle for the discrete part of C12.            *)
(*  {k: "table"}                       -> the patterns / layouts TLC       *)
(*                                        enumerates (scenarios to replay) *)
(*  {k: "sel", pat: [..], got: r}      -> is returning candidate r (0 =    *)
(*                                        CalculationError) allowed?       *)
(*  {k: "branch", layout: [..], req, route, handed: [[..],..], refused}    *)
(*                                     -> did every fit see exactly the    *)
(*                                        requested branch, in order?      *)
(***************************************************************************)
EXTENDS FitSelect, Json, IOUtils, SequencesExt

Q == JsonDeserialize(IOEnv.X_IN)

MaxCand == 4
MaxPts == 5
Outcomes == {FAIL, NAN, 1, 2, 3}
Layouts == UNION {[1..k -> {0, 1}] : k \in 1..MaxPts}
Patterns == UNION {[1..k -> Outcomes] : k \in 1..MaxCand}

Sel(q) ==
   LET pat == q.pat
       ok == q.got \in Allowed(pat)
   IN [ok |-> ok,
       clause |-> IF ok THEN "" ELSE IF q.got = CalcError THEN "CalculationError although a candidate converged"
                  ELSE IF q.got \notin Converged(pat) THEN "returned a candidate that did not converge (or none converged)"
                  ELSE "returned candidate does not have the smallest reported error among the converged",
       allowed |-> Allowed(pat),
       strict |-> q.got \in SpecStrict(pat),
       impl |-> ImplSelect(pat)]

Branch(q) ==
   LET exp == SpecBranch(q.layout, q.req, q.route)
       must == MustRefuse(q.layout, q.req, q.route)
       bad == {k \in 1..Len(q.handed) : q.handed[k] # exp}
       ok == IF must THEN q.refused /\ Len(q.handed) = 0
             ELSE ~q.refused /\ bad = {} /\ Len(q.handed) >= 1
   IN [ok |-> ok,
       clause |-> IF ok THEN "" ELSE IF must /\ ~q.refused THEN "empty requested branch was fitted instead of refused"
                  ELSE IF ~must /\ q.refused THEN "non-empty requested branch was refused"
                  ELSE IF bad # {} THEN "a fit was handed points other than the requested branch in stored order"
                  ELSE "no fit was attempted",
       expected |-> exp,
       impl |-> ImplBranch(q.layout, q.req, q.route)]

Step(q) ==
  CASE q.k = "sel" -> Sel(q)
    [] q.k = "branch" -> Branch(q)
    [] q.k = "labels" -> LET c == TemplateLabels(q.req, q.branch, q.units_template, q.units_result, q.meta_template, q.meta_result)
                         IN [ok |-> c = "", clause |-> c]
    [] q.k = "table" -> [ok |-> TRUE, clause |-> "", patterns |-> SetToSeq(Patterns), layouts |-> SetToSeq(Layouts)]

ASSUME JsonSerialize(IOEnv.X_OUT, [i \in 1..Len(Q) |-> Step(Q[i])])
VARIABLE x
Init == x = 0
Next == x' = x
=============================================================================
