SPECIFICATION SpecSys
CONSTANTS
  Files = {"d1"}
  MaxDepth = 1000
  WithIPT = FALSE
  HistLen = 0
  Ads <- MCAds
  Mats <- MCMats
  APT <- MCAPT
  MPT <- MCMPT
  ITY <- MCITY
  IPT <- MCIPT
  Isos <- MCIsos
  AdsVer <- MCAdsVer
  MatVer <- MCMatVer
  TyVer <- MCTyVer
  AdsUses <- MCAdsUses
  MatUses <- MCMatUses
  IsoMat <- MCIsoMat
  IsoAds <- MCIsoAds
  IsoTy <- MCIsoTy
  IsoMatVer <- MCIsoMatVer
  IsoAdsVer <- MCIsoAdsVer
  IsoTemp <- MCIsoTemp
  IsoClass <- MCIsoClass
  Traits <- MCTraits
INVARIANT DictionaryModel
INVARIANT Integrity
INVARIANT StepLaws
INVARIANT RetrieveThenDelete
PROPERTY Independence
CHECK_DEADLOCK FALSE
