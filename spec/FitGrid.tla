------------------------------ MODULE FitGrid ------------------------------
(***************************************************************************)
(* C12: the scenario space of the numeric tier, enumerated by TLC.         *)
(* Models with a well-posed fit (property quantifier) x generating         *)
(* parameters inside the default bounds x sampling grids of 8 / 20 / 60    *)
(* equidistant pressures.  Numbers are exact rationals <<num, den>>.       *)
(***************************************************************************)
EXTENDS Integers, Sequences, FiniteSets, SequencesExt

WellPosed == <<"Henry", "Langmuir", "DSLangmuir", "BET", "Freundlich", "DR", "DA", "TemkinApprox", "Toth", "JensenSeaton">>
Sizes == <<8, 20, 60>>

RQ(n, d) == <<n, d>>
V6 == {RQ(1,4), RQ(1,2), RQ(1,1), RQ(2,1), RQ(5,1), RQ(20,1)}

\* generating parameters per model: name -> set of values
Vals(model) ==
  CASE model = "Henry"        -> [K |-> V6]
    [] model = "Langmuir"     -> [K |-> V6, n_m |-> {RQ(1,2), RQ(2,1), RQ(5,1)}]
    [] model = "DSLangmuir"   -> [n_m1 |-> {RQ(1,1), RQ(5,1)}, K1 |-> {RQ(1,4), RQ(1,2), RQ(2,1)}, n_m2 |-> {RQ(2,1)}, K2 |-> {RQ(5,1), RQ(20,1)}]
    [] model = "BET"          -> [n_m |-> {RQ(1,2), RQ(5,1)}, C |-> {RQ(5,1), RQ(20,1), RQ(100,1)}, N |-> {RQ(1,4), RQ(1,2), RQ(9,10)}]
    [] model = "Freundlich"   -> [K |-> {RQ(1,4), RQ(1,1), RQ(2,1), RQ(5,1)}, m |-> {RQ(1,1), RQ(2,1), RQ(5,1)}]
    [] model = "DR"           -> [n_m |-> {RQ(1,2), RQ(2,1), RQ(5,1)}, e |-> {RQ(500,1), RQ(1000,1), RQ(3000,1)}]
    [] model = "DA"           -> [n_m |-> {RQ(1,2), RQ(5,1)}, e |-> {RQ(500,1), RQ(1000,1), RQ(3000,1)}, m |-> {RQ(5,4), RQ(3,2), RQ(2,1), RQ(5,2)}]
    [] model = "TemkinApprox" -> [n_m |-> {RQ(1,2), RQ(5,1)}, K |-> {RQ(1,4), RQ(1,2), RQ(2,1), RQ(5,1)}, tht |-> {RQ(1,4), RQ(1,2)}]
    [] model = "Toth"         -> [n_m |-> {RQ(1,2), RQ(5,1)}, K |-> {RQ(1,4), RQ(1,2), RQ(2,1), RQ(5,1)}, t |-> {RQ(1,2), RQ(1,1), RQ(2,1)}]
    [] model = "JensenSeaton" -> [K |-> {RQ(2,1), RQ(5,1), RQ(20,1)}, a |-> {RQ(1,1), RQ(5,1)}, b |-> {RQ(1,4), RQ(1,20)}, c |-> {RQ(1,2), RQ(1,1), RQ(2,1)}]

\* pressure window of the sampling grid: below the BET pole, relative pressures for DR / DA
Window(model) ==
  CASE model = "BET" -> <<RQ(1,50), RQ(3,5)>>
    [] model \in {"DR", "DA"} -> <<RQ(1,50), RQ(9,10)>>
    [] OTHER -> <<RQ(1,10), RQ(10,1)>>

\* every parameter vector: the functions choosing one value per name
AllVals(v) == UNION {v[k] : k \in DOMAIN v}
Vectors(model) == LET v == Vals(model) IN {f \in [DOMAIN v -> AllVals(v)] : \A k \in DOMAIN v : f[k] \in v[k]}

Table == [i \in 1..Len(WellPosed) |->
            [model |-> WellPosed[i], window |-> Window(WellPosed[i]), sizes |-> Sizes,
             vectors |-> SetToSeq(Vectors(WellPosed[i]))]]
NVectors == [i \in 1..Len(WellPosed) |-> Cardinality(Vectors(WellPosed[i]))]
=============================================================================
