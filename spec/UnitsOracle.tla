---------------------------- MODULE UnitsOracle ----------------------------
(***************************************************************************)
(* Step oracle for C01 (and reused by C02/C03/C15 drivers): for every      *)
(* recorded call of c_pressure / c_loading / c_material / c_temperature    *)
(* the specification answers with the set of outcomes it allows and with   *)
(* what the implementation-shaped model predicts.                          *)
(* record: [k |-> "P"|"L"|"M"|"T", f |-> <<b,u>>, t |-> <<b,u>>, m |-> <<b,u>>] *)
(***************************************************************************)
EXTENDS Units, Json, IOUtils

Q == JsonDeserialize(IOEnv.X_IN)

Enc(o) == IF o[1] = "val" THEN [kind |-> "val", vec |-> Sparse(o[2]), what |-> ""]
          ELSE IF o[1] = "PE" THEN [kind |-> "PE", vec |-> Sparse(Zero), what |-> ""]
          ELSE [kind |-> "other", vec |-> Sparse(Zero), what |-> o[2]]
EncT(o) == IF o[1] = "val" THEN [kind |-> "val", k |-> o[2]] ELSE [kind |-> "PE", k |-> 0]

Step(q) ==
  CASE q.k = "P" -> [allowed |-> {Enc(o) : o \in SpecPressure(q.f, q.t)}, impl |-> Enc(ImplPressure(q.f, q.t))]
    [] q.k = "L" -> [allowed |-> {Enc(o) : o \in SpecLoading(q.f, q.t, q.m)}, impl |-> Enc(ImplLoading(q.f, q.t, q.m))]
    [] q.k = "M" -> [allowed |-> {Enc(o) : o \in SpecMaterial(q.f, q.t)}, impl |-> Enc(ImplMaterial(q.f, q.t))]
    [] q.k = "T" -> [allowed |-> {EncT(o) : o \in SpecTemperature(q.f[2], q.t[2])}, impl |-> [kind |-> "na", vec |-> Sparse(Zero), what |-> ""]]
    [] q.k = "reps" -> [allowed |-> {}, impl |-> [kind |-> "reps", P |-> PReps, L |-> LReps, M |-> MReps, atoms |-> Atoms]]

ASSUME JsonSerialize(IOEnv.X_OUT, [i \in 1..Len(Q) |-> Step(Q[i])])
VARIABLE x
Init == x = 0
Next == x' = x
=============================================================================
