------------------------------- MODULE Store -------------------------------
(***************************************************************************)
(* The pyGAPS SQLite store (src/pygaps/parsing/sqlite.py) as a keyed       *)
(* collection.                                                             *)
(*                                                                         *)
(*   Spec*  - prescriptive (property C08): every database FILE is a plain  *)
(*            dictionary per kind of item; every public operation has a    *)
(*            precondition over the TARGET FILE ONLY; if it holds the      *)
(*            effect is the dictionary update, otherwise the call is       *)
(*            refused (ParsingError) and nothing changes.  Foreign keys    *)
(*            are preconditions.  Where the property is silent the set of  *)
(*            allowed results has more than one element.                   *)
(*   Impl*  - descriptive: what sqlite.py does, including the state the    *)
(*            property says must be invisible (the session registries      *)
(*            pygaps.MATERIAL_LIST / ADSORBATE_LIST as bags) and the       *)
(*            deviations already seen.  Never the source of a verdict.     *)
(*                                                                         *)
(* Abstraction.  A file is a record                                        *)
(*    [ads, mats : name -> content token, apt, mpt, ity, ipt : type name   *)
(*     -> token, isos : isotherm key -> token, rest : token]               *)
(* Absent = "-".  Content tokens name concrete objects of the harness      *)
(* (harness/store_common.py): e.g. adsorbate content "a2" is a particular  *)
(* property dictionary that uses the adsorbate property types AdsUses[a2]. *)
(* `rest` digests every row that does not belong to a tracked key (the 176 *)
(* adsorbates db_create loads, their 2176 property rows, ...): no          *)
(* operation of the alphabet may change it.                                *)
(* An isotherm key stands for one immutable isotherm object (its id is a   *)
(* content hash, there is no overwrite): IsoMat/IsoAds/IsoTy are the rows  *)
(* it references, IsoMatVer/IsoAdsVer the content of the Material /        *)
(* Adsorbate object it carries (used when the upload auto-inserts them).   *)
(***************************************************************************)
EXTENDS Naturals, Sequences, FiniteSets, TLC, TLCExt

CONSTANTS Files, Ads, Mats, APT, MPT, ITY, IPT, Isos,   \* key universes (IPT: isotherm property types)
          AdsVer, MatVer, TyVer,                   \* content tokens
          AdsUses, MatUses,                        \* [AdsVer -> SUBSET APT], [MatVer -> SUBSET MPT]
          IsoMat, IsoAds, IsoTy,                   \* [Isos -> Mats], [Isos -> Ads], [Isos -> ITY]
          IsoMatVer, IsoAdsVer,                    \* [Isos -> MatVer], [Isos -> AdsVer]
          IsoTemp,                                 \* [Isos -> token of the number in the temperature column]
          IsoClass,                                \* [Isos -> {"plain","coerce","none","list"}]
          Traits                                   \* which known deviations the tree under test shows (Impl only)

Absent == "-"
Auto   == "auto"       \* a property type row created by auto-insert (unit, description NULL)
Here   == "v"          \* an isotherm stored with exactly its content

\* value classes of isotherm metadata: "plain" floats / text / bools; "coerce" ints and
\* numeric-looking text (storable, REAL affinity); "none" a None value, "list" a list value
\* (not storable in a REAL NOT NULL column: the property does not quantify over them)
Storable(i) == IsoClass[i] \in {"plain", "coerce"}

\* uses of a content token that may be unknown (a projection of a damaged file)
UsesA(tok) == IF tok \in DOMAIN AdsUses THEN AdsUses[tok] ELSE {}
UsesM(tok) == IF tok \in DOMAIN MatUses THEN MatUses[tok] ELSE {}

AutoTypes(tymap, needed) ==
  [t \in DOMAIN tymap |-> IF t \in needed /\ tymap[t] = Absent THEN Auto ELSE tymap[t]]

R(out, f) == [out |-> out, f |-> f]

---------------------------------------------------------------------------
(* Referential integrity of one file = what the schema's FOREIGN KEYs say. *)
RefInt(f) ==
  /\ \A i \in Isos : f.isos[i] # Absent =>
        /\ f.mats[IsoMat[i]] # Absent
        /\ f.ads[IsoAds[i]] # Absent
        /\ f.ity[IsoTy[i]] # Absent
  /\ \A a \in Ads : \A t \in UsesA(f.ads[a]) : f.apt[t] # Absent
  /\ \A m \in Mats : \A t \in UsesM(f.mats[m]) : f.mpt[t] # Absent

AdsReferenced(f, k) == \E i \in Isos : f.isos[i] # Absent /\ IsoAds[i] = k
MatReferenced(f, k) == \E i \in Isos : f.isos[i] # Absent /\ IsoMat[i] = k
ItyReferenced(f, k) == \E i \in Isos : f.isos[i] # Absent /\ IsoTy[i] = k
AptReferenced(f, t) == \E a \in Ads : t \in UsesA(f.ads[a])
MptReferenced(f, t) == \E m \in Mats : t \in UsesM(f.mats[m])

---------------------------------------------------------------------------
(*                    Spec: the dictionary model                           *)
(* An operation is a record                                                *)
(*   [op, d, k, v, ow, ai, am, aa, by, cm, ca, ct, cy]                     *)
(* op in ads_to mat_to apt_to mpt_to ity_to iso_to ads_del mat_del apt_del *)
(*       mpt_del ity_del iso_del ads_from mats_from apt_from mpt_from      *)
(*       ity_from iso_from, and "session" (the Python process ends and a   *)
(*       new one opens the same files: no effect on any file);             *)
(*       d target file; k key; v content token;                            *)
(* ow overwrite; ai autoinsert_properties; am/aa autoinsert_material /     *)
(* _adsorbate; by = how the argument of a delete is given ("name", "obj",  *)
(* "retrieved": through the object *_from_db returned); cm, ca, ct, cy =   *)
(* criteria of isotherms_from_db on the columns material, adsorbate,       *)
(* temperature, iso_type ("*" = no criterion; any other value must be      *)
(* matched, whether it is falsy - temperature 0 - or matches nothing).     *)
(***************************************************************************)

\* adsorbate_to_db / material_to_db
SpecItemTo(f, fld, tyfld, needed, o) ==
  LET cur == f[fld][o.k]
      typesOK == o.ai \/ \A t \in needed : f[tyfld][t] # Absent
      put == [f EXCEPT ![fld][o.k] = o.v]
      done == IF o.ai THEN [put EXCEPT ![tyfld] = AutoTypes(f[tyfld], needed)] ELSE put
  IN IF ~typesOK THEN {R("refused", f)}                        \* unknown reference
     ELSE IF ~o.ow THEN (IF cur = Absent THEN {R("ok", done)}
                         ELSE {R("refused", f)})               \* duplicate
     ELSE IF cur # Absent THEN {R("ok", done)}                 \* overwrite
     \* overwriting a key that is absent: the property is silent - refusal or upsert;
     \* but never "success" without the item being stored
     ELSE {R("refused", f), R("ok", done)}

\* *_type_to_db
SpecTyTo(f, fld, o) ==
  LET cur == f[fld][o.k]
      done == [f EXCEPT ![fld][o.k] = o.v]
  IN IF ~o.ow THEN (IF cur = Absent THEN {R("ok", done)} ELSE {R("refused", f)})
     ELSE IF cur # Absent THEN {R("ok", done)}
     ELSE {R("refused", f), R("ok", done)}

\* isotherm_to_db: PRESENCE IN THE TARGET FILE decides about auto-insert
SpecIsoTo(f, o) ==
  LET i == o.k   m == IsoMat[i]   a == IsoAds[i]
      matOK == f.mats[m] # Absent \/ o.am
      adsOK == f.ads[a] # Absent \/ o.aa
      tyOK  == f.ity[IsoTy[i]] # Absent
      f1 == IF f.mats[m] = Absent
            THEN [f EXCEPT !.mats[m] = IsoMatVer[i], !.mpt = AutoTypes(f.mpt, UsesM(IsoMatVer[i]))]
            ELSE f
      f2 == IF f1.ads[a] = Absent
            THEN [f1 EXCEPT !.ads[a] = IsoAdsVer[i], !.apt = AutoTypes(f1.apt, UsesA(IsoAdsVer[i]))]
            ELSE f1
      done == [f2 EXCEPT !.isos[i] = Here]
      base == IF f.isos[i] = Absent /\ matOK /\ adsOK /\ tyOK
              THEN {R("ok", done)} ELSE {R("refused", f)}
  IN IF Storable(i) THEN base
     ELSE base \cup {R("refused_any", f)}   \* not storable: any clean refusal is acceptable

SpecDel(f, fld, k, referenced) ==
  IF f[fld][k] # Absent /\ ~referenced
  THEN {R("ok", [f EXCEPT ![fld][k] = Absent])}
  ELSE {R("refused", f)}       \* absent item, or the deletion would leave an unknown reference

IsRetrieval(o) == o.op \in {"ads_from", "mats_from", "apt_from", "mpt_from", "ity_from", "ipt_from", "iso_from"}
IsDelete(o)    == o.op \in {"ads_del", "mat_del", "apt_del", "mpt_del", "ity_del", "ipt_del", "iso_del"}
IsUpload(o)    == o.op \in {"ads_to", "mat_to", "apt_to", "mpt_to", "ity_to", "ipt_to", "iso_to"}

FieldOf(op) == CASE op \in {"ads_to", "ads_del", "ads_from"} -> "ads"
                 [] op \in {"mat_to", "mat_del", "mats_from"} -> "mats"
                 [] op \in {"apt_to", "apt_del", "apt_from"} -> "apt"
                 [] op \in {"mpt_to", "mpt_del", "mpt_from"} -> "mpt"
                 [] op \in {"ity_to", "ity_del", "ity_from"} -> "ity"
                 [] op \in {"ipt_to", "ipt_del", "ipt_from"} -> "ipt"
                 [] op \in {"iso_to", "iso_del", "iso_from"} -> "isos"

\* the set of results the property allows for operation o on a file in state f
SpecStep(f, o) ==
  CASE o.op = "ads_to"  -> SpecItemTo(f, "ads", "apt", UsesA(o.v), o)
    [] o.op = "mat_to"  -> SpecItemTo(f, "mats", "mpt", UsesM(o.v), o)
    [] o.op \in {"apt_to", "mpt_to", "ity_to", "ipt_to"} -> SpecTyTo(f, FieldOf(o.op), o)
    [] o.op = "iso_to"  -> SpecIsoTo(f, o)
    [] o.op = "ads_del" -> SpecDel(f, "ads", o.k, AdsReferenced(f, o.k))
    [] o.op = "mat_del" -> SpecDel(f, "mats", o.k, MatReferenced(f, o.k))
    [] o.op = "apt_del" -> SpecDel(f, "apt", o.k, AptReferenced(f, o.k))
    [] o.op = "mpt_del" -> SpecDel(f, "mpt", o.k, MptReferenced(f, o.k))
    [] o.op = "ity_del" -> SpecDel(f, "ity", o.k, ItyReferenced(f, o.k))
    [] o.op = "ipt_del" -> SpecDel(f, "ipt", o.k, FALSE)        \* nothing references isotherm property types
    [] o.op = "iso_del" -> SpecDel(f, "isos", o.k, FALSE)
    [] OTHER -> {R("ok", f)}          \* retrievals always succeed and change nothing

\* what a retrieval returns: exactly the stored content of exactly the selected keys
\* Query(criteria) = the stored isotherms whose columns match ALL given criteria
IsoSelected(i, o) == /\ (o.cm = "*" \/ o.cm = IsoMat[i]) /\ (o.ca = "*" \/ o.ca = IsoAds[i])
                     /\ (o.ct = "*" \/ o.ct = IsoTemp[i]) /\ (o.cy = "*" \/ o.cy = IsoTy[i])
SpecRetrieve(f, o) ==
  IF o.op = "iso_from"
  THEN [i \in Isos |-> IF IsoSelected(i, o) THEN f.isos[i] ELSE Absent]
  ELSE f[FieldOf(o.op)]

\* observed outcome classes: "ok", "refused" (ParsingError), "error" (any other exception)
OutcomeAllowed(obs, allowedOut) ==
  \/ obs = "ok" /\ allowedOut = "ok"
  \/ obs = "refused" /\ allowedOut \in {"refused", "refused_any"}
  \/ obs = "error" /\ allowedOut = "refused_any"

---------------------------------------------------------------------------
(* The dictionary the property talks about, written WITHOUT preconditions: *)
(* used by StoreMC to check that a history of allowed steps leaves exactly *)
(* what "a plain dictionary model of the operations predicts".             *)
PlainEffect(f, o) ==
  CASE o.op \in {"ads_to", "mat_to"} ->
         LET fld == FieldOf(o.op)
             ty == IF o.op = "ads_to" THEN "apt" ELSE "mpt"
             needed == IF o.op = "ads_to" THEN UsesA(o.v) ELSE UsesM(o.v)
             g == [f EXCEPT ![fld][o.k] = o.v]
         IN IF o.ai THEN [g EXCEPT ![ty] = AutoTypes(f[ty], needed)] ELSE g
    [] o.op \in {"apt_to", "mpt_to", "ity_to", "ipt_to"} -> [f EXCEPT ![FieldOf(o.op)][o.k] = o.v]
    [] o.op = "iso_to" ->
         LET i == o.k   m == IsoMat[i]   a == IsoAds[i]
             g == [f EXCEPT !.isos[i] = Here]
             g1 == IF f.mats[m] = Absent
                   THEN [g EXCEPT !.mats[m] = IsoMatVer[i], !.mpt = AutoTypes(g.mpt, UsesM(IsoMatVer[i]))] ELSE g
         IN IF f.ads[a] = Absent
            THEN [g1 EXCEPT !.ads[a] = IsoAdsVer[i], !.apt = AutoTypes(g1.apt, UsesA(IsoAdsVer[i]))] ELSE g1
    [] IsDelete(o) -> [f EXCEPT ![FieldOf(o.op)][o.k] = Absent]
    [] OTHER -> f

---------------------------------------------------------------------------
(*                 Impl: what sqlite.py does                               *)
(* reg = [mats : Mats -> Nat, ads : Ads -> Nat]: how many entries equal to *)
(* the name MATERIAL_LIST / ADSORBATE_LIST hold (uploads append without    *)
(* looking, deletes remove one entry).  Result: [out, f, reg, ret] where   *)
(* ret is the token transformation applied to retrieved isotherms.         *)
(***************************************************************************)
(* Traits (probed by the driver on the tree under test, so that Impl keeps   *)
(* describing the code after a repair; Spec never looks at them):          *)
(*   registry_autoinsert  isotherm_to_db decides auto-insert by the lists  *)
(*   iso_type_leak        isotherms_from_db hands column iso_type on       *)
(*   real_affinity        ints / numeric text come back as floats          *)
(*   type_overwrite_noop  *_type_to_db(overwrite) of an absent key = ok    *)
(*   no_ipt_table         table isotherm_properties_type is never created  *)
AllTraits == {"registry_autoinsert", "iso_type_leak", "real_affinity", "type_overwrite_noop", "no_ipt_table"}
Has(t) == t \in Traits
RI(out, f, reg) == [out |-> out, f |-> f, reg |-> reg]

Dec(n) == IF n > 0 THEN n - 1 ELSE 0

ImplItemTo(f, reg, fld, tyfld, needed, o) ==
  LET cur == f[fld][o.k]
      typesOK == o.ai \/ \A t \in needed : f[tyfld][t] # Absent
      put == [f EXCEPT ![fld][o.k] = o.v]
      done == IF o.ai THEN [put EXCEPT ![tyfld] = AutoTypes(f[tyfld], needed)] ELSE put
      \* sqlite.py:265-269 / 602-607: on overwrite remove one entry, then append
      reg2 == [reg EXCEPT ![fld][o.k] = (IF o.ow THEN Dec(@) ELSE @) + 1]
  IN IF o.ow /\ cur = Absent THEN RI("refused", f, reg)          \* explicit IntegrityError
     ELSE IF ~o.ow /\ cur # Absent THEN RI("refused", f, reg)    \* UNIQUE(name)
     ELSE IF ~typesOK THEN RI("refused", f, reg)                 \* FOREIGN KEY(type)
     ELSE RI("ok", done, reg2)

ImplTyTo(f, reg, fld, o) ==
  LET cur == f[fld][o.k]
      done == [f EXCEPT ![fld][o.k] = o.v]
  IN IF ~o.ow THEN (IF cur = Absent THEN RI("ok", done, reg) ELSE RI("refused", f, reg))
     \* _upload_one_all_columns: UPDATE ... WHERE type = :type matches no row and reports success
     ELSE IF cur # Absent THEN RI("ok", done, reg)
     ELSE IF Has("type_overwrite_noop") THEN RI("ok", f, reg) ELSE RI("refused", f, reg)

\* isotherm_to_db: auto-insert is decided by membership in the session registries
ImplIsoTo(f, reg, o) ==
  LET i == o.k   m == IsoMat[i]   a == IsoAds[i]
      insM == o.am /\ (IF Has("registry_autoinsert") THEN reg.mats[m] = 0 ELSE f.mats[m] = Absent)
      failM == insM /\ f.mats[m] # Absent                        \* nested material_to_db: UNIQUE(name)
      f1 == IF insM /\ ~failM
            THEN [f EXCEPT !.mats[m] = IsoMatVer[i], !.mpt = AutoTypes(f.mpt, UsesM(IsoMatVer[i]))] ELSE f
      reg1 == IF insM /\ ~failM THEN [reg EXCEPT !.mats[m] = @ + 1] ELSE reg
      insA == o.aa /\ (IF Has("registry_autoinsert") THEN reg.ads[a] = 0 ELSE f1.ads[a] = Absent)
      failA == insA /\ f1.ads[a] # Absent
      f2 == IF insA /\ ~failA
            THEN [f1 EXCEPT !.ads[a] = IsoAdsVer[i], !.apt = AutoTypes(f1.apt, UsesA(IsoAdsVer[i]))] ELSE f1
      reg2 == IF insA /\ ~failA THEN [reg1 EXCEPT !.ads[a] = @ + 1] ELSE reg1
      rowOK == /\ f2.isos[i] = Absent /\ f2.mats[m] # Absent
               /\ f2.ads[a] # Absent /\ f2.ity[IsoTy[i]] # Absent
  IN IF failM THEN RI("refused", f, reg)
     ELSE IF failA THEN RI("refused", f, reg1)        \* the database rolls back, the registry does not
     ELSE IF ~rowOK THEN RI("refused", f, reg2)
     ELSE IF IsoClass[i] = "none" THEN RI("refused", f, reg2)    \* NOT NULL on value
     ELSE IF IsoClass[i] = "list" THEN RI("error", f, reg2)      \* sqlite3.ProgrammingError, not caught
     ELSE RI("ok", [f2 EXCEPT !.isos[i] = Here], reg2)

ImplDel(f, reg, fld, k, referenced, inRegistry) ==
  IF f[fld][k] # Absent /\ ~referenced
  THEN RI("ok", [f EXCEPT ![fld][k] = Absent], IF inRegistry THEN [reg EXCEPT ![fld][k] = Dec(@)] ELSE reg)
  ELSE RI("refused", f, reg)

\* isotherms_from_db passes the whole row of table `isotherms` (incl. iso_type) to the
\* constructor; values of REAL affinity come back as floats
Coerced(i) == Has("real_affinity") /\ IsoClass[i] = "coerce"
RetrievedIdDiffers(i) == Has("iso_type_leak") \/ Coerced(i)
ImplIsoToken(i, tok) ==
  IF tok # Here THEN tok
  ELSE IF Coerced(i) /\ Has("iso_type_leak") THEN "x:changed=coerced;extra=iso_type"
  ELSE IF Coerced(i) THEN "x:changed=coerced"
  ELSE IF Has("iso_type_leak") THEN "x:extra=iso_type"
  ELSE Here

ImplStep(f, reg, o) ==
  CASE o.op = "ads_to"  -> ImplItemTo(f, reg, "ads", "apt", UsesA(o.v), o)
    [] o.op = "mat_to"  -> ImplItemTo(f, reg, "mats", "mpt", UsesM(o.v), o)
    [] o.op \in {"apt_to", "mpt_to", "ity_to"} -> ImplTyTo(f, reg, FieldOf(o.op), o)
    \* sqlite_db_pragmas.py never creates table isotherm_properties_type: sqlite3.OperationalError
    [] o.op \in {"ipt_to", "ipt_del", "ipt_from"} /\ Has("no_ipt_table") -> RI("error", f, reg)
    [] o.op = "ipt_to" -> ImplTyTo(f, reg, "ipt", o)
    [] o.op = "ipt_del" -> ImplDel(f, reg, "ipt", o.k, FALSE, FALSE)
    \* a new session starts with the registries as loaded from the internal database: none of our items
    [] o.op = "session" -> RI("ok", f, [mats |-> [m \in DOMAIN reg.mats |-> 0], ads |-> [a \in DOMAIN reg.ads |-> 0]])
    [] o.op = "iso_to"  -> ImplIsoTo(f, reg, o)
    [] o.op = "ads_del" -> ImplDel(f, reg, "ads", o.k, AdsReferenced(f, o.k), TRUE)
    [] o.op = "mat_del" -> ImplDel(f, reg, "mats", o.k, MatReferenced(f, o.k), TRUE)
    [] o.op = "apt_del" -> ImplDel(f, reg, "apt", o.k, AptReferenced(f, o.k), FALSE)
    [] o.op = "mpt_del" -> ImplDel(f, reg, "mpt", o.k, MptReferenced(f, o.k), FALSE)
    [] o.op = "ity_del" -> ImplDel(f, reg, "ity", o.k, ItyReferenced(f, o.k), FALSE)
    \* deleting through a retrieved object: its id is computed from a dictionary that now holds iso_type
    [] o.op = "iso_del" -> IF o.by = "retrieved" /\ f.isos[o.k] # Absent /\ RetrievedIdDiffers(o.k) THEN RI("refused", f, reg)
                           ELSE ImplDel(f, reg, "isos", o.k, FALSE, FALSE)
    [] OTHER -> RI("ok", f, reg)

ImplRetrieve(f, o) ==
  IF o.op = "iso_from"
  THEN [i \in Isos |-> IF IsoSelected(i, o) THEN ImplIsoToken(i, f.isos[i]) ELSE Absent]
  ELSE f[FieldOf(o.op)]

\* classes of divergence of Impl from Spec, for one step from (f, reg)
Conforms(f, reg, o) ==
  LET r == ImplStep(f, reg, o)
  IN /\ \E s \in SpecStep(f, o) : OutcomeAllowed(r.out, s.out) /\ s.f = r.f
     /\ (IsRetrieval(o) => ImplRetrieve(f, o) = SpecRetrieve(f, o))

DivergenceClass(f, reg, o) ==
  LET r == ImplStep(f, reg, o)
      specOK == \E s \in SpecStep(f, o) : s.out = "ok"
  IN IF Conforms(f, reg, o) THEN "conforms"
     ELSE IF o.op \in {"ipt_to", "ipt_del", "ipt_from"} THEN "isotherm_property_type:table_never_created"
     ELSE IF IsRetrieval(o) THEN
            (IF \E i \in Isos : IsoSelected(i, o) /\ f.isos[i] = Here /\ Coerced(i)
             THEN (IF Has("iso_type_leak") THEN "iso_from:coerced_values+iso_type_leak" ELSE "iso_from:coerced_values")
             ELSE "iso_from:iso_type_leak")
     ELSE IF o.op = "iso_to" /\ r.out = "refused" /\ specOK THEN
            (LET m == IsoMat[o.k]   a == IsoAds[o.k]
             IN IF (o.am /\ reg.mats[m] = 0 /\ f.mats[m] # Absent) \/ (o.aa /\ reg.ads[a] = 0 /\ f.ads[a] # Absent)
                THEN "iso_to:autoinsert_duplicates_item_present_in_file"
                ELSE IF (o.am /\ reg.mats[m] > 0 /\ f.mats[m] = Absent) \/ (o.aa /\ reg.ads[a] > 0 /\ f.ads[a] = Absent)
                THEN "iso_to:autoinsert_skipped_item_absent_from_file"
                ELSE "iso_to:other")
     ELSE IF o.op \in {"apt_to", "mpt_to", "ity_to"} /\ o.ow THEN "type_to:overwrite_of_absent_reports_success"
     ELSE IF o.op = "iso_del" /\ o.by = "retrieved" THEN "iso_del:retrieved_isotherm_has_another_id"
     ELSE "other"
=============================================================================
