------------------------------- MODULE Backend -------------------------------
(***************************************************************************)
(* The property methods of pygaps.Adsorbate and their fallback discipline. *)
(*                                                                         *)
(*   "When the backend cannot provide a value the user-supplied property   *)
(*    is returned, otherwise a calculation error is raised - never a       *)
(*    silent wrong number."                                                *)
(*                                                                         *)
(* A call is [m, calc, unit]; the adsorbate is abstracted to               *)
(* [link \in {"valid","bogus","none"}, user \in BOOLEAN] (backend_name     *)
(* usable / unknown to CoolProp / absent; the property key the method      *)
(* falls back to is present or not); `can` says whether the thermodynamic  *)
(* backend can deliver THIS value (fluid known, temperature inside the     *)
(* saturation range, correlation available) - the harness determines it    *)
(* independently of pyGAPS through CoolProp's high-level interface.        *)
(***************************************************************************)
EXTENDS Integers, Sequences, FiniteSets, TLC, DecFloat

Scalar == {"molar_mass", "p_triple", "t_triple", "p_critical", "t_critical"}
PsatM  == {"saturation_pressure", "pressure_saturation"}
TDep   == PsatM \cup {"surface_tension", "liquid_density", "liquid_molar_density",
                      "gas_density", "gas_molar_density", "enthalpy_liquefaction", "enthalpy_vaporisation"}
Methods == Scalar \cup TDep
\* the property key a method falls back to
UserKey(m) == CASE m = "pressure_saturation" -> "saturation_pressure"
                [] m = "enthalpy_vaporisation" -> "enthalpy_liquefaction"
                [] OTHER -> m
\* documented unit of the result = SI value * 10^SIExp  (g/mol, mN/m, g/cm3, mol/cm3, kJ/mol; Pa and K as SI)
SIExp(m) == CASE m = "molar_mass" -> 3
              [] m = "surface_tension" -> 3
              [] m \in {"liquid_density", "gas_density"} -> -3
              [] m \in {"liquid_molar_density", "gas_molar_density"} -> -6
              [] m \in {"enthalpy_liquefaction", "enthalpy_vaporisation"} -> -3
              [] OTHER -> 0
\* a user property is returned as given, or (critical / triple pressure, kept in bar in the
\* shipped data while the method is documented in Pa) scaled to Pa: both readings accepted
UserExps(m) == IF m \in {"p_triple", "p_critical"} THEN {0, 5} ELSE {0}

PresU == {"Pa", "kPa", "MPa", "mbar", "bar", "atm", "mmHg", "torr"}
NoUnit == "none"
\* SI definitions of the pressure units in Pa, 8 significant digits
UnitPa == [Pa |-> <<10000000, -7>>, kPa |-> <<10000000, -4>>, MPa |-> <<10000000, -1>>, mbar |-> <<10000000, -5>>,
           bar |-> <<10000000, -2>>, atm |-> <<10132500, -2>>, mmHg |-> <<13332239, -5>>, torr |-> <<13332237, -5>>]
\* the library's table is rounded to 133.322 for mmHg and torr (2.9e-6 off)
UnitTol(u) == IF u \in {"mmHg", "torr"} THEN DTol(5) ELSE DTol(6)
Pow10(k) == <<10000000, k - 7>>

Links == {"valid", "bogus", "none"}

---------------------------------------------------------------------------
\* PRESCRIPTIVE: the outcome classes the property allows
SpecOutcomes(can, user, calc) ==
   IF calc /\ can THEN {"backend"}
   ELSE IF user THEN {"user"}
   ELSE {"CalculationError"}

\* DESCRIPTIVE: adsorbate.py:306-893, one shape for all methods:
\*   if calculate: try: <backend> except BaseException: return self.m(..., calculate=False)
\*   try: return self.get_prop(key) except ParameterError: raise CalculationError
ImplLookup(user) == IF user THEN "user" ELSE "CalculationError"
ImplOutcome(link, can, user, calc) ==
   IF calc THEN (IF link = "valid" /\ can THEN "backend" ELSE ImplLookup(user))
   ELSE ImplLookup(user)
\* saturation pressure: the unit conversion sits after the try/except of the calculate=True
\* path, so it is applied to a user value reached by fallback, and not with calculate=False
ImplUnitApplied(m, calc, unit) == m \in PsatM /\ unit # NoUnit /\ calc

---------------------------------------------------------------------------
\* value judgement of an observed call (DecFloat observations)
InUnit(v, unit) == IF unit = NoUnit THEN v ELSE DDiv(v, UnitPa[unit])
TolOf(unit) == IF unit = NoUnit THEN DTol(6) ELSE UnitTol(unit)
\* q: [m, link, can, user_has, calc, unit, obs ("val"|"exc"), exc, val, ref (SI value from CoolProp), user (raw property)]
IsBackendValue(q) == DClose(q.val, InUnit(DMul(q.ref, Pow10(SIExp(q.m))), q.unit), TolOf(q.unit))
IsUserValue(q) == \E k \in UserExps(q.m) :
                     LET u == DMul(q.user, Pow10(k)) IN
                     \/ DClose(q.val, u, DTol(6))
                     \/ q.unit # NoUnit /\ DClose(q.val, InUnit(u, q.unit), TolOf(q.unit))
ObservedClass(q) ==
   IF q.obs = "exc" THEN q.exc
   ELSE LET allowed == SpecOutcomes(q.can, q.user_has, q.calc) IN
        IF "backend" \in allowed /\ IsBackendValue(q) THEN "backend"
        ELSE IF "user" \in allowed /\ IsUserValue(q) THEN "user"
        ELSE IF q.can /\ IsBackendValue(q) THEN "backend"
        ELSE IF q.user_has /\ IsUserValue(q) THEN "user"
        ELSE "other value"
JudgeCall(q) ==
   LET allowed == SpecOutcomes(q.can, q.user_has, q.calc)
       seen == ObservedClass(q)
   IN [ok |-> seen \in allowed, observed |-> seen, allowed |-> allowed,
       impl_predicts |-> ImplOutcome(q.link, q.can, q.user_has, q.calc)]

---------------------------------------------------------------------------
\* thermodynamic consistency of one backend-linked adsorbate over a temperature grid
\* a: [M, pt, pc, tt, tc, rows |-> << [T, psat, rl, rlm, rg, rgm, h, pu |-> [unit |-> value]] >>]
RowClauses(a, r) ==
   {c \in {"T inside (T_triple, T_critical)", "liquid density = molar density * M", "gas density = molar density * M",
           "p_triple <= psat", "psat <= p_critical", "h_vap > 0",
           "h_vap(press = psat(T)) > 0", "h_vap(press = psat(T)) = h_vap(temp = T)"} :
      ~ CASE c = "T inside (T_triple, T_critical)" -> DLt(a.tt, r.T) /\ DLt(r.T, a.tc)
          [] c = "liquid density = molar density * M" -> DClose(r.rl, DMul(r.rlm, a.M), DTol(6))
          [] c = "gas density = molar density * M" -> DClose(r.rg, DMul(r.rgm, a.M), DTol(6))
          [] c = "p_triple <= psat" -> DLeq(a.pt, r.psat)
          [] c = "psat <= p_critical" -> DLeq(r.psat, a.pc)
          [] c = "h_vap > 0" -> DLt(DZero, r.h)
          \* the saturation point given as a PRESSURE (press= keyword): same state, same enthalpy
          [] c = "h_vap(press = psat(T)) > 0" -> DLt(DZero, r.hp) /\ DLt(DZero, r.hlp)
          [] c = "h_vap(press = psat(T)) = h_vap(temp = T)" -> DClose(r.hp, r.h, DTol(4)) /\ DClose(r.hlp, r.h, DTol(4))}
   \cup {"unit honoured: " \o u : u \in {v \in PresU : ~DClose(DMul(r.pu[v], UnitPa[v]), r.psat, UnitTol(v))}}
MonoFails(a) == {i \in 1..(Len(a.rows) - 1) :
                   ~(DLt(a.rows[i].T, a.rows[i + 1].T) /\ DLt(a.rows[i].psat, a.rows[i + 1].psat))}
JudgeThermo(a) ==
   LET fails == UNION {{<<i, c>> : c \in RowClauses(a, a.rows[i])} : i \in DOMAIN a.rows}
       mono == MonoFails(a)
   IN [ok |-> fails = {} /\ mono = {},
       failed |-> {[row |-> f[1], clause |-> f[2]] : f \in fails}
                  \cup {[row |-> i, clause |-> "psat increases with T"] : i \in mono}]
=============================================================================
