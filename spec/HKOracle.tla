------------------------------ MODULE HKOracle ------------------------------
(***************************************************************************)
(* Batch oracle for C17 (harness/drivers/c17.py).  Query kinds:            *)
(*   scen  -> the scenario space and the parameter tables of spec/HK       *)
(*   prep  -> loadings, coverages and (slit) the chosen widths of a scenario*)
(*   slit  -> ln(p/p0) of the published slit equation for the chosen widths *)
(*            (minus the Cheng-Yang term when cy)                          *)
(*   judge -> the property's clauses evaluated on a recorded run           *)
(*   rycyl -> Rege-Yang cylinder: ring existence, population rule, weighting *)
(*   audit -> library adsorbent table against the literature values of HK   *)
(***************************************************************************)
EXTENDS HK, Json, IOUtils

Q == JsonDeserialize(IOEnv.X_IN)

Prep(q) ==
   LET n == Loadings(q.fam, q.npts)
       nmax == SeqMax(n)
       ov == OverIdx(q.perm, q.npts)
       SL(j) == IF j = ov THEN OverL("slit") ELSE SlitL(q.a, q.h, q.npts, j)
   IN [n |-> n,
       theta |-> [j \in 1..q.npts |-> Coverage(n[j], nmax)],
       L |-> [j \in 1..q.npts |-> SL(j)],
       W |-> [j \in 1..q.npts |-> WidthOf("slit", SL(j), q.h)],
       over |-> ov, overL |-> OverL(q.geo), dup |-> DupIdx(q.perm, q.npts),
       pi |-> PermSeq(q.perm, q.npts),
       d0 |-> D0(q.a, q.h)]

Slit(q) ==
   LET N == Len(q.L)
       nmax == SeqMax(q.n)
       th == [j \in 1..N |-> Coverage(q.n[j], nmax)]
   IN [lnp |-> [j \in 1..N |-> DSub(SlitLnP(q.L[j], q.a, q.h, q.T), IF q.cy THEN CYTerm(th[j], q.ln1m[j]) ELSE DZero)],
       kmgg |-> KMgg(q.a), kmgh |-> KMgh(q.a, q.h), n_over_rt |-> DDiv(NAvog, DMul(Rgas, q.T))]

Audit(q) == LET bad == {f \in {"d", "alpha", "chi", "ns"} : ~DClose(q.lib[f], q.ref[f], DTol(6))} IN [ok |-> bad = {}, bad |-> bad]

Step(q) ==
  CASE q.k = "scen" -> [scenarios |-> Scenarios, adsorbents |-> Adsorbents, adsorbates |-> Adsorbates,
                        hist_configs |-> HistConfigs, api_storage |-> ApiStorage, histories |-> SetToSeq(Histories)]
    [] q.k = "pub" -> [v |-> PublishedPhi(q.kind, q.L, q.a, q.h, q.T)]
    [] q.k = "prep" -> Prep(q)
    [] q.k = "slit" -> Slit(q)
    [] q.k = "judge" -> Judge(q)
    [] q.k = "rycyl" -> RYCylJudge(q)
    [] q.k = "audit" -> Audit(q)

ASSUME JsonSerialize(IOEnv.X_OUT, [i \in 1..Len(Q) |-> Step(Q[i])])
VARIABLE x
Init == x = 0
Next == x' = x
=============================================================================
