--------------------------------- MODULE Rat ---------------------------------
(***************************************************************************)
(* Exact rationals <<num, den>> (den > 0, gcd 1) with an explicit overflow *)
(* guard: a run fails rather than wrapping 32-bit integers.                *)
(***************************************************************************)
EXTENDS Integers, TLC

RAbsI(i) == IF i < 0 THEN -i ELSE i
RECURSIVE RGcd(_, _)
RGcd(a, b) == IF b = 0 THEN a ELSE RGcd(b, a % b)
RLimit == 46000          \* products of two guarded values stay below 2^31
RGuard(n) == Assert(RAbsI(n) <= 2000000000, <<"Rat overflow", n>>)
RNorm(n, d) == LET g == RGcd(RAbsI(n), RAbsI(d))
                   s == IF d < 0 THEN -1 ELSE 1
               IN IF n = 0 THEN <<0, 1>> ELSE <<s * (n \div g), s * (d \div g)>>
RSmall(r) == RAbsI(r[1]) <= RLimit /\ r[2] <= RLimit
RChk(r) == IF RSmall(r) THEN r ELSE Assert(FALSE, <<"Rat operand too large for 32-bit products", r>>)
R(n, d) == RNorm(n, d)
RInt(n) == <<n, 1>>
RAdd(a, b) == LET x == RChk(a) y == RChk(b) IN RNorm(x[1] * y[2] + y[1] * x[2], x[2] * y[2])
RNeg(a) == <<-a[1], a[2]>>
RSub(a, b) == RAdd(a, RNeg(b))
RMul(a, b) == LET x == RChk(a) y == RChk(b) IN RNorm(x[1] * y[1], x[2] * y[2])
RInv(a) == IF a[1] < 0 THEN <<-a[2], -a[1]>> ELSE <<a[2], a[1]>>
RDiv(a, b) == RMul(a, RInv(b))
RLt(a, b) == LET x == RChk(a) y == RChk(b) IN x[1] * y[2] < y[1] * x[2]
RLeq(a, b) == LET x == RChk(a) y == RChk(b) IN x[1] * y[2] <= y[1] * x[2]
REq(a, b) == a = b
=============================================================================
