SPECIFICATION ImplSys
CONSTANT MaxDepth = 12
CONSTANT InitSel = "all"
CHECK_DEADLOCK FALSE
