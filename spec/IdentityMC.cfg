SPECIFICATION Spec
CONSTANT MaxEdits = 2
CONSTANT MCBases = {"meta1", "p3", "p4d", "mHenry", "mLangmuir"}
INVARIANT InvWellFormed
INVARIANT InvEffective
INVARIANT InvImplSensitive
INVARIANT InvReadStable
INVARIANT InvPathIndependent
INVARIANT InvUndo
CHECK_DEADLOCK FALSE
