SPECIFICATION Spec
CONSTANT MaxEdits = 2
INVARIANT InvWellFormed
INVARIANT InvEffective
INVARIANT InvImplSensitive
INVARIANT InvReadStable
INVARIANT InvPathIndependent
INVARIANT InvUndo
CHECK_DEADLOCK FALSE
