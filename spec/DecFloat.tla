------------------------------ MODULE DecFloat ------------------------------
(***************************************************************************)
(* Decimal floating point for observation traces, inside TLC's 32-bit      *)
(* integers.  A number is <<m, e>> = m * 10^e, normalised so that          *)
(* 10^7 <= |m| < 10^8 (or m = 0, e = 0).  Every intermediate stays below   *)
(* 2^31.  Relative error per operation < 2e-7.                             *)
(* The harness encodes floats with harness/encode.py (dec_enc).            *)
(***************************************************************************)
EXTENDS Integers, Sequences, TLC, TLCExt

DZero == <<0, 0>>
DAbsI(i) == IF i < 0 THEN -i ELSE i
DSgn(i) == IF i < 0 THEN -1 ELSE IF i = 0 THEN 0 ELSE 1
P10tab == <<1, 10, 100, 1000, 10000, 100000, 1000000, 10000000, 100000000, 1000000000>>
P10(k) == P10tab[k + 1]      \* 0 <= k <= 9

\* bring |m| < 2^31 into [10^7, 10^8)
RECURSIVE DNormUp(_, _)
DNormUp(m, e) == IF DAbsI(m) >= 10000000 THEN <<m, e>> ELSE DNormUp(m * 10, e - 1)
DNorm(m, e) ==
   IF m = 0 THEN DZero
   ELSE IF DAbsI(m) >= 1000000000 THEN <<m \div 100, e + 2>>       \* truncation, not rounding: error < 1e-7
   ELSE IF DAbsI(m) >= 100000000 THEN <<m \div 10, e + 1>>
   ELSE DNormUp(m, e)
\* note: \div on negative numbers floors in TLA+; keep magnitudes, apply sign afterwards
DMk(s, mag, e) == LET n == DNorm(mag, e) IN <<s * n[1], n[2]>>

DNeg(a) == <<-a[1], a[2]>>
DAbs(a) == <<DAbsI(a[1]), a[2]>>
DFromInt(i) == DMk(DSgn(i), DAbsI(i), 0)

DAdd(a, b) ==
   IF a[1] = 0 THEN b ELSE IF b[1] = 0 THEN a
   ELSE LET hi == IF a[2] >= b[2] THEN a ELSE b
            lo == IF a[2] >= b[2] THEN b ELSE a
            d == hi[2] - lo[2]
        IN IF d > 9 THEN hi
           ELSE IF d > 1 THEN
                \* align the smaller one to the larger exponent (loses d digits of lo)
                LET s == hi[1] + DSgn(lo[1]) * (DAbsI(lo[1]) \div P10(d)) IN DMk(DSgn(s), DAbsI(s), hi[2])
           ELSE \* d in {0,1}: scale hi up by 10^d (|.| < 10^9), exact
                LET s == hi[1] * P10(d) + lo[1] IN DMk(DSgn(s), DAbsI(s), lo[2])
DSub(a, b) == DAdd(a, DNeg(b))

\* split multiplication: 4-digit limbs, all partial products < 10^8
DMul(a, b) ==
   IF a[1] = 0 \/ b[1] = 0 THEN DZero
   ELSE LET x == DAbsI(a[1])  y == DAbsI(b[1])
            x1 == x \div 10000  x0 == x % 10000
            y1 == y \div 10000  y0 == y % 10000
            top == x1 * y1                                 \* < 10^8, weight 10^8
            mid == x1 * y0 + x0 * y1                       \* < 2*10^8, weight 10^4
            low == (x0 * y0) \div 10000000                 \* weight 10^7 digit of the lowest product
            mag == top * 10 + (mid \div 1000) + low         \* < 1.0003*10^9, weight 10^7
        IN DMk(DSgn(a[1]) * DSgn(b[1]), mag, a[2] + b[2] + 7)

\* long division: 8 quotient digits beyond the integer part
RECURSIVE DDivDigits(_, _, _, _)
DDivDigits(r, y, q, k) == IF k = 0 THEN q ELSE DDivDigits((r % y) * 10, y, q * 10 + (r \div y), k - 1)
DDiv(a, b) ==
   IF a[1] = 0 THEN DZero
   ELSE LET x == DAbsI(a[1])  y == DAbsI(b[1])      \* both in [10^7, 10^8): x/y in (0.1, 10)
            q == DDivDigits(x, y, 0, 9)               \* floor(x/y * 10^8) < 10^9
        IN DMk(DSgn(a[1]) * DSgn(b[1]), q, a[2] - b[2] - 8)

DLt(a, b) == LET d == DSub(a, b) IN d[1] < 0
DLeq(a, b) == LET d == DSub(a, b) IN d[1] <= 0
DMax(a, b) == IF DLeq(a, b) THEN b ELSE a
\* |a - b| <= tol * max(|a|, |b|)   (tol a DecFloat, e.g. <<10000000, -13>> = 1e-6)
DClose(a, b, tol) == DLeq(DAbs(DSub(a, b)), DMul(tol, DMax(DAbs(a), DAbs(b))))
\* |a - b| <= tol * max(|a|,|b|) + atol
DCloseAbs(a, b, tol, atol) == DLeq(DAbs(DSub(a, b)), DAdd(DMul(tol, DMax(DAbs(a), DAbs(b))), atol))
DTol(k) == <<10000000, -7 - k>>          \* 10^-k

RECURSIVE DSumRec(_, _, _)
\* the accumulator is forced at every step (a lazy chain of ~60 terms overflowed the Java stack)
DSumRec(s, i, acc) == IF i > Len(s) THEN acc ELSE LET a == TLCEval(DAdd(acc, s[i])) IN DSumRec(s, i + 1, a)
DSum(s) == DSumRec(s, 1, DZero)
=============================================================================
