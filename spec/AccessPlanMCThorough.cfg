SPECIFICATION Spec
CONSTANT CoverL1 <- AllL
CONSTANT CoverM1 <- AllM
CONSTANT CoverL2 <- AllL
CONSTANT CoverM2 <- MidM
INVARIANT StaysValid
INVARIANT ClassExact
INVARIANT Invariance
CHECK_DEADLOCK FALSE
