-------------------------------- MODULE HKMC --------------------------------
(***************************************************************************)
(* TLC walks every chosen-width grid of the slit round trip (adsorbent x   *)
(* adsorbate x temperature x grid size x grid index) and checks the        *)
(* arithmetic the round trip rests on:                                     *)
(*   FormsAgree  the published form of the slit equation equals the form   *)
(*               with the removable singularity divided out (DecFloat      *)
(*               cancellation is under control on the chosen grid)         *)
(*   Increasing  ln p is strictly increasing in L along the grid (so the   *)
(*               equation has one solution there and "widths are           *)
(*               non-decreasing in pressure" is a consequence of solving)  *)
(*   Physical    ln p < 0 and the width lies in (d_a, 3 nm]                 *)
(*   PermOk, RYAttractive  see below                                       *)
(***************************************************************************)
EXTENDS HK

VARIABLES hid, aid, t, np, j
vars == <<hid, aid, t, np, j>>
Known == {x \in DOMAIN Adsorbents : Adsorbents[x].known}

Init == /\ hid \in Known /\ aid \in DOMAIN Adsorbates /\ t \in 1..Len(Temps) /\ np \in {NPts[i] : i \in 1..Len(NPts)} /\ j = 1
Next == /\ j < np /\ j' = j + 1 /\ UNCHANGED <<hid, aid, t, np>>
Spec == Init /\ [][Next]_vars

A == Adsorbates[aid]
H == Adsorbents[hid]
Lj(i) == SlitL(A, H, np, i)
FormsAgree == DClose(SlitLnP(Lj(j), A, H, Temps[t]), SlitLnPFactored(Lj(j), A, H, Temps[t]), DTol(4))
Increasing == j < np => DLt(SlitLnP(Lj(j), A, H, Temps[t]), SlitLnP(Lj(j + 1), A, H, Temps[t]))
Physical == /\ DLt(SlitLnP(Lj(j), A, H, Temps[t]), DZero)
            /\ DLt(A.d, WidthOf("slit", Lj(j), H)) /\ DLeq(WidthOf("slit", Lj(j), H), WMax)
            /\ DClose(LOf("slit", WidthOf("slit", Lj(j), H), H), Lj(j), DTol(6))
\* the presentation orders are permutations of the grid
PermOk == \A pm \in {"id", "swap", "rev", "over", "dup"} : {PermIdx(pm, np, i) : i \in 1..np} = 1..np
\* the published Rege-Yang slit / sphere equations are attractive (ln p < 0) on the grid; at least one layer fits
RYAttractive == LET M == RYSlitLayers(Lj(j), A, H) IN
                /\ DLt(RYSlitLnP(Lj(j), A, H, Temps[t], DLt(M, DInt(2))), DZero)
                /\ DLt(RYSphereLnP(Lj(j), A, H, Temps[t]), DZero)
                /\ RYSphereLayers(Lj(j), A, H) >= 1
=============================================================================
