-------------------------- MODULE IsoConvertOracle --------------------------
(***************************************************************************)
(* Step oracle for C02: every recorded call on a real PointIsotherm        *)
(* (pre labels, operation, outcome, post labels, available constants) is   *)
(* judged by IsoConvert!Judge; the answer carries the monomials by which   *)
(* the data columns must have changed and the implementation model's       *)
(* prediction (for drift reporting).                                       *)
(***************************************************************************)
EXTENDS IsoConvert, Json, IOUtils

Q == JsonDeserialize(IOEnv.X_IN)

Step(q) ==
  LET av == {q.av[i] : i \in 1..Len(q.av)}
      clause == Judge(q.s, q.op, q.out, q.s2, av)
      judged == IsoValid(q.s) /\ IsoValid(q.s2)
      impl == IF IsoValid(q.s) THEN ImplStep(q.s, q.op) ELSE [out |-> "na", s |-> q.s, vp |-> Zero, vl |-> Zero]
  IN [clause |-> clause,
      dp |-> IF judged THEN Sparse(DeltaP(q.s, q.s2)) ELSE Sparse(Zero),
      dl |-> IF judged THEN Sparse(DeltaL(q.s, q.s2)) ELSE Sparse(Zero),
      dtk |-> IF judged THEN TK(q.s2) - TK(q.s) ELSE 0,
      judged |-> judged,
      impl_out |-> impl.out, impl_s |-> impl.s]

ASSUME JsonSerialize(IOEnv.X_OUT, [i \in 1..Len(Q) |-> Step(Q[i])])
VARIABLE x
Init == x = 0
Next == x' = x
=============================================================================
