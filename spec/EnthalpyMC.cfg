SPECIFICATION Spec
INVARIANT PermOk
INVARIANT Partition
INVARIANT Tols
CHECK_DEADLOCK FALSE
