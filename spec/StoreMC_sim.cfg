SPECIFICATION GenSys
CONSTANTS
  Files = {"d1", "d2"}
  MaxDepth = 4
  WithIPT = FALSE
  HistLen = 16
  Ads <- MCAds
  Mats <- MCMats
  APT <- MCAPT
  MPT <- MCMPT
  ITY <- MCITY
  IPT <- MCIPT
  Isos <- MCIsos
  AdsVer <- MCAdsVer
  MatVer <- MCMatVer
  TyVer <- MCTyVer
  AdsUses <- MCAdsUses
  MatUses <- MCMatUses
  IsoMat <- MCIsoMat
  IsoAds <- MCIsoAds
  IsoTy <- MCIsoTy
  IsoMatVer <- MCIsoMatVer
  IsoAdsVer <- MCIsoAdsVer
  IsoTemp <- MCIsoTemp
  IsoClass <- MCIsoClass
  Traits <- MCTraits
CHECK_DEADLOCK FALSE
CONSTRAINT Emit
