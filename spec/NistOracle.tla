------------------------------ MODULE NistOracle ------------------------------
EXTENDS Nist, Json, IOUtils
Q == JsonDeserialize(IOEnv.X_IN)
ASSUME JsonSerialize(IOEnv.X_OUT, [k \in 1..Len(Q) |-> [spec |-> Spec(Q[k]), impl |-> Impl(Q[k])]])
VARIABLE x
Init == x = 0
Next == x' = x
=============================================================================
