------------------------------ MODULE StoreTx ------------------------------
(***************************************************************************)
(* Statement-level model of ONE public call of pygaps.parsing.sqlite       *)
(* inside the `with_connection` wrapper (sqlite.py:31-67), property C09.   *)
(*                                                                         *)
(*   connect; cursor; PRAGMA foreign_keys (statement 1);                   *)
(*   body = statements 2..K, reads and writes, possibly issued by nested   *)
(*          public calls that were handed the cursor (same connection,     *)
(*          same transaction); in-memory registry updates in between;      *)
(*   IntegrityError / InterfaceError  -> rollback -> ParsingError          *)
(*   any other exception              -> (no handler)                      *)
(*   no exception                     -> commit                            *)
(*   finally                          -> close  (discards what is pending) *)
(*                                                                         *)
(* Part 1 (Discipline): which event sequences on the connection are        *)
(* legal.  Used by StoreTxTrace to validate the statement logs recorded    *)
(* from the real code through the sqlite3 proxy.                           *)
(* Part 2 (Machine): the call as a transition system over a durable and a  *)
(* working copy of the database with rollback-journal semantics, every     *)
(* fault kind at every statement and a crash at every instant, for call    *)
(* SHAPES taken from the real statement logs.  Used by StoreTxMC.          *)
(***************************************************************************)
EXTENDS Naturals, Sequences, FiniteSets, TLC

SqlFaults == {"IntegrityError", "InterfaceError", "OperationalError"}
Handled   == {"IntegrityError", "InterfaceError"}       \* the two except-clauses of with_connection
FaultKinds == SqlFaults \cup {"PythonError"}

---------------------------------------------------------------------------
(* Part 1: the discipline of one connection.                               *)
(* event = [e : open|exec|script|pyerr|commit|rollback|close, k, sql, ...]  *)
(* K = number of statements of the fault-free call (known from its log).   *)
DInit == [conn |-> "none", k |-> 0, fault |-> "", commits |-> 0, rollbacks |-> 0, bad |-> ""]

\* "The file changes only at commit, and a process that dies before leaves the old content" holds because
\* the rollback journal is a FILE next to the database: pages that overflow SQLite's page cache are written
\* into the database before the commit and are undone from that journal by the next reader.  A pragma that
\* takes the journal out of the file system removes this guarantee for every transaction larger than the
\* cache.  (journal_mode DELETE / TRUNCATE / PERSIST / WAL keep it; synchronous only matters for power loss,
\* which the property does not quantify over; every other pragma is harmless here.)
WeakensDurability(e) == e.sql = "pragma" /\ e.pname = "journal_mode" /\ e.pval \in {"memory", "off"}

IsHandled(f) == f \in Handled \/ f \in {"real:IntegrityError", "real:InterfaceError"}

\* "" when event e is legal in discipline state s, otherwise the rule it breaks
DReject(s, e, K) ==
  CASE e.e = "open" ->
         IF s.conn = "open" THEN "a second connection is opened inside the call"
         ELSE IF s.conn = "closed" THEN "the call opens another connection after closing the first"
         ELSE ""
    [] e.e = "exec" ->
         IF s.conn # "open" THEN "statement without an open connection"
         ELSE IF e.k # s.k + 1 THEN "statement counter does not advance by one"
         ELSE IF s.fault # "" THEN "a statement is issued after a failed one (the error was swallowed)"
         ELSE IF s.commits > 0 THEN "a statement is issued after the commit (commit in the middle of the call)"
         ELSE IF e.k = 1 /\ e.sql # "pragma" THEN "the first statement is not PRAGMA foreign_keys"
         ELSE IF WeakensDurability(e) THEN "durability_assumption: the rollback journal is taken out of the file system (journal_mode memory/off)"
         ELSE ""
    [] e.e = "pyerr" -> ""
    \* cursor.executescript first COMMITs whatever is pending and then runs its statements in autocommit mode:
    \* nothing of it belongs to the transaction of the call
    [] e.e = "script" -> "executescript inside the call (implicit COMMIT, its statements commit one by one)"
    [] e.e = "commit" ->
         IF s.conn # "open" THEN "commit without an open connection"
         ELSE IF s.fault # "" THEN "commit although a statement failed"
         ELSE IF s.commits > 0 THEN "more than one commit in one call"
         ELSE IF s.k < K THEN "commit before the last statement of the call"
         ELSE ""
    [] e.e = "rollback" ->
         IF s.conn # "open" THEN "rollback without an open connection" ELSE ""
    [] e.e = "close" ->
         IF s.conn # "open" THEN "close without an open connection" ELSE ""
    [] OTHER -> "unknown event"

DStep(s, e) ==
  CASE e.e = "open"     -> [s EXCEPT !.conn = "open"]
    [] e.e = "exec"     -> [s EXCEPT !.k = e.k, !.fault = e.fault]
    [] e.e = "pyerr"    -> [s EXCEPT !.fault = "PythonError"]
    [] e.e = "commit"   -> [s EXCEPT !.commits = @ + 1]
    [] e.e = "rollback" -> [s EXCEPT !.rollbacks = @ + 1]
    [] e.e = "close"    -> [s EXCEPT !.conn = "closed"]
    [] OTHER -> s

\* end of the call: outcome is what the caller saw ("ok", "refused", "error", "crash")
DFinal(s, outcome) ==
  IF outcome = "crash" THEN ""            \* any prefix of a legal sequence
  ELSE IF s.conn # "closed" THEN "the connection is not closed when the call returns"
  ELSE IF outcome = "ok" /\ s.commits # 1 THEN "success without exactly one commit"
  ELSE IF outcome = "ok" /\ s.fault # "" THEN "success reported although a statement failed"
  ELSE IF outcome # "ok" /\ s.commits # 0 THEN "a failing call committed"
  ELSE IF outcome # "ok" /\ IsHandled(s.fault) /\ s.rollbacks = 0 THEN "no rollback on a handled database error"
  ELSE ""

---------------------------------------------------------------------------
(* Part 2: the machine.                                                    *)
(* A shape is [name, K, writes, swallow, regAt, regInit, regSet, itemWhen,  *)
(* auto]:                                                                  *)
(*   writes  - statements 2..K that modify rows                            *)
(*   swallow - statements whose IntegrityError is caught by a local        *)
(*             try/except inside the body (sqlite.py:207-217, 546-556)     *)
(*   regAt   - statements AFTER which the body appends to a session        *)
(*             registry (MATERIAL_LIST / ADSORBATE_LIST)                   *)
(*   regInit - the registry holds the item when the call starts            *)
(*   regSet  - what the body makes of it: TRUE (append) / FALSE (remove)   *)
(*   itemWhen- when the FILE holds the item: "post" (the call inserts it), *)
(*             "pre" (the call deletes it), "always" (it overwrites it)    *)
(*   auto    - the call decides an auto-insert by looking at that registry *)
(* The database is abstracted to the set of write statements whose effect  *)
(* it contains: pre = {}, post_complete = shape.writes.                    *)
(* Mode "required": what the property needs (no local swallowing, registry *)
(* touched only after a successful commit).  Mode "implemented": what the  *)
(* code does.                                                              *)
(***************************************************************************)
CONSTANTS Shapes, Mode,
          Journal      \* "disk" (SQLite's default rollback journal) or "memory" (journal_mode MEMORY / OFF)

VARIABLES sh,        \* the shape of the call being executed
          pc,        \* next statement
          conn,      \* none / open / closed
          work,      \* effects applied inside the open transaction
          durable,   \* effects in the database file
          reg,       \* the session registry holds the item this call (auto-)inserts
          phase,     \* run / raise_h (handled error) / raise_u (unhandled) / committing / done
          status,    \* running / ok / refused / error / crashed
          log,       \* what happened, for reporting: <<k, kind>> of the injected fault or crash
          spill      \* effects of the open transaction whose pages overflowed the page cache INTO THE FILE
vars == <<sh, pc, conn, work, durable, reg, phase, status, log, spill>>

Post(s) == s.writes

MInit == /\ sh \in Shapes /\ pc = 1 /\ conn = "none" /\ work = {} /\ durable = {} /\ reg = sh.regInit
         /\ phase = "run" /\ status = "running" /\ log = <<0, "none">> /\ spill = {}

\* at any moment of a large transaction the page cache may overflow: what was written so far goes into
\* the database file (the original pages having been saved in the journal first)
Spill == /\ phase = "run" /\ conn = "open" /\ spill # work /\ spill' = work
         /\ UNCHANGED <<sh, pc, conn, work, durable, reg, phase, status, log>>

Open == /\ phase = "run" /\ conn = "none" /\ conn' = "open"
        /\ UNCHANGED <<sh, pc, work, durable, reg, phase, status, log, spill>>

RegAfter(k) == IF Mode = "implemented" /\ k \in sh.regAt THEN sh.regSet ELSE reg

\* statement pc executes
Stmt == /\ phase = "run" /\ conn = "open" /\ pc <= sh.K
        /\ work' = IF pc \in sh.writes THEN work \cup {pc} ELSE work
        /\ reg' = RegAfter(pc)
        /\ pc' = pc + 1
        /\ UNCHANGED <<sh, conn, durable, phase, status, log, spill>>

\* statement pc is rejected by the database / the storage layer with `kind`
Fault(kind) ==
        /\ phase = "run" /\ conn = "open" /\ pc <= sh.K /\ log[2] = "none" /\ kind \in SqlFaults
        /\ log' = <<pc, kind>>
        /\ IF Mode = "implemented" /\ kind = "IntegrityError" /\ pc \in sh.swallow
           \* except sqlite3.IntegrityError: pass  - the rest of the guarded block is skipped, the body goes on
           THEN /\ pc' = 1 + CHOOSE m \in sh.swallow : \A n \in sh.swallow : n <= m
                /\ reg' = reg
                /\ UNCHANGED <<sh, conn, work, durable, phase, status, spill>>
           ELSE /\ phase' = IF kind \in Handled THEN "raise_h" ELSE "raise_u"
                /\ UNCHANGED <<sh, pc, conn, work, durable, reg, status, spill>>

\* a Python exception between statement pc-1 and statement pc
PyFault == /\ phase = "run" /\ conn = "open" /\ pc >= 2 /\ pc <= sh.K + 1 /\ log[2] = "none"
           /\ log' = <<pc - 1, "PythonError">> /\ phase' = "raise_u"
           /\ UNCHANGED <<sh, pc, conn, work, durable, reg, status, spill>>

\* while the process lives the journal - on disk or in memory - undoes spilled pages
Rollback == /\ phase = "raise_h" /\ conn = "open" /\ work' = {} /\ spill' = {} /\ phase' = "raise_u"
            /\ status' = "refused"
            /\ UNCHANGED <<sh, pc, conn, durable, reg, log>>

\* finally: close; pending changes of an uncommitted transaction are discarded
CloseAfterError == /\ phase = "raise_u" /\ conn = "open" /\ conn' = "closed" /\ work' = {} /\ spill' = {}
                   /\ status' = IF status = "refused" THEN "refused" ELSE "error"
                   /\ phase' = "done"
                   /\ UNCHANGED <<sh, pc, durable, reg, log>>

CommitBegin == /\ phase = "run" /\ conn = "open" /\ pc = sh.K + 1 /\ phase' = "committing"
               /\ UNCHANGED <<sh, pc, conn, work, durable, reg, status, log, spill>>
\* the journal is in place: from here on the file holds the old or the new content, nothing else
CommitEnd == /\ phase = "committing" /\ durable' = durable \cup work /\ work' = {} /\ spill' = {}
             /\ conn' = "closed" /\ phase' = "done" /\ status' = "ok"
             /\ reg' = IF Mode = "required" /\ sh.regAt # {} THEN sh.regSet ELSE reg
             /\ UNCHANGED <<sh, pc, log>>

\* the process dies: with the journal on disk nothing of an open transaction stays in the file (the hot
\* journal is rolled back by the next reader); inside the commit either all or nothing; the session
\* registries die with the process
Crash == /\ status = "running" /\ phase \in {"run", "committing", "raise_h", "raise_u"} /\ log[2] = "none"
         /\ log' = <<pc, "crash">>
         /\ \/ Journal = "disk" /\ durable' = durable                 \* hot journal: the next reader undoes the spill
            \/ Journal # "disk" /\ durable' = durable \cup spill     \* the journal died with the process
            \/ phase = "committing" /\ durable' = durable \cup work
         /\ work' = {} /\ spill' = {} /\ conn' = "closed" /\ reg' = FALSE /\ phase' = "done" /\ status' = "crashed"
         /\ UNCHANGED <<sh, pc>>

MNext == Open \/ Spill \/ Stmt \/ (\E kind \in SqlFaults : Fault(kind)) \/ PyFault \/ Rollback
         \/ CloseAfterError \/ CommitBegin \/ CommitEnd \/ Crash
MSpec == MInit /\ [][MNext]_vars

---------------------------------------------------------------------------
(* The clauses of property C09 on the machine.                             *)
Done == phase = "done"
\* the file contains the complete effect of the operation or none of it
Atomic == durable \in {{}, Post(sh)}
\* ... at every instant, not only at the end (a reader may come at any time; a crash may)
AtomicAlways == durable \in {{}, Post(sh)}
OutcomeMatches == Done => /\ (status = "ok" => durable = Post(sh))
                          /\ (status \in {"refused", "error"} => durable = {})
\* the same call issued again succeeds iff it would have from the pre-state: for a call that decides
\* an auto-insert by the registry this needs registry and file to agree about the item
ItemInFile == CASE sh.itemWhen = "post" -> durable = Post(sh) /\ Post(sh) # {}
                [] sh.itemWhen = "pre" -> durable = {}
                [] OTHER -> TRUE
\* registry and file agree about the item once the call is over (a crash takes the registry with it)
\* (judged only when they agreed before the call: another file of the session may hold the item)
InitAgree == sh.regInit <=> (sh.itemWhen # "post")
Agree == (InitAgree /\ Done /\ status # "crashed" /\ sh.regAt # {}) => (reg <=> ItemInFile)
Repeatable == sh.auto => Agree
RegistryAgrees == ~sh.auto => Agree
NoCommitAfterFault == (status = "ok") => (log[2] = "none" \/ log[2] = "crash")

\* classification of a finished behaviour, for listing what the implemented mode breaks
Verdict == IF ~Done THEN "running"
           ELSE IF ~Atomic /\ status = "crashed" THEN "not_atomic:spilled_pages_stay_after_process_death"
           ELSE IF ~Atomic THEN "not_atomic:partial_effect_committed"
           ELSE IF status = "ok" /\ log[2] \in FaultKinds THEN "success_after_failed_statement"
           ELSE IF ~Repeatable THEN "not_repeatable:registry_keeps_item_the_database_rolled_back"
           ELSE IF ~RegistryAgrees THEN "registry_disagrees_with_database_after_failure"
           ELSE "fine"
=============================================================================
