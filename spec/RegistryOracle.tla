--------------------------- MODULE RegistryOracle ---------------------------
(***************************************************************************)
(* C20, registry part, evaluated by TLC on the REAL data: the registry as  *)
(* loaded at import (pygaps.ADSORBATE_LIST), data/adsorbates.json and an   *)
(* independent sqlite3 read of data/default.db, dumped by the driver to    *)
(* IOEnv.REG_DATA = [live |-> <<entry..>>, json |-> ..., db |-> ...].      *)
(*                                                                         *)
(* Queries (IOEnv.X_IN), one answer each:                                  *)
(*  [k |-> "strings"]                 every string the live registry       *)
(*                                    answers to (the driver renders each  *)
(*                                    in the case variants of Variants)    *)
(*  [k |-> "audit", src]              collisions / unlisted names / dups   *)
(*  [k |-> "agree", a, b]             differences between two sources      *)
(*  [k |-> "find", s, tail, got]      trace validation of one observed     *)
(*                                    lookup (Adsorbate.find or            *)
(*                                    isotherm.adsorbate) in registry      *)
(*                                    live \o tail; got = 1-based position *)
(*                                    of the object returned (0 = refused, *)
(*                                    -1 = an object not in the registry)  *)
(*  [k |-> "store", tail, e, post]    one observed Adsorbate(store=True)   *)
(***************************************************************************)
EXTENDS Registry, Json, IOUtils, SequencesExt

D == JsonDeserialize(IOEnv.REG_DATA)
Q == JsonDeserialize(IOEnv.X_IN)
Live == D.live
Src(n) == CASE n = "live" -> D.live [] n = "json" -> D.json [] n = "db" -> D.db

Variants == <<"lower", "upper", "title", "swapcase">>

LiveStrings == TLCEval(Strings(Live))
OwnerMap == TLCEval([s \in LiveStrings |-> Owners(Live, s)])
NamedMap == TLCEval([s \in LiveStrings |-> Named(Live, s)])
NLive == Len(Live)

\* Owners / Named in the registry Live \o tail, using the precomputed maps for the shipped part
OwnersIn(tail, s) == (IF s \in LiveStrings THEN OwnerMap[s] ELSE {})
                     \cup {NLive + i : i \in {j \in DOMAIN tail : s \in Eff(tail[j])}}
NamedIn(tail, s) == (IF s \in LiveStrings THEN NamedMap[s] ELSE {})
                    \cup {NLive + i : i \in {j \in DOMAIN tail : tail[j].lname = s}}
FindSpecIn(tail, s) == IF OwnersIn(tail, s) = {} THEN {None}
                       ELSE IF NamedIn(tail, s) # {} THEN NamedIn(tail, s) ELSE OwnersIn(tail, s)
FindImplIn(tail, s) == IF OwnersIn(tail, s) = {} THEN None ELSE MinOf(OwnersIn(tail, s))
NameAt(tail, i) == IF i = None THEN "<refused>" ELSE IF i < 0 THEN "<unregistered object>"
                   ELSE IF i <= NLive THEN Live[i].name ELSE tail[i - NLive].name


Audit(reg) ==
   [collisions |-> SetToSeq({[s |-> s, owners |-> SetToSeq({reg[i].name : i \in Owners(reg, s)})] : s \in Collisions(reg)}),
    name_not_listed |-> SetToSeq({reg[i].name : i \in NameNotListed(reg)}),
    dup_names |-> SetToSeq(DupNames(reg)),
    entries |-> Len(reg), strings |-> Cardinality(Strings(reg)),
    unique_owner |-> UniqueOwner(reg)]

Step(q) ==
  CASE q.k = "strings" -> [strings |-> SetToSeq(LiveStrings), variants |-> Variants, entries |-> NLive]
    [] q.k = "audit" -> Audit(Src(q.src))
    [] q.k = "agree" -> [diff |-> SetToSeq({[i |-> d[1], what |-> d[2],
                                             name |-> IF d[1] = 0 THEN "" ELSE Src(q.a)[d[1]].name] : d \in Disagree(Src(q.a), Src(q.b))})]
    [] q.k = "find" ->
         LET allowed == FindSpecIn(q.tail, q.s)
             impl == FindImplIn(q.tail, q.s)
         IN [ok |-> q.got \in allowed,
             expected |-> SetToSeq({NameAt(q.tail, i) : i \in allowed}),
             got |-> NameAt(q.tail, q.got),
             impl_predicts |-> NameAt(q.tail, impl),
             owners |-> Cardinality(OwnersIn(q.tail, q.s)),
             \* a string of the shipped registry keeps its shipped (first) owner whatever the tail holds
             shipped_ok |-> (q.s \in LiveStrings) => (q.got = MinOf(OwnerMap[q.s]))]
    [] q.k = "store" ->
         LET dupname == (\E i \in DOMAIN Live : Live[i].name = q.e.name) \/ (\E i \in DOMAIN q.tail : q.tail[i].name = q.e.name)
         IN [ok |-> q.post \in {q.tail, Append(q.tail, q.e)},                        \* StoreSpec on the user tail
             impl_ok |-> q.post = (IF dupname THEN q.tail ELSE Append(q.tail, q.e)),   \* StoreImpl
             stable |-> \A s \in LiveStrings : FindImplIn(q.post, s) = MinOf(OwnerMap[s])]  \* ShippedStable

    [] q.k = "dbop" ->
         \* q: [op, name, outcome, e (entry of the adsorbate operated on AS IT WAS BEFORE the operation), pre / post
         \*     (registry as name sequences), sweep << [site, s, before, after, before_backend, after_backend] >>
         \*     (lookup results as adsorbate names before and after the operation, and the backend link of the object found)]
         LET affected(s) == s \in Eff(q.e)
             moved == {i \in DOMAIN q.sweep :
                         \/ ~LookupStepSpec(q.op, q.name, q.outcome, affected(q.sweep[i].s), q.sweep[i].before, q.sweep[i].after)
                         \/ (q.sweep[i].after = q.sweep[i].before /\ q.sweep[i].after_backend # q.sweep[i].before_backend)}
         IN [ok |-> DbStepSpec(q.op, q.name, q.outcome, q.pre, q.post),
             lookups_changed |-> SetToSeq({q.sweep[i] : i \in moved}),
             shipped_prefix_kept |-> (q.outcome = "refused" \/ q.op = "from_db") => q.post = q.pre]
    [] q.k = "roundtrip" ->
         \* an adsorbate read back from a database it was uploaded to answers to the same strings and keeps its backend link
         [diff |-> EntryDiff(q.a, q.b)]

ASSUME JsonSerialize(IOEnv.X_OUT, [i \in 1..Len(Q) |-> Step(Q[i])])
VARIABLE x
Init == x = 0
Next == x' = x
=============================================================================
