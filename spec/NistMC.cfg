SPECIFICATION SpecMC
INVARIANT SpecSane
INVARIANT OnlyKnownDivergence
CHECK_DEADLOCK FALSE
