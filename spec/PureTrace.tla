------------------------------ MODULE PureTrace ------------------------------
(***************************************************************************)
(* Trace validation of the purity log recorded by harness/purity.py (C04). *)
(*                                                                         *)
(* One event per (entry point, variant, fixture):                          *)
(*   site, variant                                                         *)
(*   before, after1, after2 : role -> observation (record of digests);     *)
(*       roles are the isotherms / adsorbates / materials passed in plus   *)
(*       "globals" (registries by value, class-level defaults, tables)     *)
(*   out  : first, second (same call again on the same objects),           *)
(*          fresh (same call on freshly built equal objects),              *)
(*          and when cache = TRUE: cold (module caches and backend state   *)
(*          cleared first), cross (caches cleared, then filled through a   *)
(*          call with ANOTHER resource / state point, then this call)      *)
(*   dist : for every outcome but first, the float64 relative distance of  *)
(*          its numeric payload to that of first (DecFloat)                *)
(* The clauses are those of spec/Pure.tla:                                 *)
(*   unchanged: Unchanged(before, after1) and Unchanged(after1, after2)    *)
(*              for every role, field by field                             *)
(*   repeat   : SameOutcome(first, second)                                 *)
(*   fresh    : SameOutcome(first, fresh)                                  *)
(*   cache    : SameOutcome(first, cold) /\ SameOutcome(first, cross)      *)
(* The answer names every failing clause with the role and field.          *)
(***************************************************************************)
EXTENDS Pure, Json, IOUtils, TLCExt

Log == JsonDeserialize(IOEnv.X_IN)

Required == {"first", "second", "fresh"}
CacheRequired == {"cold", "cross"}
WellFormed(e) ==
   /\ DOMAIN e.after1 = DOMAIN e.before /\ DOMAIN e.after2 = DOMAIN e.before
   /\ \A r \in DOMAIN e.before : DOMAIN e.after1[r] = DOMAIN e.before[r] /\ DOMAIN e.after2[r] = DOMAIN e.before[r]
   /\ "globals" \in DOMAIN e.before
   /\ Required \subseteq DOMAIN e.out
   /\ (e.cache => CacheRequired \subseteq DOMAIN e.out)
   /\ DOMAIN e.out \subseteq Required \cup CacheRequired
   /\ \A k \in DOMAIN e.out \ {"first"} : k \in DOMAIN e.dist
   /\ \A k \in DOMAIN e.out : e.out[k].kind \in {"value", "error"}

ClauseOf(k) == IF k = "second" THEN "repeat" ELSE IF k = "fresh" THEN "fresh" ELSE "cache"

Moved(e, x, y, call) ==
   UNION {{[clause |-> "unchanged", call |-> call, role |-> r, what |-> f] : f \in Changed(x[r], y[r])} : r \in DOMAIN x}

Differs(e) == {[clause |-> ClauseOf(k), call |-> k, role |-> "-", what |-> "outcome"] :
                 k \in {kk \in DOMAIN e.out \ {"first"} : ~SameOutcome(e.out.first, e.out[kk], e.dist[kk])}}

Verdict(e) ==
   IF ~WellFormed(e) THEN [wellformed |-> FALSE, ok |-> FALSE, fails |-> {}]
   ELSE LET fails == Moved(e, e.before, e.after1, "first") \cup Moved(e, e.after1, e.after2, "second") \cup Differs(e)
        IN [wellformed |-> TRUE, ok |-> fails = {}, fails |-> fails]

ASSUME JsonSerialize(IOEnv.X_OUT, [i \in 1..Len(Log) |-> Verdict(Log[i])])

\* the oracle is ASSUME-only; the model's variables idle (spec/Oracle.cfg: INIT Init / NEXT Next)
TInit == Init
TNext == UNCHANGED vars
=============================================================================
