----------------------------- MODULE RegistryMC -----------------------------
(***************************************************************************)
(* The registry as a state machine: a shipped prefix that satisfies the    *)
(* property, then ANY history of user adsorbates stored with               *)
(* Adsorbate(name, alias=..., store=True) - names that repeat a shipped    *)
(* name (same or different letter case), alias lists that steal shipped    *)
(* names and aliases - interleaved with lookups.  TLC explores all         *)
(* histories up to MaxUser stored entries and checks that the shipped      *)
(* adsorbates keep resolving to themselves (first-match + append-at-end),  *)
(* that a store is one of the steps StoreSpec allows, and that a name is   *)
(* never registered twice.                                                 *)
(* Strings: lower-case letters are folded strings; "A" is the string "a"   *)
(* in another letter case.                                                 *)
(***************************************************************************)
EXTENDS Registry

Fold == [a |-> "a", A |-> "a", b |-> "b", c |-> "c", C |-> "c"]
Shipped == << [name |-> "a", lname |-> "a", alias |-> <<"a", "x">>, backend |-> "BA"],
              [name |-> "b", lname |-> "b", alias |-> <<"y", "b">>, backend |-> ""] >>
NShipped == Len(Shipped)
UserNames == {"a", "A", "c", "C"}
\* alias arguments a user may pass (already folded by the constructor); <<>> = alias omitted
AliasArgs == {<<>>, <<"x">>, <<"b">>, <<"z">>, <<"c">>, <<"a", "y">>, <<"z", "c">>, <<"x", "z">>}
MaxUser == 3

\* Adsorbate.__init__: alias list + folded name appended when absent
Mk(nm, al) == [name |-> nm, lname |-> Fold[nm],
               alias |-> IF Fold[nm] \in SeqSet(al) THEN al ELSE Append(al, Fold[nm]), backend |-> ""]
AllStrings == {"a", "b", "c", "x", "y", "z", "q"}

VARIABLES reg, last
vars == <<reg, last>>

Init == reg = Shipped /\ last = <<"init">>
Store(nm, al) == /\ Len(reg) < NShipped + MaxUser
                 /\ reg' = StoreImpl(reg, Mk(nm, al))
                 /\ last' = <<"store", nm, reg' # reg>>
Find(s) == /\ reg' = reg
           /\ last' = <<"find", s, FindImpl(reg, s)>>
\* adsorbate_delete_db: refused for a shipped adsorbate (isotherms in the file reference it) and for a
\* name the file does not hold; succeeds for a stored user adsorbate
DeleteDb(nm) == LET shippedName == \E i \in 1..NShipped : Shipped[i].name = nm
                    refused == shippedName \/ ~\E i \in DOMAIN reg : reg[i].name = nm
                IN /\ reg' = DbDeleteImpl(reg, nm, refused)
                   /\ last' = <<"delete", nm, refused,
                                DbStepSpec("delete", nm, IF refused THEN "refused" ELSE "ok",
                                           [i \in DOMAIN reg |-> reg[i].name],
                                           LET post == DbDeleteImpl(reg, nm, refused) IN [i \in DOMAIN post |-> post[i].name])>>
Next == \/ \E nm \in UserNames, al \in AliasArgs : Store(nm, al)
        \/ \E nm \in UserNames \cup {"b"} : DeleteDb(nm)
        \/ \E s \in AllStrings : Find(s)
Spec == Init /\ [][Next]_vars

\* shipped adsorbates resolve to themselves whatever was stored later
InvShippedStable == ShippedStable(reg, NShipped) /\ SubSeq(reg, 1, NShipped) = Shipped
InvShippedFind == \A s \in Strings(Shipped) : FindImpl(reg, s) \in FindSpec(Shipped, s)
\* the implementation's lookup result is always an entry that answers to the string
InvFindSound == \A s \in AllStrings :
                   LET r == FindImpl(reg, s) IN IF r = None THEN Owners(reg, s) = {} ELSE s \in Eff(reg[r])
InvNoDupName == \A i, j \in DOMAIN reg : reg[i].name = reg[j].name => i = j
InvLast == last[1] = "find" => last[3] = FindImpl(reg, last[2])
\* every database delete is a step DbStepSpec allows (a refused one changes nothing)
InvDbStep == last[1] = "delete" => last[4]
\* every step is a step the property allows
StepAllowed == [][\/ reg' = reg
                  \/ \E nm \in UserNames : reg' = DbDeleteImpl(reg, nm, FALSE) /\ SubSeq(reg', 1, NShipped) = Shipped
                  \/ \E nm \in UserNames, al \in AliasArgs : reg' \in StoreSpec(reg, Mk(nm, al))]_vars

\* the shipped prefix of the model satisfies the property (sanity of the model itself)
ASSUME UniqueOwner(Shipped) /\ NameNotListed(Shipped) = {} /\ DupNames(Shipped) = {}
\* where first-match lookup leaves the prescriptive FindSpec once users add colliding entries:
\* (registry, string) pairs where the entry NAMED s exists but an earlier entry lists s
Shadowed(r) == {s \in AllStrings : FindImpl(r, s) \notin FindSpec(r, s)}
=============================================================================
