---------------------------- MODULE AccessPlanMC ----------------------------
(***************************************************************************)
(* C15 at design level, as a transition system: the state is an analysis   *)
(* and the label states of the isotherm(s) it is given; the transitions    *)
(* are PERMANENT CONVERSIONS (IsoConvert!ImplStep with a fully named       *)
(* target) of the sample or of the reference / second isotherm.  From the  *)
(* representation the fixture files are stored in, TLC reaches every       *)
(* stored representation of the factorised space                           *)
(*   P  : 10 pressure representations (x 10 for two-isotherm analyses)     *)
(*   T  : 2 temperature units (x 2)                                        *)
(*   LM : non-fractional loading x material representations (CoverL x      *)
(*        CoverM; pairs for two-isotherm analyses)                         *)
(* and checks in every state that                                          *)
(*   ClassExact      : the first clause of the property the access plan    *)
(*                     violates there (PlanClass) is the one the closed-   *)
(*                     form class table names - so the table printed below *)
(*                     is the complete list of diverging representations   *)
(*   Invariance      : wherever the plan conforms, what reaches the        *)
(*                     numeric core differs from what reached it in the    *)
(*                     start representation by exactly the own-material    *)
(*                     monomial (own-unit monomials for Henry constants)   *)
(*   StaysValid      : conversions keep the isotherms valid and            *)
(*                     non-fractional                                      *)
(***************************************************************************)
EXTENDS AccessPlan

CONSTANT CoverL1, CoverM1,       \* loading / material representations explored for one-isotherm analyses
         CoverL2, CoverM2        \* ... for each isotherm of a two-isotherm analysis
AllL == NonFracL
AllM == MReps
QuickL == {r \in NonFracL : r[2] \in {"mmol", "mol", "cm3(STP)", "g", "kg", "cm3", "L"}}
QuickM == {r \in MReps : r[2] \in {"g", "kg", "cm3", "mol"}}
TinyL == {r \in NonFracL : r[2] \in {"mmol", "cm3(STP)", "mg", "cm3"}}
TinyM == {r \in MReps : r[2] \in {"g", "cm3", "mol"}}
MidM == {r \in MReps : r[2] \in {"g", "kg", "mg", "cm3", "L", "mol", "mmol"}}

VARIABLES an, part, sS, sR
vars == <<an, part, sS, sR>>

Base == [pm |-> "absolute", pu |-> "bar", lb |-> "molar", lu |-> "mmol", mb |-> "mass", mu |-> "g", tu |-> "K"]
Op(k, a, u) == [k |-> k, a |-> a, u |-> u, pa |-> N, pu |-> N, la |-> N, lu |-> N, ma |-> N, mu |-> N]
CL(a) == IF a \in TwoIso THEN CoverL2 ELSE CoverL1
CM(a) == IF a \in TwoIso THEN CoverM2 ELSE CoverM1
Ops(a, pt) == CASE pt = "P" -> {Op("CP", r[1], r[2]) : r \in PReps}
                [] pt = "T" -> {Op("CT", N, u) : u \in TempU}
                [] pt = "LM" -> {Op("CL", r[1], r[2]) : r \in CL(a)} \cup {Op("CM", r[1], r[2]) : r \in CM(a)}

Init == an \in Analyses /\ part \in {"P", "T", "LM"} /\ sS = Base /\ sR = Base
ConvS(op) == LET r == ImplStep(sS, op) IN r.out = "ok" /\ sS' = r.s /\ UNCHANGED <<an, part, sR>>
ConvR(op) == LET r == ImplStep(sR, op) IN an \in TwoIso /\ r.out = "ok" /\ sR' = r.s /\ UNCHANGED <<an, part, sS>>
Next == \E op \in Ops(an, part) : ConvS(op) \/ ConvR(op)
Spec == Init /\ [][Next]_vars

StaysValid == IsoValid(sS) /\ IsoValid(sR) /\ ~Frac(sS.lb) /\ ~Frac(sR.lb)
ClassExact == PlanClass(an, sS, sR) = ClassTable(an, sS, sR)
\* what reaches the core, slot by slot, compared with the start representation
Invariance ==
   PlanClass(an, sS, sR) = "ok" /\ PlanClass(an, Base, Base) = "ok" =>
      LET p == Plan(an, sS, sR)  e1 == Evals(an, sS, sR)  e0 == Evals(an, Base, Base) IN
      \A i \in 1..Len(p) :
         LET own == CoreWant(an, p[i], sS, sR) # <<"any">>
             s1 == RoleState(p[i].role, sS, sR)   s0 == RoleState(p[i].role, Base, Base)
             henry == an \in {"initial_henry_slope", "initial_henry_virial"}
             isL == OutL(p[i].acc)
             want == IF henry THEN (IF isL THEN Phys(Plus(OwnL(s0, s1), OwnM(s0, s1))) ELSE Phys(OwnP(s0, s1)))
                     ELSE IF isL /\ an # "psd_dft" THEN
                          (IF p[i].slot = "range" THEN Phys(Plus(OwnL(Base, sS), OwnM(Base, sS))) ELSE Phys(OwnM(s0, s1)))
                     ELSE Zero
         IN own => Phys(Minus(e1[i].out, e0[i].out)) = want

\* the class table, printed once (the driver obtains the same through AccessPlanOracle)
PairsP == {<<[Base EXCEPT !.pm = a[1], !.pu = a[2]], [Base EXCEPT !.pm = b[1], !.pu = b[2]]>> : a \in PReps, b \in PReps}
ASSUME PrintT(<<"C15 classes over pressure pairs", {<<a, c, Cardinality({q \in PairsP : ClassTable(a, q[1], q[2]) = c})>> :
                  a \in TwoIso \cup {"enthalpy_sorption_whittaker"},
                  c \in {"ok", "abscissa_distorted:ref_loading", "pressures_not_absolute", "pressures_in_different_units", "wrong_unit:model_pressure"}}>>)
=============================================================================
