"""Projection and fixtures for isotherm-level drivers (C02, C03, C04, C15)."""
import numpy

from .common import MachineryError
from .units_common import enc

PRES_U = ("Pa", "kPa", "MPa", "mbar", "bar", "atm", "mmHg", "torr")
MOLAR_U = ("mmol", "mol", "kmol", "cm3(STP)", "mL(STP)", "cc(STP)", "L(STP)")
MASS_U = ("amu", "mg", "cg", "dg", "g", "kg")
VOL_U = ("cm3", "mL", "cc", "dm3", "L", "m3")
MODES = ("absolute", "relative", "relative%")
LBASES = ("mass", "molar", "volume_gas", "volume_liquid", "fraction", "percent")
MBASES = ("mass", "molar", "volume")
ALL_LMU = MOLAR_U + MASS_U + VOL_U


def lunits(b):
    return {"mass": MASS_U, "molar": MOLAR_U, "volume_gas": VOL_U, "volume_liquid": VOL_U}.get(b, ())


def munits(b):
    return {"mass": MASS_U, "molar": MOLAR_U, "volume": VOL_U}.get(b, ())


def enc_temp(u):
    if u is None or u == "":
        return "none"
    if u == "K":
        return "K"
    if isinstance(u, str) and "c" in u.lower():
        return "degC" if u == "°C" else "C"
    return "bogus"


def labels_of(iso):
    """Abstract label state of a real isotherm (spec/IsoConvert.tla record)."""
    u = iso.units
    tu = u["temperature_unit"]
    return {
        "pm": enc(u["pressure_mode"], MODES),
        "pu": enc(u["pressure_unit"], PRES_U),
        "lb": enc(u["loading_basis"], LBASES),
        "lu": enc(u["loading_unit"], ALL_LMU),
        "mb": enc(u["material_basis"], MBASES),
        "mu": enc(u["material_unit"], ALL_LMU),
        "tu": "K" if tu == "K" else ("degC" if tu == "°C" else "bogus"),
    }


def py_labels(s):
    """spec labels -> constructor keyword arguments."""
    def d(x):
        return None if x == "none" else x
    return dict(
        pressure_mode=s["pm"], pressure_unit=d(s["pu"]),
        loading_basis=s["lb"], loading_unit=d(s["lu"]),
        material_basis=s["mb"], material_unit=d(s["mu"]),
        temperature_unit="K" if s["tu"] == "K" else "°C",
    )


def make_point(s, ads, mat, temp_k, pressure, loading, branch=None, extra=None, meta=None):
    """A PointIsotherm labelled s with the given raw numbers (no conversion implied)."""
    import pandas
    import pygaps
    cols = {"pressure": list(pressure), "loading": list(loading)}
    if branch is not None:
        cols["branch"] = list(branch)
    for k, v in (extra or {}).items():
        cols[k] = list(v)
    df = pandas.DataFrame(cols)
    kw = py_labels(s)
    t = temp_k if kw["temperature_unit"] == "K" else temp_k - 273.15
    return pygaps.PointIsotherm(
        isotherm_data=df, pressure_key="pressure", loading_key="loading",
        material=mat if isinstance(mat, str) else mat.name, adsorbate=ads if isinstance(ads, str) else ads.name,
        temperature=t, **kw, **(meta or {}))


def snapshot(iso):
    """Everything observable that a conversion / read-only call must not touch, by value."""
    d = iso.data_raw
    aux_cols = [c for c in d.columns if c not in (iso.pressure_key, iso.loading_key)]
    return {
        "labels": labels_of(iso),
        "pressure": d[iso.pressure_key].to_numpy(dtype=float).copy(),
        "loading": d[iso.loading_key].to_numpy(dtype=float).copy(),
        "aux": {c: d[c].tolist() for c in aux_cols},
        "columns": list(d.columns),
        "index": list(d.index),
        "properties": repr(sorted(iso.properties.items(), key=lambda kv: str(kv[0]))),
        "t_stored": float(iso._temperature),
        "t_kelvin": float(iso.temperature),
        "material": (str(iso.material), repr(sorted(iso.material.properties.items()))),
        "adsorbate": (str(iso.adsorbate), repr(sorted((k, repr(v)) for k, v in iso.adsorbate.properties.items()))),
    }


def const_ratio(post, pre, tol=1e-9):
    """post/pre if constant over rows (to tol), else None."""
    r = numpy.asarray(post, dtype=float) / numpy.asarray(pre, dtype=float)
    if r.size == 0 or not numpy.all(numpy.isfinite(r)):
        return None
    if numpy.max(numpy.abs(r - r[0])) > tol * max(abs(r[0]), 1e-300):
        return None
    return float(r[0])


def revalidate(iso):
    """The literal acceptance test of the property: feed to_dict() + data back to the constructor."""
    import pygaps
    d = iso.to_dict()
    return pygaps.PointIsotherm(
        isotherm_data=iso.data_raw.copy(), pressure_key=iso.pressure_key, loading_key=iso.loading_key, **d)
