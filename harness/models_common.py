"""Shared pieces of the isotherm-model drivers (C10, C11): building bare models from the
rational parameter records of spec/Models.tla, running a model call and classifying the outcome."""
from fractions import Fraction

from .common import exc_class
from .encode import dec_enc

FORMS = ("scalar", "0d", "1d")


def frac(r):
    return Fraction(int(r[0]), int(r[1]))


def fpar(par):
    """{'K': [3, 10], ...} -> {'K': 0.3, ...}"""
    return {k: float(frac(v)) for k, v in par.items()}


def par_key(par):
    return tuple(sorted((k, int(v[0]), int(v[1])) for k, v in par.items()))


def build(name, par):
    from pygaps.modelling import get_isotherm_model
    return get_isotherm_model(name, parameters=fpar(par))


def shape_arg(form, values):
    """values: list of floats -> the argument object of this container form
    (scalar / 0-d forms take one value per call, 1-d takes them all)."""
    import numpy
    if form == "scalar":
        return [float(v) for v in values]
    if form == "0d":
        return [numpy.array(float(v)) for v in values]
    return [numpy.array([float(v) for v in values])]


class Outcome:
    """st: 0 finite value(s), 1 refused with CalculationError, 2 non-finite value, 3 other exception."""
    __slots__ = ("st", "exc", "raw", "vals", "msg")

    def __init__(self, st, exc=None, raw=None, vals=None, msg=""):
        self.st, self.exc, self.raw, self.vals, self.msg = st, exc, raw, vals, msg


def call(fn, arg, n_expected):
    """Run fn(arg); the result must carry n_expected numbers."""
    import numpy
    try:
        raw = fn(arg)
    except Exception as e:  # noqa: BLE001 - the class of the exception is the observation
        c = exc_class(e)
        return Outcome(1 if c == "CalculationError" else 3, c, msg=str(e)[:160])
    try:
        vals = numpy.asarray(raw, dtype=float).ravel()
    except Exception as e:  # a non-numeric return value (e.g. an exception class object)
        return Outcome(3, "non-numeric:" + type(raw).__name__, raw=raw, msg=str(e)[:160])
    if vals.size != n_expected:
        return Outcome(3, f"shape:{vals.size}!={n_expected}", raw=raw, vals=vals)
    return Outcome(0, raw=raw, vals=vals)


def per_point(outcomes_vals, i):
    """status of element i of an Outcome (non-finite is per element)."""
    import math
    o = outcomes_vals
    if o.st != 0:
        return o.st
    return 0 if math.isfinite(o.vals[i]) else 2


def denc(v):
    """dec_enc with flush-to-zero below 1e-290 (encode.dec_enc overflows on subnormal magnitudes)."""
    v = float(v)
    return [0, 0] if abs(v) < 1e-290 else dec_enc(v)
