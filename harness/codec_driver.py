"""Driver shared by C06 (JSON) and C07 (CSV, Excel, AIF).

1. TLC checks spec/CodecMC exhaustively: the abstract document store (Export / Import of one metadata
   entry through every format, in any order), the chain properties of the specification codec and the
   complete list of places where the transcribed implementation leaves it.
2. spec/CodecOracle enumerates the scenario rows (Codec!Rows: products of the interacting dimensions +
   an orthogonal array that covers every pair of dimension values).
3. Every row is materialised on the real code (harness/codec_common.Builder), exported, imported, and
   both isotherms are projected to abstract contents.
4. spec/CodecOracle judges every recorded round trip (Codec!Judge): verdict class, failing clauses,
   value domain, what the implementation model predicted.  Python only formats what TLC decided.
5. For a rejected round trip the configuration class of the signature is found by re-running the row
   with one dimension reset at a time (again judged by TLC).
"""
import os
import shutil
import tempfile

from .common import Run, MachineryError, quiet_pygaps
from . import tlc
from . import codec_common as cc

DEFAULTS = {
    "tclass": "K_frac", "matc": "name_plain", "ads": "known", "pmode": "absolute", "lbasis": "molar", "mbasis": "mass",
    "target": "string", "sep": "comma",
}
DEFAULT_LAYOUT = {"point": "ads_only", "model": "constructed", "base": "na"}
ROWKEYS = ["fmt", "cls", "pmode", "lbasis", "mbasis", "tclass", "layout", "vc", "kc", "model", "target", "sep", "matc", "ads", "rep", "mag", "rowlab", "reg"]
NOFEAT = cc._feat("none")


def rowkey(row):
    return tuple(row[k] for k in ROWKEYS)


class Session:
    unbuilt = lambda self, row, e: _unbuilt(self, row, e)

    def __init__(self, run, seed):
        self.run = run
        self.builder = cc.Builder(seed)
        self.tmp = tempfile.mkdtemp(prefix="codec-", dir=os.environ.get("VERIF_TMP") or None)
        self.n = 0

    def close(self):
        shutil.rmtree(self.tmp, ignore_errors=True)

    def observe(self, row):
        """Run one row on the real code. Returns a judge record (or None when the original isotherm
        cannot be built, which is not a codec matter)."""
        fmt = row["fmt"]
        try:
            iso = self.builder.build(row)
        except Exception as e:
            return self.unbuilt(row, e)
        before = cc.project(iso)
        rt = cc.roundtrip(iso, row, self.tmp, again=(fmt == "json"))
        key, val = self.builder.focus(row)
        rec = {
            "k": "judge", "fmt": fmt, "kc": row["kc"], "vc": row["vc"], "target": row["target"], "sep": row["sep"], "layout": row["layout"], "reg": row.get("reg", "none"),
            "regkeys": [cc._esc(k) for k in cc.REGISTRY_ONLY_KEYS] if row.get("reg") == "same_different" else [],
            "feat": cc.features(val, row.get("sep", "na")) if key is not None else NOFEAT,
            "focus": cc._esc(key) if key is not None else "",
            "stage": rt["stage"], "exc": rt["exc"], "pg": bool(rt["pg"]),
            "before": before, "after": before,
            "docs": {"first": cc.doc_digest(rt["doc"]), "again": "", "string": ""},
        }
        if rt["stage"] == "done":
            rec["after"] = cc.project(rt["iso2"])
            if rt.get("doc2") is not None:
                rec["docs"]["again"] = cc.doc_digest(rt["doc2"]) if not str(rt["doc2"]).startswith("raise:") else rt["doc2"]
            if rt.get("doc_str") is not None:
                rec["docs"]["string"] = cc.doc_digest(rt["doc_str"])
        rec["_msg"] = rt["msg"]
        return rec


def _raised_in_library(e):
    """Was the exception raised while pyGAPS code was running (any traceback frame in the tree under test)?"""
    import traceback
    from .common import SRC
    return any(os.path.abspath(f.filename).startswith(os.path.abspath(SRC)) for f in traceback.extract_tb(e.__traceback__))


def _unbuilt(self, row, e):
    """The scenario table only contains isotherms the constructor's own rules admit. A fit that does not converge is
    the one acceptable reason not to have an original; a refusal by the library is recorded and judged by the
    specification (clause valid_isotherm_refused_at_construction); anything raised by the harness itself is machinery."""
    from pygaps.utilities.exceptions import pgError
    name = cc.exc_class(e)
    if row["cls"] == "model" and row["layout"] in ("fitted", "fitted_int") and name == "CalculationError":
        return {"skip": "build:CalculationError"}
    if not isinstance(e, pgError) and not _raised_in_library(e):
        raise MachineryError(f"harness failure while materialising { {k: row[k] for k in ROWKEYS} }: {type(e).__name__}: {e}") from e
    key, val = self.builder.focus(row)
    empty = cc.empty_content()
    return {
        "k": "judge", "fmt": row["fmt"], "kc": row["kc"], "vc": row["vc"], "target": row["target"], "sep": row["sep"], "layout": row["layout"],
        "reg": row.get("reg", "none"), "regkeys": [],
        "feat": cc.features(val, row.get("sep", "na")) if key is not None else NOFEAT,
        "focus": cc._esc(key) if key is not None else "",
        "stage": "build", "exc": name, "pg": isinstance(e, pgError), "before": empty, "after": empty,
        "docs": {"first": "", "again": "", "string": ""}, "_msg": str(e)[:160],
    }


def strip(rec):
    return {k: v for k, v in rec.items() if not k.startswith("_")}


def label(l):
    return l[0] + (":" + l[1] if l[1] else "")


GROUPS = [
    ("focus", {"focus_metadata"}),
    ("data", {"branch_marks", "data_values", "data_columns"}),
    ("model", {"model_name", "model_parameters", "model_ranges", "model_rmse", "model_predictions"}),
]


def parts(rec, ans):
    """Independent parts of a rejected round trip: the refusal, or the failing clauses grouped by the part of
    the content they speak about. Each part gets its own signature."""
    if rec["stage"] == "build":
        return {"construction": f"valid_isotherm_refused_at_construction:{rec['exc']}"}
    if rec["stage"] != "done":
        return {"refusal": f"{rec['stage']}:{rec['exc']}"}
    f = set(ans["failing"])
    out = {}
    for name, g in GROUPS:
        if f & g:
            out[name] = ",".join(sorted(f & g)) + ("[" + label(ans["focus"]) + "]" if name == "focus" else "")
            f -= g
    for c in sorted(f):
        out[c] = c
    return out


def dtype_changes(rec):
    b, a = rec["before"]["data"].get("dtypes", []), rec["after"]["data"].get("dtypes", [])
    return ",".join(f"{x}->{y}" for x, y in zip(b, a) if x != y)


def variants(row):
    """The row with one dimension reset to its default, most specific first."""
    out = []
    if row["vc"] != "absent":
        out.append(("focus", dict(row, vc="absent", kc="none")))
    for d, v in DEFAULTS.items():
        if d == "target" and row["fmt"] == "xl":
            continue
        if d == "sep" and row["fmt"] != "csv":
            continue
        if row[d] != v:
            out.append((d, dict(row, **{d: v})))
    if row.get("reg", "none") != "none":
        out.append(("reg", dict(row, reg="none")))
    if row["cls"] != "base":
        if row["layout"] != DEFAULT_LAYOUT[row["cls"]]:
            out.append(("layout", dict(row, layout=DEFAULT_LAYOUT[row["cls"]])))
        if row["cls"] == "model" and row["model"] != "Langmuir":
            out.append(("model", dict(row, model="Langmuir")))
        if row["cls"] == "model" and row.get("mag", "order_one") != "order_one":
            out.append(("mag", dict(row, mag="order_one")))
        if row["cls"] == "point" and row.get("rowlab", "default") != "default":
            out.append(("rowlab", dict(row, rowlab="default")))
        out.append(("cls", dict(row, cls="base", layout="na", model="na", mag="na", rowlab="na")))
    return out


def judge_batch(recs):
    if not recs:
        return []
    return tlc.oracle("CodecOracle", [strip(r) for r in recs], timeout=1500, chunk=2500)


def run_codec(pid, fmts, tier, seed):
    quiet_pygaps()
    run = Run(pid, tier, seed, "exploration")
    thorough = tier == "thorough"

    # ---- 1. design level: exhaustive TLC run of the abstract document store
    res = tlc.must_pass("CodecMC", timeout=900)
    run.set(states=res["distinct"], transitions=res["states_generated"], tlc_depth=res["depth"],
            tlc_invariants=["SpecPreserves", "SpecFixpoint", "SpecRefusal", "ImplStable", "ImplChain", "ImplNeverLosesSilently"],
            tlc_assumptions=["DivergentVC/DivergentKC pins per format", "OAStrength2", "DimSizesFit"])
    for line in res["out"].splitlines():
        if "DESIGN-DIVERGENCE" in line:
            run.set(design_divergence=line.strip()[:400])

    # ---- 2. scenario rows from the specification
    rows = []
    for fmt, a in zip(fmts, tlc.oracle("CodecOracle", [{"k": "rows", "fmt": f, "tier": tier, "seed": seed} for f in fmts], timeout=600)):
        rows.extend(a["rows"])
    for i, r in enumerate(rows):
        r["n"] = i

    ses = Session(run, seed)
    try:
        # ---- 3. real code
        recs, live, unbuilt = [], [], []
        for r in rows:
            rec = ses.observe(r)
            nontrivial = not (r["cls"] == "base" and r["vc"] == "absent")
            if "skip" in rec:
                run.add("not_judged_" + rec["skip"].replace(":", "_"))
                continue
            if rec["stage"] == "build":
                unbuilt.append(r)
            run.count(rowkey(r), nontrivial=nontrivial)
            recs.append(rec)
            live.append(r)
        if rows and len(unbuilt) > 0.9 * len(rows):
            r0 = unbuilt[0]
            raise MachineryError(f"{len(unbuilt)} of {len(rows)} scenario rows could not be materialised, e.g. { {k: r0[k] for k in ROWKEYS} }: "
                                 "the environment is broken, not one configuration class")
        run.set(rows_refused_at_construction=len(unbuilt))
        # ---- 4. TLC judges
        answers = judge_batch(recs)
        # a refusal is only excused by an out-of-domain focus entry if that entry causes it: rows whose refusal
        # the implementation model does not predict are judged again without the focus entry (shadow rows)
        shadow = []
        for r, rec, ans in zip(live, recs, answers):
            if ans["ok"] and rec["stage"] != "done" and r["vc"] != "absent" and ans["impl"][0] not in ("refused_pg", "refused_other", "unknown"):
                shadow.append(dict(r, vc="absent", kc="none"))
        srecs = [(r, ses.observe(r)) for r in shadow]
        srecs = [(r, x) for r, x in srecs if "skip" not in x]
        sans = judge_batch([x for _, x in srecs])
        shadow_refused = {r["n"] for (r, x), a in zip(srecs, sans) if x["stage"] != "done"}
        for (r, x), a in zip(srecs, sans):
            run.count(rowkey(r), nontrivial=r["cls"] != "base")
            live.append(r)
            recs.append(x)
            answers.append(a)
        run.add("shadow_rows", len(srecs))
        run.add("traces_validated_against_impl", len(recs))
        bad = []
        drift = {}
        per_verdict = {}
        for r, rec, ans in zip(live, recs, answers):
            if not ans["member"]:
                raise MachineryError(f"representative of value class {r['vc']} (rep {r['rep']}, sep {r['sep']}) has features {rec['feat']} "
                                     "outside Codec!VCTable")
            per_verdict[ans["verdict"]] = per_verdict.get(ans["verdict"], 0) + 1
            if ans["ok"] and r["vc"] != "absent" and ans["impl"][0] != "unknown" and not ans["agrees"] and r["n"] not in shadow_refused \
                    and not (rec["stage"] != "done" and ans["ldom"] != "in"):
                # the transcription predicted something else for the focus entry (no verdict follows from that)
                k = (r["fmt"], r["kc"], r["vc"], label(ans["impl"]), label(ans["focus"]))
                drift[k] = drift.get(k, 0) + 1
            if not ans["ok"]:
                bad.append((r, rec, ans))
            elif len(run.cov["samples"]) < 5 and (r["n"] * 7 + seed) % 211 == 0:
                run.sample({"row": {k: r[k] for k in ROWKEYS}, "verdict": ans["verdict"], "domain": ans["dom"], "allowed": sorted(ans["allowed"]),
                            "focus_observed": label(ans["focus"]), "impl_predicts": label(ans["impl"])})
        run.set(verdicts=per_verdict, rows_enumerated=len(rows))

        PLAIN_LABELS.clear()
        for r, rec, ans in zip(live, recs, answers):
            if r["kc"] == "key_plain":
                PLAIN_LABELS.setdefault((r["fmt"], r["vc"]), set()).add(label(ans["focus"]))
        # ---- 5. signatures: configuration class by differential re-runs
        attribute(run, ses, bad, drift)
        if drift:
            run.set(model_drift=[{"fmt": k[0], "kc": k[1], "vc": k[2], "impl": k[3], "observed": k[4], "rows": n} for k, n in sorted(drift.items())][:40])
            for k, n in sorted(drift.items())[:12]:
                print(f"MODEL-DRIFT property={pid} fmt={k[0]} key={k[1]} value={k[2]}: Codec!Impl predicts {k[3]}, code does {k[4]} ({n} row(s))")
    finally:
        ses.close()

    if not run.cov["samples"] and rows:
        run.sample({"row": {k: rows[0][k] for k in ROWKEYS}})
    per = {f: sum(1 for r in rows if r["fmt"] == f) for f in fmts}
    run.set(exhaustive=False,
            rule="rows enumerated by Codec!Rows per format " + str(per) + ": full products class x layout x value class (28), key class (8) x value class (27), "
                 "model (16) x origin of the model (4), model x temperature class, model x magnitude class of its numbers (4) x {constructed, as_fitted}, point layout (21) x row labelling of the source table (5), class x material class x registry state at import time (3)" + (", unit configuration (54) x temperature class (5) x class, material class x adsorbate class x class, class x layout x value class x 4 key classes, "
                                                "five orthogonal arrays instead of one" if thorough else "")
                 + ", plus an orthogonal array (strength 2, TLC-checked) over the 17 dimensions class, pressure mode, loading basis, material basis, temperature class, "
                 "layout, value class, key class, model, target, separator, material class, adsorbate class, representative, magnitude class, row labelling, registry state at import; each row = build, export, import, "
                 "projection of both isotherms, judged by Codec!Judge; distinct = distinct rows; non-trivial = the isotherm carries data, a model or a focus metadata entry")
    run.assume("the projection harness/codec_common.project (type tags, canonical spellings, 9-decimal fixed point) is trusted; data values beyond 2e9 are not generated")
    run.assume("value domains are read from the quantifier text; None, NaN/inf, padded text, the empty text in Excel and non-ASCII AIF keys are treated as 'preserved or refused'")
    return run.finish()


def attribute(run, ses, bad, drift):
    """Turn rejected round trips into few, precise signatures: one per independent part of the failure,
    with the configuration class found by re-running the row with one dimension reset at a time."""
    groups = {}
    for r, rec, ans in bad:
        for part, sym in parts(rec, ans).items():
            if r["vc"] != "absent" and part in ("focus", "refusal") and ans["agrees"]:
                # exactly what the implementation model predicts for this entry: attributed to the focus entry
                run.violation(focus_sig(r, ans, sym), detail(r, rec, ans))
            elif part == "identifier" and r["cls"] == "point" and dtype_changes(rec):
                # everything equal by value, only column dtypes moved and the identifier with them
                run.violation({"site": "isotherm_to/from_" + r["fmt"], "fmt": r["fmt"], "verdict": ans["verdict"], "symptom": sym,
                               "cause": "dtype", "dtype_change": dtype_changes(rec)}, detail(r, rec, ans))
            else:
                groups.setdefault((r["fmt"], r["cls"], part, sym), []).append((r, rec, ans))

    todo = {k: list(v) for k, v in groups.items()}
    for _round in range(8):
        active = [k for k in sorted(todo) if todo[k]]
        if not active:
            break
        # one representative per group, all variants of all representatives judged in one TLC run
        plan, vrecs = [], []
        for k in active:
            r = todo[k][0][0]
            for dim, v in variants(r):
                rec = ses.observe(dict(v, n=r["n"]))
                if "skip" not in rec:
                    plan.append((k, dim))
                    vrecs.append(rec)
        vans = judge_batch(vrecs)
        run.add("attribution_reruns", len(vrecs))
        causes = {k: {} for k in active}
        for (k, dim), rec, a in zip(plan, vrecs, vans):
            r = todo[k][0][0]
            if a["ok"] or parts(rec, a).get(k[2]) != k[3]:
                c = causes[k]
                if dim == "focus":
                    c["kc"], c["vc"] = r["kc"], r["vc"]
                elif dim == "cls":
                    if not c:
                        c["cls"] = r["cls"]
                else:
                    c[dim] = r[dim]
        for k in active:
            cause, sym = causes[k], k[3]
            rest = []
            rep_ans = todo[k][0][2]
            # which half of the focus entry identifies the class: the value, the key, or both
            fkeys = ["vc"] if rep_ans["by_value"] and not rep_ans["by_key"] else (["kc"] if rep_ans["by_key"] and not rep_ans["by_value"] else ["kc", "vc"])
            need = {d: v for d, v in cause.items() if d not in ("kc", "vc") or d in fkeys}
            for m in todo[k]:
                if not cause or all(m[0].get(d) == v for d, v in need.items()):
                    run.violation(cause_sig(m[0], m[2], sym, cause, m[1]), detail(m[0], m[1], m[2]))
                    if "vc" in cause and k[2] in ("focus", "refusal") and m[2]["impl"][0] != "unknown" and not m[2]["agrees"]:
                        dk = (m[0]["fmt"], m[0]["kc"], m[0]["vc"], label(m[2]["impl"]), label(m[2]["focus"]))
                        drift[dk] = drift.get(dk, 0) + 1
                else:
                    rest.append(m)
            todo[k] = rest
    for k in sorted(todo):
        for m in todo[k]:
            run.violation(cause_sig(m[0], m[2], k[3], {}, m[1]), detail(m[0], m[1], m[2]))


PLAIN_LABELS = {}     # (fmt, value class) -> labels observed for that value class under a plain key in this run


def focus_part(r, ans):
    """Which half of the focus entry the behaviour belongs to, according to the implementation model:
    the value (same prediction under a plain key), the key (same prediction for a plain text), or both."""
    d = {"focus": label(ans["focus"]), "impl_predicts": label(ans["impl"]), "impl_agrees": bool(ans["agrees"])}
    if (ans["by_value"] and not ans["by_key"]) or (not ans["by_key"] and not ans["by_value"]
                                                   and label(ans["focus"]) in PLAIN_LABELS.get((r["fmt"], r["vc"]), ())):
        # the same happens to this value class under a plain key: the key class is not part of the configuration
        d["vc"], d["value_domain"] = r["vc"], ans["vdom"]
    elif ans["by_key"] and not ans["by_value"]:
        d["kc"], d["key_domain"] = r["kc"], ans["kdom"]
    else:
        d["kc"], d["vc"], d["value_domain"], d["key_domain"] = r["kc"], r["vc"], ans["vdom"], ans["kdom"]
    return d


def focus_sig(r, ans, sym):
    sig = {"site": "isotherm_to/from_" + r["fmt"], "fmt": r["fmt"], "verdict": ans["verdict"], "symptom": sym, "cause": "focus"}
    sig.update(focus_part(r, ans))
    return sig


def cause_sig(r, ans, sym, cause, rec):
    cause = dict(cause)
    focus = "vc" in cause
    cause.pop("vc", None)
    cause.pop("kc", None)
    names = sorted(cause) + (["focus"] if focus else [])
    sig = {"site": "isotherm_to/from_" + r["fmt"], "fmt": r["fmt"], "verdict": ans["verdict"], "symptom": sym,
           "cause": "+".join(names) if names else "unattributed:" + r["cls"]}
    sig.update(cause)
    if rec["stage"] != "done":
        sig["clause"] = {"build": "valid_isotherm_refused_at_construction", "import": "import_refused", "export": "export_refused"}[rec["stage"]]
        sig["exception"] = rec["exc"]
    if focus:
        sig.update(focus_part(r, ans))
    if sym == "identifier" and rec["before"]["cls"] == "point":
        sig["dtype_change"] = dtype_changes(rec)
    return sig


def detail(r, rec, ans):
    d = {"row": dict({k: r[k] for k in ROWKEYS}, n=r.get("n", 0)), "stage": rec["stage"], "exception": rec["exc"], "message": rec.get("_msg", ""),
         "failing_clauses": sorted(ans["failing"]), "allowed": sorted(ans["allowed"]), "verdict": ans["verdict"],
         "focus_observed": ans["focus"], "impl_predicts": ans["impl"], "id_equal": ans["id_equal"], "id_obliged": ans["id_obliged"]}
    if rec["before"]["cls"] == "point" and rec["stage"] == "done":
        d["dtypes"] = {"before": rec["before"]["data"]["dtypes"], "after": rec["after"]["data"]["dtypes"]}
        d["branch"] = {"before": rec["before"]["data"]["branch"], "after": rec["after"]["data"]["branch"]}
    if rec["focus"]:
        fb = [e for e in rec["before"]["meta"] if e["k"] == rec["focus"]]
        fa = [e for e in rec["after"]["meta"] if e["k"] == rec["focus"]]
        d["focus_entry"] = {"before": fb[:1], "after": fa[:1]}
    return d


def replay_file(pid, path):
    """./check CNN --replay replays/CNN-xxxx.json : re-run the recorded row on the real code and let TLC judge it again."""
    import json
    quiet_pygaps()
    with open(path) as f:
        rep = json.load(f)
    row = dict(rep["detail"]["row"])
    run = Run(pid, rep.get("tier", "quick"), rep.get("seed", 0), "exploration")
    ses = Session(run, rep.get("seed", 0))
    try:
        rec = ses.observe(row)
        if "skip" in rec:
            print(f"[{pid}] replay: the isotherm of the row cannot be built ({rec['skip']})")
            return 2
        ans = judge_batch([rec])[0]
    finally:
        ses.close()
    print(f"[{pid}] replay {os.path.basename(path)}: row={ {k: row[k] for k in ROWKEYS} }")
    print(f"  stage={rec['stage']} exception={rec['exc'] or '-'} verdict={ans['verdict']} allowed={sorted(ans['allowed'])} failing={sorted(ans['failing'])} "
          f"focus_observed={label(ans['focus'])} impl_predicts={label(ans['impl'])}")
    if not ans["ok"]:
        print(f"VIOLATION property={pid} replay={path}")
        return 1
    return 0
