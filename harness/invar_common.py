"""C15 helpers: fixtures (measured + synthetic isotherms), permanent representation changes on copies,
the registry of characterisation entry points and the flattening of their result dictionaries.

Nothing here decides anything: results are recorded as returned; spec/AccessPlan.tla says how each
result key must behave, spec/InvarianceTrace.tla judges the recorded numbers."""
import os

import numpy

from .common import REPO, MachineryError, exc_class
from .iso_common import labels_of

DATA = os.path.join(REPO, "docs", "examples", "data")
MAT_PROPS = {"density": 1.737, "molar_mass": 419.3}


# ---------------------------------------------------------------- isotherm plumbing
def clone(iso, scale=None, material_props=True):
    """A fresh PointIsotherm with the same labels/data (through the constructor: deepcopy fails once the
    adsorbate holds a backend state).  scale: multiply every loading by this constant."""
    import pygaps
    d = iso.to_dict()
    data = iso.data_raw.copy()
    if scale is not None:
        data[iso.loading_key] = data[iso.loading_key] * float(scale)
    name = str(iso.material)
    props = dict(iso.material.properties)
    if material_props:
        for k, v in MAT_PROPS.items():
            props.setdefault(k, v)
    d["material"] = {"name": name, **props}
    d.pop("other_keys", None)
    return pygaps.PointIsotherm(isotherm_data=data, pressure_key=iso.pressure_key, loading_key=iso.loading_key,
                                other_keys=list(iso.other_keys), **d)


def py(x):
    return None if x == "none" else x


def to_rep(iso, s):
    """Permanently convert a copy of iso to the label state s (spec/IsoConvert.tla record)."""
    return convert_in_place(clone(iso), s)


def convert_in_place(c, s):
    """Permanently convert THIS object to the label state s (its caches and history stay with it)."""
    cur = labels_of(c)
    kw = {}
    if (cur["pm"], cur["pu"]) != (s["pm"], s["pu"]):
        kw.update(pressure_mode=s["pm"], pressure_unit=py(s["pu"]))
    if (cur["mb"], cur["mu"]) != (s["mb"], s["mu"]):
        kw.update(material_basis=s["mb"], material_unit=py(s["mu"]))
    if (cur["lb"], cur["lu"]) != (s["lb"], s["lu"]):
        kw.update(loading_basis=s["lb"], loading_unit=py(s["lu"]))
    if kw:
        c.convert(**kw)
    if cur["tu"] != s["tu"]:
        c.convert_temperature("K" if s["tu"] == "K" else "°C")
    got = labels_of(c)
    if got != s:
        raise MachineryError(f"could not bring the fixture to representation {s}: got {got}")
    return c


def json_roundtrip(iso):
    import pygaps.parsing as pgp
    return pgp.isotherm_from_json(iso.to_json())


def load_json(*parts):
    import pygaps.parsing as pgp
    return clone(pgp.isotherm_from_json(os.path.join(DATA, *parts)))


def synthetic(model, params, pressures, adsorbate="nitrogen", temperature=77.344, material="verif_synth", **labels):
    """Points generated from one of the library's model classes (input, not oracle)."""
    import pandas
    import pygaps
    from pygaps.modelling import get_isotherm_model
    m = get_isotherm_model(model, parameters=params)
    p = numpy.asarray(pressures, dtype=float)
    n = numpy.asarray(m.loading(p), dtype=float)
    lab = dict(pressure_mode="relative", pressure_unit=None, loading_basis="molar", loading_unit="mmol",
               material_basis="mass", material_unit="g", temperature_unit="K")
    lab.update(labels)
    df = pandas.DataFrame({"pressure": p, "loading": n, "branch": numpy.zeros(len(p), dtype=int)})
    return pygaps.PointIsotherm(isotherm_data=df, pressure_key="pressure", loading_key="loading",
                                material={"name": material, **MAT_PROPS}, adsorbate=adsorbate, temperature=temperature, **lab)


_FIX = {}


def fixture(name):
    """Named fixtures; always returns a fresh copy."""
    if name not in _FIX:
        if name in ("MCM-41", "NaY", "SiO2", "Takeda 5A", "UiO-66(Zr)"):
            _FIX[name] = load_json("characterisation", f"{name} N2 77.355.json")
        elif name in ("BAX-298", "BAX-323", "BAX-348"):
            _FIX[name] = load_json("isosteric", f"BAX 1500 - Isosteric Heat - {name[4:]}.json")
        elif name == "HKUST-1":
            _FIX[name] = load_json("calorimetry", "HKUST-1(Cu) KRICT.json")
        elif name == "Takeda-CO2":
            _FIX[name] = load_json("calorimetry", "Takeda 5A Test CO2.json")
        elif name == "synth-BET":
            p = numpy.concatenate([numpy.geomspace(1e-4, 0.04, 8), numpy.linspace(0.05, 0.9, 30)])
            _FIX[name] = synthetic("BET", {"n_m": 4.3, "C": 87.0, "N": 1.0}, p)
        elif name == "synth-Langmuir":
            p = numpy.concatenate([numpy.geomspace(1e-5, 0.008, 12), numpy.linspace(0.01, 0.95, 32)])
            _FIX[name] = synthetic("Langmuir", {"n_m": 7.9, "K": 310.0}, p)
        elif name == "synth-Toth-Pa":
            p = numpy.geomspace(50.0, 9.0e4, 40)
            _FIX[name] = synthetic("Toth", {"n_m": 6.1, "K": 2.3e-4, "t": 0.71}, p, adsorbate="n-butane", temperature=298.15,
                                   pressure_mode="absolute", pressure_unit="Pa")
        elif name == "synth-Langmuir-Pa":
            p = numpy.geomspace(50.0, 9.0e4, 40)
            _FIX[name] = synthetic("Langmuir", {"n_m": 5.2, "K": 1.9e-4}, p, adsorbate="n-butane", temperature=298.15,
                                   pressure_mode="absolute", pressure_unit="Pa")
        elif name in ("nop0-CO2-35C", "nop0-custom"):
            # isotherms whose pressure cannot be read as p/p0: supercritical CO2 (Tc = 30.98 degC) / an adsorbate without
            # thermodynamic backend and without a saturation pressure
            import pygaps
            p = numpy.array([0.1, 0.2, 0.5, 1, 2, 3, 5, 7.5, 10, 15, 20, 30, 40, 50.0])
            if name == "nop0-custom":
                if not any(a.name == "verif_gas_nop0" for a in pygaps.ADSORBATE_LIST):
                    pygaps.Adsorbate("verif_gas_nop0", store=True, molar_mass=40.1, cross_sectional_area=0.17)
                _FIX[name] = synthetic("Langmuir", {"n_m": 4.4, "K": 0.8}, p, adsorbate="verif_gas_nop0", temperature=300.0,
                                       pressure_mode="absolute", pressure_unit="bar")
            else:
                _FIX[name] = synthetic("Langmuir", {"n_m": 6.2, "K": 0.35}, p, adsorbate="carbon dioxide", temperature=308.15,
                                       pressure_mode="absolute", pressure_unit="bar")
        else:
            raise MachineryError(f"unknown fixture {name}")
    return clone(_FIX[name])


# ---------------------------------------------------------------- what reaches the numeric core
# (module attributes interposed from outside, no hook in the sources): the *_raw functions are wrapped so that
# the arrays the entry point hands them are recorded next to the results, as keys "core.<slot>".
_CORE = [
    # module, function, positional argument index -> slot
    ("area_bet", "area_BET_raw", {0: "pressure", 1: "loading"}),
    ("area_lang", "area_langmuir_raw", {0: "pressure", 1: "loading"}),
    ("t_plots", "t_plot_raw", {0: "loading", 1: "pressure"}),
    ("alphas_plots", "alpha_s_raw", {0: "loading", 1: "ref_loading", 2: "ref_point", 3: "ref_area"}),
    ("dr_da_plots", "da_plot_raw", {0: "pressure", 1: "loading", 2: "temperature"}),
    ("psd_meso", "psd_pygapsdh", {0: "loading", 1: "pressure"}),
    ("psd_meso", "psd_bjh", {0: "loading", 1: "pressure"}),
    ("psd_meso", "psd_dollimore_heal", {0: "loading", 1: "pressure"}),
    ("psd_micro", "psd_horvath_kawazoe", {0: "pressure", 1: "loading", 2: "temperature"}),
    ("psd_micro", "psd_horvath_kawazoe_ry", {0: "pressure", 1: "loading", 2: "temperature"}),
    ("psd_kernel", "psd_dft_kernel_fit", {0: "pressure", 1: "loading"}),
    ("isosteric_enth", "isosteric_enthalpy_raw", {1: "temperatures"}),
]
_captured = {}
_installed = False
STUB_DFT = [False]


def install_capture():
    """Wrap the numeric cores once; each call stores its inputs in _captured[function name]."""
    global _installed
    if _installed:
        return
    import importlib
    for mod, fn, slots in _CORE:
        m = importlib.import_module(f"pygaps.characterisation.{mod}")
        orig = getattr(m, fn)

        def wrapper(*a, __orig=orig, __fn=fn, __slots=slots, **k):
            _captured[__fn] = {slot: numpy.array(a[i], dtype=float, copy=True) for i, slot in __slots.items() if i < len(a)}
            if __fn == "psd_dft_kernel_fit" and STUB_DFT[0]:
                z = numpy.zeros(1)
                return z, z, z, z
            return __orig(*a, **k)
        setattr(m, fn, wrapper)
    # model fits (initial Henry constants, Whittaker): the first fit of a run sees the whole branch
    from pygaps.modelling.base_model import IsothermBaseModel
    from pygaps.modelling.virial import Virial
    for cls in (IsothermBaseModel, Virial):
        orig = cls.__dict__["fit"]

        def fit(self, pressure, loading, *a, __orig=orig, **k):
            if "model.fit" not in _captured:
                _captured["model.fit"] = {"pressure": numpy.array(pressure, dtype=float, copy=True), "loading": numpy.array(loading, dtype=float, copy=True)}
            return __orig(self, pressure, loading, *a, **k)
        setattr(cls, "fit", fit)
    _installed = True


def core_keys(fn_name):
    return {f"core.{slot}": v for slot, v in _captured.get(fn_name, {}).items()}


# ---------------------------------------------------------------- analyses
def _sections(results):
    out = {"n_sections": float(len(results))}
    for i, r in enumerate(results[:3]):
        sec = r["section"]
        out[f"sec{i}.first"] = float(sec[0])
        out[f"sec{i}.last"] = float(sec[-1])
        for k in ("slope", "intercept", "corr_coef", "adsorbed_volume", "area"):
            out[f"sec{i}.{k}"] = float(r[k])
    return out


def _an_bet(iso, **kw):
    import pygaps.characterisation as pgc
    r = pgc.area_BET(iso, **kw)
    out = {k: float(r[k]) for k in ("area", "c_const", "n_monolayer", "p_monolayer", "bet_slope", "bet_intercept", "corr_coef")}
    out["limit.lo"], out["limit.hi"] = (float(v) for v in r["p_limit_indices"])
    out.update(core_keys("area_BET_raw"))
    return out


def _an_langmuir(iso, **kw):
    import pygaps.characterisation as pgc
    r = pgc.area_langmuir(iso, **kw)
    out = {k: float(r[k]) for k in ("area", "langmuir_const", "n_monolayer", "langmuir_slope", "langmuir_intercept", "corr_coef")}
    out["limit.lo"], out["limit.hi"] = (float(v) for v in r["p_limit_indices"])
    out.update(core_keys("area_langmuir_raw"))
    return out


def _an_tplot(iso, **kw):
    import pygaps.characterisation as pgc
    r = pgc.t_plot(iso, **kw)
    out = _sections(r["results"])
    out["t_curve"] = numpy.asarray(r["t_curve"], dtype=float)
    out.update(core_keys("t_plot_raw"))
    return out


def _an_alphas(iso, ref, **kw):
    import pygaps.characterisation as pgc
    r = pgc.alpha_s(iso, ref, **kw)
    out = _sections(r["results"])
    out["alpha_curve"] = numpy.asarray(r["alpha_curve"], dtype=float)
    out.update(core_keys("alpha_s_raw"))
    return out


def _an_dr(iso, **kw):
    import pygaps.characterisation as pgc
    r = pgc.dr_plot(iso, **kw)
    out = {k: float(r[k]) for k in ("pore_volume", "adsorption_potential", "corr_coef", "slope", "intercept")}
    out["limit.lo"], out["limit.hi"] = (float(v) for v in r["p_limits"])
    out.update(core_keys("da_plot_raw"))
    return out


def _an_da(iso, **kw):
    import pygaps.characterisation as pgc
    r = pgc.da_plot(iso, **kw)
    out = {k: float(r[k]) for k in ("pore_volume", "adsorption_potential", "corr_coef", "slope", "intercept")}
    if "exponent" in r:
        out["exponent"] = float(r["exponent"])
    out["limit.lo"], out["limit.hi"] = (float(v) for v in r["p_limits"])
    out.update(core_keys("da_plot_raw"))
    return out


def _an_meso(iso, **kw):
    import pygaps.characterisation as pgc
    r = pgc.psd_mesoporous(iso, **kw)
    out = {k: numpy.asarray(r[k], dtype=float) for k in ("pore_widths", "pore_volumes", "pore_areas", "pore_distribution", "pore_volume_cumulative")}
    out["pore_area_total"] = float(r["pore_area_total"])
    out["limit.lo"], out["limit.hi"] = (float(v) for v in r["limits"])
    out.update(core_keys({"pygaps-DH": "psd_pygapsdh", "BJH": "psd_bjh", "DH": "psd_dollimore_heal"}[kw["psd_model"]]))
    return out


def _an_micro(iso, **kw):
    import pygaps.characterisation as pgc
    r = pgc.psd_microporous(iso, **kw)
    out = {k: numpy.asarray(r[k], dtype=float) for k in ("pore_widths", "pore_distribution", "pore_volume_cumulative")}
    out["limit.lo"], out["limit.hi"] = (float(v) for v in r["limits"])
    out.update(core_keys("psd_horvath_kawazoe" if kw["psd_model"].startswith("HK") else "psd_horvath_kawazoe_ry"))
    return out


def _an_dft(iso, **kw):
    import pygaps.characterisation as pgc
    stub = kw.pop("stub", False)
    STUB_DFT[0] = stub
    try:
        r = pgc.psd_dft(iso, **kw)
    finally:
        STUB_DFT[0] = False
    out = {} if stub else {k: numpy.asarray(r[k], dtype=float) for k in ("pore_widths", "pore_distribution", "pore_volume_cumulative", "kernel_loading")}
    out["limit.lo"], out["limit.hi"] = (float(v) for v in r["limits"])
    out.update(core_keys("psd_dft_kernel_fit"))
    return out


def _an_henry_slope(iso, **kw):
    import pygaps.characterisation as pgc
    out = {"K": float(pgc.initial_henry_slope(iso, **kw))}
    out.update(core_keys("model.fit"))
    return out


def _an_henry_virial(iso, **kw):
    import pygaps.characterisation as pgc
    out = {"K": float(pgc.initial_henry_virial(iso, **kw))}
    out.update(core_keys("model.fit"))
    return out


def _an_isosteric(iso, *others, **kw):
    import pygaps.characterisation as pgc
    r = pgc.isosteric_enthalpy([iso, *others], **kw)
    out = {k: numpy.asarray(r[k], dtype=float) for k in ("loading", "isosteric_enthalpy", "slopes", "correlation", "std_errs")}
    out.update(core_keys("isosteric_enthalpy_raw"))
    return out


def _an_whittaker(iso, **kw):
    import pygaps.characterisation as pgc
    r = pgc.enthalpy_sorption_whittaker(iso, **kw)
    out = {"loading": numpy.asarray(r["loading"], dtype=float), "enthalpy_sorption": numpy.asarray(r["enthalpy_sorption"], dtype=float)}
    for k, v in r["model_params"].items():
        out[f"param.{k}"] = float(v)
    out.update(core_keys("model.fit"))
    return out


def _an_ienth_point(iso, **kw):
    import pygaps.characterisation as pgc
    return {"initial_enthalpy": float(pgc.initial_enthalpy_point(iso, "enthalpy", **kw)["initial_enthalpy"])}


def _an_ienth_comp(iso, **kw):
    import pygaps.characterisation as pgc
    return {"initial_enthalpy": float(pgc.initial_enthalpy_comp(iso, "enthalpy", **kw)["initial_enthalpy"])}


# name -> (spec analysis name, callable, keyword arguments, number of further isotherms)
ENTRY = {
    "area_BET": ("area_BET", _an_bet, {}, 0),
    "area_BET[limits]": ("area_BET", _an_bet, {"p_limits": (0.06, 0.22)}, 0),
    "area_langmuir": ("area_langmuir", _an_langmuir, {}, 0),
    "area_langmuir[limits]": ("area_langmuir", _an_langmuir, {"p_limits": (0.05, 0.6)}, 0),
    "t_plot": ("t_plot", _an_tplot, {}, 0),
    "t_plot[Halsey,limits]": ("t_plot", _an_tplot, {"thickness_model": "Halsey", "t_limits": (0.35, 0.8)}, 0),
    "alpha_s": ("alpha_s", _an_alphas, {}, 1),
    "alpha_s[langmuir,limits]": ("alpha_s", _an_alphas, {"reference_area": "langmuir", "t_limits": (0.4, 1.6)}, 1),
    "dr_plot": ("dr_plot", _an_dr, {}, 0),
    "dr_plot[limits]": ("dr_plot", _an_dr, {"p_limits": (1e-4, 0.1)}, 0),
    "da_plot": ("da_plot", _an_da, {"exp": 2.3}, 0),
    "da_plot[search]": ("da_plot", _an_da, {"exp": None, "p_limits": (1e-4, 0.1)}, 0),
    "psd_mesoporous[pygaps-DH]": ("psd_mesoporous", _an_meso, {"psd_model": "pygaps-DH", "pore_geometry": "cylinder"}, 0),
    "psd_mesoporous[BJH]": ("psd_mesoporous", _an_meso, {"psd_model": "BJH", "pore_geometry": "cylinder", "branch": "des"}, 0),
    "psd_mesoporous[DH]": ("psd_mesoporous", _an_meso, {"psd_model": "DH", "pore_geometry": "cylinder"}, 0),
    "psd_microporous[HK]": ("psd_microporous", _an_micro, {"psd_model": "HK", "pore_geometry": "slit"}, 0),
    "psd_microporous[HK-CY]": ("psd_microporous", _an_micro, {"psd_model": "HK-CY", "pore_geometry": "cylinder"}, 0),
    "psd_microporous[RY]": ("psd_microporous", _an_micro, {"psd_model": "RY", "pore_geometry": "slit"}, 0),
    "psd_microporous[RY-CY]": ("psd_microporous", _an_micro, {"psd_model": "RY-CY", "pore_geometry": "sphere"}, 0),
    "psd_dft[core]": ("psd_dft", _an_dft, {"kernel": "DFT-N2-77K-carbon-slit", "stub": True}, 0),
    "psd_dft": ("psd_dft", _an_dft, {"kernel": "DFT-N2-77K-carbon-slit", "bspline_order": 5}, 0),
    "initial_henry_slope": ("initial_henry_slope", _an_henry_slope, {"max_adjrms": 0.02}, 0),
    "initial_henry_virial": ("initial_henry_virial", _an_henry_virial, {}, 0),
    "isosteric_enthalpy": ("isosteric_enthalpy", _an_isosteric, {}, 2),
    "enthalpy_sorption_whittaker[Toth]": ("enthalpy_sorption_whittaker", _an_whittaker, {"model": "Toth"}, 0),
    "enthalpy_sorption_whittaker[Langmuir]": ("enthalpy_sorption_whittaker", _an_whittaker, {"model": "Langmuir"}, 0),
    "initial_enthalpy_point": ("initial_enthalpy_point", _an_ienth_point, {}, 0),
    "initial_enthalpy_comp": ("initial_enthalpy_comp", _an_ienth_comp, {}, 0),
}


def run_entry(entry, isos):
    """(outcome, results or exception class)"""
    _, fn, kw, nother = ENTRY[entry]
    install_capture()
    _captured.clear()
    kw = dict(kw)
    try:
        with numpy.errstate(all="ignore"):
            return "ok", fn(*isos[:1 + nother], **kw), None
    except Exception as e:  # the library refused / failed: recorded, judged by the trace spec
        return "raised", exc_class(e), str(e)[:300]
