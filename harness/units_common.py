"""Shared pieces for the unit-system drivers (C01, C02, C03, C15):
argument encoding, monomial evaluation, fixtures."""
import json
import math
import os

from .common import VERIF, MachineryError, exc_class

NONE = "none"


def enc(x, known):
    """Python argument -> spec atom ("none" / "empty" / "bogus" / the string itself)."""
    if x is None:
        return "none"
    if x == "":
        return "empty"
    if x in known:
        return x
    return "bogus"


def dec(x, bogus="furlong"):
    """spec atom -> Python argument."""
    if x == "none":
        return None
    if x == "empty":
        return ""
    if x == "bogus":
        return bogus
    return x


# unknown strings: a word that is no unit at all, and spellings of a valid name in another letter case
# (the unit, mode and basis tables are exact-match: 'Relative', 'KPA', 'Molar' are unknown)
BOGUS_VARIANTS = {
    "pmode": ["furlong", "Relative", "ABSOLUTE", "Relative%"],
    "punit": ["furlong", "KPA", "Bar", "PA"],
    "lbasis": ["furlong", "Molar", "MASS", "Volume_gas", "Percent"],
    "lunit": ["furlong", "MMOL", "Mol", "G", "CM3"],
    "mbasis": ["furlong", "Mass", "VOLUME", "Molar"],
    "munit": ["furlong", "G", "KG", "Cm3", "MOL"],
}


def dec_slot(x, slot, i=0):
    """spec atom -> Python argument; 'bogus' becomes the i-th unknown representative of that argument slot."""
    if x == "bogus":
        v = BOGUS_VARIANTS[slot]
        return v[i % len(v)]
    return dec(x)


def sparse(v):
    """JsonSerialize writes an empty function as []"""
    if isinstance(v, list):
        return {}
    return v


_REF = None


def reference_constants():
    global _REF
    if _REF is None:
        with open(os.path.join(VERIF, "harness", "reference_constants.json")) as f:
            _REF = json.load(f)
    return _REF


class Atoms:
    """Numeric values of the atoms of spec/Units.tla for one (adsorbate, temperature, material)."""

    def __init__(self, adsorbate=None, temp=None, material=None, tables="impl", reference_backend=True):
        import pygaps.units.converter_unit as cu
        self.vals = {"hundred": 100.0}
        if tables == "impl":
            tabs = {"pres": cu._PRESSURE_UNITS, "molar": cu._MOLAR_UNITS, "mass": cu._MASS_UNITS, "vol": cu._VOLUME_UNITS}
        else:
            ref = reference_constants()
            tabs = {k: {u: d["value"] for u, d in ref[k].items()} for k in ("pres", "molar", "mass", "vol")}
        for kind, tab in tabs.items():
            for u, val in tab.items():
                self.vals[f"{kind}:{u}"] = float(val)
        self.unavailable = {}
        self.source = "adsorbate methods"
        direct = None
        if adsorbate is not None and reference_backend:
            direct = coolprop_direct(adsorbate, temp)
        if direct is not None:
            # independent reference: the thermodynamic backend queried directly, not through Adsorbate
            self.vals.update(direct)
            self.source = "CoolProp queried directly"
        elif adsorbate is not None:
            for atom, fn in (
                ("psat", lambda: adsorbate.saturation_pressure(temp)),
                ("M", lambda: adsorbate.molar_mass()),
                ("rhoLmass", lambda: adsorbate.liquid_density(temp)),
                ("rhoLmol", lambda: adsorbate.liquid_molar_density(temp)),
                ("rhoGmass", lambda: adsorbate.gas_density(temp)),
                ("rhoGmol", lambda: adsorbate.gas_molar_density(temp)),
            ):
                try:
                    self.vals[atom] = float(fn())
                except Exception as e:  # backend cannot supply it: conversions needing it are not judged
                    self.unavailable[atom] = exc_class(e)
        if material is not None and getattr(material, "name", None) in MAT_VALUES:
            # independent reference: the numbers the harness gave the material, not what its getters report
            self.vals["rhomat"], self.vals["Mmat"] = MAT_VALUES[material.name]
        elif material is not None:
            for atom, fn in (("rhomat", lambda: material.density), ("Mmat", lambda: material.molar_mass)):
                try:
                    self.vals[atom] = float(fn())
                except Exception as e:
                    self.unavailable[atom] = exc_class(e)

    def value(self, vec):
        """Evaluate a sparse exponent vector; None if an atom is unavailable."""
        vec = sparse(vec)
        r = 1.0
        for a, k in vec.items():
            if a not in self.vals:
                return None
            r *= self.vals[a] ** int(k)
        return r


def coolprop_direct(adsorbate, temp):
    """psat / M / densities of a backend-linked adsorbate straight from CoolProp (library units: Pa, g/mol,
    g/cm3, mol/cm3); None when the adsorbate has no backend or the state is not available."""
    try:
        name = adsorbate.properties.get("backend_name")
        if not name:
            return None
        import CoolProp as CP
        st = CP.AbstractState("HEOS", name)
        out = {"M": st.molar_mass() * 1000.0}
        st.update(CP.QT_INPUTS, 0.0, temp)
        out["psat"] = st.p()
        out["rhoLmass"] = st.rhomass() / 1000.0
        out["rhoLmol"] = st.rhomolar() / 1e6
        st.update(CP.QT_INPUTS, 1.0, temp)
        out["rhoGmass"] = st.rhomass() / 1000.0
        out["rhoGmol"] = st.rhomolar() / 1e6
        return out
    except Exception:
        return None


def n2():
    import pygaps
    return pygaps.Adsorbate.find("nitrogen")


def custom_adsorbate(name="verif_gas", with_props=True, store=True):
    """An adsorbate without backend; user properties chosen to be mutually consistent
    (rho_mass = M * rho_molar) and numerically 'generic' so swapped constants show."""
    import pygaps
    props = {}
    if with_props:
        M = 37.123
        rl, rg = 0.017311, 3.1417e-5  # mol/cm3
        props = dict(
            molar_mass=M,
            saturation_pressure=234567.0,
            liquid_molar_density=rl,
            liquid_density=rl * M,
            gas_molar_density=rg,
            gas_density=rg * M,
            enthalpy_vaporisation=7.7,
            surface_tension=9.1,
        )
    for a in pygaps.ADSORBATE_LIST:
        if a.name == name:
            return a
    return pygaps.Adsorbate(name, store=store, **props)


MAT_VALUES = {}   # material name -> (density, molar mass) the harness intends it to have


def late_material(name="verif_mat_late", density=2.291, molar_mass=163.7):
    """A registered material whose density / molar mass arrive AFTER construction, through its properties dictionary."""
    import pygaps
    for m in pygaps.MATERIAL_LIST:
        if m.name == name:
            return m
    m = pygaps.Material(name, store=True, density=0.5, molar_mass=10.0)
    m.properties["density"] = density
    m.properties["molar_mass"] = molar_mass
    MAT_VALUES[name] = (density, molar_mass)
    return m


def rebound_material(name="verif_mat_rebound", density=0.811, molar_mass=905.2):
    """A registered bare material that receives its properties when an isotherm is built from a dictionary naming it."""
    import pygaps
    for m in pygaps.MATERIAL_LIST:
        if m.name == name:
            return m
    m = pygaps.Material(name, store=True)
    pygaps.PointIsotherm(pressure=[1.0, 2.0], loading=[1.0, 2.0], material={"name": name, "density": density, "molar_mass": molar_mass},
                         adsorbate="nitrogen", temperature=77.0, pressure_mode="absolute", pressure_unit="bar", loading_basis="molar",
                         loading_unit="mmol", material_basis="mass", material_unit="g", temperature_unit="K")
    MAT_VALUES[name] = (density, molar_mass)
    return m


def custom_material(name="verif_mat", density=1.737, molar_mass=419.3, store=True):
    import pygaps
    props = {}
    if density is not None:
        props["density"] = density
    if molar_mass is not None:
        props["molar_mass"] = molar_mass
    for m in pygaps.MATERIAL_LIST:
        if m.name == name:
            return m
    if density is not None and molar_mass is not None:
        MAT_VALUES[name] = (density, molar_mass)
    return pygaps.Material(name, store=store, **props)


def ratio_of(out, inp):
    """Elementwise ratio out/inp as a list of floats (inputs are never zero here)."""
    import numpy
    o = numpy.asarray(out, dtype=float).ravel()
    i = numpy.asarray(inp, dtype=float).ravel()
    if o.shape != i.shape:
        raise MachineryError(f"shape changed by conversion: {i.shape} -> {o.shape}")
    return (o / i).tolist()


def close(a, b, tol):
    if a is None or b is None:
        return False
    if not (math.isfinite(a) and math.isfinite(b)):
        return False
    return abs(a - b) <= tol * max(abs(a), abs(b), 1e-300)
