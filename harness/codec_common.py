"""Shared by the C06 / C07 drivers: materialise the scenario rows that spec/Codec.tla enumerates on the
real pyGAPS codecs, and project isotherms to the abstract content records the specification judges.

Nothing in this module decides a verdict: `project` is an abstraction function (value -> kind / type
tag / canonical spelling, float -> repr + fixed-point digits), `roundtrip` runs the real export and
import, `build` constructs the concrete isotherm of a row from seeded representatives of the value
classes named in the specification.
"""
import decimal
import json
import math
import os
import random

from .common import MachineryError, exc_class

# --------------------------------------------------------------------------------------------
# representatives of the specification's value classes (>= 2 each; the row's `rep` picks one)
# text classes that depend on the separator are generated in value_of()

REPS = {
    "text_plain": ["hello", "MOF-5_batch-b", "x"],
    "text_unicode": ["zéolite-β", "活性炭13X", "Ångström·µm"],
    "text_space": ["two words", "a longer plain sentence", "UiO 66 (Zr)"],
    "text_int": ["12", "007", "0"],
    "text_float": ["1.5", "1e5", "-3", "+2.50"],
    "text_bool": ["true", "False", "TRUE"],
    "text_none": ["None", "none", "NONE"],
    "text_empty": ["", ""],
    "text_list": ["[1 2]", "[a]", "[1, 2]"],
    "text_quote": ["it's", 'say "hi"', "'quoted'"],
    "text_newline": ["line1\nline2", "tail\n"],
    "text_padded": [" padded ", "trail ", "  lead"],
    "int": [7, -12, 0, 1],
    "int_large": [2**53 + 1, 10**18 + 7, -(2**61) - 3],
    "float": [1.5, -0.000123, 0.1, 2.718281828459045],
    "float_integral": [3.0, -10.0, 0.0, 1e3],
    "float_extreme": [1e-300, 5e-324, 1.7976931348623157e308, 1.23456789012345e-17],
    "float_nan": [float("nan"), float("nan")],
    "float_inf": [float("inf"), float("-inf")],
    "bool": [True, False],
    "none": [None, None],
    "list_num": [[1, 2, 3], [1.5, 2.5], [0]],
    "list_str": [["a", "b"], ["x"], ["two words", "b"]],
    "list_nested": [[[1, 2], [3]], [[1.5], []], [1, [2, 3]]],
    "list_empty": [[], []],
    "dict": [{"a": 1}, {"a": 1, "b": "t"}, {"k": [1, 2]}],
}
SEP_CHAR = {"comma": ",", "semicolon": ";", "tab": "\t", "na": ",", None: ","}

KEYS = {
    "key_plain": ["note", "lab_ref", "x1"],
    "key_unicode": ["clé", "温度計", "größe"],
    "key_space": ["my key", "two  spaces", "a b c"],
    "key_quote": ["it's", 'k"q', "'k'"],
    "key_aiftag": ["user", "date", "instrument", "material_batch"],
    "key_aifnum": ["material_mass", "activation_temperature"],
}


def value_of(vc, rep, sep):
    c = SEP_CHAR[sep]
    if vc == "text_sep":
        return [f"a{c}b", f"p{c}q{c}r", f"x{c}{c}y"][rep % 3]
    r = REPS[vc]
    return r[rep % len(r)]


def key_of(kc, rep, sep, fmt):
    c = SEP_CHAR[sep]
    if kc == "key_sep":
        return [f"k{c}1", f"a{c}b{c}c"][rep % 2]
    if kc == "key_prefix":
        pre = "sample_" if fmt == "aif" else "_material_"
        return pre + ["batch", "x"][rep % 2]
    r = KEYS[kc]
    return r[rep % len(r)]


# --------------------------------------------------------------------------------------------
# independent feature extraction of a representative (cross-checked against the spec's class table)

def _spelling(s):
    """What a Python text *spells*, read off the text itself (no pyGAPS code involved)."""
    import ast
    if s == "":
        return "empty"
    core = s.strip()
    low = core.lower()
    if low == "none":
        return "none"
    if low in ("true", "false"):
        return "bool"
    if core.isdigit():
        return "int"
    try:
        float(core)
        return "float"
    except ValueError:
        pass
    if core.startswith("[") and core.endswith("]"):
        # a blank-separated list of literals ("[1 2 3]") or not
        try:
            ast.literal_eval(core.replace(" ", ","))
            return "list_ok"
        except Exception:
            return "list_bad"
    return "plain"


def _feat(py, spell="na", sep=False, quote="none", nl="none", pad="none", neg=False, big=False, num="na", items="na"):
    return {"py": py, "spell": spell, "sep": bool(sep), "quote": quote, "nl": nl, "pad": pad,
            "neg": bool(neg), "big": bool(big), "num": num, "items": items}


def features(v, sep):
    """Feature record of a concrete metadata value, in the vocabulary of Codec.tla (operator V)."""
    c = SEP_CHAR[sep]
    if v is None:
        return _feat("none")
    if isinstance(v, bool):
        return _feat("bool")
    if isinstance(v, int):
        return _feat("int", neg=v < 0, big=abs(v) > 2**53)
    if isinstance(v, float):
        if math.isnan(v):
            return _feat("float", num="nan")
        if math.isinf(v):
            return _feat("float", num="inf")
        return _feat("float", num="integral" if abs(v) < 1e15 and v == int(v) else "frac")
    if isinstance(v, str):
        quote = "edge" if (v.startswith("'") or v.endswith("'")) else ("inner" if ("'" in v or '"' in v) else "none")
        nl = "none" if "\n" not in v else ("trail" if v.endswith("\n") and "\n" not in v[:-1] else "inner")
        body = v.replace("\n", "")
        lead = body[:1] in (" ", "\t") and body.strip() != ""
        trail = body[-1:] in (" ", "\t") and body.strip() != ""
        pad = "both" if lead and trail else ("lead" if lead else ("trail" if trail else "none"))
        return _feat("str", spell=_spelling(body), sep=c in v, quote=quote, nl=nl, pad=pad)
    if isinstance(v, list):
        written = "[" + " ".join(str(x) for x in v) + "]"
        isnum = lambda x: isinstance(x, (int, float)) and not isinstance(x, bool)
        if not v:
            items = "empty"
        elif all(isnum(x) for x in v):
            items = "num1" if len(v) == 1 else "num"
        elif all(isinstance(x, str) for x in v):
            items = "str1" if len(v) == 1 and " " not in v[0] else "str"
        else:
            items = "nested"
        return _feat("list", sep=c in written, items=items)
    if isinstance(v, dict):
        return _feat("dict", sep=c in str(v), items="one" if len(v) == 1 else "many")
    raise MachineryError(f"no feature record for {type(v)}")


# --------------------------------------------------------------------------------------------
# abstraction: value -> (kind, tag, strict, loose)

def _esc(s):
    """ASCII-only spelling of a text (TLC strings stay 7-bit; equality is preserved)."""
    return json.dumps(s, ensure_ascii=True)


def _np():
    import numpy
    return numpy


def canon(v):
    """kind: none/bool/num/str/list/dict/other; tag: exact Python type structure;
    strict: exact spelling; loose: spelling by *value* (7 and 7.0 coincide, NaN equals NaN)."""
    numpy = _np()
    if v is None:
        return ("none", "NoneType", "None", "None")
    if isinstance(v, (bool, numpy.bool_)):
        return ("bool", type(v).__name__ if type(v) is not bool else "bool", str(bool(v)), str(bool(v)))
    if isinstance(v, (int, numpy.integer)):
        tag = "int" if type(v) is int else "numpy." + type(v).__name__
        iv = int(v)
        loose = repr(float(iv)) if abs(iv) <= 2**53 else repr(iv)
        return ("num", tag, repr(iv), loose)
    if isinstance(v, (float, numpy.floating)):
        tag = "float" if type(v) is float else "numpy." + type(v).__name__
        fv = float(v)
        r = repr(fv)
        return ("num", tag, r, r)
    if isinstance(v, str):
        tag = "str" if type(v) is str else "numpy." + type(v).__name__
        return ("str", tag, _esc(str(v)), _esc(str(v)))
    if isinstance(v, (list, tuple)):
        parts = [canon(x) for x in v]
        kind = "list" if isinstance(v, list) else "tuple"
        return (kind, kind + "[" + ",".join(p[1] for p in parts) + "]",
                "[" + ",".join(p[2] for p in parts) + "]",
                "[" + ",".join(p[0] + ":" + p[3] for p in parts) + "]")
    if isinstance(v, dict):
        items = sorted(((str(k), canon(x)) for k, x in v.items()), key=lambda t: t[0])
        return ("dict", "dict{" + ",".join(_esc(k) + ":" + p[1] for k, p in items) + "}",
                "{" + ",".join(_esc(k) + ":" + p[2] for k, p in items) + "}",
                "{" + ",".join(_esc(k) + ":" + p[0] + ":" + p[3] for k, p in items) + "}")
    return ("other", type(v).__module__ + "." + type(v).__name__, _esc(repr(v)), _esc(repr(v)))


def entry(key, v):
    k, t, s, l = canon(v)
    return {"k": _esc(key) if isinstance(key, str) else _esc("<non-text key> " + repr(key)), "kind": k, "tag": t, "strict": s, "loose": l}


_Q9 = decimal.Decimal(1).scaleb(-9)


def num(x):
    """A data cell / model number: [repr, sign, integer part, 9 fixed decimals]; non-finite or too
    large for 32-bit fixed point -> digits -1 (then only the exact spelling is compared)."""
    numpy = _np()
    if isinstance(x, (bool, numpy.bool_)):
        x = int(x)
    if isinstance(x, (int, numpy.integer)):
        r = repr(float(int(x))) if abs(int(x)) <= 2**53 else repr(int(x))
        fx = float(int(x))
    elif isinstance(x, (float, numpy.floating)):
        fx = float(x)
        r = repr(fx)
    elif x is None:
        return ["None", 0, 0, -1]
    else:
        return [_esc(str(x)), 0, 0, -1]
    if math.isnan(fx) or math.isinf(fx) or abs(fx) >= 2.0e9:
        return [r, 0, 0, -1]
    d = decimal.Decimal(fx).quantize(_Q9, rounding=decimal.ROUND_HALF_EVEN)
    sign = -1 if d < 0 else 1
    d = abs(d)
    ip = int(d)
    fp = int((d - ip).scaleb(9))
    return [r, sign, ip, fp]


UNIT_KEYS = ["pressure_mode", "pressure_unit", "loading_basis", "loading_unit", "material_basis", "material_unit", "temperature_unit"]
MAIN_KEYS = set(UNIT_KEYS) | {"material", "adsorbate", "temperature"}


def empty_content():
    """Placeholder content for a row whose isotherm could not be constructed (nothing to project)."""
    none = entry("-", None)
    return {"cls": "none", "id": "", "labels": [], "adsorbate": none, "temperature": none, "tnum": ["?", 0, 0, -1], "material": none,
            "matprops": [], "meta": [], "data": {"cols": [], "dtypes": [], "cells": [], "branch": [], "n": 0},
            "model": {"name": "", "rmse": ["", 0, 0, -1], "rmse_tag": "", "params": [], "prange": [], "lrange": [], "range_tags": "", "pred": [], "branch": ""}}


def project(iso, grid=None):
    """Abstract content of an isotherm (see Codec.tla, `Content`)."""
    import pygaps
    numpy = _np()
    out = {}
    cls = "point" if isinstance(iso, pygaps.PointIsotherm) else ("model" if isinstance(iso, pygaps.ModelIsotherm) else "base")
    out["cls"] = cls
    try:
        out["id"] = str(iso.iso_id)
    except Exception as e:  # an isotherm without identity
        out["id"] = "raise:" + exc_class(e)
    # read from the object's own attributes (not through to_dict, which the exporters themselves use)
    out["labels"] = [entry(k, getattr(iso, k, None)) for k in UNIT_KEYS]
    out["adsorbate"] = entry("adsorbate", str(iso.adsorbate))
    t = getattr(iso, "_temperature", None)
    out["temperature"] = entry("temperature", t)
    out["tnum"] = num(t) if isinstance(t, (int, float)) else ["?", 0, 0, -1]
    mat = iso.material
    out["material"] = entry("name", getattr(mat, "name", None))
    out["matprops"] = sorted((entry(k, v) for k, v in dict(getattr(mat, "properties", {})).items()), key=lambda e: e["k"])
    out["meta"] = sorted((entry(k, v) for k, v in dict(iso.properties).items()), key=lambda e: e["k"])
    if cls == "model":
        # the branch a model isotherm was fitted on is part of its description
        out["meta"].append(entry("branch", getattr(iso, "branch", None)))
        out["meta"].sort(key=lambda e: e["k"])
    out["data"] = {"cols": [], "dtypes": [], "cells": [], "branch": [], "n": 0}
    out["model"] = {"name": "", "rmse": ["", 0, 0, -1], "rmse_tag": "", "params": [], "prange": [], "lrange": [], "range_tags": "", "pred": [], "branch": ""}
    if cls == "point":
        df = iso.data_raw
        cols = [iso.pressure_key, iso.loading_key] + list(iso.other_keys)
        out["data"]["cols"] = [_esc(str(c)) for c in cols]
        out["data"]["dtypes"] = [str(df[c].dtype) for c in cols] + ["branch:" + str(df["branch"].dtype)]
        out["data"]["cells"] = [[num(v) for v in df[c].tolist()] for c in cols]
        out["data"]["branch"] = [_branch_mark(b) for b in df["branch"].tolist()]
        out["data"]["n"] = int(len(df))
        out["data"]["keys"] = [_esc(str(iso.pressure_key)), _esc(str(iso.loading_key))]
    elif cls == "model":
        m = iso.model
        out["model"]["name"] = str(m.name)
        out["model"]["rmse"] = num(m.rmse)
        out["model"]["rmse_tag"] = canon(m.rmse)[0]
        out["model"]["params"] = [[str(k), num(m.params[k])] for k in sorted(m.params)]
        out["model"]["param_kinds"] = ",".join(canon(m.params[k])[0] for k in sorted(m.params))
        out["model"]["prange"] = [num(x) for x in m.pressure_range]
        out["model"]["lrange"] = [num(x) for x in m.loading_range]
        out["model"]["range_tags"] = ",".join(canon(x)[0] for x in list(m.pressure_range) + list(m.loading_range))
        out["model"]["branch"] = str(getattr(iso, "branch", ""))
        out["model"]["pred"] = predictions(iso, grid)
    return out


def _branch_mark(b):
    numpy = _np()
    if isinstance(b, (bool, numpy.bool_)):
        return 1 if b else 0
    if isinstance(b, (int, numpy.integer)):
        return int(b)
    if isinstance(b, (float, numpy.floating)) and b == int(b):
        return int(b)
    return -1


def predictions(iso, grid):
    """Loadings and pressures the model predicts on a grid inside its fitted ranges (forward
    direction on the whole grid, inverse direction on three points); an exception is recorded by
    class name - the specification compares before/after, it does not judge the model."""
    numpy = _np()
    m = iso.model
    out = []
    try:
        p0, p1 = float(m.pressure_range[0]), float(m.pressure_range[1])
        l0, l1 = float(m.loading_range[0]), float(m.loading_range[1])
    except Exception as e:
        return [["range:" + exc_class(e), 0, 0, -1]]
    fr = grid or [0.1, 0.35, 0.6, 0.9]
    ps = [p0 + f * (p1 - p0) for f in fr]
    ls = [l0 + f * (l1 - l0) for f in fr]
    for kind, xs in (("loading", ps), ("pressure", ls)):
        direct = m.calculates == kind
        for x in (xs if direct else xs[1:3]):
            try:
                # numpy scalars and Python floats differ in how they report 1/0: make both raise
                with numpy.errstate(divide="raise", invalid="raise", over="raise"):
                    y = iso.loading_at(x) if kind == "loading" else iso.pressure_at(x)
                out.append(num(float(numpy.asarray(y).reshape(-1)[0])))
            except ArithmeticError:
                out.append(["raise:ArithmeticError", 0, 0, -1])
            except Exception as e:
                out.append(["raise:" + exc_class(e), 0, 0, -1])
    return out


# --------------------------------------------------------------------------------------------
# concrete isotherms

PRESSURE_UNITS = ["bar", "Pa", "kPa", "MPa", "atm", "mbar", "torr", "mmHg"]
LOADING_UNITS = {
    "molar": ["mmol", "mol", "kmol", "cm3(STP)", "mL(STP)"],
    "mass": ["g", "mg", "kg", "cg"],
    "volume_gas": ["cm3", "mL", "L", "m3"],
    "volume_liquid": ["cm3", "mL", "dm3", "L"],
    "fraction": [None],
    "percent": [None],
}
MATERIAL_UNITS = {
    "mass": ["g", "kg", "mg"],
    "volume": ["cm3", "mL", "L", "m3"],
    "molar": ["mol", "mmol", "kmol", "cm3(STP)"],
}
ADSORBATES = {"known": ["nitrogen", "carbon dioxide", "methane"], "alias": ["N2", "CO2", "CH4"], "custom": ["verifgas", "my gas X"]}
TEMPS = {"K_frac": [77.355, 298.15, 303.2], "K_integral": [77.0, 300.0], "C_zero": [0.0, 0.0], "C_neg": [-10.5, -196.0], "C_pos": [25.0, 30.1]}
MATERIALS = {
    "name_plain": [("VM-carbon", {}), ("TEST-MOF_5", {})],
    "name_space": [("Verif Zeolite 13X", {}), ("VM two words", {})],
    "name_unicode": [("VM-zéolite-β", {}), ("VM-活性炭", {})],
    "props_num": [("VM-props", {"density": 1.5, "molar_mass": 120.25}), ("VM-props2", {"density": 0.75})],
    "props_text": [("VM-ptext", {"form": "powder", "density": 2.1}), ("VM-ptext2", {"supplier": "lab B", "molar_mass": 60.5})],
    "props_int": [("VM-pint", {"batch_no": 5}), ("VM-pint2", {"cycles": 12, "density": 3.0})],
    # legitimate but falsy values: every property falsy / falsy next to ordinary ones
    "props_falsy": [("VM-pfalsy", {"porosity": 0.0, "hydrophobic": False, "cycles": 0}), ("VM-pfalsy2", {"swelling": 0.0, "form": "powder", "calcined": False})],
}

# model parameter sets (constructed, no fit): values with many digits, inside default bounds
MODEL_PARAMS = {
    "Henry": {"K": 2.3456789012},
    "Langmuir": {"K": 12.345678901, "n_m": 5.4321098765},
    "DSLangmuir": {"n_m1": 3.2109876, "K1": 25.123456, "n_m2": 2.0123456, "K2": 1.2345678},
    "TSLangmuir": {"n_m1": 2.1, "n_m2": 1.7654321, "n_m3": 0.987654321, "K1": 30.5, "K2": 3.25, "K3": 0.333333333},
    "BET": {"n_m": 4.123456789, "C": 87.654321, "N": 0.8765432},
    "GAB": {"n_m": 3.987654321, "C": 45.678901, "K": 0.7654321},
    "Freundlich": {"K": 6.54321098, "m": 2.3456789},
    "DA": {"n_m": 7.123456789, "e": 5432.10987, "m": 1.87654321},
    "DR": {"n_m": 6.987654321, "e": 6543.21098},
    "Quadratic": {"n_m": 2.5432109, "Ka": 8.7654321, "Kb": 15.4321098},
    "TemkinApprox": {"n_m": 5.6789012, "K": 9.8765432, "tht": 0.3456789012},
    "Virial": {"K": 3.456789012, "A": 0.123456789, "B": -0.0123456789, "C": 0.00123456789},
    "Toth": {"n_m": 6.123456789, "K": 14.5678901, "t": 0.76543210},
    "JensenSeaton": {"K": 55.4321098, "a": 4.56789012, "b": 0.123456789, "c": 1.23456789},
    "FHVST": {"n_m": 8.7654321, "K": 2.3456789, "a1v": 0.34567891},
    "WVST": {"n_m": 9.87654321, "K": 3.21098765, "L1v": 1.23456789, "Lv1": 0.87654321},
}
MODELS = list(MODEL_PARAMS)
# a parameter value outside the model's DEFAULT bounds for which the model equations still evaluate
# (most bounds are (0, inf): a negative value; BET N, GAB K in (0, 1), DA m in (1, 3): above the upper bound)
OOB_PARAM = {"Henry": ("K", -2.3456789012), "Langmuir": ("n_m", -5.4321098765), "DSLangmuir": ("n_m2", -2.0123456), "TSLangmuir": ("n_m3", -0.987654321),
             "BET": ("N", 1.23456789), "GAB": ("K", 1.12345678), "Freundlich": ("K", -6.54321098), "DA": ("m", 3.45678912), "DR": ("n_m", -6.987654321),
             "Quadratic": ("n_m", -2.5432109), "TemkinApprox": ("tht", -0.6123456789), "Virial": ("K", -3.456789012), "Toth": ("n_m", -6.123456789),
             "JensenSeaton": ("a", -4.56789012), "FHVST": ("n_m", -8.7654321), "WVST": ("n_m", -9.87654321)}
# the parameter set to exactly zero in the magnitude class "zero" (a value the model's default bounds include)
ZERO_PARAM = {"Henry": "K", "Langmuir": "K", "DSLangmuir": "K2", "TSLangmuir": "K3", "BET": "C", "GAB": "C", "Freundlich": "K",
              "DA": "n_m", "DR": "n_m", "Quadratic": "Kb", "TemkinApprox": "tht", "Virial": "C", "Toth": "K", "JensenSeaton": "c",
              "FHVST": "a1v", "WVST": "Lv1"}

# magnitude classes of the numbers a model carries: factor applied to every parameter (cycled), to the ranges and
# to the fit error.  All factors have more significant digits than any fixed-decimal rounding keeps.
MAGNITUDES = {
    "order_one": {"params": [1.0], "prange": (0.0123456789, 0.912345678901), "lrange": (0.23456789012, 4.5678901234), "rmse": 0.0123456789012},
    "tiny": {"params": [4.2713598264e-06, 8.6179234567e-09, 1.2345678912e-12, 3.3333333333333335e-07],
             "prange": (1.2345678901234e-09, 9.8765432109876e-07), "lrange": (2.3456789012345e-08, 4.5678901234567e-06), "rmse": 1.2345678901234e-11},
    "huge": {"params": [1.2345678901234e+06, 9.8765432109876e+11, 3.1415926535898e+09, 2.7182818284590e+07],
             "prange": (1.0132512345678e+05, 9.8765432109876e+11), "lrange": (1.2345678901234e+06, 4.5678901234567e+09), "rmse": 1.2345678901234e+03},
    "zero": {"params": [1.0], "prange": (0.0, 0.912345678901), "lrange": (0.0, 4.5678901234), "rmse": 0.0},
    "out_of_bounds": {"params": [1.0], "prange": (0.0123456789, 0.912345678901), "lrange": (0.23456789012, 4.5678901234), "rmse": 0.0123456789012},
    "many_digits": {"params": [1.0 / 3.0, 2.0 / 7.0, 0.1 + 0.2, 1.0 / 9.0],
                    "prange": (1.0 / 300.0, 2.0 / 3.0), "lrange": (1.0 / 7.0, 22.0 / 7.0), "rmse": 1.0 / 3000.0},
}

# layouts: (pressure, loading, branch argument / branch column, extra columns)
def layout_data(layout, rep, rng):
    """Concrete data of a layout class. Values carry more than 8 decimals where the class allows,
    so that a precision change is visible. Returns dict(pressure, loading, branch, extra)."""
    jit = lambda: rng.randint(1, 9) * 1.0e-10 + rng.randint(1, 9) * 1.0e-12
    def up(n, lo=0.011, hi=0.93):
        return [round(lo + (hi - lo) * i / max(1, n - 1), 6) + jit() for i in range(n)]
    def load(ps, a=5.3, k=9.7):
        return [a * k * p / (1 + k * p) + 0.123456789e-3 for p in ps]
    if layout == "one_point":
        ps = [0.25 + jit()]
        return {"pressure": ps, "loading": load(ps), "branch": "ads" if rep % 2 else "guess", "extra": {}}
    if layout == "ads_only":
        ps = up(5 + rep % 2)
        return {"pressure": ps, "loading": load(ps), "branch": ["guess", "ads"][rep % 2], "extra": {}}
    if layout == "des_only":
        ps = list(reversed(up(5)))
        return {"pressure": ps, "loading": load(ps), "branch": ["des", "guess"][rep % 2], "extra": {}}
    if layout == "both":
        a = up(5)
        d = list(reversed(up(4, 0.05, 0.8)))
        ps = a + d
        ls = load(a) + [x + 0.21 for x in load(d)]
        return {"pressure": ps, "loading": ls, "branch": "guess", "extra": {}}
    if layout == "interleaved":
        ps = up(6)
        marks = [[False, True, False, True, True, False], [True, False, False, True, False, True]][rep % 2]
        return {"pressure": ps, "loading": load(ps), "branch": marks, "extra": {}}
    if layout == "branch_column":
        # the branch given as a column of the user's table (int64 0/1 marks, des first)
        ps = up(5)
        return {"pressure": ps, "loading": load(ps), "branch": "column", "branch_col": [1, 1, 0, 0, 1][: len(ps)], "extra": {}}
    if layout == "extra_float":
        a = up(4)
        d = list(reversed(up(3, 0.05, 0.7)))
        ps = a + d
        return {"pressure": ps, "loading": load(a) + [x + 0.1 for x in load(d)], "branch": "guess",
                "extra": {"enthalpy": [10.0 + 1.23456789012 * i for i in range(len(ps))], "a_first": [0.5 * i + jit() for i in range(len(ps))]}}
    if layout == "extra_text":
        ps = up(4)
        return {"pressure": ps, "loading": load(ps), "branch": "guess",
                "extra": {"remark": [["ok", "ok", "check", "final"], ["a", "b", "c", "d"]][rep % 2]}}
    if layout == "extra_int":
        ps = up(4)
        return {"pressure": ps, "loading": load(ps), "branch": "guess", "extra": {"cycle": [1, 1, 2, 3]}}
    if layout == "dup_pressure":
        ps = up(3)
        ps = [ps[0], ps[1], ps[1], ps[2], ps[2], ps[1]]
        ls = load(ps)
        ls[2] += 0.05
        return {"pressure": ps, "loading": ls, "branch": "guess", "extra": {}}
    if layout == "int_typed":
        ps = [1, 2, 3, 5, 8]
        return {"pressure": ps, "loading": [2, 3, 5, 6, 7], "branch": "guess", "extra": {}}
    if layout == "ads_unsorted":
        # all points declared adsorption although the pressure is not monotonic (a re-measured point)
        ps = up(5)
        ps = [ps[0], ps[1], ps[4], ps[2], ps[3]]
        return {"pressure": ps, "loading": load(ps), "branch": "ads", "extra": {}}
    if layout == "zero_start":
        # the adsorption branch starts in vacuum: first point (0.0, 0.0); rep 1 adds a desorption branch
        a = [0.0] + up(4, 0.1, 0.9)
        la = [0.0] + load(a[1:])
        if rep % 2:
            d = list(reversed(up(3, 0.2, 0.7)))
            return {"pressure": a + d, "loading": la + [x + 0.2 for x in load(d)], "branch": "guess", "extra": {}}
        return {"pressure": a, "loading": la, "branch": "guess", "extra": {}}
    if layout == "zero_mid":
        # a desorption scan down to vacuum followed by further points: pressure exactly 0.0 in the middle
        a = up(4, 0.1, 0.9)
        d = [0.5 + jit(), 0.0, 0.05 + jit(), 0.02 + jit()]
        return {"pressure": a + d, "loading": load(a) + [2.7, 0.4 + jit(), 0.9, 0.6], "branch": "guess", "extra": {}}
    if layout == "zero_end":
        # the desorption branch ends in vacuum: last point at pressure exactly 0.0 (rep 1: with residual loading)
        a = up(4, 0.1, 0.9)
        d = [0.5 + jit(), 0.2 + jit(), 0.0]
        return {"pressure": a + d, "loading": load(a) + [3.1, 1.9, [0.0, 0.31415926535][rep % 2]], "branch": "guess", "extra": {}}
    if layout == "zero_loading":
        # loading exactly 0.0 at non-zero pressure, on both branches
        a = up(4, 0.1, 0.9)
        d = [0.5 + jit(), 0.2 + jit()]
        la = load(a)
        la[0] = 0.0
        return {"pressure": a + d, "loading": la + [2.2, 0.0], "branch": "guess", "extra": {}}
    if layout == "extra_zero":
        # extra numeric columns holding 0.0 / 0 at the start, in the middle and at the end, both branches
        a = up(4, 0.1, 0.9)
        d = list(reversed(up(3, 0.2, 0.7)))
        ps = a + d
        return {"pressure": ps, "loading": load(a) + [x + 0.1 for x in load(d)], "branch": "guess",
                "extra": {"enthalpy": [0.0, 12.3456789012, 0.0, 9.87654321, 8.5, 0.0, 0.0], "cycle": [0, 1, 0, 2, 2, 0, 3]}}
    if layout == "extra_text_empty":
        # an extra text column with empty cells
        a = up(3, 0.1, 0.9)
        d = list(reversed(up(2, 0.2, 0.7)))
        return {"pressure": a + d, "loading": load(a) + [x + 0.1 for x in load(d)], "branch": "guess",
                "extra": {"remark": [["", "ok", "", "check", ""], ["a", "", "b", "", "c"]][rep % 2]}}
    if layout in ("extra_text_numlike", "extra_text_wordlike"):
        a = up(4, 0.1, 0.9)
        d = list(reversed(up(2, 0.2, 0.7)))
        cells = {"extra_text_numlike": [["007", "1e3", "12", "3.50", "-4", "0"], ["12", "13", "14", "15", "16", "17"]],
                 "extra_text_wordlike": [["True", "None", "nan", "false", "NA", "inf"], ["True", "False", "True", "True", "False", "False"]]}[layout][rep % 2]
        return {"pressure": a + d, "loading": load(a) + [x + 0.1 for x in load(d)], "branch": "guess", "extra": {"remark": cells}}
    if layout == "many_points":
        a = up(24)
        d = list(reversed(up(12, 0.1, 0.9)))
        return {"pressure": a + d, "loading": load(a) + [x + 0.3 for x in load(d)], "branch": "guess", "extra": {}}
    raise MachineryError(f"unknown layout {layout}")


def relabel(df, rowlab, rng):
    """The same table (same rows, same order) under another row labelling, obtained the way users get there."""
    import pandas
    n = len(df)
    if rowlab in ("default", "na"):
        return df
    if rowlab == "shifted":
        out = df.copy()
        out.index = range(5, 5 + n)
        return out
    if rowlab == "strings":
        out = df.copy()
        out.index = [f"pt{i:02d}" for i in range(n)]
        return out
    if rowlab == "permuted":
        # recorded in another order, brought into measurement order with sort_values: labels are a permutation
        order = list(range(n))
        rng.shuffle(order)
        if n > 1 and order == sorted(order):
            order = order[1:] + order[:1]
        tmp = df.copy()
        tmp["_seq"] = range(n)
        tmp = tmp.iloc[order].reset_index(drop=True).sort_values("_seq").drop(columns="_seq")
        return tmp
    if rowlab == "gaps":
        # a larger table from which calibration rows are filtered out with a boolean mask: labels start above 0 and have gaps
        rows, keep = [], []
        for i in range(n):
            if i == 0 or i % 2 == 1:
                rows.append(df.iloc[i])
                keep.append(False)
            rows.append(df.iloc[i])
            keep.append(True)
        big = pandas.DataFrame(rows).reset_index(drop=True).astype(df.dtypes.to_dict())
        return big[pandas.Series(keep)]
    raise MachineryError(f"unknown row labelling {rowlab}")


class Builder:
    """Builds the concrete isotherm of a scenario row. Fits are cached per (model, data kind)."""

    def __init__(self, seed):
        self.seed = seed
        self._fits = {}

    def rng(self, row, what):
        """Independent stream per (row, purpose): resetting one dimension of a row leaves every other
        seeded choice of that row unchanged (used when a failure is attributed to a dimension)."""
        return random.Random(f"{self.seed}|{row.get('n', 0)}|{row['rep']}|{what}")

    def base_kwargs(self, row):
        import copy
        rep = row["rep"]
        sep = row.get("sep", "na")
        pick = lambda what, seq: self.rng(row, what).choice(seq)
        kw = {}
        name, props = MATERIALS[row["matc"]][rep % 2]
        kw["material"] = dict(name=name, **copy.deepcopy(props)) if props else name
        if row.get("reg", "none") != "none":
            # the isotherm carries its own Material instance (the importers meet a same-named registered one later)
            from pygaps.core.material import Material
            kw["material"] = Material(name, **copy.deepcopy(props))
        kw["adsorbate"] = pick("ads", ADSORBATES[row["ads"]])
        tc = row["tclass"]
        kw["temperature"] = pick("temp", TEMPS[tc])
        kw["temperature_unit"] = "K" if tc.startswith("K") else "°C"
        self._then_celsius = tc.startswith("C") and rep % 2 == 1
        if self._then_celsius:
            kw["temperature"] = kw["temperature"] + 273.15
            kw["temperature_unit"] = "K"
        kw["pressure_mode"] = row["pmode"]
        kw["pressure_unit"] = pick("punit", PRESSURE_UNITS) if row["pmode"] == "absolute" else None
        kw["loading_basis"] = row["lbasis"]
        kw["loading_unit"] = pick("lunit", LOADING_UNITS[row["lbasis"]])
        kw["material_basis"] = row["mbasis"]
        kw["material_unit"] = pick("munit", MATERIAL_UNITS[row["mbasis"]])
        kw["comment"] = "ballast text"
        if row["vc"] != "absent":
            kw[key_of(row["kc"], rep, sep, row["fmt"])] = copy.deepcopy(value_of(row["vc"], rep, sep))
        return kw

    def focus(self, row):
        """(key, value) of the focus metadata entry of a row, or (None, None)."""
        if row["vc"] == "absent":
            return None, None
        sep = row.get("sep", "na")
        return key_of(row["kc"], row["rep"], sep, row["fmt"]), value_of(row["vc"], row["rep"], sep)

    def build(self, row):
        """Celsius temperature classes are reached, for every second representative, the way a user gets there:
        the isotherm is built in kelvin and then converted with convert_temperature (the original then does not
        depend on the constructor accepting the final representation)."""
        iso = self._build(row)
        if getattr(self, "_then_celsius", False):
            iso.convert_temperature("°C")
        return iso

    def _build(self, row):
        import pandas
        import pygaps
        from pygaps.core.baseisotherm import BaseIsotherm
        rng = self.rng(row, "data")
        kw = self.base_kwargs(row)
        cls = row["cls"]
        if cls == "base":
            return BaseIsotherm(**kw)
        if cls == "point":
            lay = layout_data(row["layout"], row["rep"], rng)
            rowlab = row.get("rowlab", "default")
            if lay["extra"] or lay["branch"] == "column" or rowlab not in ("default", "na"):
                df = pandas.DataFrame({"pressure": lay["pressure"], "loading": lay["loading"], **lay["extra"]})
                if lay["branch"] == "column":
                    df["branch"] = lay["branch_col"]
                df = relabel(df, rowlab, self.rng(row, "rowlab"))
                if lay["branch"] == "column":
                    return pygaps.PointIsotherm(isotherm_data=df, pressure_key="pressure", loading_key="loading", **kw)
                return pygaps.PointIsotherm(isotherm_data=df, pressure_key="pressure", loading_key="loading", branch=lay["branch"], **kw)
            return pygaps.PointIsotherm(pressure=lay["pressure"], loading=lay["loading"], branch=lay["branch"], **kw)
        if cls == "model":
            return self.model_iso(row, kw, rng)
        raise MachineryError(cls)

    def model_iso(self, row, kw, rng):
        """layout (for models) = how the model came to be:
        constructed : model object built from a parameter dictionary (Python floats), no fit
        as_fitted   : the same with numpy scalars everywhere and the model initialised with the isotherm
                      parameters, as ModelIsotherm does before fitting (DA / DR take R*T from them)
        fitted      : fitted to exact float data generated from the parameter set
        fitted_int  : fitted to integer-typed data (numpy integers end up in the ranges)"""
        import numpy
        import pygaps
        from pygaps.modelling import get_isotherm_model
        name = row["model"]
        how = row["layout"]
        branch = ["ads", "des"][row["rep"] % 2]
        if how in ("constructed", "as_fitted"):
            f = (lambda x: numpy.float64(x)) if how == "as_fitted" else float
            mag = MAGNITUDES[row.get("mag", "order_one") if row.get("mag", "na") != "na" else "order_one"]
            fac = mag["params"]
            pars = {k: f(v * fac[i % len(fac)]) for i, (k, v) in enumerate(MODEL_PARAMS[name].items())}
            m = get_isotherm_model(name, parameters=pars,
                                   pressure_range=tuple(f(x) for x in mag["prange"]),
                                   loading_range=tuple(f(x) for x in mag["lrange"]), rmse=f(mag["rmse"]))
            if row.get("mag") == "zero":
                # exactly zero, as a fit may leave it (set on the finished model: the original must not depend on how
                # the constructor treats the value): a float 0.0, or the integer 0
                m.params[ZERO_PARAM[name]] = f(0.0) if (how == "as_fitted" or row["rep"] % 2 == 0) else 0
            if row.get("mag") == "out_of_bounds":
                # as a fit with wider user bounds leaves it (assigned on the finished model, like the fit does)
                m.params[OOB_PARAM[name][0]] = f(OOB_PARAM[name][1])
            if how == "as_fitted":
                m.__init_parameters__(dict(kw))
            return pygaps.ModelIsotherm(model=m, branch=branch, **kw)
        if how == "fitted_int":
            p = numpy.array([1, 2, 3, 5, 8, 13])
            l = numpy.array([2, 3, 4, 5, 6, 7])
            return self._fit(("fitted_int", name, kw["temperature"] if name in ("DA", "DR") else 0), kw,
                             dict(pressure=p, loading=l, model=name))
        # fitted: exact data of the parameter set, started next to the solution
        ref = get_isotherm_model(name, parameters=dict(MODEL_PARAMS[name]))
        ref.__init_parameters__(dict(kw))
        if ref.calculates == "loading":
            p = numpy.linspace(0.02, 0.85, 12) + 1.0e-9 * (self.seed % 7)
            l = ref.loading(p)
        else:
            l = numpy.linspace(0.3, 4.0, 12) + 1.0e-9 * (self.seed % 7)
            p = ref.pressure(l)
        guess = {k: v * 1.01 for k, v in MODEL_PARAMS[name].items()}
        return self._fit(("fitted", name, kw["temperature"] if name in ("DA", "DR") else 0), kw,
                         dict(pressure=p, loading=l, model=name, param_guess=guess))

    def _fit(self, key, kw, fit_args):
        """Fits are deterministic in their inputs: fit once, afterwards hand a copy of the fitted model
        object (with everything the fit left on it) to the ModelIsotherm constructor."""
        import copy
        import pygaps
        if fit_args.get("model") in ("DA", "DR"):
            # these models take the isotherm temperature as a parameter: keep the genuinely fitted isotherm
            # (wrapping a copy of the model would route the original through the same constructor path as the import)
            return pygaps.ModelIsotherm(**fit_args, **copy.deepcopy(kw))
        if key not in self._fits:
            try:
                # (the isotherm constructor pops 'name' out of a material dictionary: hand it a copy)
                self._fits[key] = pygaps.ModelIsotherm(**fit_args, **copy.deepcopy(kw)).model
            except Exception as e:
                self._fits[key] = e
        m = self._fits[key]
        if isinstance(m, Exception):
            raise m
        return pygaps.ModelIsotherm(model=copy.deepcopy(m), branch="ads", **kw)


# --------------------------------------------------------------------------------------------
# the real codecs

def roundtrip(iso, row, tmpdir, again=False):
    """Export then import with the real code. Returns dict(stage, exc, pg, msg, doc, iso2, doc2).
    stage: 'done' | 'export' | 'import'; pg: the exception derives from pygaps' pgError."""
    import pygaps.parsing as pp
    from pygaps.utilities.exceptions import pgError
    fmt, target = row["fmt"], row["target"]
    sep = SEP_CHAR.get(row.get("sep", "na"), ",")
    ext = {"json": "json", "csv": "csv", "xl": "xls", "aif": "aif"}[fmt]
    path = os.path.join(tmpdir, f"doc{row.get('n', 0)}.{ext}")
    res = {"stage": "done", "exc": "", "pg": False, "msg": "", "doc": None, "iso2": None, "doc2": None}

    def export(x, p):
        if fmt == "json":
            return pp.isotherm_to_json(x, p) if p else pp.isotherm_to_json(x)
        if fmt == "csv":
            return pp.isotherm_to_csv(x, p, separator=sep) if p else pp.isotherm_to_csv(x, separator=sep)
        if fmt == "aif":
            return pp.isotherm_to_aif(x, p) if p else pp.isotherm_to_aif(x)
        if fmt == "xl":
            return pp.isotherm_to_xl(x, p)
        raise MachineryError(fmt)

    def imp(src):
        if fmt == "json":
            return pp.isotherm_from_json(src)
        if fmt == "csv":
            return pp.isotherm_from_csv(src, separator=sep)
        if fmt == "aif":
            return pp.isotherm_from_aif(src)
        if fmt == "xl":
            return pp.isotherm_from_xl(src)

    use_file = target == "file" or fmt == "xl"
    try:
        doc = export(iso, path if use_file else None)
        if use_file and fmt != "xl":
            with open(path, encoding="utf-8") as f:
                doc = f.read()
        res["doc"] = doc if fmt != "xl" else None
    except Exception as e:
        res.update(stage="export", exc=exc_class(e), pg=isinstance(e, pgError), msg=str(e)[:160])
        _rm(path)
        return res
    import pygaps
    saved = list(pygaps.MATERIAL_LIST)
    try:
        reg = registered_material(iso, row.get("reg", "none"))
        if reg is not None:
            pygaps.MATERIAL_LIST.append(reg)
        res["iso2"] = imp(path if use_file else doc)
    except Exception as e:
        res.update(stage="import", exc=exc_class(e), pg=isinstance(e, pgError), msg=str(e)[:160])
        _rm(path)
        return res
    finally:
        pygaps.MATERIAL_LIST[:] = saved
    if again and fmt != "xl":
        try:
            res["doc2"] = export(res["iso2"], None)
            if use_file:
                # the file route must produce the same document as the string route
                res["doc_str"] = export(iso, None)
        except Exception as e:
            res["doc2"] = "raise:" + exc_class(e)
    _rm(path)
    return res


REGISTRY_ONLY_KEYS = {"legacy_batch": "2019-A", "bet_area": 1234.5}


def registered_material(iso, state):
    """The same-named material the session has registered at import time (never the isotherm's own instance)."""
    import copy
    from pygaps.core.material import Material
    if state in ("none", "na", None):
        return None
    own = copy.deepcopy(dict(iso.material.properties))
    if state == "same_equal":
        return Material(iso.material.name, **own)
    other = {}
    for k, v in own.items():
        if isinstance(v, bool):
            other[k] = not v
        elif isinstance(v, int):
            other[k] = v + 7
        elif isinstance(v, float):
            other[k] = v * 0.5 + 1.0
        else:
            other[k] = "older " + str(v)
    other.update(REGISTRY_ONLY_KEYS)
    return Material(iso.material.name, **other)


def _rm(path):
    try:
        os.remove(path)
    except OSError:
        pass


def doc_digest(doc):
    import hashlib
    if doc is None:
        return ""
    return hashlib.sha1(doc.encode("utf-8")).hexdigest()[:16]
