"""Thin runner around TLC: exhaustive runs, simulation, and the JSON batch oracle."""
import json
import os
import re
import shutil
import subprocess
import tempfile

from .common import VERIF, MachineryError

SPEC = os.path.join(VERIF, "spec")
JAR = "/opt/veriftools/tla/tla2tools.jar:/opt/veriftools/tla/CommunityModules-deps.jar"


def scratch(prefix="verif-"):
    base = os.environ.get("VERIF_TMP") or tempfile.gettempdir()
    return tempfile.mkdtemp(prefix=prefix, dir=base)


def _java(args, env=None, timeout=1800, cwd=SPEC, heap=None):
    cmd = ["java", "-XX:+UseParallelGC"]
    cmd.append(f"-Xmx{heap or '4g'}")
    cmd += ["-cp", JAR, "tlc2.TLC"] + args
    e = dict(os.environ)
    if env:
        e.update({k: str(v) for k, v in env.items()})
    try:
        p = subprocess.run(cmd, cwd=cwd, env=e, capture_output=True, text=True, timeout=timeout)
    except subprocess.TimeoutExpired as ex:
        raise MachineryError(f"TLC timed out after {timeout}s: {' '.join(args)}") from ex
    return p


_STATS = re.compile(r"(\d+) states generated, (\d+) distinct states found, (\d+) states left on queue")
_DEPTH = re.compile(r"The depth of the complete state graph search is (\d+)")


def parse(out):
    res = {"states_generated": 0, "distinct": 0, "queue": 0, "depth": 0, "ok": False, "errors": [], "prints": [], "coverage": {}}
    m = None
    for m in _STATS.finditer(out):
        pass
    if m:
        res["states_generated"], res["distinct"], res["queue"] = (int(m.group(i)) for i in (1, 2, 3))
    m = _DEPTH.search(out)
    if m:
        res["depth"] = int(m.group(1))
    res["ok"] = "Model checking completed. No error has been found." in out or "Finished in" in out and "Error:" not in out
    for line in out.splitlines():
        if line.startswith("Error:") or "is violated" in line or "Assumption" in line and "is false" in line:
            res["errors"].append(line.strip())
    if res["errors"]:
        res["ok"] = False
    # coverage lines: <Action line ..., col ... of module M>: distinct:total
    for m in re.finditer(r"^<(\w+) line (\d+), col \d+ to line \d+, col \d+ of module (\w+)>: (\d+):(\d+)", out, re.M):
        res["coverage"][f"{m.group(3)}!{m.group(1)}"] = [int(m.group(4)), int(m.group(5))]
    return res


def check(module, cfg=None, env=None, workers="auto", timeout=1800, coverage=False, extra=(), heap=None, deadlock=True):
    """Exhaustive TLC run of spec/<module>.tla with spec/<cfg or module>.cfg."""
    meta = scratch("tlc-")
    try:
        args = ["-workers", str(workers), "-metadir", meta, "-noGenerateSpecTE"]
        if coverage:
            args += ["-coverage", "1"]
        if not deadlock:
            args += ["-deadlock"]
        args += list(extra)
        args += ["-config", (cfg or module) + ("" if (cfg or module).endswith(".cfg") else ".cfg"), module + ".tla"]
        p = _java(args, env=env, timeout=timeout, heap=heap)
        out = p.stdout + p.stderr
        res = parse(out)
        res["returncode"] = p.returncode
        res["out"] = out
        return res
    finally:
        shutil.rmtree(meta, ignore_errors=True)


def must_pass(module, **kw):
    res = check(module, **kw)
    if not res["ok"] or res["returncode"] != 0:
        tail = "\n".join(res["out"].splitlines()[-40:])
        raise MachineryError(f"TLC run of {module} did not complete cleanly:\n{tail}")
    return res


def oracle(module, records, env=None, timeout=1800, cfg="Oracle", in_var="X_IN", out_var="X_OUT", heap="8g", chunk=None):
    """Evaluate spec/<module>.tla (an *Oracle module with ASSUME JsonSerialize(IOEnv.X_OUT, ...))
    on a list of JSON records; returns the list of answers."""
    if chunk and len(records) > chunk:
        out = []
        for i in range(0, len(records), chunk):
            out.extend(oracle(module, records[i:i + chunk], env=env, timeout=timeout, cfg=cfg, in_var=in_var, out_var=out_var, heap=heap))
        return out
    d = scratch("orc-")
    try:
        fin = os.path.join(d, "in.json")
        fout = os.path.join(d, "out.json")
        with open(fin, "w") as f:
            json.dump(records, f)
        e = {in_var: fin, out_var: fout}
        if env:
            e.update(env)
        args = ["-workers", "1", "-metadir", os.path.join(d, "m"), "-noGenerateSpecTE", "-config", cfg + ".cfg", module + ".tla"]
        p = _java(args, env=e, timeout=timeout, heap=heap)
        out = p.stdout + p.stderr
        if not os.path.exists(fout) or "Error:" in out:
            tail = "\n".join(out.splitlines()[-40:])
            raise MachineryError(f"TLC oracle {module} failed:\n{tail}")
        with open(fout) as f:
            ans = json.load(f)
        if len(ans) != len(records):
            raise MachineryError(f"TLC oracle {module}: {len(ans)} answers for {len(records)} records")
        return ans
    finally:
        shutil.rmtree(d, ignore_errors=True)


def simulate(module, cfg, num, depth, seed, env=None, timeout=1800, extra=(), workers=1, trace_prefix=None):
    """tlc -simulate; returns parsed result (PrintT output in res['out']).
    trace_prefix: write one TLA+ trace file per behaviour (<prefix>_<worker>_<n>); num is per worker."""
    meta = scratch("sim-")
    try:
        simarg = f"num={num}" if not trace_prefix else f"file={trace_prefix},num={num}"
        args = ["-workers", str(workers), "-metadir", meta, "-noGenerateSpecTE", "-simulate", simarg, "-depth", str(depth), "-seed", str(seed)]
        args += list(extra)
        args += ["-config", cfg + ".cfg", module + ".tla"]
        p = _java(args, env=env, timeout=timeout)
        out = p.stdout + p.stderr
        res = parse(out)
        res["out"] = out
        res["returncode"] = p.returncode
        return res
    finally:
        shutil.rmtree(meta, ignore_errors=True)


_STATE_HDR = re.compile(r"^STATE_(\d+) ==", re.M)
_VAR = re.compile(r"^/\\ (\w+) = ", re.M)
_FIELD = re.compile(r'(\w+) \|-> "([^"]*)"')


def parse_trace_file(path):
    """A behaviour written by `-simulate file=`: list of states, each {var: raw TLA+ text}."""
    with open(path) as f:
        txt = f.read()
    hdrs = list(_STATE_HDR.finditer(txt))
    states = []
    for i, h in enumerate(hdrs):
        body = txt[h.end():hdrs[i + 1].start() if i + 1 < len(hdrs) else len(txt)]
        body = re.sub(r"^\\\*.*$", "", body, flags=re.M)
        vs = list(_VAR.finditer(body))
        st = {}
        for j, v in enumerate(vs):
            st[v.group(1)] = body[v.end():vs[j + 1].start() if j + 1 < len(vs) else len(body)].strip().rstrip("=").strip()
        states.append(st)
    return states


def parse_flat_record(text):
    """[ a |-> "x", b |-> "y" ] with string fields -> dict"""
    return dict(_FIELD.findall(text))
