"""Breadth part of C04: every read-only entry point is pure and blind to hidden state.

For every case (entry point x variant x fixture) the recorder
  * builds the argument objects (measured sample isotherms the repository's own tests use, synthetic ones),
  * builds fresh equal copies through the constructors (to_dict() + data_raw.copy(), new Adsorbate/Material objects),
  * snapshots every argument (iso_id, labels, data by value, metadata, adsorbate, material) and the
    module-level state (registries by value, class defaults, tables) before, after the first and after the second call,
  * records the outcome of: first call, second call, the call on the fresh copies, the call with all hidden state
    cleared (cold), the call after the hidden state was filled through ANOTHER resource / state point (cross).
Nothing is judged here: the log goes to TLC (spec/PureTrace.tla, clauses of spec/Pure.tla), which names every
failing clause.  Python only computes the float64 distance between numeric payloads, as the specification asks.
Beside the recording TLC checks the hidden-state model spec/Pure.tla exhaustively (PureMC) and refutes it with each named
hazard switched on; hand-made corrupted events (canaries) go through the oracle on every run.
Thermodynamic property methods of Adsorbate are interleaved pairwise (previous call at one state point, call at another)
on the shared registry object and compared with a fresh Adsorbate.
"""
import contextlib
import copy
import hashlib
import io
import os
import pickle
import shutil
import subprocess
import sys
import time
from concurrent.futures import ThreadPoolExecutor

import numpy

from .common import REPO, VERIF, MachineryError, exc_class
from . import tlc
from .encode import dec_enc

DEFECTS = ("inplace", "stale_interp", "key_ignored", "no_update", "fit_leaks")


# --------------------------------------------------------------------------- digests
def _sha(s):
    return hashlib.sha1(s.encode("utf8", "surrogatepass")).hexdigest()[:16]


def _val(x):
    """order-insensitive, type-sensitive text of a metadata value"""
    if isinstance(x, dict):
        return "{" + ",".join(f"{_val(k)}:{_val(v)}" for k, v in sorted(x.items(), key=lambda kv: str(kv[0]))) + "}"
    if isinstance(x, (list, tuple)):
        return type(x).__name__ + "(" + ",".join(_val(v) for v in x) + ")"
    if isinstance(x, numpy.ndarray):
        return f"ndarray[{x.dtype}]" + _val(x.tolist())
    if isinstance(x, numpy.generic):
        return f"{type(x).__name__}:{x.item()!r}"
    if isinstance(x, (str, int, float, bool)) or x is None:
        return f"{type(x).__name__}:{x!r}"
    return f"{type(x).__name__}:{x!r}"


def df_digest(df):
    h = hashlib.sha1()
    h.update(repr([str(c) for c in df.columns]).encode())
    h.update(repr(list(df.index)).encode())
    h.update(repr([str(t) for t in df.dtypes]).encode())
    for c in df.columns:
        a = df[c].to_numpy()
        if a.dtype.kind in "fiub":
            h.update(numpy.ascontiguousarray(a).tobytes())
        else:
            h.update(_val(a.tolist()).encode("utf8", "surrogatepass"))
    return h.hexdigest()[:16]


def _props(d):
    """order-insensitive, type-sensitive text of a properties dictionary (fast path: string keys, plain values)"""
    try:
        return repr(sorted(d.items(), key=lambda kv: kv[0]))
    except TypeError:
        return _val(d)


def ads_text(a):
    return f"{a.name}|{a.alias!r}|{_props(a.properties)}"


def mat_text(m):
    return f"{m.name}|{_props(m.properties)}"


def obs_adsorbate(a):
    return {"kind": "Adsorbate", "name": str(a.name), "alias": repr(list(a.alias)), "properties": _sha(_props(a.properties))}


def obs_material(m):
    return {"kind": "Material", "name": str(m.name), "properties": _sha(_props(m.properties))}


_HIDDEN_ATTRS = ("l_interpolator", "p_interpolator")
_STD_ATTRS = ("_material", "_adsorbate", "_temperature", "properties", "data_raw", "model", "pressure_key", "loading_key", "other_keys", "branch",
              "pressure_mode", "pressure_unit", "loading_basis", "loading_unit", "material_basis", "material_unit", "temperature_unit")


def obs_iso(iso):
    """the observable state of an isotherm, as the property lists it (identifier, labels, data, properties)"""
    o = {"kind": type(iso).__name__}
    u = iso.units
    o["labels"] = ",".join(f"{k}={u[k]}" for k in sorted(u))
    o["temperature"] = repr(iso._temperature)
    o["meta"] = _sha(_val(iso.properties))
    o["adsorbate"] = _sha(ads_text(iso.adsorbate))
    o["material"] = _sha(mat_text(iso.material))
    o["attributes"] = _sha(_val(sorted((k, _val(v) if k not in _STD_ATTRS else "") for k, v in vars(iso).items() if k not in _HIDDEN_ATTRS)))
    if hasattr(iso, "data_raw"):
        o["data"] = df_digest(iso.data_raw) + f"/{iso.pressure_key}/{iso.loading_key}/{list(iso.other_keys)!r}"
    elif hasattr(iso, "model"):
        m = iso.model
        o["data"] = _sha(_val([m.name, m.params, m.rmse, list(m.pressure_range), list(m.loading_range), getattr(iso, "branch", None),
                               getattr(m, "param_bounds", None)]))
    else:
        o["data"] = "-"
    # the identifier last: computing it is itself a library call (to_dict, hashing); whatever it might move is digested above first
    try:
        o["iso_id"] = str(iso.iso_id)
    except Exception as e:  # e.g. numpy integers in model ranges: the id itself raises
        o["iso_id"] = "exception:" + exc_class(e)
    return o


def peek(x):
    """human-readable summary kept beside the digests (never judged)"""
    import pygaps
    if isinstance(x, dict):
        return {"dict": repr(x)[:300]}
    if isinstance(x, pygaps.Adsorbate):
        return {"adsorbate": ads_text(x)[:300]}
    if isinstance(x, pygaps.Material):
        return {"material": mat_text(x)[:300]}
    p = {"units": dict(x.units), "temperature": x._temperature, "material": mat_text(x.material)[:200], "adsorbate_properties": sorted(x.adsorbate.properties)[:40]}
    if hasattr(x, "data_raw"):
        d = x.data_raw
        p["columns"] = [str(c) for c in d.columns]
        p["index_head"] = list(d.index[:4])
        p["pressure_head"] = d[x.pressure_key].tolist()[:4]
        p["loading_head"] = d[x.loading_key].tolist()[:4]
        p["dtypes"] = [str(t) for t in d.dtypes]
    elif hasattr(x, "model"):
        p["model"] = [x.model.name, dict(x.model.params)]
    p["properties"] = {str(k): repr(v)[:60] for k, v in list(x.properties.items())[:12]}
    return p


def obs_any(x):
    import pygaps
    if isinstance(x, dict):
        return {"kind": "dict", "content": _sha(_val(x))}
    if isinstance(x, pygaps.Adsorbate):
        return obs_adsorbate(x)
    if isinstance(x, pygaps.Material):
        return obs_material(x)
    return obs_iso(x)


_CLASS_ATTRS = ("name", "formula", "calculates", "param_names", "param_default_bounds", "params", "param_bounds", "pressure_range", "loading_range", "rmse")


def obs_globals():
    """module-level state a read-only call has no business changing (the caches proper are hidden state and not listed)"""
    import importlib
    import pygaps
    import pygaps.modelling as pgm
    from pygaps.core.baseisotherm import BaseIsotherm
    from pygaps.core.pointisotherm import PointIsotherm
    from pygaps.core.modelisotherm import ModelIsotherm
    import pygaps.characterisation.models_hk as hk
    import pygaps.characterisation.models_thickness as mt
    import pygaps.characterisation.psd_kernel as pk
    import pygaps.units.converter_unit as cu
    import pygaps.units.converter_mode as cmode
    d = []
    for cls in (BaseIsotherm, PointIsotherm, ModelIsotherm):
        d.append([cls.__name__, cls._unit_params, list(cls._required_params), list(cls._reserved_params)])
    d.append([list(pgm._MODELS), list(pgm._GUESS_MODELS), list(getattr(pgm, "_IAST_MODELS", []))])
    for name in pgm._MODELS:
        mod = importlib.import_module("pygaps.modelling." + name.lower())
        cls = getattr(mod, name)
        d.append([name] + [repr(cls.__dict__.get(a, "-")) for a in _CLASS_ATTRS])
    d.append([hk.HK_KEYS, {k: v for k, v in hk._ADSORBENT_MODELS.items()}])
    d.append([sorted(mt._THICKNESS_MODELS), dict(pk.KERNELS)])
    d.append([cu._PRESSURE_UNITS, cu._MOLAR_UNITS, cu._MASS_UNITS, cu._VOLUME_UNITS, cu._TEMPERATURE_UNITS])
    d.append([sorted(cmode._PRESSURE_MODE), sorted(cmode._LOADING_MODE), sorted(cmode._MATERIAL_MODE)])
    try:
        from pygaps.utilities.coolprop_utilities import thermodynamic_backend
        d.append(thermodynamic_backend())
    except Exception:
        d.append("-")
    return {
        "kind": "globals",
        "adsorbates": _sha("\n".join(ads_text(a) for a in pygaps.ADSORBATE_LIST)),
        "materials": _sha("\n".join(mat_text(m) for m in pygaps.MATERIAL_LIST)),
        "defaults": _sha(_val(d)),
    }


# --------------------------------------------------------------------------- outcomes
class Canon:
    """splits a result into everything discrete (shape text) and its numeric payload (list of float arrays)"""

    def __init__(self):
        self.shape = []
        self.leaves = []

    def leaf(self, a):
        a = numpy.asarray(a, dtype=float)
        bad = ~numpy.isfinite(a)
        if bad.any():
            self.shape.append("nonfinite:" + _sha(repr(numpy.argwhere(bad).tolist()) + repr(a[bad].tolist())))
            a = numpy.where(bad, 0.0, a)
        self.shape.append(f"f{list(a.shape)}")
        self.leaves.append(a.ravel())

    def walk(self, x):
        import pandas
        s = self.shape
        if x is None or isinstance(x, (bool, str, numpy.bool_)):
            s.append(f"{type(x).__name__}:{x!r}")
        elif isinstance(x, (int, numpy.integer)):
            s.append(f"i:{int(x)}")
        elif isinstance(x, (float, numpy.floating)):
            self.leaf(x)
        elif isinstance(x, numpy.ndarray):
            if x.dtype.kind == "f":
                self.leaf(x)
            elif x.dtype.kind in "iub":
                s.append(f"int{list(x.shape)}:" + _sha(repr(x.tolist())))
            else:
                s.append(f"obj{list(x.shape)}[")
                for v in x.ravel().tolist():
                    self.walk(v)
                s.append("]")
        elif isinstance(x, dict):
            s.append("{")
            for k in sorted(x, key=str):
                s.append(f"{k!s}=")
                self.walk(x[k])
            s.append("}")
        elif isinstance(x, (list, tuple)):
            if len(x) > 0 and all(isinstance(v, (float, numpy.floating)) for v in x):
                s.append(type(x).__name__)
                self.leaf(list(x))
            else:
                s.append(f"{type(x).__name__}{len(x)}[")
                for v in x:
                    self.walk(v)
                s.append("]")
        elif isinstance(x, pandas.DataFrame):
            s.append("DataFrame" + repr([str(c) for c in x.columns]) + repr(list(x.index)[:3]))
            for c in x.columns:
                self.walk(x[c].to_numpy())
        elif isinstance(x, pandas.Series):
            s.append("Series" + repr(list(x.index)[:3]))
            self.walk(x.to_numpy())
        elif hasattr(x, "model") and hasattr(x, "units") and hasattr(x, "adsorbate"):      # a ModelIsotherm result
            m = x.model
            s.append(f"ModelIsotherm:{m.name}:{getattr(x, 'branch', None)}:{sorted(x.units.items())!r}:{x.material.name!r}:{x.adsorbate.name!r}")
            s.append(_sha(_val(x.properties)) + ":" + _sha(mat_text(x.material)))
            self.walk({"params": dict(m.params), "rmse": m.rmse, "prange": list(m.pressure_range), "lrange": list(m.loading_range), "T": x._temperature})
        elif hasattr(x, "data_raw") and hasattr(x, "units"):                                 # a PointIsotherm result
            s.append(f"PointIsotherm:{sorted(x.units.items())!r}:{x.material.name!r}:{x.adsorbate.name!r}:" + _sha(_val(x.properties)))
            self.walk(x.data_raw)
        elif type(x).__name__ in ("Axes", "AxesSubplot") or hasattr(x, "get_lines") and hasattr(x, "get_xlabel"):
            s.append(f"Axes:{x.get_xlabel()}:{x.get_ylabel()}:{x.get_title()}:{x.get_xscale()}:{x.get_yscale()}")
            lines = x.get_lines()
            s.append(f"lines{len(lines)}")
            for ln in lines:
                s.append(f"{ln.get_label()}|{ln.get_marker()}|{ln.get_linestyle()}")
                self.walk(numpy.asarray(ln.get_xdata(), dtype=float))
                self.walk(numpy.asarray(ln.get_ydata(), dtype=float))
            leg = x.get_legend()
            s.append("legend:" + (repr([t.get_text() for t in leg.get_texts()]) if leg is not None else "-"))
            self.walk([float(v) for v in x.get_xlim()] + [float(v) for v in x.get_ylim()])
        else:
            s.append("object:" + type(x).__name__)


def outcome_of(f):
    """run f() -> {'kind','shape','text', 'leaves'}; stdout is part of the outcome (print_info, verbose output)"""
    import matplotlib.pyplot as plt
    buf = io.StringIO()
    try:
        with contextlib.redirect_stdout(buf):
            r = f()
        c = Canon()
        try:
            c.walk(r)
        except Exception as e:
            raise MachineryError(f"cannot canonicalise a result of type {type(r).__name__}: {exc_class(e)}: {e}") from e
        if buf.getvalue():
            c.shape.append("stdout:" + buf.getvalue())
        text = "".join(c.shape)
        out = {"kind": "value", "shape": _sha(text), "text": text[:400], "leaves": c.leaves}
    except MachineryError:
        raise
    except Exception as e:
        out = {"kind": "error", "shape": exc_class(e), "text": f"{exc_class(e)}: {str(e)[:200]}", "leaves": []}
    finally:
        plt.close("all")
    return out


HUGE = 1e30


def distance(a, b):
    """float64 relative distance of two numeric payloads (max-norm per array, relative to the larger array norm)"""
    if a["kind"] != b["kind"] or a["shape"] != b["shape"] or len(a["leaves"]) != len(b["leaves"]):
        return HUGE
    d = 0.0
    for x, y in zip(a["leaves"], b["leaves"]):
        if x.shape != y.shape:
            return HUGE
        if x.size == 0:
            continue
        scale = max(float(numpy.max(numpy.abs(x))), float(numpy.max(numpy.abs(y))))
        if scale == 0.0:
            continue
        d = max(d, float(numpy.max(numpy.abs(x - y))) / scale)
    return d


# --------------------------------------------------------------------------- fresh equal objects
def fresh_adsorbate(a):
    import pygaps
    return pygaps.Adsorbate(a.name, alias=list(a.alias), **copy.deepcopy(a.properties))


def fresh_material(m):
    import pygaps
    return pygaps.Material(m.name, **copy.deepcopy(m.properties))


def fresh(x):
    """an equal object rebuilt through the constructor (deepcopy fails once a CoolProp state exists)"""
    import pygaps
    import pygaps.modelling as pgm
    if isinstance(x, dict):
        return copy.deepcopy(x)
    if isinstance(x, pygaps.Adsorbate):
        return fresh_adsorbate(x)
    if isinstance(x, pygaps.Material):
        return fresh_material(x)
    d = copy.deepcopy({k: v for k, v in x.to_dict().items() if k not in ("adsorbate", "material")})
    d["adsorbate"] = str(x.adsorbate)           # (an Adsorbate object cannot be passed: the constructor's None test calls Adsorbate.__eq__(None))
    d["material"] = fresh_material(x.material)
    if hasattr(x, "data_raw"):
        y = pygaps.PointIsotherm(isotherm_data=x.data_raw.copy(), pressure_key=x.pressure_key, loading_key=x.loading_key, **d)
    elif hasattr(x, "model"):
        md = copy.deepcopy(x.model.to_dict())
        d.pop("branch", None)
        y = pygaps.ModelIsotherm(model=pgm.model_from_dict(md), branch=x.branch, **d)
    else:
        y = pygaps.core.baseisotherm.BaseIsotherm(**d)
    y.adsorbate = fresh_adsorbate(x.adsorbate)    # public setter; a new object with its own (empty) thermodynamic state
    return y


def clear_hidden():
    import pygaps.characterisation.models_thickness as mt
    import pygaps.characterisation.psd_kernel as pk
    mt._LOADED.clear()
    pk._LOADED.clear()


def perturb_backend(objs):
    """leave the thermodynamic state object of every adsorbate involved at some other state point"""
    import pygaps
    for x in objs.values():
        a = x if isinstance(x, pygaps.Adsorbate) else getattr(x, "adsorbate", None)
        if a is None:
            continue
        t = getattr(x, "temperature", 150.0)
        for call in (lambda: a.saturation_pressure(t * 0.83 + 11.0), lambda: a.gas_density(t * 1.21 + 3.0),
                     lambda: a.enthalpy_liquefaction(press=a.p_triple() * 3.7), lambda: a.liquid_density(t * 0.9 + 7.0)):
            try:
                call()
            except Exception:
                pass


# --------------------------------------------------------------------------- fixtures
def data_dir():
    p = os.path.join(REPO, "docs", "examples", "data")
    return p if os.path.isdir(p) else "/repo/docs/examples/data"


N2_FILES = {"mcm": "MCM-41 N2 77.355.json", "nay": "NaY N2 77.355.json", "sio": "SiO2 N2 77.355.json", "tak": "Takeda 5A N2 77.355.json",
            "uio": "UiO-66(Zr) N2 77.355.json"}
OTHER_FILES = {"b298": "isosteric/BAX 1500 - Isosteric Heat - 298.json", "b323": "isosteric/BAX 1500 - Isosteric Heat - 323.json",
               "b348": "isosteric/BAX 1500 - Isosteric Heat - 348.json", "ch4": "iast/MOF-5(Zn) - IAST - CH4.json",
               "c2h6": "iast/MOF-5(Zn) - IAST - C2H6.json", "hkust": "calorimetry/HKUST-1(Cu) KRICT.json", "tco2": "calorimetry/Takeda 5A Test CO2.json"}


MATERIAL = "purity_mat"
REPRESENTATIONS = {
    "degC": {"celsius": True},
    "relative,mass/volume,degC": {"pressure": {"mode_to": "relative"}, "material": {"basis_to": "volume", "unit_to": "cm3"},
                                  "loading": {"basis_to": "mass", "unit_to": "mg"}, "celsius": True},
    "relative%,fraction": {"pressure": {"mode_to": "relative%"}, "loading": {"basis_to": "fraction"}},
    "kPa,percent,molar material": {"pressure": {"unit_to": "kPa"}, "material": {"basis_to": "molar", "unit_to": "mmol"}, "loading": {"basis_to": "percent"}},
    "Pa,volume_liquid,kg,degC": {"pressure": {"unit_to": "Pa"}, "material": {"unit_to": "kg"}, "loading": {"basis_to": "volume_liquid", "unit_to": "cm3"}, "celsius": True},
    "torr,volume_gas": {"pressure": {"unit_to": "torr"}, "loading": {"basis_to": "volume_gas", "unit_to": "cm3"}},
}


def own_material():
    """a registered material with density and molar mass that no other part of the check has touched before"""
    from .units_common import custom_material
    return custom_material(name=MATERIAL)


class Fixtures:
    def __init__(self, scratch):
        self.scratch = scratch
        self._text = {}
        self._kernels = None
        self._db = None

    def load(self, key):
        import pygaps.parsing as pgp
        if key not in self._text:
            rel = "characterisation/" + N2_FILES[key] if key in N2_FILES else OTHER_FILES[key]
            with open(os.path.join(data_dir(), rel), encoding="utf8") as f:
                self._text[key] = f.read()
        return pgp.isotherm_from_json(self._text[key])

    def small(self, key, n=18):
        """adsorption branch thinned to about n points (keeps first and last)"""
        import pygaps
        iso = self.load(key)
        d = iso.data_raw
        ads = d.loc[d["branch"] == 0]
        idx = sorted(set(numpy.linspace(0, len(ads) - 1, n).round().astype(int).tolist()))
        dd = ads.iloc[idx].reset_index(drop=True)
        return pygaps.PointIsotherm(isotherm_data=dd, pressure_key=iso.pressure_key, loading_key=iso.loading_key, **iso.to_dict())

    def syn(self, units=None):
        """synthetic N2 isotherm with a desorption branch, an extra column, metadata, on a registered material with density / molar mass"""
        from .iso_common import make_point
        own_material()
        s = {"pm": "absolute", "pu": "bar", "lb": "molar", "lu": "mmol", "mb": "mass", "mu": "g", "tu": "K"}
        s.update(units or {})
        p = [0.05, 0.1, 0.18, 0.25, 0.34, 0.5, 0.72, 0.9, 0.8, 0.6, 0.45, 0.3, 0.15, 0.07]
        l = [1.0, 1.8, 2.9, 3.6, 4.2, 4.9, 5.4, 5.7, 5.65, 5.4, 5.1, 4.5, 3.1, 1.7]
        return make_point(s, "nitrogen", MATERIAL, 77.344, p, l, branch=[0] * 8 + [1] * 6,
                          extra={"enthalpy": [15.0 - 0.6 * i for i in range(14)]}, meta={"operator": "verif", "batch": 7, "ratio": 0.25})

    def rep(self, name):
        """the synthetic two-branch isotherm (extra column, metadata, material with density and molar mass) permanently converted
        into a non-default representation; a small covering set of temperature unit x pressure mode x loading basis x material basis"""
        iso = self.syn()
        steps = REPRESENTATIONS[name]
        if "pressure" in steps:
            iso.convert_pressure(**steps["pressure"])
        if "material" in steps:
            iso.convert_material(**steps["material"])
        if "loading" in steps:
            iso.convert_loading(**steps["loading"])
        if steps.get("celsius"):
            iso.convert_temperature("°C")
        return iso

    def model(self, key, name, **kw):
        import pygaps
        base = self.syn() if key == "syn" else (self.rep(key[4:]) if key.startswith("rep:") else self.load(key))
        return pygaps.ModelIsotherm.from_pointisotherm(base, model=name, **kw)

    def kernels(self):
        """two small user kernels cut out of the built-in one (fast fits); distinct pore-size grids"""
        if self._kernels is None:
            import pandas
            import pygaps.characterisation.psd_kernel as pk
            src = pk.KERNELS["DFT-N2-77K-carbon-slit"]
            k = pandas.read_csv(src, index_col=0)
            out = []
            for i, cols in enumerate((list(k.columns[0::9]), list(k.columns[4::9]))):
                path = os.path.join(self.scratch, f"kernel{i}.csv")
                k[cols].to_csv(path)
                out.append(path)
            self._kernels = out
        return self._kernels

    def prepare_db(self):
        """template = the database shipped with the library (adsorbates, no isotherms) + a row for the fixture material, written
        with plain SQL so that no library call touches the fixture objects outside a recorded window"""
        import sqlite3
        import pygaps.data
        self._db = os.path.join(self.scratch, "template.db")
        shutil.copyfile(pygaps.data.DATABASE, self._db)
        con = sqlite3.connect(self._db)
        try:
            con.execute("INSERT INTO materials (name) VALUES ('" + MATERIAL + "')")
            con.commit()
        finally:
            con.close()
        self._n = 0

    def same_name_kernels(self):
        """three user kernels that share a FILE NAME with another kernel but live in other directories and hold other content:
        two 'kernel.csv' (different pore-size grids) and a cut-down copy named like the shipped kernel"""
        import pandas
        import pygaps.characterisation.psd_kernel as pk
        src = pk.KERNELS["DFT-N2-77K-carbon-slit"]
        out = {}
        k = None
        for tag, fname, cols in (("a", "kernel.csv", slice(1, None, 9)), ("b", "kernel.csv", slice(5, None, 9)), ("shipped-name", os.path.basename(src), slice(2, None, 8))):
            d = os.path.join(self.scratch, "kernels_" + tag)
            path = os.path.join(d, fname)
            if not os.path.exists(path):
                os.makedirs(d, exist_ok=True)
                k = pandas.read_csv(src, index_col=0) if k is None else k
                k[list(k.columns[cols])].to_csv(path)
            out[tag] = path
        return out

    def bad_kernel(self):
        """a user kernel file with one non-numeric cell (a spreadsheet '#VALUE!') in a column other than the first"""
        path = os.path.join(self.scratch, "kernel_bad.csv")
        if not os.path.exists(path):
            with open(self.kernels()[0], encoding="utf8") as f:
                lines = f.read().splitlines()
            row = lines[40].split(",")
            row[4] = "#VALUE!"
            lines[40] = ",".join(row)
            with open(path, "w", encoding="utf8") as f:
                f.write("\n".join(lines) + "\n")
        return path

    def registered(self, key):
        """the sample isotherm with its material registered in the session list (shared Material object, with a property)"""
        import pygaps
        iso = self.load(key)
        name = str(iso.material)
        if not any(m.name == name for m in pygaps.MATERIAL_LIST):
            pygaps.Material(name, store=True, density=1.0 + 0.01 * len(name))
            iso = self.load(key)
        return iso

    def db(self):
        """a fresh copy of the template database"""
        if self._db is None:
            raise MachineryError("database template not prepared")
        self._n += 1
        path = os.path.join(self.scratch, f"db{self._n}.db")
        shutil.copyfile(self._db, path)
        return path


def dump_db(path):
    import sqlite3
    con = sqlite3.connect(path)
    try:
        rows = []
        for t in ("isotherms", "isotherm_properties", "isotherm_data"):
            rows.append([t] + sorted(repr(r) for r in con.execute(f"SELECT * FROM {t}")))
        return rows
    finally:
        con.close()


def read_xls(path):
    import xlrd
    wb = xlrd.open_workbook(path)
    out = []
    for sh in wb.sheets():
        out.append([sh.name] + [[repr(sh.cell_value(r, c)) for c in range(sh.ncols)] for r in range(sh.nrows)])
    return out


# --------------------------------------------------------------------------- cases
class Case:
    def __init__(self, site, variant, build, call, cache=True, cross=None, pre=None):
        self.site, self.variant, self.build, self.call = site, variant, build, call
        self.cache, self.cross, self.pre = cache, cross, pre


def cases(fx, tier, seed):
    import pygaps
    import pygaps.characterisation as pgc
    import pygaps.iast as pgi
    import pygaps.modelling as pgm
    import pygaps.parsing as pgp
    import pygaps.characterisation.models_thickness as mt
    import pygaps.characterisation.psd_kernel as pk
    from pygaps.graphing.isotherm_graphs import plot_iso
    thorough = tier == "thorough"
    cs = []

    def add(site, variant, build, call, **kw):
        cs.append(Case(site, variant, build, call, **kw))

    def one(key, small=None):
        if key == "syn":
            return lambda: {"isotherm": fx.syn()}
        if small:
            return lambda: {"isotherm": fx.small(key, small)}
        return lambda: {"isotherm": fx.load(key)}

    n2keys = list(N2_FILES) if thorough else [["mcm", "tak", "sio", "uio", "nay"][seed % 5]]
    SIO2, CB = "SiO2 Jaroniec/Kruk/Olivier", "carbon black Kruk/Jaroniec/Gadkaree"

    def load_std(name):
        return lambda o: mt.load_std_isotherm({SIO2: "SiO2_JKO", CB: "CB_KJG"}[name])

    # ---- surface area, t-plot, alpha-s, DR/DA
    for k in sorted(set(n2keys + ["mcm"])):
        add("area_BET", k, one(k), lambda o: pgc.area_BET(o["isotherm"]))
        add("area_langmuir", k, one(k), lambda o: pgc.area_langmuir(o["isotherm"]))
        add("t_plot", k + ":Harkins/Jura", one(k), lambda o: pgc.t_plot(o["isotherm"]))
        add("dr_plot", k, one(k), lambda o: pgc.dr_plot(o["isotherm"]))
        add("da_plot", k + ":exp=2.3", one(k), lambda o: pgc.da_plot(o["isotherm"], exp=2.3))
        add("initial_henry_virial", k, one(k), lambda o: pgc.initial_henry_virial(o["isotherm"]))
    add("area_BET", "sio:des,limits", one("sio"), lambda o: pgc.area_BET(o["isotherm"], branch="des", p_limits=(0.05, 0.3)))
    add("area_BET", "model:BET(sio)", lambda: {"isotherm": fx.model("sio", "BET")}, lambda o: pgc.area_BET(o["isotherm"]))
    add("area_langmuir", "syn:relative limits", one("syn"), lambda o: pgc.area_langmuir(o["isotherm"], p_limits=(0.05, 0.9)))
    add("t_plot", "mcm:Halsey,limits", one("mcm"), lambda o: pgc.t_plot(o["isotherm"], thickness_model="Halsey", t_limits=(0.3, 0.8)))
    add("t_plot", "mcm:SiO2 standard isotherm", one("mcm"), lambda o: pgc.t_plot(o["isotherm"], thickness_model=SIO2), cross=load_std(CB))
    add("t_plot", "sio:carbon black standard isotherm", one("sio"), lambda o: pgc.t_plot(o["isotherm"], thickness_model=CB), cross=load_std(SIO2))
    add("alpha_s", "mcm vs model BET(sio)", lambda: {"isotherm": fx.load("mcm"), "reference": fx.model("sio", "BET")},
        lambda o: pgc.alpha_s(o["isotherm"], o["reference"]))
    add("alpha_s", "mcm vs mcm,limits", lambda: {"isotherm": fx.load("mcm"), "reference": fx.load("mcm")},
        lambda o: pgc.alpha_s(o["isotherm"], o["reference"], t_limits=(0.7, 1.0)))
    add("alpha_s", "mcm vs sio (points; raises in range check)", lambda: {"isotherm": fx.load("mcm"), "reference": fx.load("sio")},
        lambda o: pgc.alpha_s(o["isotherm"], o["reference"], reference_area="langmuir"))
    add("da_plot", "tak:exp=None", one("tak", 30), lambda o: pgc.da_plot(o["isotherm"]))
    add("dr_plot", "tak:limits", one("tak"), lambda o: pgc.dr_plot(o["isotherm"], p_limits=(1e-5, 0.1)))
    add("initial_henry_slope", "mcm", one("mcm"), lambda o: pgc.initial_henry_slope(o["isotherm"]))
    add("initial_henry_slope", "syn:limits", one("syn"), lambda o: pgc.initial_henry_slope(o["isotherm"], max_adjrms=0.1, p_limits=(0, 0.6)))
    if thorough:
        for k in ("tak", "uio"):
            add("initial_henry_slope", k, one(k), lambda o: pgc.initial_henry_slope(o["isotherm"]))

    # ---- mesopore PSD
    for m in ("pygaps-DH", "BJH", "DH"):
        add("psd_mesoporous", f"mcm:{m}", one("mcm"), lambda o, m=m: pgc.psd_mesoporous(o["isotherm"], psd_model=m))
    add("psd_mesoporous", "mcm:ads,KJS,SiO2 standard", one("mcm"),
        lambda o: pgc.psd_mesoporous(o["isotherm"], branch="ads", kelvin_model="Kelvin-KJS", thickness_model=SIO2), cross=load_std(CB))
    add("psd_mesoporous", "mcm:des,carbon black standard", one("mcm"),
        lambda o: pgc.psd_mesoporous(o["isotherm"], psd_model="DH", thickness_model=CB), cross=load_std(SIO2))
    add("psd_mesoporous", "mcm:thickness = isotherm", lambda: {"isotherm": fx.load("mcm"), "thickness": fx.load("sio")},
        lambda o: pgc.psd_mesoporous(o["isotherm"], thickness_model=o["thickness"]))
    if thorough:
        for g in ("slit", "cylinder", "halfopen-cylinder", "sphere"):
            for b in ("ads", "des"):
                add("psd_mesoporous", f"mcm:{g},{b}", one("mcm"), lambda o, g=g, b=b: pgc.psd_mesoporous(o["isotherm"], pore_geometry=g, branch=b))
        add("psd_mesoporous", "sio:limits", one("sio"), lambda o: pgc.psd_mesoporous(o["isotherm"], p_limits=(0.3, 0.95)))

    # ---- micropore PSD (HK family): small inputs, the cylinder / RY variants integrate numerically
    micro = [("HK", "slit"), ("HK-CY", "slit"), ("RY", "slit"), ("RY-CY", "slit"), ("HK", "cylinder"), ("HK", "sphere")]
    if thorough:
        micro = [(m, g) for m in ("HK", "HK-CY", "RY", "RY-CY") for g in ("slit", "cylinder", "sphere")]
    for m, g in micro:
        n = 10 if (g == "cylinder" and m.startswith("RY")) else 18
        add("psd_microporous", f"tak:{m},{g}", one("tak", n), lambda o, m=m, g=g: pgc.psd_microporous(o["isotherm"], psd_model=m, pore_geometry=g))
    add("psd_microporous", "uio:HK,AlSiOxideIon", one("uio", 18), lambda o: pgc.psd_microporous(o["isotherm"], material_model="AlSiOxideIon"))

    # ---- kernel fitting: user kernels cut from the built-in one (quick); the built-in kernel itself in thorough
    def dft(kernel, **kw):
        return lambda o: pgc.psd_dft(o["isotherm"], kernel=kernel, **kw)

    def load_kernel(i):
        return lambda o: pk._load_kernel(fx.kernels()[i])
    add("psd_dft", "tak:user kernel A", one("tak", 14), lambda o: pgc.psd_dft(o["isotherm"], kernel=fx.kernels()[0]), cross=load_kernel(1))
    add("psd_dft", "tak:user kernel B,bspline=0", one("tak", 14), lambda o: pgc.psd_dft(o["isotherm"], kernel=fx.kernels()[1], bspline_order=0), cross=load_kernel(0))
    if thorough:
        add("psd_dft", "tak:built-in kernel", one("tak", 14), dft("DFT-N2-77K-carbon-slit"), cross=load_kernel(0))
        add("psd_dft", "uio:built-in kernel,limits", one("uio", 20), dft("DFT-N2-77K-carbon-slit", p_limits=(1e-5, 0.5)), cross=load_kernel(1))

    # ---- enthalpies
    def iso3():
        return {"isotherm0": fx.load("b298"), "isotherm1": fx.load("b323"), "isotherm2": fx.load("b348")}
    add("isosteric_enthalpy", "BAX 298/323/348", iso3, lambda o: pgc.isosteric_enthalpy([o["isotherm0"], o["isotherm1"], o["isotherm2"]]))
    add("isosteric_enthalpy", "BAX reversed,points", iso3,
        lambda o: pgc.isosteric_enthalpy([o["isotherm2"], o["isotherm1"], o["isotherm0"]], loading_points=[0.5, 1.0, 2.0]))
    add("isosteric_enthalpy", "models", lambda: {f"isotherm{i}": fx.model(k, "Langmuir") for i, k in enumerate(("b298", "b323", "b348"))},
        lambda o: pgc.isosteric_enthalpy([o["isotherm0"], o["isotherm1"], o["isotherm2"]], loading_points=[0.5, 1.0, 2.0]))
    for k in ("hkust", "tco2", "syn"):
        add("initial_enthalpy_point", k, one(k), lambda o: pgc.initial_enthalpy_point(o["isotherm"], "enthalpy"))
        if k != "syn" or thorough:
            add("initial_enthalpy_comp", k, one(k), lambda o: pgc.initial_enthalpy_comp(o["isotherm"], "enthalpy"))
    add("initial_enthalpy_point", "mcm:no such column", one("mcm"), lambda o: pgc.initial_enthalpy_point(o["isotherm"], "enthalpy"))
    add("enthalpy_sorption_whittaker", "ch4:Toth (bar)", one("ch4"), lambda o: pgc.enthalpy_sorption_whittaker(o["isotherm"], model="Toth"))
    add("enthalpy_sorption_whittaker", "b298:Langmuir,loading", one("b298"),
        lambda o: pgc.enthalpy_sorption_whittaker(o["isotherm"], model="Langmuir", loading=[0.5, 1.0, 2.0]))

    def in_pa(key):
        def b():
            iso = fx.load(key)
            iso.convert_pressure(unit_to="Pa")
            return {"isotherm": iso}
        return b
    add("enthalpy_sorption_whittaker", "tco2:Toth (already Pa)", in_pa("tco2"), lambda o: pgc.enthalpy_sorption_whittaker(o["isotherm"], model="Toth", loading=[1.0, 2.0]))

    def model_pa(key, name):
        def b():
            iso = fx.load(key)
            iso.convert_pressure(unit_to="Pa")
            return {"isotherm": pygaps.ModelIsotherm.from_pointisotherm(iso, model=name)}
        return b
    add("enthalpy_sorption_whittaker", "model Toth(ch4) in Pa", model_pa("ch4", "Toth"), lambda o: pgc.enthalpy_sorption_whittaker(o["isotherm"]))
    add("enthalpy_sorption_whittaker", "model Henry: refused", model_pa("ch4", "Henry"), lambda o: pgc.enthalpy_sorption_whittaker(o["isotherm"]))
    add("enthalpy_sorption_whittaker", "model Langmuir(ch4) in Pa", model_pa("ch4", "Langmuir"), lambda o: pgc.enthalpy_sorption_whittaker(o["isotherm"]))
    add("enthalpy_sorption_whittaker", "model Langmuir(b298) in Pa,loading", model_pa("b298", "Langmuir"),
        lambda o: pgc.enthalpy_sorption_whittaker(o["isotherm"], loading=[0.5, 1.0, 2.0]))
    add("enthalpy_sorption_whittaker", "model Toth(tco2) in Pa,loading,verbose", model_pa("tco2", "Toth"),
        lambda o: pgc.enthalpy_sorption_whittaker(o["isotherm"], loading=[1.0, 2.0], verbose=True), cache=False)
    add("enthalpy_sorption_whittaker", "model Langmuir(ch4) in bar: refused", lambda: {"isotherm": fx.model("ch4", "Langmuir")},
        lambda o: pgc.enthalpy_sorption_whittaker(o["isotherm"]), cache=False)

    # ---- model fitting
    quick_models = ["Henry", "Langmuir", "DSLangmuir", "Toth", "Virial"]
    for name in (list(pgm._MODELS) if thorough else quick_models):
        add("model_iso", f"ch4:{name}", one("ch4"), lambda o, name=name: pgm.model_iso(o["isotherm"], model=name))
    for name in ("BET", "GAB", "DA") if thorough else ("BET",):
        add("model_iso", f"mcm:{name}", one("mcm", 25), lambda o, name=name: pgm.model_iso(o["isotherm"], model=name))
    add("model_iso", "ch4:guess", one("ch4"), lambda o: pgm.model_iso(o["isotherm"], model="guess"))
    add("model_iso", "syn:[Henry,Langmuir,Toth] (material with properties)", one("syn"), lambda o: pgm.model_iso(o["isotherm"], model=["Henry", "Langmuir", "Toth"]))
    add("model_iso", "syn:des,Langmuir,guess+bounds", one("syn"),
        lambda o: pgm.model_iso(o["isotherm"], branch="des", model="Langmuir", param_guess={"K": 3.0, "n_m": 6.0}, param_bounds={"K": (0.0, 100.0), "n_m": (0.0, 50.0)}))
    add("ModelIsotherm.from_pointisotherm", "c2h6:Langmuir", one("c2h6"), lambda o: pygaps.ModelIsotherm.from_pointisotherm(o["isotherm"], model="Langmuir"))
    add("ModelIsotherm.from_pointisotherm", "c2h6:guess", one("c2h6"), lambda o: pygaps.ModelIsotherm.from_pointisotherm(o["isotherm"], model="guess"))
    add("ModelIsotherm.from_isotherm", "syn:Toth", one("syn"),
        lambda o: pygaps.ModelIsotherm.from_isotherm(o["isotherm"], pressure=o["isotherm"].pressure(branch="ads"), loading=o["isotherm"].loading(branch="ads"), model="Toth"))

    def guess_arrays(o):
        iso = o["isotherm"]
        return pygaps.ModelIsotherm.guess(pressure=iso.pressure(branch="ads"), loading=iso.loading(branch="ads"), models=["Henry", "Langmuir", "Freundlich"],
                                          material=str(iso.material), adsorbate=str(iso.adsorbate), temperature=iso.temperature, **iso.units)
    add("ModelIsotherm.guess", "syn:arrays", one("syn"), guess_arrays)

    # a material handed over as a dictionary (name + properties) is a material passed in, too
    def matdict():
        return {"isotherm": fx.syn(), "material": {"name": MATERIAL, "density": 1.737, "molar_mass": 419.3}}

    def fit_kw(o):
        iso = o["isotherm"]
        return dict(pressure=iso.pressure(branch="ads"), loading=iso.loading(branch="ads"), material=o["material"], adsorbate=str(iso.adsorbate),
                    temperature=iso.temperature, **iso.units)
    add("ModelIsotherm.guess", "syn:arrays, material given as dict", matdict, lambda o: pygaps.ModelIsotherm.guess(models=["Henry", "Langmuir"], **fit_kw(o)))
    add("ModelIsotherm", "syn:arrays, Langmuir, material given as dict", matdict, lambda o: pygaps.ModelIsotherm(model="Langmuir", **fit_kw(o)))
    add("PointIsotherm.from_modelisotherm", "Langmuir(ch4)", lambda: {"isotherm": fx.model("ch4", "Langmuir")},
        lambda o: pygaps.PointIsotherm.from_modelisotherm(o["isotherm"], pressure_points=[0.5, 1.0, 2.0, 4.0]))

    # ---- IAST
    def two(model=None):
        if model:
            return lambda: {"isotherm0": fx.model("ch4", model), "isotherm1": fx.model("c2h6", model)}
        return lambda: {"isotherm0": fx.load("ch4"), "isotherm1": fx.load("c2h6")}

    def pair(o):
        return [o["isotherm0"], o["isotherm1"]]
    for tag, b in (("points", two()), ("Langmuir models", two("Langmuir"))) + ((("Toth models", two("Toth")),) if thorough else ()):
        add("iast_point", tag, b, lambda o: pgi.iast_point(pair(o), [0.4, 0.6]))
        add("iast_point_fraction", tag, b, lambda o: pgi.iast_point_fraction(pair(o), [0.5, 0.5], 1.0))
        add("reverse_iast", tag, b, lambda o: pgi.reverse_iast(pair(o), [0.3, 0.7], 1.0))
        add("iast_binary_svp", tag, b, lambda o: pgi.iast_binary_svp(pair(o), [0.5, 0.5], [0.2, 0.5, 1.0, 2.0]))
        add("iast_binary_vle", tag, b, lambda o: pgi.iast_binary_vle(pair(o), 1.0, npoints=6))
    add("iast_point_fraction", "points:verbose plot", two(), lambda o: pgi.iast_point_fraction(pair(o), [0.5, 0.5], 1.0, verbose=True))
    add("iast_point", "point + Virial model: refused", lambda: {"isotherm0": fx.model("ch4", "Virial"), "isotherm1": fx.load("c2h6")},
        lambda o: pgi.iast_point(pair(o), [0.4, 0.6]))

    # ---- exports
    expo = [("mcm", one("mcm")), ("syn", one("syn")), ("model Langmuir(ch4)", lambda: {"isotherm": fx.model("ch4", "Langmuir")}),
            ("model DSLangmuir(syn)", lambda: {"isotherm": fx.model("syn", "DSLangmuir")})]
    if thorough:
        expo += [(k, one(k)) for k in ("tak", "hkust", "b323")]
    ctr = [0]

    def tmp(ext):
        ctr[0] += 1
        return os.path.join(fx.scratch, f"export{ctr[0]}.{ext}")

    def to_file(method, ext, reader):
        def call(o):
            p = tmp(ext)
            getattr(o["isotherm"], method)(p)
            return reader(p)
        return call

    def read_text(p):
        with open(p, encoding="utf8") as f:
            return f.read()
    for tag, b in expo:
        add("isotherm_to_json", tag, b, lambda o: o["isotherm"].to_json(), cache=False)
        add("isotherm_to_csv", tag, b, lambda o: o["isotherm"].to_csv(), cache=False)
        add("isotherm_to_aif", tag, b, lambda o: o["isotherm"].to_aif(), cache=False)
        add("isotherm_to_xl", tag, b, to_file("to_xl", "xls", read_xls), cache=False)
        add("to_dict", tag, b, lambda o: o["isotherm"].to_dict(), cache=False)
        add("print_info", tag, b, lambda o: o["isotherm"].print_info(), cache=False)
        add("isotherm.plot", tag, b, lambda o: o["isotherm"].plot(), cache=False)
    add("isotherm_to_json", "syn:to file,indent", one("syn"), to_file("to_json", "json", read_text), cache=False)
    add("isotherm_to_csv", "syn:to file", one("syn"), to_file("to_csv", "csv", read_text), cache=False)
    add("isotherm_to_aif", "syn:to file", one("syn"), to_file("to_aif", "aif", read_text), cache=False)
    add("str/repr", "syn", one("syn"), lambda o: [str(o["isotherm"]), repr(o["isotherm"])], cache=False)

    def to_db(**kw):
        def call(o):
            p = fx.db()
            pgp.isotherm_to_db(o["isotherm"], db_path=p, verbose=False, **kw)
            return dump_db(p)
        return call
    add("isotherm_to_db", "syn (registered material)", one("syn"), to_db(), cache=False)
    add("isotherm_to_db", "syn:no autoinsert", one("syn"), to_db(autoinsert_material=False, autoinsert_adsorbate=False), cache=False)
    add("isotherm_to_db", "model Langmuir(syn)", lambda: {"isotherm": fx.model("syn", "Langmuir")}, to_db(), cache=False)
    add("isotherm_to_db", "syn in relative pressure: refused", lambda: {"isotherm": fx.syn({"pm": "relative", "pu": "none"})}, to_db(), cache=False)

    # ---- plots with foreign units
    add("plot_iso", "mcm+tak:absolute kPa, cm3(STP)", lambda: {"isotherm0": fx.load("mcm"), "isotherm1": fx.load("tak")},
        lambda o: plot_iso([o["isotherm0"], o["isotherm1"]], pressure_mode="absolute", pressure_unit="kPa", loading_unit="cm3(STP)", logx=True))
    add("plot_iso", "syn:relative%, mass/volume, enthalpy axis", one("syn"),
        lambda o: plot_iso(o["isotherm"], pressure_mode="relative%", loading_basis="mass", loading_unit="mg", material_basis="volume", material_unit="cm3",
                           y2_data="enthalpy", branch="all"), cache=False)
    add("plot_iso", "point + model", lambda: {"isotherm0": fx.load("ch4"), "isotherm1": fx.model("ch4", "Langmuir")},
        lambda o: plot_iso([o["isotherm0"], o["isotherm1"]], pressure_unit="Pa", branch="ads"), cache=False)
    add("isotherm.plot", "syn:units", one("syn"), lambda o: o["isotherm"].plot(pressure_unit="mbar", loading_basis="volume_gas", loading_unit="cm3"))
    add("area_BET", "mcm:verbose plot", one("mcm"), lambda o: pgc.area_BET(o["isotherm"], verbose=True))
    add("model_iso", "ch4:Langmuir verbose plot", one("ch4"), lambda o: pgm.model_iso(o["isotherm"], model="Langmuir", verbose=True))

    # ---- data accessors with foreign units
    FOREIGN_L = dict(loading_basis="mass", loading_unit="mg", material_basis="volume", material_unit="cm3")
    acc = [
        ("pressure", "kPa", lambda i: i.pressure(pressure_unit="kPa")),
        ("pressure", "relative,des,limits", lambda i: i.pressure(pressure_mode="relative", branch="des", limits=(0.1, 0.8))),
        ("pressure", "relative%,indexed", lambda i: i.pressure(pressure_mode="relative%", indexed=True)),
        ("loading", "mass mg per cm3", lambda i: i.loading(**FOREIGN_L)),
        ("loading", "volume_liquid,molar material", lambda i: i.loading(loading_basis="volume_liquid", loading_unit="cm3", material_basis="molar", material_unit="mmol", branch="ads")),
        ("loading", "fraction,limits", lambda i: i.loading(loading_basis="fraction", limits=(0.0, 0.1))),
        ("other_data", "enthalpy,des", lambda i: i.other_data("enthalpy", branch="des", limits=(12.0, None))),
        ("data", "ads", lambda i: i.data(branch="ads")),
        ("loading_at", "kPa -> cm3(STP)/kg", lambda i: i.loading_at(30.0, pressure_unit="kPa", loading_unit="cm3(STP)", material_unit="kg")),
        ("loading_at", "relative, des, cubic, volume_gas", lambda i: i.loading_at([0.2, 0.4], pressure_mode="relative", branch="des", interpolation_type="cubic",
                                                                                      loading_basis="volume_gas", loading_unit="cm3")),
        ("loading_at", "fill,percent", lambda i: i.loading_at(5.0, pressure_unit="bar", interp_fill=0.0, loading_basis="percent")),
        ("pressure_at", "mol/kg -> relative%", lambda i: i.pressure_at(0.003, loading_unit="mol", pressure_mode="relative%")),
        ("pressure_at", "mass mg per cm3 -> Pa, des", lambda i: i.pressure_at(200.0, branch="des", pressure_unit="Pa", **FOREIGN_L)),
        ("spreading_pressure_at", "Pa", lambda i: i.spreading_pressure_at(5.0e4, pressure_unit="Pa")),
        ("spreading_pressure_at", "relative,des,extrapolate", lambda i: i.spreading_pressure_at(0.95, pressure_mode="relative", branch="des", interp_fill="extrapolate")),
    ]
    for site, tag, f in acc:
        add(f"PointIsotherm.{site}", "syn:" + tag, one("syn"), lambda o, f=f: f(o["isotherm"]))
    macc = [
        ("pressure", "kPa,points", lambda i: i.pressure(points=7, pressure_unit="kPa")),
        ("loading", "mass mg per cm3", lambda i: i.loading(points=7, **FOREIGN_L)),
        ("loading_at", "kPa -> cm3(STP)/kg", lambda i: i.loading_at([10.0, 30.0], pressure_unit="kPa", loading_unit="cm3(STP)", material_unit="kg")),
        ("loading_at", "relative -> fraction", lambda i: i.loading_at(0.3, pressure_mode="relative", loading_basis="fraction")),
        ("pressure_at", "mol/kg -> relative%", lambda i: i.pressure_at(0.003, loading_unit="mol", material_unit="kg", pressure_mode="relative%")),
        ("spreading_pressure_at", "Pa", lambda i: i.spreading_pressure_at([2.0e4, 5.0e4], pressure_unit="Pa")),
    ]
    for mname in ("Langmuir", "Toth") + (("DSLangmuir", "Quadratic", "JensenSeaton", "Freundlich", "BET") if thorough else ()):
        for site, tag, f in macc:
            add(f"ModelIsotherm.{site}", f"{mname}(syn):{tag}", lambda mname=mname: {"isotherm": fx.model("syn", mname)}, lambda o, f=f: f(o["isotherm"]))

    # ---- the cheap entry points again on non-default representations (degC, relative / relative% pressure, mass / volume / fraction /
    #      percent loading, volume / molar material, two branches, extra column) and on model isotherms fitted to them
    reps = list(REPRESENTATIONS)
    rep_fixtures = [("rep " + r, (lambda r=r: {"isotherm": fx.rep(r)})) for r in reps]
    rep_fixtures += [("model Langmuir(rep degC)", lambda: {"isotherm": fx.model("rep:degC", "Langmuir")}),
                     ("model Toth(rep relative,mass/volume,degC)", lambda: {"isotherm": fx.model("rep:relative,mass/volume,degC", "Toth")})]
    plotted = set(n for n, _ in rep_fixtures) if thorough else {rep_fixtures[seed % len(reps)][0], rep_fixtures[(seed + 1) % len(reps)][0], rep_fixtures[-1 - seed % 2][0]}
    for tag, b in rep_fixtures:
        is_model = tag.startswith("model")
        add("isotherm_to_json", tag, b, lambda o: o["isotherm"].to_json(), cache=False)
        add("isotherm_to_csv", tag, b, lambda o: o["isotherm"].to_csv(), cache=False)
        add("isotherm_to_aif", tag, b, lambda o: o["isotherm"].to_aif(), cache=False)
        add("isotherm_to_xl", tag, b, to_file("to_xl", "xls", read_xls), cache=False)
        add("to_dict", tag, b, lambda o: o["isotherm"].to_dict(), cache=False)
        add("str/repr", tag, b, lambda o: [str(o["isotherm"]), repr(o["isotherm"])], cache=False)
        add("isotherm_to_db", tag, b, to_db(), cache=False)
        if tag in plotted:
            add("print_info", tag, b, lambda o: o["isotherm"].print_info(), cache=False)
            add("isotherm.plot", tag + ":foreign units", b, lambda o: o["isotherm"].plot(pressure_mode="absolute", pressure_unit="bar", loading_basis="molar", loading_unit="mmol",
                                                                                      material_basis="mass", material_unit="g"), cache=False)
        NATIVE = dict(loading_basis="molar", loading_unit="mmol", material_basis="mass", material_unit="g")
        if is_model:
            racc = [("pressure", lambda i: i.pressure(points=5, pressure_mode="absolute", pressure_unit="bar")),
                    ("loading", lambda i: i.loading(points=5, **NATIVE)),
                    ("loading_at", lambda i: i.loading_at(0.3, pressure_mode="absolute", pressure_unit="bar", **NATIVE)),
                    ("pressure_at", lambda i: i.pressure_at(3.0, pressure_mode="absolute", pressure_unit="bar", **NATIVE)),
                    ("spreading_pressure_at", lambda i: i.spreading_pressure_at(0.3, pressure_mode="absolute", pressure_unit="bar"))]
        else:
            racc = [("pressure", lambda i: i.pressure(branch="des", pressure_mode="absolute", pressure_unit="bar")),
                    ("loading", lambda i: i.loading(branch="ads", **NATIVE)),
                    ("other_data", lambda i: i.other_data("enthalpy")),
                    ("loading_at", lambda i: i.loading_at(0.3, branch="des", pressure_mode="absolute", pressure_unit="bar", **NATIVE)),
                    ("pressure_at", lambda i: i.pressure_at(3.0, pressure_mode="absolute", pressure_unit="bar", **NATIVE)),
                    ("spreading_pressure_at", lambda i: i.spreading_pressure_at(0.3, pressure_mode="absolute", pressure_unit="bar"))]
        cls = "ModelIsotherm" if is_model else "PointIsotherm"
        for site, f in racc:
            add(f"{cls}.{site}", tag + " -> bar, mmol/g", b, lambda o, f=f: f(o["isotherm"]), cache=False)
        if not is_model:
            add("area_BET", tag, b, lambda o: pgc.area_BET(o["isotherm"]), cache=False)
            add("t_plot", tag, b, lambda o: pgc.t_plot(o["isotherm"]), cache=False)
            add("psd_mesoporous", tag, b, lambda o: pgc.psd_mesoporous(o["isotherm"]), cache=False)
            add("model_iso", tag + ":Langmuir", b, lambda o: pgm.model_iso(o["isotherm"], model="Langmuir"), cache=False)
            add("enthalpy_sorption_whittaker", tag + ":Langmuir", b, lambda o: pgc.enthalpy_sorption_whittaker(o["isotherm"], model="Langmuir", loading=[2.0, 4.0]), cache=False)
            add("initial_enthalpy_point", tag, b, lambda o: pgc.initial_enthalpy_point(o["isotherm"], "enthalpy"), cache=False)
    add("iast_point_fraction", "rep degC + model Langmuir(rep degC)", lambda: {"isotherm0": fx.rep("degC"), "isotherm1": fx.model("rep:degC", "Langmuir")},
        lambda o: pgi.iast_point_fraction(pair(o), [0.5, 0.5], 0.5), cache=False)
    add("plot_iso", "rep degC + rep relative%,fraction + model(rep degC)",
        lambda: {"isotherm0": fx.rep("degC"), "isotherm1": fx.rep("relative%,fraction"), "isotherm2": fx.model("rep:degC", "Langmuir")},
        lambda o: plot_iso([o["isotherm0"], o["isotherm1"], o["isotherm2"]], pressure_mode="relative", loading_basis="mass", loading_unit="mg"), cache=False)

    # ---- verbose=True everywhere (Agg backend), on isotherms whose material and adsorbate are shared registered objects
    def reg(key, n=None):
        if key == "syn":
            return one("syn")
        if n:
            def b():
                import pygaps as pg
                fx.registered(key)
                return {"isotherm": fx.small(key, n)}
            return b
        return lambda: {"isotherm": fx.registered(key)}

    def reg2(k0, k1, model=None):
        def b():
            a, c = fx.registered(k0), fx.registered(k1)
            if model:
                a, c = pygaps.ModelIsotherm.from_pointisotherm(a, model=model), pygaps.ModelIsotherm.from_pointisotherm(c, model=model)
            return {"isotherm0": a, "isotherm1": c}
        return b
    V = dict(cache=False)
    add("area_BET", "syn:verbose", reg("syn"), lambda o: pgc.area_BET(o["isotherm"], verbose=True), **V)
    add("area_langmuir", "mcm(registered):verbose", reg("mcm"), lambda o: pgc.area_langmuir(o["isotherm"], verbose=True), **V)
    add("t_plot", "mcm(registered):verbose", reg("mcm"), lambda o: pgc.t_plot(o["isotherm"], verbose=True), **V)
    add("alpha_s", "mcm(registered) vs itself:verbose", lambda: {"isotherm": fx.registered("mcm"), "reference": fx.registered("mcm")},
        lambda o: pgc.alpha_s(o["isotherm"], o["reference"], t_limits=(0.7, 1.0), verbose=True), **V)
    add("dr_plot", "tak(registered):verbose", reg("tak", 30), lambda o: pgc.dr_plot(o["isotherm"], verbose=True), **V)
    add("da_plot", "tak(registered):verbose", reg("tak", 30), lambda o: pgc.da_plot(o["isotherm"], exp=2.3, verbose=True), **V)
    add("psd_mesoporous", "mcm(registered):verbose", reg("mcm"), lambda o: pgc.psd_mesoporous(o["isotherm"], verbose=True), **V)
    add("psd_microporous", "tak(registered):verbose", reg("tak", 18), lambda o: pgc.psd_microporous(o["isotherm"], verbose=True), **V)
    add("psd_dft", "tak(registered):user kernel A,verbose", reg("tak", 14), lambda o: pgc.psd_dft(o["isotherm"], kernel=fx.kernels()[0], verbose=True), **V)
    add("initial_henry_slope", "syn:verbose", reg("syn"), lambda o: pgc.initial_henry_slope(o["isotherm"], max_adjrms=0.1, verbose=True), **V)
    add("initial_henry_slope", "mcm(registered):verbose", reg("mcm", 25), lambda o: pgc.initial_henry_slope(o["isotherm"], verbose=True), **V)
    add("initial_henry_virial", "mcm(registered):verbose", reg("mcm"), lambda o: pgc.initial_henry_virial(o["isotherm"], verbose=True), **V)
    add("isosteric_enthalpy", "BAX(registered):verbose", lambda: {f"isotherm{i}": fx.registered(k) for i, k in enumerate(("b298", "b323", "b348"))},
        lambda o: pgc.isosteric_enthalpy([o["isotherm0"], o["isotherm1"], o["isotherm2"]], verbose=True), **V)
    add("initial_enthalpy_point", "syn:verbose", reg("syn"), lambda o: pgc.initial_enthalpy_point(o["isotherm"], "enthalpy", verbose=True), **V)
    add("initial_enthalpy_comp", "tco2(registered):verbose", reg("tco2"), lambda o: pgc.initial_enthalpy_comp(o["isotherm"], "enthalpy", verbose=True), **V)
    add("enthalpy_sorption_whittaker", "ch4(registered):Toth,verbose", reg("ch4"), lambda o: pgc.enthalpy_sorption_whittaker(o["isotherm"], model="Toth", verbose=True), **V)
    add("model_iso", "syn:Toth,verbose", reg("syn"), lambda o: pgm.model_iso(o["isotherm"], model="Toth", verbose=True), **V)
    add("model_iso", "c2h6(registered):[Henry,Langmuir],verbose", reg("c2h6"), lambda o: pgm.model_iso(o["isotherm"], model=["Henry", "Langmuir"], verbose=True), **V)
    add("reverse_iast", "points(registered):verbose", reg2("ch4", "c2h6"), lambda o: pgi.reverse_iast(pair(o), [0.3, 0.7], 1.0, verbose=True), **V)
    add("iast_point", "points(registered):verbose", reg2("ch4", "c2h6"), lambda o: pgi.iast_point(pair(o), [0.4, 0.6], verbose=True), **V)
    add("iast_binary_svp", "Langmuir models(registered):verbose", reg2("ch4", "c2h6", "Langmuir"), lambda o: pgi.iast_binary_svp(pair(o), [0.5, 0.5], [0.5, 1.0, 2.0], verbose=True), **V)
    add("iast_binary_vle", "Langmuir models(registered):verbose", reg2("ch4", "c2h6", "Langmuir"), lambda o: pgi.iast_binary_vle(pair(o), 1.0, npoints=4, verbose=True), **V)
    add("isotherm_to_db", "syn:verbose", one("syn"), lambda o: (lambda p: (pgp.isotherm_to_db(o["isotherm"], db_path=p, verbose=True), dump_db(p))[1])(fx.db()), **V)

    # ---- the warning / extrapolation paths of IAST (warningoff=False is the default): fictitious pressures beyond the fitted range
    for mname in ("Langmuir",) + (("Toth", "Quadratic") if thorough else ()):
        b = reg2("ch4", "c2h6", mname)
        add("iast_point", f"{mname} models:beyond the fitted range (warning)", b, lambda o: pgi.iast_point(pair(o), [60.0, 40.0]), **V)
        add("iast_point_fraction", f"{mname} models:beyond the fitted range (warning)", b, lambda o: pgi.iast_point_fraction(pair(o), [0.5, 0.5], 100.0), **V)
        add("reverse_iast", f"{mname} models:beyond the fitted range (warning)", b, lambda o: pgi.reverse_iast(pair(o), [0.5, 0.5], 100.0), **V)
        add("iast_binary_svp", f"{mname} models:beyond the fitted range (warning)", b, lambda o: pgi.iast_binary_svp(pair(o), [0.5, 0.5], [10.0, 100.0]), **V)
        add("iast_binary_vle", f"{mname} models:beyond the fitted range (warning)", b, lambda o: pgi.iast_binary_vle(pair(o), 100.0, npoints=4), **V)
        add("iast_point_fraction", f"{mname} models:beyond the range, warningoff", b, lambda o: pgi.iast_point_fraction(pair(o), [0.5, 0.5], 100.0, warningoff=True), **V)
    add("iast_point_fraction", "points:beyond the measured range", two(), lambda o: pgi.iast_point_fraction(pair(o), [0.5, 0.5], 100.0), **V)
    add("iast_point_fraction", "points:with a guess", two(), lambda o: pgi.iast_point_fraction(pair(o), [0.5, 0.5], 1.0, adsorbed_mole_fraction_guess=[0.3, 0.7]), **V)
    add("reverse_iast", "points:with a guess", two(), lambda o: pgi.reverse_iast(pair(o), [0.3, 0.7], 1.0, gas_mole_fraction_guess=[0.8, 0.2]), **V)

    # ---- plot options
    add("plot_iso", "syn:log axes, ranges, points, legend keys, no colour", one("syn"),
        lambda o: plot_iso(o["isotherm"], logx=True, logy1=True, x_range=(0.05, 1.0), y1_range=(0.5, None), y2_data="enthalpy", logy2=True, y2_range=(1.0, 20.0),
                           branch="all", color=False, marker=False, lgd_keys=["material", "temperature", "branch"], lgd_pos="bottom",
                           y1_line_style={"linewidth": 2}, x_points=[0.1, 0.3]), **V)
    add("plot_iso", "syn:loading on x, save to file", one("syn"),
        lambda o: plot_iso(o["isotherm"], x_data="loading", y1_data="enthalpy", branch="des", color="r", marker=3, lgd_pos=None,
                           save_path=os.path.join(fx.scratch, "plot.png")), **V)

    # ---- error paths: the same bad input twice (same refusal, nothing moved, nothing half-cached), the good input afterwards
    bad = fx.bad_kernel
    E = [
        ("psd_dft", "tak:malformed user kernel ('#VALUE!' cell)", one("tak", 14), lambda o: pgc.psd_dft(o["isotherm"], kernel=bad())),
        ("psd_dft", "tak:kernel file missing", one("tak", 14), lambda o: pgc.psd_dft(o["isotherm"], kernel=os.path.join(fx.scratch, "nope.csv"))),
        ("psd_dft", "tak:kernel=None", one("tak", 14), lambda o: pgc.psd_dft(o["isotherm"], kernel=None)),
        ("psd_dft", "tak:limits leave no points", one("tak", 14), lambda o: pgc.psd_dft(o["isotherm"], kernel=fx.kernels()[0], p_limits=(0.9, 0.95))),
        ("psd_dft", "tak:no desorption branch", one("tak", 14), lambda o: pgc.psd_dft(o["isotherm"], kernel=fx.kernels()[0], branch="des")),
        ("t_plot", "mcm:unknown thickness model", one("mcm"), lambda o: pgc.t_plot(o["isotherm"], thickness_model="no such")),
        ("t_plot", "mcm:thickness callable that raises", one("mcm"), lambda o: pgc.t_plot(o["isotherm"], thickness_model=lambda p: 1 / 0)),
        ("t_plot", "mcm:empty limits", one("mcm"), lambda o: pgc.t_plot(o["isotherm"], t_limits=(5.0, 6.0))),
        ("psd_mesoporous", "mcm:unknown psd model", one("mcm"), lambda o: pgc.psd_mesoporous(o["isotherm"], psd_model="no such")),
        ("psd_mesoporous", "mcm:unknown thickness model", one("mcm"), lambda o: pgc.psd_mesoporous(o["isotherm"], thickness_model="no such")),
        ("psd_mesoporous", "mcm:unknown kelvin model", one("mcm"), lambda o: pgc.psd_mesoporous(o["isotherm"], kelvin_model="no such")),
        ("psd_mesoporous", "mcm:bad geometry / branch", one("mcm"), lambda o: pgc.psd_mesoporous(o["isotherm"], pore_geometry="cube", branch="both")),
        ("psd_mesoporous", "mcm:limits leave no points", one("mcm"), lambda o: pgc.psd_mesoporous(o["isotherm"], p_limits=(0.99, 0.995))),
        ("psd_microporous", "tak:unknown material model", one("tak", 18), lambda o: pgc.psd_microporous(o["isotherm"], material_model="no such")),
        ("psd_microporous", "tak:incomplete adsorbate model", one("tak", 18), lambda o: pgc.psd_microporous(o["isotherm"], adsorbate_model={"molecular_diameter": 0.3})),
        ("psd_microporous", "tak:unknown model / geometry", one("tak", 18), lambda o: pgc.psd_microporous(o["isotherm"], psd_model="XX", pore_geometry="cube")),
        ("psd_microporous", "ch4:adsorbate without HK properties", one("ch4"), lambda o: pgc.psd_microporous(o["isotherm"])),
        ("area_BET", "mcm:limits leave two points", one("mcm"), lambda o: pgc.area_BET(o["isotherm"], p_limits=(0.1, 0.11))),
        ("area_BET", "tak:no desorption branch", one("tak", 18), lambda o: pgc.area_BET(o["isotherm"], branch="des")),
        ("area_langmuir", "mcm:limits leave no points", one("mcm"), lambda o: pgc.area_langmuir(o["isotherm"], p_limits=(2.0, 3.0))),
        ("alpha_s", "mcm vs ch4: other adsorbate", lambda: {"isotherm": fx.load("mcm"), "reference": fx.load("ch4")}, lambda o: pgc.alpha_s(o["isotherm"], o["reference"])),
        ("alpha_s", "mcm:bad reducing pressure / reference area", lambda: {"isotherm": fx.load("mcm"), "reference": fx.load("mcm")},
         lambda o: [outcome_of(lambda: pgc.alpha_s(o["isotherm"], o["reference"], reducing_pressure=1.3))["text"],
                    outcome_of(lambda: pgc.alpha_s(o["isotherm"], o["reference"], reference_area="some"))["text"]]),
        ("dr_plot", "tak:limits leave no points", one("tak", 30), lambda o: pgc.dr_plot(o["isotherm"], p_limits=(0.9, 0.95))),
        ("da_plot", "tak:bad exponent", one("tak", 30), lambda o: pgc.da_plot(o["isotherm"], exp=-1.0)),
        ("initial_henry_slope", "syn:impossible limits", one("syn"), lambda o: pgc.initial_henry_slope(o["isotherm"], p_limits=(5.0, 6.0))),
        ("initial_henry_virial", "syn:Virial fit refused", one("syn"), lambda o: pgc.initial_henry_virial(o["isotherm"])),
        ("isosteric_enthalpy", "one isotherm only", one("b298"), lambda o: pgc.isosteric_enthalpy([o["isotherm"]])),
        ("isosteric_enthalpy", "same temperature twice", lambda: {"isotherm0": fx.load("b298"), "isotherm1": fx.load("b298")},
         lambda o: pgc.isosteric_enthalpy([o["isotherm0"], o["isotherm1"]])),
        ("initial_enthalpy_comp", "mcm:no such column", one("mcm"), lambda o: pgc.initial_enthalpy_comp(o["isotherm"], "enthalpy")),
        ("enthalpy_sorption_whittaker", "ch4:Henry refused", one("ch4"), lambda o: pgc.enthalpy_sorption_whittaker(o["isotherm"], model="Henry")),
        ("enthalpy_sorption_whittaker", "ch4:unknown model", one("ch4"), lambda o: pgc.enthalpy_sorption_whittaker(o["isotherm"], model="no such")),
        ("model_iso", "ch4:unknown model", one("ch4"), lambda o: pgm.model_iso(o["isotherm"], model="no such")),
        ("model_iso", "ch4:no model", one("ch4"), lambda o: pgm.model_iso(o["isotherm"])),
        ("model_iso", "ch4:unknown parameter in guess", one("ch4"), lambda o: pgm.model_iso(o["isotherm"], model="Langmuir", param_guess={"zz": 1.0})),
        ("model_iso", "ch4:unknown parameter in bounds", one("ch4"), lambda o: pgm.model_iso(o["isotherm"], model="Langmuir", param_bounds={"zz": (0, 1)})),
        ("model_iso", "ch4:list with an unknown model", one("ch4"), lambda o: pgm.model_iso(o["isotherm"], model=["Henry", "no such"])),
        ("model_iso", "ch4:no desorption branch", one("ch4"), lambda o: pgm.model_iso(o["isotherm"], model="Langmuir", branch="des")),
        ("model_iso", "ch4:bad optimisation options", one("ch4"), lambda o: pgm.model_iso(o["isotherm"], model="Langmuir", optimization_params={"method": "no such"})),
        ("iast_point", "one component", one("ch4"), lambda o: pgi.iast_point([o["isotherm"]], [0.5])),
        ("iast_point_fraction", "lengths differ", two(), lambda o: pgi.iast_point_fraction(pair(o), [0.1], 1.0)),
        ("reverse_iast", "fractions do not add up", two(), lambda o: pgi.reverse_iast(pair(o), [0.1, 0.4], 1.0)),
        ("iast_binary_svp", "three components", lambda: {"isotherm0": fx.load("ch4"), "isotherm1": fx.load("c2h6"), "isotherm2": fx.load("ch4")},
         lambda o: pgi.iast_binary_svp([o["isotherm0"], o["isotherm1"], o["isotherm2"]], [0.3, 0.3, 0.4], [1.0])),
        ("iast_binary_vle", "negative pressure", two(), lambda o: pgi.iast_binary_vle(pair(o), -1.0, npoints=3)),
        ("iast_point", "no desorption branch", two(), lambda o: pgi.iast_point(pair(o), [0.4, 0.6], branch="des")),
        ("PointIsotherm.pressure", "syn:unknown unit / mode / branch", one("syn"),
         lambda o: [outcome_of(lambda: o["isotherm"].pressure(pressure_unit="furlong"))["text"], outcome_of(lambda: o["isotherm"].pressure(pressure_mode="odd"))["text"],
                    outcome_of(lambda: o["isotherm"].pressure(branch="sideways"))["text"]]),
        ("PointIsotherm.loading", "syn:unknown unit / basis", one("syn"),
         lambda o: [outcome_of(lambda: o["isotherm"].loading(loading_unit="furlong"))["text"], outcome_of(lambda: o["isotherm"].loading(loading_basis="odd"))["text"],
                    outcome_of(lambda: o["isotherm"].loading(material_basis="odd", material_unit="g"))["text"]]),
        ("PointIsotherm.loading_at", "syn:out of range / unknown kind / unknown unit", one("syn"),
         lambda o: [outcome_of(lambda: o["isotherm"].loading_at(50.0))["text"], outcome_of(lambda: o["isotherm"].loading_at(0.3, interpolation_type="odd"))["text"],
                    outcome_of(lambda: o["isotherm"].loading_at(0.3, pressure_unit="furlong"))["text"], outcome_of(lambda: o["isotherm"].loading_at(0.3))["text"]]),
        ("PointIsotherm.pressure_at", "syn:out of range / unknown unit", one("syn"),
         lambda o: [outcome_of(lambda: o["isotherm"].pressure_at(50.0))["text"], outcome_of(lambda: o["isotherm"].pressure_at(3.0, loading_unit="furlong"))["text"],
                    outcome_of(lambda: o["isotherm"].pressure_at(3.0))["text"]]),
        ("PointIsotherm.spreading_pressure_at", "syn:above the range / unknown unit", one("syn"),
         lambda o: [outcome_of(lambda: o["isotherm"].spreading_pressure_at(50.0))["text"], outcome_of(lambda: o["isotherm"].spreading_pressure_at(0.3, pressure_unit="furlong"))["text"],
                    outcome_of(lambda: o["isotherm"].spreading_pressure_at(0.3))["text"]]),
        ("PointIsotherm.other_data", "syn:no such column", one("syn"), lambda o: o["isotherm"].other_data("nope")),
        ("ModelIsotherm.loading_at", "Langmuir(syn):unknown unit, then good", lambda: {"isotherm": fx.model("syn", "Langmuir")},
         lambda o: [outcome_of(lambda: o["isotherm"].loading_at(0.3, pressure_unit="furlong"))["text"], o["isotherm"].loading_at(0.3)]),
        ("isotherm_to_db", "syn:database file missing", one("syn"), lambda o: pgp.isotherm_to_db(o["isotherm"], db_path=os.path.join(fx.scratch, "nodir", "no.db"), verbose=False)),
        ("isotherm_to_db", "syn:same isotherm twice into one file", one("syn"),
         lambda o: (lambda p: [outcome_of(lambda: pgp.isotherm_to_db(o["isotherm"], db_path=p, verbose=False))["text"],
                               outcome_of(lambda: pgp.isotherm_to_db(o["isotherm"], db_path=p, verbose=False))["text"], dump_db(p)])(fx.db())),
        ("isotherm_to_xl", "syn:directory missing", one("syn"), lambda o: o["isotherm"].to_xl(os.path.join(fx.scratch, "nodir", "x.xls"))),
        ("isotherm_to_json", "syn:directory missing", one("syn"), lambda o: o["isotherm"].to_json(os.path.join(fx.scratch, "nodir", "x.json"))),
        ("plot_iso", "syn:unknown data key / unit", one("syn"),
         lambda o: [outcome_of(lambda: plot_iso(o["isotherm"], y2_data="nope"))["text"], outcome_of(lambda: plot_iso(o["isotherm"], pressure_unit="furlong"))["text"],
                    outcome_of(lambda: plot_iso(o["isotherm"], branch="sideways"))["text"]]),
    ]
    for site, variant, b, call in E:
        add(site, "error path: " + variant, b, call, cache=False)
    # ... and the good input after the bad one: the failed load must not have left anything behind
    add("psd_dft", "tak:user kernel A after a malformed kernel", one("tak", 14), lambda o: pgc.psd_dft(o["isotherm"], kernel=fx.kernels()[0]),
        cross=lambda o: _quiet(lambda: pk._load_kernel(bad())))
    add("t_plot", "mcm:SiO2 standard after an unknown model", one("mcm"), lambda o: pgc.t_plot(o["isotherm"], thickness_model=SIO2),
        cross=lambda o: _quiet(lambda: pgc.t_plot(o["isotherm"], thickness_model="no such")))

    # ---- materials WITHOUT density / molar mass (a registered one, new per case, and an unregistered one): requests that need them are
    #      refused, and the refusal must leave the material (no properties), the registry and the isotherm as they were
    bare_n = [0]

    def bare(registered, model=None):
        def b():
            from .iso_common import make_point
            bare_n[0] += 1
            name = f"purity_bare_{bare_n[0]}"
            if registered:
                pygaps.Material(name, store=True)
            s0 = {"pm": "absolute", "pu": "bar", "lb": "molar", "lu": "mmol", "mb": "mass", "mu": "g", "tu": "K"}
            iso = make_point(s0, "nitrogen", name, 77.344, [0.05, 0.1, 0.2, 0.4, 0.7, 0.9], [1.0, 1.8, 3.0, 4.4, 5.3, 5.7], meta={"operator": "verif"})
            if model:
                iso = pygaps.ModelIsotherm.from_pointisotherm(iso, model=model)
            return {"isotherm": iso}
        return b
    VOL = dict(material_basis="volume", material_unit="cm3")
    MOL = dict(material_basis="molar", material_unit="mmol")
    bare_calls = [
        ("Material.density", "getters", lambda i: [i.material.density, i.material.molar_mass]),
        ("Material.get_prop", "density / molar_mass / unknown", lambda i: [outcome_of(lambda: i.material.get_prop("density"))["text"], outcome_of(lambda: i.material.get_prop("molar_mass"))["text"],
                                                                            outcome_of(lambda: i.material.get_prop("nope"))["text"]]),
        ("Material.to_dict", "no properties", lambda i: i.material.to_dict()),
        ("loading", "per volume of material", lambda i: i.loading(**VOL) if hasattr(i, "data_raw") else i.loading(points=4, **VOL)),
        ("loading", "per mole of material", lambda i: i.loading(**MOL) if hasattr(i, "data_raw") else i.loading(points=4, **MOL)),
        ("loading", "fraction / percent", lambda i: [i.loading(loading_basis="fraction") if hasattr(i, "data_raw") else i.loading(points=4, loading_basis="fraction")]),
        ("loading_at", "per volume of material", lambda i: i.loading_at(0.3, **VOL)),
        ("pressure_at", "loading given per mole of material", lambda i: i.pressure_at(2.0, **MOL)),
        ("plot_iso", "per volume of material", lambda i: plot_iso(i, **VOL)),
        ("isotherm_to_json", "material without properties", lambda i: i.to_json()),
    ]
    for tag, b in (("registered bare material", bare(True)), ("unregistered bare material", bare(False)), ("Langmuir model, registered bare material", bare(True, "Langmuir"))):
        for site, variant, f in bare_calls:
            cls = "" if site.startswith(("Material", "plot_iso", "isotherm_to")) else ("ModelIsotherm." if "model" in tag else "PointIsotherm.")
            add(cls + site, f"{tag}: {variant}", b, lambda o, f=f: f(o["isotherm"]), cache=False)
    add("Material.density", "bare Material object", lambda: {"material": pygaps.Material("purity_bare_object")},
        lambda o: [o["material"].density, o["material"].molar_mass, outcome_of(lambda: o["material"].get_prop("density"))["text"]], cache=False)

    # ---- kernels that share a file name but not a path: the loaded-kernel cache must tell them apart, in either order
    sk = fx.same_name_kernels
    add("psd_dft", "tak:user kernel dirA/kernel.csv, after dirB/kernel.csv was loaded", one("tak", 14), lambda o: pgc.psd_dft(o["isotherm"], kernel=sk()["a"]),
        cross=lambda o: pk._load_kernel(sk()["b"]))
    add("psd_dft", "tak:user kernel dirB/kernel.csv, after dirA/kernel.csv was loaded", one("tak", 14), lambda o: pgc.psd_dft(o["isotherm"], kernel=sk()["b"]),
        cross=lambda o: pk._load_kernel(sk()["a"]))
    add("psd_dft", "tak:user's cut-down copy named like the shipped kernel, after the shipped one was loaded", one("tak", 14),
        lambda o: pgc.psd_dft(o["isotherm"], kernel=sk()["shipped-name"]), cross=lambda o: pk._load_kernel(pk.KERNELS["DFT-N2-77K-carbon-slit"]))
    if thorough:
        add("psd_dft", "tak:shipped kernel, after the user's copy of the same name was loaded", one("tak", 14),
            lambda o: pgc.psd_dft(o["isotherm"], kernel="DFT-N2-77K-carbon-slit"), cross=lambda o: pk._load_kernel(sk()["shipped-name"]))

    # ---- consumers of to_dict(): cloning idioms are read-only uses of the original.  Each call returns the clone AND what the original
    #      answers afterwards, so that 'fresh' compares subsequent results with those of a fresh equal object
    def model_summary(m):
        return {"name": m.name, "params": dict(m.params), "rmse": m.rmse, "prange": list(m.pressure_range), "lrange": list(m.loading_range)}

    def after(i):
        return [i.to_dict(), i.to_json(), i.loading_at(0.3)]

    def clone_model_iso(i):
        return pygaps.ModelIsotherm(model=pgm.model_from_dict(i.model.to_dict()), **i.to_dict())

    def clone_point(i):
        return pygaps.PointIsotherm(isotherm_data=i.data_raw, pressure_key=i.pressure_key, loading_key=i.loading_key, **i.to_dict())

    def converted(c):
        """permanent conversions of the CLONE (aliasing through the constructor would move the original)"""
        if hasattr(c, "data_raw"):
            c.convert_pressure(mode_to="absolute", unit_to="kPa")
            c.convert_loading(basis_to="molar", unit_to="mol")
            c.convert_material(basis_to="mass", unit_to="kg")
            c.data_raw[c.loading_key] = c.data_raw[c.loading_key] * 2.0
            c.properties["operator"] = "somebody else"
            c.properties["added"] = 1
        else:
            c.model.params[next(iter(c.model.params))] = 123.0
            c.properties["added"] = 1
        c.convert_temperature("°C" if c.temperature_unit == "K" else "K")
        return c                # (the Material object is shared through the registry by design: not touched)

    def deep(i):
        try:
            c = copy.deepcopy(i)
        except Exception:        # a CoolProp state object cannot be copied: not pyGAPS's contract, only the original is watched
            return None
        converted(c)
        return None
    m_fix = [("Langmuir(ch4)", lambda: {"isotherm": fx.model("ch4", "Langmuir")}), ("Toth(syn)", lambda: {"isotherm": fx.model("syn", "Toth")}),
             ("Langmuir(rep degC)", lambda: {"isotherm": fx.model("rep:degC", "Langmuir")})]
    if thorough:
        m_fix += [("DSLangmuir(syn)", lambda: {"isotherm": fx.model("syn", "DSLangmuir")}), ("BET(sio)", lambda: {"isotherm": fx.model("sio", "BET")})]
    for tag, b in m_fix:
        add("model_from_dict(model.to_dict())", tag, b, lambda o: [model_summary(pgm.model_from_dict(o["isotherm"].model.to_dict())), after(o["isotherm"])], cache=False)
        add("ModelIsotherm(model_from_dict, **to_dict())", tag, b, lambda o: [clone_model_iso(o["isotherm"]), after(o["isotherm"])], cache=False)
        add("ModelIsotherm(model_from_dict, **to_dict())", tag + ", clone then modified", b, lambda o: [converted(clone_model_iso(o["isotherm"])), after(o["isotherm"])], cache=False)
        add("PointIsotherm.from_modelisotherm", tag + ", clone then converted", b, lambda o: [converted(pygaps.PointIsotherm.from_modelisotherm(o["isotherm"])), after(o["isotherm"])], cache=False)
        add("ModelIsotherm.from_isotherm", tag + " as template", b,
            lambda o: [pygaps.ModelIsotherm.from_isotherm(o["isotherm"], pressure=[0.1, 0.2, 0.4, 0.8], loading=[1.0, 1.7, 2.6, 3.4], model="Langmuir"), after(o["isotherm"])], cache=False)
        add("PointIsotherm.from_isotherm", tag + " as template", b,
            lambda o: [converted(pygaps.PointIsotherm.from_isotherm(o["isotherm"], pressure=[0.1, 0.2, 0.4, 0.8], loading=[1.0, 1.7, 2.6, 3.4])), after(o["isotherm"])], cache=False)
        add("copy.deepcopy", tag + ", copy then modified", b, lambda o: [deep(o["isotherm"]), after(o["isotherm"])], cache=False)
        add("isotherm_to_json/csv/xl/db (model)", tag + ", all exports in a row", b,
            lambda o: [o["isotherm"].to_json(), o["isotherm"].to_csv(), o["isotherm"].to_aif(), to_file("to_xl", "xls", read_xls)(o), o["isotherm"].model.to_dict(), after(o["isotherm"])], cache=False)
    p_fix = [("syn", one("syn")), ("rep relative,mass/volume,degC", lambda: {"isotherm": fx.rep("relative,mass/volume,degC")}), ("mcm", one("mcm"))]
    if thorough:
        p_fix += [("rep " + r, (lambda r=r: {"isotherm": fx.rep(r)})) for r in reps if r != "relative,mass/volume,degC"] + [("hkust", one("hkust"))]
    for tag, b in p_fix:
        add("PointIsotherm(data_raw, **to_dict())", tag, b, lambda o: [clone_point(o["isotherm"]), after(o["isotherm"])], cache=False)
        add("PointIsotherm(data_raw, **to_dict())", tag + ", clone then converted", b, lambda o: [converted(clone_point(o["isotherm"])), after(o["isotherm"])], cache=False)
        add("PointIsotherm.from_isotherm", tag + " as template, clone then converted", b,
            lambda o: [converted(pygaps.PointIsotherm.from_isotherm(o["isotherm"], isotherm_data=o["isotherm"].data_raw, pressure_key=o["isotherm"].pressure_key,
                                                                     loading_key=o["isotherm"].loading_key)), after(o["isotherm"])], cache=False)
        add("ModelIsotherm.from_isotherm", tag + " as template", b,
            lambda o: [pygaps.ModelIsotherm.from_isotherm(o["isotherm"], isotherm_data=o["isotherm"].data_raw, pressure_key=o["isotherm"].pressure_key,
                                                           loading_key=o["isotherm"].loading_key, model="Langmuir"), after(o["isotherm"])], cache=False)
        add("copy.deepcopy", tag + ", copy then converted", b, lambda o: [deep(o["isotherm"]), after(o["isotherm"])], cache=False)

    # ---- adsorbate / material objects passed directly
    add("Adsorbate.to_dict", "nitrogen", lambda: {"adsorbate": pygaps.Adsorbate.find("nitrogen")}, lambda o: o["adsorbate"].to_dict(), cache=False)
    add("Adsorbate.print_info", "carbon dioxide", lambda: {"adsorbate": pygaps.Adsorbate.find("carbon dioxide")}, lambda o: o["adsorbate"].print_info(), cache=False)
    add("Material.to_dict", MATERIAL, lambda: {"material": pygaps.Material.find(MATERIAL)}, lambda o: [o["material"].to_dict(), o["material"].density, o["material"].get_prop("molar_mass")], cache=False)
    return cs


# thermodynamic property methods: (name, call(adsorbate, T))
def thermo_methods():
    return [
        ("saturation_pressure", lambda a, t: a.saturation_pressure(t)),
        ("saturation_pressure[bar]", lambda a, t: a.saturation_pressure(t, unit="bar")),
        ("surface_tension", lambda a, t: a.surface_tension(t)),
        ("liquid_density", lambda a, t: a.liquid_density(t)),
        ("liquid_molar_density", lambda a, t: a.liquid_molar_density(t)),
        ("gas_density", lambda a, t: a.gas_density(t)),
        ("gas_molar_density", lambda a, t: a.gas_molar_density(t)),
        ("enthalpy_liquefaction(T)", lambda a, t: a.enthalpy_liquefaction(temp=t)),
        ("enthalpy_vaporisation(p)", lambda a, t: a.enthalpy_vaporisation(press=a.p_triple() * (1.0 + t / 10.0))),
        ("molar_mass", lambda a, t: a.molar_mass()),
        ("p_triple/t_triple/p_critical/t_critical", lambda a, t: [a.p_triple(), a.t_triple(), a.p_critical(), a.t_critical()]),
    ]


def thermo_cases(tier, seed):
    """every ordered pair (previous property call at one temperature, property call at another) on a shared Adsorbate,
    compared with the same call on a fresh Adsorbate object"""
    import pygaps
    thorough = tier == "thorough"
    names = ["nitrogen", "carbon dioxide", "methane", "n-butane", "argon", "water"]
    names = names if thorough else [names[seed % len(names)], names[(seed + 3) % len(names)]]
    ms = thermo_methods()
    cs = []
    for n in names:
        ads = pygaps.Adsorbate.find(n)
        t3 = ads.t_triple()
        tc = ads.t_critical()
        temps = [t3 + f * (tc - t3) for f in ((0.15, 0.5, 0.85) if thorough else (0.2, 0.7))] + [tc * 1.2]    # the last one is supercritical: refused by most
        for (n1, f1) in ms:
            for t1 in temps:
                for (n2, f2) in ms:
                    for t2 in temps:
                        if not thorough and (hash_small(n1, t1, n2, t2) + seed) % 4:
                            continue
                        cs.append(Case(f"Adsorbate.{n2.split('(')[0].split('[')[0].split('/')[0]}", f"{n}: {n2}@{t2:.1f} after {n1}@{t1:.1f}",
                                       (lambda ads=ads: {"adsorbate": ads}),
                                       (lambda o, f2=f2, t2=t2: f2(o["adsorbate"], t2)), cache=False,
                                       pre=(lambda o, f1=f1, t1=t1: _quiet(lambda: f1(o["adsorbate"], t1)))))
    return cs


def hash_small(*a):
    return int(hashlib.sha1(repr(a).encode()).hexdigest()[:6], 16)


def _quiet(f):
    try:
        f()
    except Exception:
        pass


# --------------------------------------------------------------------------- recorder
COPY_SITE = "copy through to_dict() and the constructor"


def record(case):
    """-> list of (event, info).  The recorder's own copying (to_dict(), data_raw.copy(), constructors) is a read-only use of the
    arguments as well: it is bracketed by snapshots and logged as an event of its own when anything moved."""
    objs = case.build()
    if case.pre:
        case.pre(objs)

    def snap():
        s = {r: obs_any(x) for r, x in objs.items()}
        s["globals"] = obs_globals()
        return s
    recs = []
    s0 = snap()
    p0 = {r: peek(x) for r, x in objs.items()}
    failure = None
    try:
        fresh_objs = {r: fresh(x) for r, x in objs.items()}
        cache_objs = [{r: fresh(x) for r, x in objs.items()} for _ in range(2)] if case.cache else []
    except Exception as e:
        failure = e
    s1 = snap()
    if s1 != s0 or failure is not None:
        triv = {"kind": "value", "shape": "-"}
        recs.append(({"site": COPY_SITE, "variant": f"before {case.site} [{case.variant}]", "cache": False, "before": s0, "after1": s1, "after2": s1,
                      "out": {"first": triv, "second": triv, "fresh": triv}, "dist": {"second": dec_enc(0.0), "fresh": dec_enc(0.0)}},
                     {"peek": {"before": p0, "after1": {r: peek(x) for r, x in objs.items()}}, "copy_failed": repr(failure)[:300] if failure else None}))
    if failure is not None:
        if s1 != s0:
            raise Damaged(recs, failure)
        raise failure
    ev = {"site": case.site, "variant": case.variant, "cache": bool(case.cache)}
    peeks = {"before": {r: peek(x) for r, x in objs.items()}}
    ev["before"] = s1
    out = {"first": outcome_of(lambda: case.call(objs))}
    ev["after1"] = snap()
    peeks["after1"] = {r: peek(x) for r, x in objs.items()}
    out["second"] = outcome_of(lambda: case.call(objs))
    ev["after2"] = snap()
    out["fresh"] = outcome_of(lambda: case.call(fresh_objs))
    if case.cache:
        clear_hidden()
        out["cold"] = outcome_of(lambda: case.call(cache_objs[0]))
        clear_hidden()
        perturb_backend(cache_objs[1])
        if case.cross:
            case.cross(cache_objs[1])
        out["cross"] = outcome_of(lambda: case.call(cache_objs[1]))
    ev["out"] = {k: {"kind": v["kind"], "shape": v["shape"]} for k, v in out.items()}
    ev["dist"] = {k: dec_enc(min(distance(out["first"], v), HUGE)) for k, v in out.items() if k != "first"}
    info = {"outcomes": {k: v["text"] for k, v in out.items()}, "distances": {k: distance(out["first"], v) for k, v in out.items() if k != "first"}, "peek": peeks}
    recs.append((ev, info))
    return recs


class Damaged(Exception):
    """the recorder's own copying failed AND the arguments moved under it: the events so far carry the evidence"""

    def __init__(self, recs, cause):
        super().__init__(str(cause))
        self.recs, self.cause = recs, cause


def canaries():
    """hand-made events with one corrupted field each, and what spec/PureTrace must answer: shows on every run that the
    oracle is alive (a changed label, a different second outcome, a numeric drift beyond / within the tolerance, a dropped record)"""
    o = {"kind": "PointIsotherm", "iso_id": "id0", "labels": "pressure_unit=bar", "data": "d0", "meta": "m0", "temperature": "77.0", "adsorbate": "a0", "material": "x0"}
    g = {"kind": "globals", "adsorbates": "r0", "materials": "r1", "defaults": "r2"}
    val = {"kind": "value", "shape": "s0"}
    base = {"site": "canary", "variant": "-", "cache": True,
            "before": {"isotherm": dict(o), "globals": dict(g)}, "after1": {"isotherm": dict(o), "globals": dict(g)}, "after2": {"isotherm": dict(o), "globals": dict(g)},
            "out": {k: dict(val) for k in ("first", "second", "fresh", "cold", "cross")},
            "dist": {k: dec_enc(0.0) for k in ("second", "fresh", "cold", "cross")}}
    out = [(copy.deepcopy(base), set())]
    c = copy.deepcopy(base)
    c["after1"]["isotherm"]["labels"] = c["after2"]["isotherm"]["labels"] = "pressure_unit=Pa"
    c["after1"]["isotherm"]["iso_id"] = c["after2"]["isotherm"]["iso_id"] = "id1"
    out.append((c, {("unchanged", "labels", "first"), ("unchanged", "iso_id", "first")}))
    c = copy.deepcopy(base)
    c["after2"]["globals"]["defaults"] = "r9"
    out.append((c, {("unchanged", "defaults", "second")}))
    c = copy.deepcopy(base)
    c["out"]["second"] = {"kind": "error", "shape": "CalculationError"}
    out.append((c, {("repeat", "outcome", "second")}))
    c = copy.deepcopy(base)
    c["out"]["first"] = {"kind": "error", "shape": "ValueError"}
    c["out"]["second"] = {"kind": "error", "shape": "ValueError"}
    c["out"]["cold"] = {"kind": "error", "shape": "ValueError"}
    c["out"]["cross"] = {"kind": "error", "shape": "CalculationError"}
    out.append((c, {("fresh", "outcome", "fresh"), ("cache", "outcome", "cross")}))
    c = copy.deepcopy(base)
    c["dist"]["fresh"] = dec_enc(1e-9)
    c["dist"]["cold"] = dec_enc(5e-13)          # inside the tolerance of spec/Pure.tla (1e-12)
    c["dist"]["cross"] = dec_enc(3e-12)
    out.append((c, {("fresh", "outcome", "fresh"), ("cache", "outcome", "cross")}))
    c = copy.deepcopy(base)
    del c["out"]["cross"]
    out.append((c, "malformed"))
    c = copy.deepcopy(base)
    del c["after2"]["isotherm"]["data"]
    out.append((c, "malformed"))
    return out


def check_canaries(answers, expected):
    for i, (a, (ev, exp)) in enumerate(zip(answers, expected)):
        got = "malformed" if not a["wellformed"] else {(f["clause"], f["what"], f["call"]) for f in a["fails"]}
        if got != exp or (exp != "malformed" and a["ok"] != (not exp)):
            raise MachineryError(f"spec/PureTrace answered {got} on canary event {i}, expected {exp}")


# --------------------------------------------------------------------------- sibling inputs, judged against a fresh process
def sibling(iso, scale=0.93):
    """an isotherm of the same shape, with the same first and last pressure in every branch, but other interior pressures and other
    loadings (memoised intermediate tables keyed by shape / end points would be reused wrongly between the two)"""
    import pygaps
    d = iso.data_raw.copy()
    p = d[iso.pressure_key].to_numpy(dtype=float).copy()
    l = d[iso.loading_key].to_numpy(dtype=float).copy()
    br = d["branch"].to_numpy()
    p2, l2 = p.copy(), l * scale
    for i in range(1, len(p) - 1):
        if br[i - 1] == br[i] == br[i + 1] and p[i] > 0 and p[i + 1] > 0:
            p2[i] = p[i] ** 0.6 * p[i + 1] ** 0.4
            l2[i] = scale * (0.6 * l[i] + 0.4 * l[i + 1])
    d[iso.pressure_key] = p2
    d[iso.loading_key] = l2
    return pygaps.PointIsotherm(isotherm_data=d, pressure_key=iso.pressure_key, loading_key=iso.loading_key, **iso.to_dict())


def pair_scenarios(fx, tier):
    """(site, variant, build() -> (objects A, objects B), call(objects)); B = siblings of A"""
    import pygaps
    import pygaps.characterisation as pgc
    import pygaps.iast as pgi
    import pygaps.modelling as pgm
    SIO2 = "SiO2 Jaroniec/Kruk/Olivier"
    out = []
    for key in list(N2_FILES) + list(OTHER_FILES):      # the same registry content in the long-lived and in the fresh process
        fx.registered(key)

    def single(maker):
        def b():
            a = maker()
            return {"isotherm": a}, {"isotherm": sibling(a)}
        return b

    def add(site, variant, build, call):
        out.append((site, variant, build, call))
    tak = single(lambda: fx.small("tak", 14))
    add("psd_dft", "tak:user kernel A", tak, lambda o: pgc.psd_dft(o["isotherm"], kernel=fx.kernels()[0]))
    add("psd_dft", "tak:user kernel B,bspline=0,limits", tak, lambda o: pgc.psd_dft(o["isotherm"], kernel=fx.kernels()[1], bspline_order=0, p_limits=(1e-6, 0.5)))
    if tier == "thorough":
        add("psd_dft", "tak:built-in kernel", tak, lambda o: pgc.psd_dft(o["isotherm"], kernel="DFT-N2-77K-carbon-slit"))
    for m in ("pygaps-DH", "BJH", "DH"):
        add("psd_mesoporous", f"mcm:{m}", single(lambda: fx.load("mcm")), lambda o, m=m: pgc.psd_mesoporous(o["isotherm"], psd_model=m))
    add("psd_mesoporous", "mcm:ads,SiO2 standard,KJS", single(lambda: fx.load("mcm")),
        lambda o: pgc.psd_mesoporous(o["isotherm"], branch="ads", thickness_model=SIO2, kelvin_model="Kelvin-KJS"))
    for m, g in (("HK", "slit"), ("RY", "slit"), ("HK-CY", "sphere"), ("HK", "cylinder")):
        add("psd_microporous", f"tak:{m},{g}", single(lambda: fx.small("tak", 18)), lambda o, m=m, g=g: pgc.psd_microporous(o["isotherm"], psd_model=m, pore_geometry=g))
    add("t_plot", "mcm:Harkins/Jura", single(lambda: fx.load("mcm")), lambda o: pgc.t_plot(o["isotherm"]))
    add("t_plot", "mcm:SiO2 standard isotherm", single(lambda: fx.load("mcm")), lambda o: pgc.t_plot(o["isotherm"], thickness_model=SIO2))

    def alpha():
        a, r = fx.load("mcm"), fx.load("sio")
        return ({"isotherm": a, "reference": pygaps.ModelIsotherm.from_pointisotherm(r, model="BET")},
                {"isotherm": sibling(a), "reference": pygaps.ModelIsotherm.from_pointisotherm(sibling(r), model="BET")})
    add("alpha_s", "mcm vs model BET(sio)", alpha, lambda o: pgc.alpha_s(o["isotherm"], o["reference"]))

    def alpha_self():
        a = fx.load("mcm")
        return {"isotherm": a, "reference": fx.load("mcm")}, {"isotherm": a, "reference": sibling(a)}
    add("alpha_s", "mcm vs tabulated reference (itself / sibling)", alpha_self, lambda o: pgc.alpha_s(o["isotherm"], o["reference"], t_limits=(0.7, 1.0)))

    def iso3():
        a = {f"isotherm{i}": fx.load(k) for i, k in enumerate(("b298", "b323", "b348"))}
        return a, {r: sibling(x, 0.9) for r, x in a.items()}
    add("isosteric_enthalpy", "BAX 298/323/348", iso3, lambda o: pgc.isosteric_enthalpy([o["isotherm0"], o["isotherm1"], o["isotherm2"]]))
    add("isosteric_enthalpy", "BAX,loading points", iso3, lambda o: pgc.isosteric_enthalpy([o["isotherm0"], o["isotherm1"], o["isotherm2"]], loading_points=[1.0, 2.0, 3.0]))
    add("area_BET", "mcm", single(lambda: fx.load("mcm")), lambda o: pgc.area_BET(o["isotherm"]))
    add("area_langmuir", "mcm", single(lambda: fx.load("mcm")), lambda o: pgc.area_langmuir(o["isotherm"]))
    add("dr_plot", "tak", single(lambda: fx.small("tak", 30)), lambda o: pgc.dr_plot(o["isotherm"]))
    add("da_plot", "tak:exp=None", single(lambda: fx.small("tak", 30)), lambda o: pgc.da_plot(o["isotherm"]))
    add("initial_henry_slope", "syn", single(fx.syn), lambda o: pgc.initial_henry_slope(o["isotherm"], max_adjrms=0.1))
    add("initial_henry_virial", "mcm", single(lambda: fx.load("mcm")), lambda o: pgc.initial_henry_virial(o["isotherm"]))
    add("initial_enthalpy_point", "syn", single(fx.syn), lambda o: pgc.initial_enthalpy_point(o["isotherm"], "enthalpy"))
    add("enthalpy_sorption_whittaker", "ch4:Toth", single(lambda: fx.load("ch4")), lambda o: pgc.enthalpy_sorption_whittaker(o["isotherm"], model="Toth"))
    add("model_iso", "ch4:Langmuir", single(lambda: fx.load("ch4")), lambda o: pgm.model_iso(o["isotherm"], model="Langmuir"))
    add("model_iso", "ch4:[Henry,Toth,Quadratic]", single(lambda: fx.load("ch4")), lambda o: pgm.model_iso(o["isotherm"], model=["Henry", "Toth", "Quadratic"]))
    add("PointIsotherm.loading_at", "syn:des,cubic / pressure_at / spreading_pressure_at", single(fx.syn),
        lambda o: [o["isotherm"].loading_at([0.2, 0.33, 0.61], branch="des", interpolation_type="cubic"), o["isotherm"].pressure_at([1.5, 3.3]),
                   o["isotherm"].spreading_pressure_at(0.61)])

    def two():
        a = {"isotherm0": fx.load("ch4"), "isotherm1": fx.load("c2h6")}
        return a, {r: sibling(x, 0.9) for r, x in a.items()}

    def two_models():
        a, b = two()
        f = lambda d: {r: pygaps.ModelIsotherm.from_pointisotherm(x, model="Langmuir") for r, x in d.items()}
        return f(a), f(b)
    add("iast_point_fraction", "points", two, lambda o: pgi.iast_point_fraction([o["isotherm0"], o["isotherm1"]], [0.5, 0.5], 1.0))
    add("reverse_iast", "points", two, lambda o: pgi.reverse_iast([o["isotherm0"], o["isotherm1"]], [0.3, 0.7], 1.0))
    add("iast_binary_vle", "Langmuir models", two_models, lambda o: pgi.iast_binary_vle([o["isotherm0"], o["isotherm1"]], 1.0, npoints=5))
    add("iast_binary_svp", "points", two, lambda o: pgi.iast_binary_svp([o["isotherm0"], o["isotherm1"]], [0.5, 0.5], [0.5, 1.0, 2.0]))
    return out


def _strip(o):
    return {"kind": o["kind"], "shape": o["shape"], "text": o["text"], "leaves": [numpy.asarray(x) for x in o["leaves"]]}


def child_main(out_path, scratch, tier):
    """runs in a FRESH process: every sibling scenario in the order B, A (the parent runs A, B); outcomes go back by pickle"""
    from .common import quiet_pygaps
    quiet_pygaps()
    own_material()
    os.makedirs(scratch, exist_ok=True)
    fx = Fixtures(scratch)
    res = {}
    for i, (site, variant, build, call) in enumerate(pair_scenarios(fx, tier)):
        a, b = build()
        res[(i, "B")] = _strip(outcome_of(lambda: call(b)))
        res[(i, "A")] = _strip(outcome_of(lambda: call(a)))
    with open(out_path, "wb") as f:
        pickle.dump(res, f)


def start_child(scratch, tier):
    out = os.path.join(scratch, "child.pickle")
    code = ("import sys; sys.path.insert(0, %r); import harness.common; from harness import purity; purity.child_main(%r, %r, %r)"
            % (VERIF, out, os.path.join(scratch, "child"), tier))
    return subprocess.Popen([sys.executable, "-c", code], stdout=subprocess.PIPE, stderr=subprocess.STDOUT, text=True), out


def record_pairs(fx, tier, child, child_out):
    """parent side: A, B, A, B in this (long-lived) process; 'fresh' = the same call made in the fresh process, where the sibling came first"""
    recs = []
    mine = []
    for i, (site, variant, build, call) in enumerate(pair_scenarios(fx, tier)):
        a, b = build()

        def snap(objs):
            s = {r: obs_any(x) for r, x in objs.items()}
            s["globals"] = obs_globals()
            return s
        before = {"A": snap(a), "B": snap(b)}
        first = {"A": outcome_of(lambda: call(a))}
        first["B"] = outcome_of(lambda: call(b))
        after1 = {"A": snap(a), "B": snap(b)}
        second = {"A": outcome_of(lambda: call(a))}
        second["B"] = outcome_of(lambda: call(b))
        after2 = {"A": snap(a), "B": snap(b)}
        mine.append((i, site, variant, before, after1, after2, first, second))
    try:
        log, _ = child.communicate(timeout=600)
    except subprocess.TimeoutExpired:
        child.kill()
        raise MachineryError("purity: the fresh reference process timed out")
    if child.returncode != 0 or not os.path.exists(child_out):
        raise MachineryError("purity: the fresh reference process failed:\n" + "\n".join((log or "").splitlines()[-15:]))
    with open(child_out, "rb") as f:
        ref = pickle.load(f)
    for i, site, variant, before, after1, after2, first, second in mine:
        for w, order in (("A", "run before its sibling here, after it in the fresh process"), ("B", "run after its sibling here, first in the fresh process")):
            out = {"first": first[w], "second": second[w], "fresh": ref[(i, w)]}
            ev = {"site": site, "variant": f"sibling inputs: {variant} [{w}: {order}]", "cache": False, "before": before[w], "after1": after1[w], "after2": after2[w],
                  "out": {k: {"kind": v["kind"], "shape": v["shape"]} for k, v in out.items()},
                  "dist": {k: dec_enc(min(distance(out["first"], v), HUGE)) for k, v in out.items() if k != "first"}}
            info = {"outcomes": {k: v["text"] for k, v in out.items()}, "distances": {k: distance(out["first"], v) for k, v in out.items() if k != "first"},
                    "peek": {}, "fresh_means": "the same call in a fresh Python process in which the sibling input (same length and end points, other interior) was analysed first"}
            recs.append((ev, info))
    return recs


def check_model(run, tier, seed):
    """TLC: spec/Pure.tla exhaustively (must hold), and with each named hazard switched on (must be refuted)."""
    res = tlc.must_pass("PureMC", env={"PURE_DEFECT": "none"}, timeout=600, workers=4)
    defects = DEFECTS if tier == "thorough" else (DEFECTS[seed % len(DEFECTS)], DEFECTS[(seed + 2) % len(DEFECTS)])

    def bad(d):
        return d, tlc.check("PureMC", env={"PURE_DEFECT": d}, timeout=300, workers=1)
    with ThreadPoolExecutor(max_workers=len(defects)) as ex:
        for d, r in ex.map(bad, defects):
            if r["ok"] or not any("violated" in e for e in r["errors"]):
                raise MachineryError(f"spec/Pure.tla with hazard '{d}' switched on was not refuted by TLC (vacuous model?): {r['errors'][:2]}")
    return res, defects


def run_breadth(run, tier, seed):
    import pygaps  # noqa: F401  (harness.common has put the tree under test on sys.path)
    own_material()
    t0 = time.time()
    pool = ThreadPoolExecutor(max_workers=1)
    model_job = pool.submit(check_model, run, tier, seed)          # TLC on the model runs beside the recording
    scratch = tlc.scratch("purity-")
    events, infos, cs = [], [], []
    broken = None
    child = None
    try:
        child, child_out = start_child(scratch, tier)            # the fresh reference process works beside the recording, too
        fx = Fixtures(scratch)
        fx.prepare_db()
        todo = cases(fx, tier, seed) + thermo_cases(tier, seed)
        for case in todo:
            try:
                recs = record(case)
            except Damaged as d:
                for ev, info in d.recs:
                    events.append(ev)
                    infos.append(info)
                    cs.append(Case(ev["site"], ev["variant"], None, None, cache=False))
                broken = f"purity recorder could not copy the arguments of {case.site} [{case.variant}] after they were changed by the copying itself: {exc_class(d.cause)}: {str(d.cause)[:300]}"
                break
            except Exception as e:
                # a step outside the call under test failed (fixture, fresh copy, snapshot).  On the unchanged tree this is a machinery
                # failure; after an earlier call damaged shared objects it is a consequence of that damage: judge what was recorded first.
                broken = f"purity recorder failed outside the call under test at {case.site} [{case.variant}]: {exc_class(e)}: {str(e)[:300]}"
                break
            for ev, info in recs:
                events.append(ev)
                infos.append(info)
                cs.append(case if ev["site"] == case.site else Case(ev["site"], ev["variant"], None, None, cache=False))
        if not broken:
            for ev, info in record_pairs(fx, tier, child, child_out):
                events.append(ev)
                infos.append(info)
                cs.append(Case(ev["site"], ev["variant"], None, None, cache=False))
    finally:
        if child is not None and child.poll() is None:
            child.kill()
        clear_hidden()
        shutil.rmtree(scratch, ignore_errors=True)
    t_rec = time.time() - t0
    try:
        res, defects = model_job.result()
    finally:
        pool.shutdown(wait=True)
    run.set(pure_model_states=res["distinct"], pure_model_transitions=res["states_generated"], pure_model_hazards_refuted=list(defects))
    # the exhaustive numbers of both models (cache histories: spec/IsoCache, hidden-state model: spec/Pure) add up
    run.set(states=run.cov.get("states", 0) + res["distinct"], transitions=run.cov.get("transitions", 0) + res["states_generated"])
    inv = list(run.cov.get("tlc_invariants", [])) + ["Pure!Functional", "Pure!HiddenInvisible", "Pure!NeverStale", "Pure!ObservablyPure"]
    run.set(tlc_invariants=inv)

    can = canaries()
    answers = tlc.oracle("PureTrace", [c for c, _ in can] + events, cfg="PureTrace", timeout=600)
    check_canaries(answers[:len(can)], can)
    answers = answers[len(can):]
    run.set(breadth_oracle_canaries=len(can))
    sites = set()
    n_err = 0
    reported0 = len(run.violations) + sum(h["count"] for h in run.known_hits.values())
    for case, ev, info, ans in zip(cs, events, infos, answers):
        if not ans["wellformed"]:
            raise MachineryError(f"purity log: malformed event at {case.site} [{case.variant}]")
        run.count(("breadth", case.site, case.variant))
        sites.add(case.site)
        if ev["out"]["first"]["kind"] == "error":
            n_err += 1
        # harness self-check: TLC and the recorder must agree on whether anything moved
        moved = any(ev["before"][r] != ev["after1"][r] or ev["after1"][r] != ev["after2"][r] for r in ev["before"])
        if moved != any(f["clause"] == "unchanged" for f in ans["fails"]):
            raise MachineryError(f"purity log: TLC verdict and recorded snapshots disagree at {case.site} [{case.variant}]")
        for f in ans["fails"]:
            sig = {"site": case.site, "clause": f["clause"], "what": f["what"]}
            if f["clause"] == "unchanged":
                sig["role"] = "globals" if f["role"] == "globals" else ("argument" if not case.site.startswith("Adsorbate.") else "adsorbate")
            else:
                sig["first_outcome"] = ev["out"]["first"]["kind"] if ev["out"]["first"]["kind"] == "value" else "error:" + ev["out"]["first"]["shape"]
                o = ev["out"][f["call"]]
                sig["other_outcome"] = o["kind"] if o["kind"] == "value" else "error:" + o["shape"]
                if f["clause"] == "cache":
                    sig["hidden_state"] = f["call"]
            detail = {"variant": case.variant, "failing": f, "event": {k: ev[k] for k in ("before", "after1", "after2", "out")}, **info}
            run.violation(sig, detail)
    if broken:
        if len(run.violations) + sum(h["count"] for h in run.known_hits.values()) == reported0:
            raise MachineryError(broken)
        run.note(broken + " (recording stopped there; violations recorded before it are reported)")
    run.add("traces_validated_against_impl", len(events))
    run.set(breadth_entry_points=len(sites), breadth_events=len(events), breadth_events_raising=n_err, breadth_record_s=round(t_rec, 1))
    if events:
        k = next(i for i, c in enumerate(cs) if not c.site.startswith("Adsorbate."))
        run.sample({"purity_event": {"site": events[k]["site"], "variant": events[k]["variant"], "before": events[k]["before"], "out": events[k]["out"], "dist": events[k]["dist"]},
                    "tlc_verdict": answers[k]})
    run.assume("breadth: outcomes are compared as (kind of error | discrete structure exactly, numeric payload to 1e-12 relative in max-norm per array)")
    run.assume("breadth: a fresh equal object is rebuilt through the constructor from to_dict() and a copy of the data, with new Adsorbate and Material objects of equal content")
