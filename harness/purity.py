"""Breadth part of C04 (to be extended): run read-only entry points twice, compare snapshots and outcomes."""


def run_breadth(run, tier, seed):
    run.set(breadth_entry_points=0)
