"""Binding of spec/Store.tla (and StoreTx.tla) to the real SQLite store of pyGAPS.

* Universe: the concrete objects behind the abstract keys / content tokens of the spec
* Session: scratch database files created with db_create, fresh-session registries
* project(): abstraction function  database file -> Store!file record, read through an
  independent sqlite3 connection (never through pyGAPS)
* execute(): runs one abstract operation on the real public API and abstracts the outcome
* SqliteProxy: stand-in for the name `sqlite3` inside pygaps.parsing.sqlite that logs / faults /
  crashes every execute, commit, rollback, close (no change to the repository)
"""
import hashlib
import json
import os
import shutil
import sqlite3 as real_sqlite3

from .common import MachineryError, exc_class

ABSENT = "-"
AUTO = "auto"
HERE = "v"

UNITS = dict(pressure_mode='absolute', pressure_unit='bar', material_basis='mass', material_unit='g',
             loading_basis='molar', loading_unit='mmol', temperature_unit='K')

# ---------------------------------------------------------------------------------------------
# universe: abstract key -> concrete name, content token -> concrete content

# Names are chosen so that the exact string is the key and nothing else is:
#  * M1 / M2, A3 / A4, pa / pb, pm / pn, tp / tq, pi / pj differ ONLY in letter case (distinct keys of the dictionary)
#  * A3 / A4 are therefore aliases of each other in the session registry (Adsorbate aliases are lower-cased names),
#    A5 = 'N2' is a shipped alias of the standard adsorbate 'nitrogen', which every created file contains
#  * no fixture isotherm refers to A3 / A4 / A5 (how an isotherm's adsorbate NAME is resolved through aliases when the
#    object is built is not a matter of the store)
NAMES = {
    "ads": {"A1": "vgas alpha", "A2": "vgas_beta", "A3": "vgas gamma", "A4": "VGAS GAMMA", "A5": "N2"},
    "mats": {"M1": "vmat one", "M2": "VMAT ONE"},
    "apt": {"pa": "vprop_ads", "pb": "VPROP_ADS"},
    "mpt": {"pm": "vprop_mat", "pn": "VPROP_MAT"},
    "ity": {"tp": "pointisotherm", "tm": "modelisotherm", "ti": "isotherm", "tq": "PointIsotherm"},
    "ipt": {"pi": "vprop_iso", "pj": "VPROP_ISO"},
}
ADS_VER = {
    "a0": {},
    "a1": {"molar_mass": 44.25, "vprop_ads": 1.5, "formula": "YZ3"},
}
ADS_USES = {"a0": [], "a1": ["pa"]}
MAT_VER = {
    "m0": {},
    "m1": {"vprop_mat": 2.5},
}
MAT_USES = {"m0": [], "m1": ["pm"]}
TY_VER = {   # (unit, description); isotherm_type has no unit column
    "t1": ("u-one", "first description"),
    "t2": ("u-two", "second description"),
    AUTO: (None, None),
}
# isotherm universe: key -> (kind, material key, material content, adsorbate key, adsorbate content, type key, class)
ISOS = {
    "I1": ("point", "M1", "m1", "A1", "a0", "tp", "plain"),
    "I2": ("point", "M2", "m0", "A1", "a0", "tp", "coerce"),
    "I3": ("model", "M1", "m1", "A2", "a0", "tm", "plain"),
    "I4": ("base", "M2", "m0", "A2", "a0", "ti", "plain"),
    "I5": ("point", "M2", "m0", "A1", "a0", "tp", "none"),
    "I6": ("point", "M2", "m0", "A1", "a0", "tp", "list"),
    "I7": ("point", "M1", "m1", "A2", "a0", "tp", "none"),   # relative pressure: pressure_unit None
    # stored in NON-DEFAULT representations (every label and raw number must come back as stored)
    "I10": ("point", "M1", "m1", "A1", "a0", "tp", "plain"),   # 30 degC, torr, cm3 gas per cm3 of material
    "I11": ("point", "M2", "m0", "A2", "a0", "tp", "none"),    # percent loading: loading_unit None -> not storable
    "I12": ("model", "M2", "m0", "A1", "a0", "tm", "plain"),   # 0 degC, kPa, mg per mmol of material
}
# units / temperature of the fixtures that do not use the defaults; I2 is recorded at 0 degC (a falsy number)
ISO_UNITS = {
    "I2": dict(temperature_unit="°C"),
    "I7": dict(pressure_mode="relative", pressure_unit=None),
    "I10": dict(temperature_unit="°C", pressure_unit="torr", loading_basis="volume_gas", loading_unit="cm3",
                material_basis="volume", material_unit="cm3"),
    "I11": dict(loading_basis="percent", loading_unit=None),
    "I12": dict(temperature_unit="°C", pressure_unit="kPa", loading_basis="mass", loading_unit="mg",
                material_basis="molar", material_unit="mmol"),
}
ISO_TEMP = {"I2": 0.0, "I10": 30.0, "I12": 0.0}


def iso_temperature(key):
    """The number in the temperature column (in the isotherm's own temperature unit)."""
    if key in ISO_TEMP:
        return ISO_TEMP[key]
    return 77.0 + len(key) + int(key[1:]) * 1.5


ISO_META = {
    # floats equal to 1 / 0 / -1 are ordinary floats (not bools); ints 1 / 0 belong to the REAL-affinity class
    "I1": {"vkey": "I1", "note": "abc def", "x_float": 1.25, "flag": True, "user": "Zoë", "sample_mass": 1.0,
           "blank_correction": 0.0, "offset": -1.0, "checked": False},
    "I2": {"vkey": "I2", "n_int": 5, "code": "12", "one_int": 1, "zero_int": 0},
    "I3": {"vkey": "I3", "comment": "model"},
    "I4": {"vkey": "I4", "x_float": -0.5},
    "I5": {"vkey": "I5", "missing": None},
    "I6": {"vkey": "I6", "tags": ["a", "b"]},
    "I7": {"vkey": "I7"},
    "I10": {"vkey": "I10", "x_float": 2.5},
    "I11": {"vkey": "I11"},
    "I12": {"vkey": "I12", "note": "zero celsius"},
}
MC_ISOS = ["I1", "I2", "I3"]
EXTRA_COLUMNS = {}     # isotherm key -> names of additional float data columns
LARGE_POINTS = {}      # isotherm key -> number of points (objects are built once per Session and reused)


ALL_TRAITS = ["registry_autoinsert", "iso_type_leak", "real_affinity", "type_overwrite_noop", "no_ipt_table"]


def universe_json(isos=None, traits=None):
    isos = list(isos or ISOS)
    return {
        "traits": list(ALL_TRAITS if traits is None else traits),
        "files": ["d1", "d2"],
        "ads": list(NAMES["ads"]), "mats": list(NAMES["mats"]), "apt": list(NAMES["apt"]),
        "mpt": list(NAMES["mpt"]), "ity": list(NAMES["ity"]), "ipt": list(NAMES["ipt"]), "isos": isos,
        "adsver": list(ADS_VER), "matver": list(MAT_VER), "tyver": list(TY_VER),
        "adsuses": ADS_USES, "matuses": MAT_USES,
        "isomat": {i: ISOS[i][1] for i in isos}, "isomatver": {i: ISOS[i][2] for i in isos},
        "isoads": {i: ISOS[i][3] for i in isos}, "isoadsver": {i: ISOS[i][4] for i in isos},
        "isoty": {i: ISOS[i][5] for i in isos}, "isoclass": {i: ISOS[i][6] for i in isos},
        "isotemp": {i: temp_token(iso_temperature(i)) for i in isos},
    }


def temp_token(x):
    return "T%g" % float(x)


def make_adsorbate(key, ver):
    import pygaps
    return pygaps.Adsorbate(NAMES["ads"][key], **dict(ADS_VER[ver]))


def make_material(key, ver):
    import pygaps
    return pygaps.Material(NAMES["mats"][key], **dict(MAT_VER[ver]))


def make_type(kind, key, ver):
    unit, desc = TY_VER[ver]
    d = {"type": NAMES[kind][key]}
    if kind != "ity":
        d["unit"] = unit
    d["description"] = desc
    return d


def make_isotherm(key):
    """Float data, default index (ids are dtype/index sensitive: property C05, not ours)."""
    import pandas
    import pygaps
    from pygaps.core.baseisotherm import BaseIsotherm
    from pygaps.modelling import model_from_dict
    kind, mk, mv, ak, av, _ty, _cls = ISOS[key]
    units = dict(UNITS)
    units.update(ISO_UNITS.get(key, {}))
    # the adsorbate can only be given by name (an Adsorbate object makes BaseIsotherm.__init__ raise):
    # in a fresh session the name resolves to a property-less Adsorbate, content "a0"
    common = dict(material=make_material(mk, mv), adsorbate=NAMES["ads"][ak],
                  temperature=iso_temperature(key), **units, **ISO_META[key])
    if kind == "point" and key in LARGE_POINTS:
        import numpy
        p = numpy.linspace(0.001, 0.987654321, LARGE_POINTS[key])
        ld = numpy.sqrt(p) * 3.123456789
        df = pandas.DataFrame({"pressure": p, "loading": ld})
        for j, c in enumerate(EXTRA_COLUMNS.get(key, [])):
            df[c] = ld * (1.000001 + j)
        return pygaps.PointIsotherm(isotherm_data=df, pressure_key="pressure", loading_key="loading", **common)
    if kind == "point":
        n = int(key[1:])
        df = pandas.DataFrame({
            "pressure": [0.1, 0.2 + 0.01 * n, 0.35, 0.25],
            "loading": [1.0, 2.0, 3.0 + 0.125 * n, 2.5],
            "enthalpy": [5.5, 4.5, 3.5, 3.75],
        })
        for j, c in enumerate(EXTRA_COLUMNS.get(key, [])):
            df[c] = [0.5 + j, 1.5 + j, 2.5 + j, 2.25 + j]
        return pygaps.PointIsotherm(isotherm_data=df, pressure_key="pressure", loading_key="loading", **common)
    if kind == "model":
        md = {"name": "Langmuir", "parameters": {"K": 2.5, "n_m": 3.25}, "pressure_range": [0.1, 1.0],
              "loading_range": [0.5, 2.5], "rmse": 0.0125}
        return pygaps.ModelIsotherm(model=model_from_dict(md), **common)
    return BaseIsotherm(**common)


def _norm(v):
    """REAL affinity of the value columns: ints and numeric-looking text are stored as floats."""
    if isinstance(v, bool):
        return "TRUE" if v else "FALSE"
    if isinstance(v, (int, float)):
        return float(v)
    if isinstance(v, str):
        try:
            return float(v)
        except ValueError:
            return v
    return v


def expected_iso_rows(iso):
    """What an intact stored copy of `iso` consists of, derived from its public accessors."""
    import pygaps
    d = iso.to_dict()
    mat = d.pop("material")
    row = (type_name(iso), mat["name"] if isinstance(mat, dict) else mat, d.pop("adsorbate"), float(d.pop("temperature")))
    props = sorted(((k, _norm(v)) for k, v in d.items()), key=repr)
    data = []
    if isinstance(iso, pygaps.PointIsotherm):
        data.append(("pressure", "float", json.dumps(iso.pressure().tolist())))
        data.append(("loading", "float", json.dumps(iso.loading().tolist())))
        for k in iso.other_keys:
            data.append((k, "float", json.dumps(iso.other_data(k).tolist())))
    elif isinstance(iso, pygaps.ModelIsotherm):
        data.append(("model", "dict", json.dumps(iso.model.to_dict())))
    return row, props, sorted(data)


def type_name(iso):
    import pygaps
    if isinstance(iso, pygaps.PointIsotherm):
        return "pointisotherm"
    if isinstance(iso, pygaps.ModelIsotherm):
        return "modelisotherm"
    return "isotherm"


# ---------------------------------------------------------------------------------------------
# session


def db_scratch(base, name):
    """Directory for the database files: memory-backed when possible (a commit fsyncs; on disk that is
    ~10 ms per call and dominates a replay of 40 000 calls)."""
    shm = "/dev/shm"
    if os.environ.get("VERIF_DB_ON_DISK") != "1" and os.path.isdir(shm) and os.access(shm, os.W_OK):
        import tempfile
        return tempfile.mkdtemp(prefix="verif-" + name + "-", dir=shm)
    return os.path.join(base, name)


class Session:
    """Scratch directory with a db_create template; fresh files + fresh registries per history."""

    def __init__(self, scratch, deep=False):
        import pygaps
        self.deep = deep
        self._heavy = {}
        import pygaps.parsing.sqlite as ps
        from pygaps.utilities.sqlite_db_creator import db_create
        self.pygaps = pygaps
        self.ps = ps
        self.dir = scratch
        shutil.rmtree(scratch, ignore_errors=True)
        os.makedirs(scratch)
        self._mat0 = list(pygaps.MATERIAL_LIST)
        self._ads0 = list(pygaps.ADSORBATE_LIST)
        self.template = os.path.join(scratch, "template.db")
        db_create(self.template)              # the real creator, real sqlite3 module
        self.reset_registries()
        self.iso_ids = {}
        self.iso_expected = {}
        for k in ISOS:
            try:
                iso = self.build(k)
                self.iso_ids[k] = iso.iso_id
                self.iso_expected[k] = expected_iso_rows(iso)
            except Exception as e:  # pragma: no cover
                raise MachineryError(f"cannot build fixture isotherm {k}: {e!r}") from e
        if len(set(self.iso_ids.values())) != len(self.iso_ids):
            raise MachineryError("fixture isotherms do not have distinct ids")
        self.paths = {}
        self.n = 0
        self.isos = {}
        self.universe_isos = list(ISOS)

    def reset_registries(self):
        self.pygaps.MATERIAL_LIST[:] = self._mat0
        self.pygaps.ADSORBATE_LIST[:] = self._ads0

    def fresh(self, files=("d1", "d2")):
        """New history: freshly created files (copies of the db_create template), new session state."""
        self.n += 1
        for p in self.paths.values():
            _rm(p)
        self.paths = {}
        for d in files:
            p = os.path.join(self.dir, f"h{self.n}_{d}.db")
            shutil.copyfile(self.template, p)
            self.paths[d] = p
        self.reset_registries()
        self.isos = {k: self.build(k) for k in ISOS}
        self._cache = {}

    def build(self, k):
        """Fixture isotherm k; the large ones are built once and reused (uploads do not modify them)."""
        if k not in LARGE_POINTS:
            return make_isotherm(k)
        if k not in self._heavy:
            self._heavy[k] = make_isotherm(k)
        return self._heavy[k]

    def new_session(self):
        """The process ends, a new one starts: registries as after import, isotherm objects rebuilt by the user."""
        self.reset_registries()
        self.isos = {k: self.build(k) for k in ISOS}

    def registry(self):
        ml, al = self.pygaps.MATERIAL_LIST, self.pygaps.ADSORBATE_LIST
        return {
            "mats": {k: sum(1 for m in ml if m.name == n) for k, n in NAMES["mats"].items()},
            "ads": {k: sum(1 for a in al if a.name == n) for k, n in NAMES["ads"].items()},
        }

    # -- projection with a byte-level shortcut: identical bytes => identical projection
    def project(self, d):
        p = self.paths[d]
        h = _file_digest(p)
        c = self._cache.get(d)
        if c and c[0] == h:
            return c[1]
        f = project(p, self, deep=self.deep)
        self._cache[d] = (_file_digest(p), f)    # reading may have recovered a hot journal
        return f

    def project_all(self):
        return {d: self.project(d) for d in self.paths}

    def close(self):
        self.reset_registries()
        shutil.rmtree(self.dir, ignore_errors=True)


def probe_traits(sess):
    """Which of the known deviations does the tree under test show?  Only selects what the DESCRIPTIVE
    model (Store!Impl) assumes, so that it keeps describing the code after a repair; no verdict depends on it."""
    traits = []
    sess.fresh()
    execute(sess, op("iso_to", "d1", "I1", am=True, aa=True))
    r = execute(sess, op("iso_from", "d1"))
    if r["ret"] and "extra=iso_type" in r["ret"].get("I1", ""):
        traits.append("iso_type_leak")
    if execute(sess, op("iso_to", "d2", "I1", am=True, aa=True))["out"] == "refused":
        traits.append("registry_autoinsert")
    execute(sess, op("iso_to", "d1", "I2", am=True, aa=True))
    r = execute(sess, op("iso_from", "d1"))
    if r["ret"] and "changed=coerced" in r["ret"].get("I2", ""):
        traits.append("real_affinity")
    sess.fresh()
    if execute(sess, op("apt_to", "d1", "pa", "t1", ow=True))["out"] == "ok" and sess.project("d1")["apt"]["pa"] == ABSENT:
        traits.append("type_overwrite_noop")
    if execute(sess, op("ipt_from", "d1"))["out"] == "error":
        traits.append("no_ipt_table")
    return traits


def _rm(p):
    for s in ("", "-journal", "-wal", "-shm"):
        try:
            os.unlink(p + s)
        except OSError:
            pass


def _file_digest(p):
    h = hashlib.sha1()
    for s in ("", "-journal"):
        try:
            with open(p + s, "rb") as f:
                h.update(f.read())
        except OSError:
            h.update(b"<none>")
    return h.hexdigest()


# ---------------------------------------------------------------------------------------------
# abstraction function: file -> Store!file record

TABLES = ["adsorbates", "adsorbate_properties_type", "adsorbate_properties", "materials", "material_properties_type",
          "material_properties", "isotherm_type", "isotherms", "isotherm_properties", "isotherm_data"]


def _h(x):
    return hashlib.sha1(repr(x).encode()).hexdigest()[:8]


def project(path, sess, deep=False):
    """deep=True additionally runs PRAGMA integrity_check (C09)."""
    con = real_sqlite3.connect(path)
    try:
        t = {name: con.execute(f'SELECT * FROM "{name}" ORDER BY rowid').fetchall() for name in TABLES}
        try:
            ipt_rows = con.execute('SELECT * FROM "isotherm_properties_type"').fetchall()
        except real_sqlite3.OperationalError:
            ipt_rows = None
        fk = con.execute("PRAGMA foreign_key_check").fetchall()
        ic = con.execute("PRAGMA integrity_check").fetchall() if deep else [("ok",)]
    finally:
        con.close()
    used = {name: set() for name in TABLES}
    f = {}
    detail = {}

    def items(kind, table, ptable, versions):
        out = {}
        for key, name in NAMES[kind].items():
            rows = [r for r in t[table] if r[1] == name]
            if not rows:
                out[key] = ABSENT
                continue
            for r in rows:
                used[table].add(r)
            ids = {r[0] for r in rows}
            props = [r for r in t[ptable] if r[1] in ids]
            for r in props:
                used[ptable].add(r)
            got = sorted(((r[2], _norm(r[3])) for r in props), key=repr)
            tok = None
            if len(rows) == 1:
                for v, content in versions.items():
                    exp = dict(content)
                    if kind == "ads":
                        exp["alias"] = [name.lower()]
                    flat = []
                    for pk, pv in exp.items():
                        for x in (pv if isinstance(pv, (list, tuple)) else [pv]):
                            flat.append((pk, _norm(x)))
                    if sorted(flat, key=repr) == got:
                        tok = v
                        break
            out[key] = tok or ("x:" + _h(got))
            if tok is None:
                detail[f"{kind}.{key}"] = got
        return out

    f["ads"] = items("ads", "adsorbates", "adsorbate_properties", ADS_VER)
    f["mats"] = items("mats", "materials", "material_properties", MAT_VER)

    def types(kind, table, has_unit):
        out = {}
        for key, name in NAMES[kind].items():
            rows = [r for r in t[table] if r[1] == name]
            if not rows:
                out[key] = ABSENT
                continue
            for r in rows:
                used[table].add(r)
            tok = None
            if len(rows) == 1:
                r = rows[0]
                got = (r[2], r[3]) if has_unit else (None, r[2])
                for v, (unit, desc) in TY_VER.items():
                    if got == ((unit, desc) if has_unit else (None, desc)):
                        tok = v
                        break
            out[key] = tok or ("x:" + _h(rows))
        return out

    f["apt"] = types("apt", "adsorbate_properties_type", True)
    f["mpt"] = types("mpt", "material_properties_type", True)
    f["ity"] = types("ity", "isotherm_type", False)
    if ipt_rows is None:      # sqlite_db_pragmas.py does not create the table the isotherm_property_type_* functions use
        f["ipt"] = {k: ABSENT for k in NAMES["ipt"]}
    else:
        t["isotherm_properties_type"] = ipt_rows
        used["isotherm_properties_type"] = set()
        f["ipt"] = types("ipt", "isotherm_properties_type", True)

    isos = {}
    for key, iid in sess.iso_ids.items():
        rows = [r for r in t["isotherms"] if r[0] == iid]
        props = [r for r in t["isotherm_properties"] if r[1] == iid]
        data = [r for r in t["isotherm_data"] if r[1] == iid]
        if not rows and not props and not data:
            isos[key] = ABSENT
            continue
        for r in rows:
            used["isotherms"].add(r)
        for r in props:
            used["isotherm_properties"].add(r)
        for r in data:
            used["isotherm_data"].add(r)
        erow, eprops, edata = sess.iso_expected[key]
        got = (tuple(rows[0][1:]) if len(rows) == 1 else tuple(rows),
               sorted(((r[2], _norm(r[3])) for r in props), key=repr),
               sorted((r[2], r[3], r[4]) for r in data))
        if got == (erow, eprops, edata):
            isos[key] = HERE
        else:
            isos[key] = "x:" + _h(got)
            detail[f"isos.{key}"] = got
    f["isos"] = isos
    # everything that does not belong to a tracked key
    rest = [(name, [r for r in t[name] if r not in used[name]] if used[name] else t[name]) for name in sorted(t)]
    f["rest"] = "r:" + hashlib.sha1(json.dumps(rest, default=repr).encode()).hexdigest()[:8] + (":fk%d" % len(fk) if fk else "") + ("" if ic == [("ok",)] else ":corrupt")
    # row-level facts used by StoreTx (C09): nothing half-present
    ads_ids = {a[0] for a in t["adsorbates"]}
    mat_ids = {a[0] for a in t["materials"]}
    iso_ids = {a[0] for a in t["isotherms"]}
    f["_facts"] = {
        "fk_violations": len(fk),
        "integrity_ok": ic == [("ok",)],
        "orphan_ads_props": sum(1 for r in t["adsorbate_properties"] if r[1] not in ads_ids),
        "orphan_mat_props": sum(1 for r in t["material_properties"] if r[1] not in mat_ids),
        "orphan_iso_props": sum(1 for r in t["isotherm_properties"] if r[1] not in iso_ids),
        "orphan_iso_data": sum(1 for r in t["isotherm_data"] if r[1] not in iso_ids),
        "n_rest": {"ads": len(t["adsorbates"]) - len(used["adsorbates"]), "mats": len(t["materials"]) - len(used["materials"]),
                   "apt": len(t["adsorbate_properties_type"]) - len(used["adsorbate_properties_type"]),
                   "mpt": len(t["material_properties_type"]) - len(used["material_properties_type"]),
                   "ity": len(t["isotherm_type"]) - len(used["isotherm_type"]),
                   "ipt": (len(ipt_rows) - len(used["isotherm_properties_type"])) if ipt_rows is not None else 0,
                   "isos": len(t["isotherms"]) - len(used["isotherms"])},
    }
    f["_detail"] = detail
    return f


def spec_file(f):
    """The part of a projection the TLA+ modules see."""
    out = {k: f[k] for k in ("ads", "mats", "apt", "mpt", "ity", "ipt", "isos", "rest")}
    nr = f["_facts"]["n_rest"]
    for k in ("ads", "mats", "apt", "mpt", "ity", "ipt"):
        out[k] = dict(out[k])
        out[k]["#rest"] = "n%d" % nr[k]
    return out


# ---------------------------------------------------------------------------------------------
# executing abstract operations on the real API

SITE = {
    "ads_to": "adsorbate_to_db", "mat_to": "material_to_db", "apt_to": "adsorbate_property_type_to_db",
    "mpt_to": "material_property_type_to_db", "ity_to": "isotherm_type_to_db", "iso_to": "isotherm_to_db",
    "ipt_to": "isotherm_property_type_to_db", "ipt_del": "isotherm_property_type_delete_db", "ipt_from": "isotherm_property_types_from_db",
    "ads_del": "adsorbate_delete_db", "mat_del": "material_delete_db", "apt_del": "adsorbate_property_type_delete_db",
    "mpt_del": "material_property_type_delete_db", "ity_del": "isotherm_type_delete_db", "iso_del": "isotherm_delete_db",
    "ads_from": "adsorbates_from_db", "mats_from": "materials_from_db", "apt_from": "adsorbate_property_types_from_db",
    "mpt_from": "material_property_types_from_db", "ity_from": "isotherm_types_from_db", "iso_from": "isotherms_from_db", "session": "(new session)",
}


def op(name, d="d1", k="", v="", ow=False, ai=False, am=False, aa=False, by="", cm="*", ca="*", ct="*", cy="*"):
    """cm / ca / ct / cy: criteria of isotherms_from_db on material / adsorbate / temperature / iso_type
    ("*" none, "nomatch" a value no stored isotherm has, otherwise a key / temperature token)."""
    return {"op": name, "d": d, "k": k, "v": v, "ow": ow, "ai": ai, "am": am, "aa": aa, "by": by, "cm": cm, "ca": ca, "ct": ct, "cy": cy}


def iso_diff(sess, key, got):
    """Compare a retrieved isotherm with the stored object `key`; returns (token, full diff class).

    token judges content with the material reduced to its name (the material's own properties are
    a separate item of the dictionary model); the full diff class also names an id difference."""
    import numpy
    ref = sess.isos[key]
    parts = []
    if type(got) is not type(ref):
        parts.append("class=" + type(got).__name__)
    a, b = ref.to_dict(), got.to_dict()
    ma, mb = a.pop("material"), b.pop("material")
    na = ma["name"] if isinstance(ma, dict) else ma
    nb = mb["name"] if isinstance(mb, dict) else mb
    if na != nb:
        parts.append("changed=material")
    extra = sorted(set(b) - set(a))
    missing = sorted(set(a) - set(b))
    if extra:
        parts.append("extra=" + ",".join(extra))
    if missing:
        parts.append("missing=" + ",".join(missing))
    coerced, changed = [], []
    for k in sorted(set(a) & set(b)):
        x, y = a[k], b[k]
        if type(x) is type(y) and x == y:
            continue
        if isinstance(x, bool) or isinstance(y, bool):
            changed.append(k)
        elif isinstance(x, (int, str)) and isinstance(y, float) and _norm(x) == y:
            coerced.append(k)
        else:
            changed.append(k)
    if coerced:
        parts.append("changed=coerced")
    if changed:
        parts.append("changed=" + ",".join(changed))
    try:
        if hasattr(ref, "data_raw"):
            ok = (numpy.allclose(ref.pressure(), got.pressure(), rtol=1e-12, atol=0) and
                  numpy.allclose(ref.loading(), got.loading(), rtol=1e-12, atol=0) and
                  list(ref.other_keys) == list(got.other_keys) and
                  all(numpy.allclose(ref.other_data(k), got.other_data(k), rtol=1e-12, atol=0) for k in ref.other_keys) and
                  list(ref.data_raw["branch"]) == list(got.data_raw["branch"]))
            if not ok:
                parts.append("changed=data")
        elif hasattr(ref, "model"):
            if ref.model.to_dict() != got.model.to_dict():
                parts.append("changed=model")
    except Exception as e:
        parts.append("data_error=" + type(e).__name__)
    token = HERE if not parts else "x:" + ";".join(sorted(parts))
    full = list(parts)
    if not parts and (ma != mb):
        full.append("material_properties")
    try:
        if not full and got.iso_id != ref.iso_id:
            full.append("id_only")
    except Exception as e:
        full.append("id_error=" + type(e).__name__)
    return token, (";".join(sorted(full)) or "equal")


def _item_token(kind, key, obj):
    d = obj.to_dict()
    d.pop("name", None)
    versions = ADS_VER if kind == "ads" else MAT_VER
    for v, content in versions.items():
        exp = dict(content)
        if kind == "ads":
            exp["alias"] = [NAMES["ads"][key].lower()]
        if d == exp:      # python equality: 5 == 5.0 is equal content, '12' == 12.0 is not
            return v
    return "x:" + _h(sorted(d.items(), key=repr))


def execute(sess, o):
    """Run abstract operation o on the real code. Returns dict(out, exc, msg, ret, extra)."""
    ps = sess.ps
    path = sess.paths[o["d"]]
    name = o["op"]
    res = {"out": "ok", "exc": None, "msg": "", "ret": None, "extra": {}}
    try:
        if name == "ads_to":
            ps.adsorbate_to_db(make_adsorbate(o["k"], o["v"]), db_path=path, autoinsert_properties=o["ai"], overwrite=o["ow"], verbose=False)
        elif name == "mat_to":
            ps.material_to_db(make_material(o["k"], o["v"]), db_path=path, autoinsert_properties=o["ai"], overwrite=o["ow"], verbose=False)
        elif name in ("apt_to", "mpt_to", "ity_to", "ipt_to"):
            fn = {"apt_to": ps.adsorbate_property_type_to_db, "mpt_to": ps.material_property_type_to_db, "ity_to": ps.isotherm_type_to_db,
                  "ipt_to": ps.isotherm_property_type_to_db}[name]
            fn(make_type(name[:3], o["k"], o["v"]), db_path=path, overwrite=o["ow"], verbose=False)
        elif name == "iso_to":
            ps.isotherm_to_db(sess.isos[o["k"]], db_path=path, autoinsert_material=o["am"], autoinsert_adsorbate=o["aa"], verbose=False)
        elif name == "ads_del":
            arg = NAMES["ads"][o["k"]] if o["by"] == "name" else make_adsorbate(o["k"], "a0")
            ps.adsorbate_delete_db(arg, db_path=path, verbose=False)
        elif name == "mat_del":
            arg = NAMES["mats"][o["k"]] if o["by"] == "name" else make_material(o["k"], "m0")
            ps.material_delete_db(arg, db_path=path, verbose=False)
        elif name in ("apt_del", "mpt_del", "ity_del", "ipt_del"):
            fn = {"apt_del": ps.adsorbate_property_type_delete_db, "mpt_del": ps.material_property_type_delete_db, "ity_del": ps.isotherm_type_delete_db,
                  "ipt_del": ps.isotherm_property_type_delete_db}[name]
            fn(NAMES[name[:3]][o["k"]], db_path=path, verbose=False)
        elif name == "iso_del":
            arg = sess.isos[o["k"]]
            if o["by"] == "id":
                arg = sess.iso_ids[o["k"]]
            elif o["by"] == "retrieved":
                got = [x for x in ps.isotherms_from_db(db_path=path, verbose=False) if x.properties.get("vkey") == o["k"]]
                if got:
                    arg = got[0]
                    res["extra"]["id_diff"] = iso_diff(sess, o["k"], arg)[1]
                else:
                    res["extra"]["id_diff"] = "not retrieved"
            ps.isotherm_delete_db(arg, db_path=path, verbose=False)
        elif name in ("ads_from", "mats_from"):
            kind = "ads" if name == "ads_from" else "mats"
            objs = (ps.adsorbates_from_db if kind == "ads" else ps.materials_from_db)(db_path=path, verbose=False)
            names = {n: k for k, n in NAMES[kind].items()}
            ret = {k: ABSENT for k in NAMES[kind]}
            nrest = 0
            for x in objs:
                if x.name in names:
                    k = names[x.name]
                    ret[k] = _item_token(kind, k, x) if ret[k] == ABSENT else "x:duplicate"
                else:
                    nrest += 1
            ret["#rest"] = "n%d" % nrest
            res["ret"] = ret
        elif name in ("apt_from", "mpt_from", "ity_from", "ipt_from"):
            kind = name[:3]
            fn = {"apt": ps.adsorbate_property_types_from_db, "mpt": ps.material_property_types_from_db, "ity": ps.isotherm_types_from_db,
                  "ipt": ps.isotherm_property_types_from_db}[kind]
            dicts = fn(db_path=path, verbose=False)
            names = {n: k for k, n in NAMES[kind].items()}
            ret = {k: ABSENT for k in NAMES[kind]}
            nrest = 0
            for x in dicts:
                if x.get("type") in names:
                    k = names[x["type"]]
                    tok = "x:" + _h(sorted(x.items(), key=repr))
                    for v in TY_VER:
                        if x == make_type(kind, k, v):
                            tok = v
                    ret[k] = tok if ret[k] == ABSENT else "x:duplicate"
                else:
                    nrest += 1
            ret["#rest"] = "n%d" % nrest
            res["ret"] = ret
        elif name == "iso_from":
            crit = {}
            if o["cm"] != "*":
                crit["material"] = NAMES["mats"].get(o["cm"], "no such material")
            if o["ca"] != "*":
                crit["adsorbate"] = NAMES["ads"].get(o["ca"], "no such adsorbate")
            if o.get("ct", "*") != "*":
                t = 987.25 if o["ct"] == "nomatch" else float(o["ct"][1:])
                # a whole number is given as int or as float, alternately (0 and 0.0 are both falsy)
                sess.ncrit = getattr(sess, "ncrit", 0) + 1
                crit["temperature"] = int(t) if t == int(t) and sess.ncrit % 2 else t
            if o.get("cy", "*") != "*":
                crit["iso_type"] = NAMES["ity"].get(o["cy"], "no such type")
            sess.nfrom = getattr(sess, "nfrom", 0) + 1
            objs = ps.isotherms_from_db(criteria=crit if (crit or sess.nfrom % 2) else None, db_path=path, verbose=False)
            ret = {k: ABSENT for k in sess.universe_isos}
            diffs = {}
            for x in objs:
                k = x.properties.get("vkey")
                if k in ret:
                    tok, full = iso_diff(sess, k, x)
                    ret[k] = tok if ret[k] == ABSENT else "x:duplicate"
                    diffs[k] = full
                else:
                    ret.setdefault("#unknown", "x:unknown")
            res["ret"] = ret
            res["extra"]["diffs"] = diffs
        elif name == "session":
            sess.new_session()
        else:
            raise MachineryError(f"unknown abstract operation {name}")
    except MachineryError:
        raise
    except Exception as e:
        cls = exc_class(e)
        res["out"] = "refused" if cls == "ParsingError" else "error"
        res["exc"] = cls
        res["msg"] = str(e)[:160].replace("\n", " ")
    return res


# ---------------------------------------------------------------------------------------------
# interposition on the name `sqlite3` inside pygaps.parsing.sqlite (C09)


class Crash(BaseException):
    """Never raised into pyGAPS: the child process os._exit()s instead."""


class Plan:
    """What the proxy does at which event of the current outermost call.

    fault_at: 1-based index among the execute() calls of the connection (PRAGMA is number 1)
    kind: 'IntegrityError' | 'InterfaceError' | 'OperationalError' | 'PythonError' (raised AFTER statement k ran,
          i.e. between statements) | 'exit_before' | 'exit_after' (statement k) | 'exit_before_commit' | 'exit_after_commit'
    """

    def __init__(self, fault_at=None, kind=None):
        self.fault_at = fault_at
        self.kind = kind


class InjectedPythonError(RuntimeError):
    pass


def make_proxy(log, plan_holder, exit_fn=None, probe=None):
    """Returns an object to be installed as pygaps.parsing.sqlite.sqlite3.

    exit_fn(code): how the process dies at a crash point (default os._exit);
    probe(): small JSON value logged with every event (the driver logs the registry sizes)."""
    state = {"conn": 0}
    die = exit_fn or os._exit
    real_append = log.append

    def record(entry):
        if probe is not None:
            entry["reg"] = probe()
        real_append(entry)

    class Cur(real_sqlite3.Cursor):
        def execute(self, sql, *a):
            c = self.connection
            c._k += 1
            k = c._k
            plan = plan_holder[0]
            kind = _sql_kind(sql)
            pname, pval = _pragma(sql) if kind == "pragma" else ("", "")
            hit = plan is not None and plan.fault_at == k
            if hit and plan.kind == "exit_before":
                die(17)
            if hit and plan.kind in ("IntegrityError", "InterfaceError", "OperationalError"):
                record({"e": "exec", "c": c._n, "k": k, "sql": kind, "pname": pname, "pval": pval, "fault": plan.kind})
                raise getattr(real_sqlite3, plan.kind)(f"injected {plan.kind} at statement {k}")
            try:
                r = super().execute(sql, *a)
            except real_sqlite3.Error as e:
                record({"e": "exec", "c": c._n, "k": k, "sql": kind, "pname": pname, "pval": pval, "fault": "real:" + type(e).__name__})
                raise
            record({"e": "exec", "c": c._n, "k": k, "sql": kind, "pname": pname, "pval": pval, "fault": ""})
            if hit and plan.kind == "exit_after":
                die(17)
            if hit and plan.kind == "PythonError":
                record({"e": "pyerr", "c": c._n, "k": k, "sql": "", "fault": "PythonError"})
                raise InjectedPythonError(f"injected python exception after statement {k}")
            return r

        def executemany(self, sql, seq):
            # the same statements, one by one, through the logging / faulting execute
            for params in seq:
                self.execute(sql, params)
            return self

        def executescript(self, script):
            """sqlite3 semantics kept: an implicit COMMIT of whatever is pending, then every statement of the script
            runs in autocommit mode.  Logged as a 'script' event followed by its statements, each of which can be
            failed / be a crash point like any other statement."""
            c = self.connection
            record({"e": "script", "c": c._n, "k": c._k, "sql": "", "fault": ""})
            super().executescript("")            # the implicit COMMIT
            for stmt in _split_script(script):
                c._k += 1
                k = c._k
                plan = plan_holder[0]
                kind = _sql_kind(stmt)
                hit = plan is not None and plan.fault_at == k
                if hit and plan.kind == "exit_before":
                    die(17)
                if hit and plan.kind in ("IntegrityError", "InterfaceError", "OperationalError"):
                    record({"e": "exec", "c": c._n, "k": k, "sql": kind, "pname": "", "pval": "", "fault": plan.kind})
                    raise getattr(real_sqlite3, plan.kind)(f"injected {plan.kind} at statement {k}")
                try:
                    super().executescript(stmt)
                except real_sqlite3.Error as e:
                    record({"e": "exec", "c": c._n, "k": k, "sql": kind, "pname": "", "pval": "", "fault": "real:" + type(e).__name__})
                    raise
                record({"e": "exec", "c": c._n, "k": k, "sql": kind, "pname": "", "pval": "", "fault": ""})
                if hit and plan.kind == "exit_after":
                    die(17)
                if hit and plan.kind == "PythonError":
                    record({"e": "pyerr", "c": c._n, "k": k, "sql": "", "fault": "PythonError"})
                    raise InjectedPythonError(f"injected python exception after statement {k}")
            return self

    class Conn(real_sqlite3.Connection):
        def cursor(self, *a, **kw):
            return super().cursor(Cur)

        def commit(self):
            plan = plan_holder[0]
            if plan is not None and plan.kind == "exit_before_commit":
                die(17)
            record({"e": "commit", "c": self._n, "k": self._k, "sql": "", "fault": ""})
            super().commit()
            if plan is not None and plan.kind == "exit_after_commit":
                die(17)

        def rollback(self):
            record({"e": "rollback", "c": self._n, "k": self._k, "sql": "", "fault": ""})
            super().rollback()

        def close(self):
            record({"e": "close", "c": self._n, "k": self._k, "sql": "", "fault": ""})
            super().close()

    class Proxy:
        """Everything but connect() is the real module."""

        def __getattr__(self, name):
            return getattr(real_sqlite3, name)

        def connect(self, path, *a, **kw):
            state["conn"] += 1
            conn = real_sqlite3.connect(path, *a, factory=Conn, **kw)
            conn._n = state["conn"]
            conn._k = 0
            record({"e": "open", "c": conn._n, "k": 0, "sql": "", "fault": ""})
            return conn

    return Proxy()


def _split_script(script):
    """The statements of an SQL script (sqlite3.complete_statement decides where one ends)."""
    out, cur = [], ""
    for piece in script.split(";"):
        cur += piece + ";"
        if real_sqlite3.complete_statement(cur):
            if cur.strip(" \t\r\n;"):
                out.append(cur.strip())
            cur = ""
    if cur.strip(" \t\r\n;"):
        out.append(cur.strip())
    return out


def _pragma(sql):
    """'PRAGMA journal_mode = MEMORY' -> ('journal_mode', 'memory'); a query pragma has value ''."""
    import re
    m = re.match(r"\s*PRAGMA\s+(?:\w+\.)?(\w+)\s*(?:=\s*|\(\s*)?['\"]?([\w\-]*)", sql, re.I)
    if not m:
        return "", ""
    return m.group(1).lower(), m.group(2).lower()


def _sql_kind(sql):
    s = sql.lstrip().upper()
    if s.startswith("PRAGMA"):
        return "pragma"
    if s.startswith("SELECT"):
        return "read"
    if s.startswith(("INSERT", "UPDATE", "DELETE")):
        return "write"
    return "other"
